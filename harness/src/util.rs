// shared helpers: deterministic PRNG, key conversions, argument parsing
use crate::keys::{KeyCode, Event, Mapping, Repeat, Layout};
use num_traits::FromPrimitive;
use std::collections::HashMap;

pub struct Rng(pub u64);

impl Rng {
  pub fn new(seed: u64) -> Rng { Rng(seed.wrapping_mul(0x9E3779B97F4A7C15).wrapping_add(0x1234567)) }
  pub fn next(&mut self) -> u64 {
    // splitmix64
    self.0 = self.0.wrapping_add(0x9E3779B97F4A7C15);
    let mut z = self.0;
    z = (z ^ (z >> 30)).wrapping_mul(0xBF58476D1CE4E5B9);
    z = (z ^ (z >> 27)).wrapping_mul(0x94D049BB133111EB);
    z ^ (z >> 31)
  }
  pub fn below(&mut self, n: usize) -> usize { if n == 0 { 0 } else { (self.next() % (n as u64)) as usize } }
  pub fn chance(&mut self, num: u64, den: u64) -> bool { self.next() % den < num }
  pub fn pick<'a, T>(&mut self, v: &'a [T]) -> &'a T { &v[self.below(v.len())] }
  pub fn shuffle<T>(&mut self, v: &mut Vec<T>) {
    for i in (1..v.len()).rev() { let j = self.below(i + 1); v.swap(i, j); }
  }
}

pub fn key(code: u16) -> KeyCode {
  FromPrimitive::from_u16(code).unwrap_or_else(|| panic!("harness: unknown key code {}", code))
}

pub fn code(k: &KeyCode) -> u16 { (*k) as i32 as u16 }

pub fn ev_str(e: &Event) -> String {
  match e { Event::Pressed(k) => format!("P{}", code(k)), Event::Released(k) => format!("R{}", code(k)) }
}

pub fn parse_ev(s: &str) -> Event {
  let c: u16 = s[1..].parse().expect("bad event code");
  if s.starts_with('P') { Event::Pressed(key(c)) } else { Event::Released(key(c)) }
}

pub fn evs_str(evs: &[Event]) -> String {
  let v: Vec<String> = evs.iter().map(ev_str).collect();
  v.join(" ")
}

// "M nfrom f.. nto t.. kind [nkeys k.. delay interval] nabs a.."
pub fn mapping_line(m: &Mapping) -> String {
  let mut s = format!("M {}", m.from.len());
  for k in &m.from { s += &format!(" {}", code(k)); }
  s += &format!(" {}", m.to.len());
  for k in &m.to { s += &format!(" {}", code(k)); }
  match &m.repeat {
    Repeat::Normal => s += " 0",
    Repeat::Disabled => s += " 1",
    Repeat::Special { keys, delay_ms, interval_ms } => {
      s += &format!(" 2 {}", keys.len());
      for k in keys { s += &format!(" {}", code(k)); }
      s += &format!(" {} {}", delay_ms, interval_ms);
    }
  }
  s += &format!(" {}", m.absorbing.len());
  for k in &m.absorbing { s += &format!(" {}", code(k)); }
  s
}

pub fn parse_mapping_line(line: &str) -> Mapping {
  let t: Vec<&str> = line.split_whitespace().collect();
  assert!(t[0] == "M");
  let mut i = 1;
  let mut num = |i: &mut usize| -> i64 { let v: i64 = t[*i].parse().expect("bad number in mapping line"); *i += 1; v };
  let nf = num(&mut i) as usize;
  let mut from = vec![]; for _ in 0..nf { from.push(key(num(&mut i) as u16)); }
  let nt = num(&mut i) as usize;
  let mut to = vec![]; for _ in 0..nt { to.push(key(num(&mut i) as u16)); }
  let kind = num(&mut i);
  let repeat = match kind {
    0 => Repeat::Normal,
    1 => Repeat::Disabled,
    _ => {
      let nk = num(&mut i) as usize;
      let mut keys = vec![]; for _ in 0..nk { keys.push(key(num(&mut i) as u16)); }
      let d = num(&mut i) as i32; let iv = num(&mut i) as i32;
      Repeat::Special { keys, delay_ms: d, interval_ms: iv }
    }
  };
  let na = num(&mut i) as usize;
  let mut absorbing = vec![]; for _ in 0..na { absorbing.push(key(num(&mut i) as u16)); }
  Mapping { from, to, repeat, absorbing }
}

pub fn args_map(args: &[String]) -> HashMap<String, String> {
  let mut m = HashMap::new();
  let mut i = 0;
  while i < args.len() {
    if args[i].starts_with("--") {
      if i + 1 < args.len() && !args[i + 1].starts_with("--") {
        m.insert(args[i][2..].to_string(), args[i + 1].clone());
        i += 2;
      } else {
        m.insert(args[i][2..].to_string(), "1".to_string());
        i += 1;
      }
    } else { i += 1; }
  }
  m
}
