// cli: helper of the `cli` engine (tools/engines/cli.py), which runs the REAL
// binary (`totalmapper add_systemd_service …`) in a private mount namespace.
//
//   cli-load  ( --builtin NAME | --file PATH | --file-hex HEXPATH )…
//
// For every argument, in order, one line
//   L <hex of the argument> O <n>|<mapping line>|…      loaded, n mappings
//   L <hex of the argument> E <hex of the message>       the loader returned Err
//   L <hex of the argument> P                            the loader panicked
// `--file` goes through the real layout_loading::load_layout_from_file (what
// the installed service does with /etc/totalmapper.json and what main.rs does
// with --layout-file); `--builtin` through DEFAULT_LAYOUTS[NAME] ->
// serde_json::from_str -> parse_layout_from_json -> convert (what main.rs does
// with --default-layout).  Mapping lines are util::mapping_line (key codes,
// repeat with its numbers, absorbing list; order kept).
use crate::util::*;
use std::panic::{catch_unwind, AssertUnwindSafe};

fn hx(b: &[u8]) -> String {
  let mut s = String::with_capacity(b.len() * 2);
  for x in b { s.push_str(&format!("{:02x}", x)); }
  s
}

fn unhx(s: &str) -> Vec<u8> {
  (0..s.len() / 2).map(|i| u8::from_str_radix(&s[2 * i..2 * i + 2], 16).unwrap_or(0)).collect()
}

fn show(r: std::thread::Result<Result<crate::keys::Layout, String>>) -> String {
  match r {
    Err(_) => "P".to_string(),
    Ok(Err(e)) => format!("E {}", hx(e.as_bytes())),
    Ok(Ok(l)) => {
      let mut s = format!("O {}", l.mappings.len());
      for m in &l.mappings { s.push('|'); s.push_str(&mapping_line(m)); }
      s
    }
  }
}

fn load_builtin(name: &str) -> Result<crate::keys::Layout, String> {
  match crate::default_fancy_layouts::DEFAULT_LAYOUTS.get(&name.to_string()) {
    None => Err(format!("no builtin layout named {}", name)),
    Some(text) => {
      let v: serde_json::Value = serde_json::from_str(text).map_err(|e| format!("builtin is not JSON: {}", e))?;
      let f = crate::layout_parsing_formatting::parse_layout_from_json(&v)?;
      crate::fancy_layout_interpreting::convert(&f)
    }
  }
}

pub fn load_main(args: &[String]) -> i32 {
  let mut i = 0;
  while i + 1 < args.len() {
    let (kind, val) = (args[i].as_str(), args[i + 1].clone());
    i += 2;
    match kind {
      "--builtin" => {
        let r = catch_unwind(AssertUnwindSafe(|| load_builtin(&val)));
        println!("L {} {}", hx(val.as_bytes()), show(r));
      },
      "--file" | "--file-hex" => {
        let path = if kind == "--file" { val.clone() } else { String::from_utf8_lossy(&unhx(&val)).to_string() };
        let r = catch_unwind(AssertUnwindSafe(|| crate::layout_loading::load_layout_from_file(&path)));
        println!("L {} {}", hx(path.as_bytes()), show(r));
      },
      other => { eprintln!("cli-load: unknown argument {}", other); return 2; }
    }
  }
  0
}
