// escape: case generator for property C17.  Calls the REAL
// crate::udev_utils::verif_build_service_text (hook around the private
// build_service_text) on generated lists of exclude patterns and writes, per
// case, the patterns and the bytes of the returned unit text:
//   CASE <id> <tag> <pats> <hex text | PANIC>
// <pats>: patterns separated by '|', each the '.'-separated hex scalar values;
// '-' for the empty list.  ocaml/escape_check.ml reads these files.
//
// Families (tags):
//   sweep    every Unicode scalar value except NUL as a one-character pattern,
//            64 such patterns per case (a LIST of 64 patterns); quick tier: a
//            sample (all below U+3000, every 37th above, every noncharacter and
//            the neighbours of noncharacter/surrogate/plane boundaries)
//   single   true single-pattern cases of one scalar (sample of the sweep)
//   pair     every ordered pair over the syntax-relevant characters, as one
//            two-character pattern
//   hand     hand-written patterns ($HOME, %i, lone ';', quotes ...)
//   random   seeded random strings (length 1..12) and lists (0..5 patterns)
//   explicit cases listed in a file (--explicit), used for shrinking
use crate::util::*;
use std::io::Write;
use std::panic::{catch_unwind, AssertUnwindSafe};

fn is_nonchar(c: u32) -> bool { (0xfdd0..=0xfdef).contains(&c) || (c & 0xfffe) == 0xfffe }

fn syntax_chars() -> Vec<char> {
  let mut v: Vec<char> = vec![
    ' ', '\t', '\n', '\r', '\\', '"', '\'', ';', '%', '$', '{', '}', '*', '?', '#', '!', '-', '@', ':', ',', '.',
    '/', '=', '~', '+', '|', '&', '<', '>', '(', ')', '[', ']', '`', '^', '_',
    '\x01', '\x07', '\x08', '\x0b', '\x0c', '\x1b', '\x7f', '\u{80}', '\u{85}', '\u{9f}', '\u{a0}',
    '\u{fffe}', '\u{ffff}', '\u{fdd0}', '\u{fdef}', '\u{fffd}', '\u{10ffff}', '\u{1fffe}', '\u{e000}', '\u{d7ff}',
    '\u{2028}', '\u{feff}', '\u{e9}', '\u{1f600}',
    'i', 'I', 'n', 'N', 'x', 'u', 'U', 's', 'a', 'b', 'f', 'r', 't', 'v', 'h', 'H', 'z', 'A', 'Z', '0', '7', '9',
  ];
  v.dedup();
  v
}

fn hand_patterns() -> Vec<Vec<String>> {
  let singles: Vec<&str> = vec![
    "$HOME", "${HOME}", "$HOME/x", "a$HOME", "a${HOME}b", "$", "$$", "$1", "${", "${}", "${A:-b}", "}", "{", "$ ", " $",
    "%i", "%I", "%h", "%%", "%", "%z", "%1", "a%", "%-", "%%i", "100%", "%n.service",
    "\\n", "\\x41", "\\", "a\\", "\\\\", "\\;", "\\s", "\\u0041", "\\101",
    ";", "a;b", "; ;", ";;", " ; ", "a ;", "; b",
    "'", "\"", "'a b'", "\"a b\"", "a'b", "a\"b", "''", "\"\"", "'\"'",
    "-", "--", "--exclude", "-x", "a b", " a", "a ", "  ", " ", "\t", "a\tb", "a\nb", "a\rb", "a\r\nb", "\n", "\nExecStart=/bin/evil",
    "a\nUser=root",
    "*Mouse*", "*?[a-z]", "?", "*", "#x", "!x", "@x", ":x", "+x", "|x", "~", "=", "a=b", "x#y",
    "\u{e9}", "\u{65e5}\u{672c}\u{8a9e}", "\u{1f600}", "\u{1f468}\u{200d}\u{1f469}\u{200d}\u{1f467}", "\u{2028}", "\u{2029}", "\u{feff}", "\u{200b}",
    "\u{85}", "\u{9f}", "\u{a0}", "\u{ad}", "\u{7f}", "\u{1b}[31m", "\u{fffe}", "\u{ffff}", "\u{fdd0}", "\u{10fffe}", "\u{10ffff}", "\u{fffd}",
    "a\u{fffe}b", "\u{1}", "\u{1f}", "x\u{7}y\u{8}z",
    "Dell Mouse", "Logitech USB Receiver", "AT Translated Set 2 keyboard",
  ];
  let mut out: Vec<Vec<String>> = singles.iter().map(|s| vec![s.to_string()]).collect();
  out.push(vec![]);
  out.push(vec!["*Mouse*".to_string(), "*Switch*".to_string()]);
  out.push(vec![";".to_string(), ";".to_string()]);
  out.push(vec!["'".to_string(), "'".to_string()]);
  out.push(vec!["\"".to_string(), "\"".to_string()]);
  out.push(vec!["$A".to_string(), "%i".to_string(), "\\".to_string()]);
  out.push(vec!["a".to_string(), "b".to_string(), "c".to_string(), "d".to_string(), "e".to_string()]);
  out
}

fn pats_field(pats: &[String]) -> String {
  if pats.is_empty() { return "-".to_string(); }
  let v: Vec<String> = pats.iter().map(|p| {
    let cs: Vec<String> = p.chars().map(|c| format!("{:x}", c as u32)).collect();
    cs.join(".")
  }).collect();
  v.join("|")
}

fn hex(bytes: &[u8]) -> String {
  let mut s = String::with_capacity(bytes.len() * 2);
  for b in bytes { s.push_str(&format!("{:02x}", b)); }
  s
}

struct Out {
  dir: String,
  chunk: usize,
  in_file: usize,
  file_no: usize,
  f: Option<std::io::BufWriter<std::fs::File>>,
  id: usize,
}

impl Out {
  fn new(dir: &str, chunk: usize) -> Out { Out { dir: dir.to_string(), chunk, in_file: 0, file_no: 0, f: None, id: 0 } }
  fn emit(&mut self, tag: &str, pats: &[String]) {
    if self.f.is_none() || self.in_file >= self.chunk {
      if let Some(mut f) = self.f.take() { f.flush().unwrap(); }
      let path = format!("{}/cases-{:05}.txt", self.dir, self.file_no);
      self.file_no += 1;
      self.in_file = 0;
      self.f = Some(std::io::BufWriter::new(std::fs::File::create(&path).expect("cannot create case file")));
    }
    let refs: Vec<&str> = pats.iter().map(|s| s.as_str()).collect();
    let res = catch_unwind(AssertUnwindSafe(|| crate::udev_utils::verif_build_service_text(&refs)));
    let text = match res { Ok(t) => hex(t.as_bytes()), Err(_) => "PANIC".to_string() };
    let f = self.f.as_mut().unwrap();
    writeln!(f, "CASE {} {} {} {}", self.id, tag, pats_field(pats), text).unwrap();
    self.id += 1;
    self.in_file += 1;
  }
  fn finish(&mut self) { if let Some(mut f) = self.f.take() { f.flush().unwrap(); } }
}

fn sweep_scalars(tier: &str) -> Vec<char> {
  let mut v = Vec::new();
  let full = tier == "thorough";
  let mut c: u32 = 1;
  while c <= 0x10ffff {
    if let Some(ch) = char::from_u32(c) {
      let near_boundary = {
        let lo = c & 0xffff;
        lo >= 0xfffa || lo <= 0x0003 || (0xfdc8..=0xfdf8).contains(&c) || (0xd7f8..=0xe008).contains(&c)
      };
      if full || c < 0x3000 || c % 37 == 0 || is_nonchar(c) || near_boundary { v.push(ch); }
    }
    c += 1;
  }
  v
}

fn random_char(rng: &mut Rng, syn: &[char]) -> char {
  loop {
    let k = rng.below(100);
    let c: u32 = if k < 45 { return *rng.pick(syn); }
      else if k < 65 { 0x21 + rng.below(0x5e) as u32 }
      else if k < 73 { 1 + rng.below(0x1f) as u32 }
      else if k < 78 { 0x7f + rng.below(0x21) as u32 }
      else if k < 88 { 0xa0 + rng.below(0xff60) as u32 }
      else if k < 95 { 0x10000 + rng.below(0x100000) as u32 }
      else { let plane = rng.below(17) as u32; if rng.chance(1, 3) { 0xfdd0 + rng.below(32) as u32 } else { plane * 0x10000 + 0xfffe + rng.below(2) as u32 } };
    if c == 0 { continue; }
    if let Some(ch) = char::from_u32(c) { return ch; }
  }
}

pub fn main(args: &[String]) -> i32 {
  let a = args_map(args);
  let out_dir = a.get("out").cloned().unwrap_or_else(|| { eprintln!("escape: --out DIR required"); std::process::exit(2) });
  let seed: u64 = a.get("seed").map(|s| s.parse().unwrap_or(1)).unwrap_or(1);
  let tier = a.get("tier").cloned().unwrap_or_else(|| "quick".to_string());
  let search = a.get("budget").map(|s| s == "search").unwrap_or(false);
  let chunk: usize = a.get("chunk").map(|s| s.parse().unwrap_or(400)).unwrap_or(400);
  std::fs::create_dir_all(&out_dir).expect("cannot create out dir");
  let mut out = Out::new(&out_dir, chunk);

  if let Some(path) = a.get("explicit") {
    // lines: <tag> <pats>
    let text = std::fs::read_to_string(path).expect("cannot read explicit file");
    for line in text.lines() {
      let t: Vec<&str> = line.split_whitespace().collect();
      if t.len() != 2 { continue; }
      let pats: Vec<String> = if t[1] == "-" { vec![] } else {
        t[1].split('|').map(|p| p.split('.').filter(|h| !h.is_empty())
          .map(|h| char::from_u32(u32::from_str_radix(h, 16).expect("bad hex scalar")).expect("not a scalar value")).collect::<String>()).collect()
      };
      out.emit(t[0], &pats);
    }
    out.finish();
    println!("GEN cases={} explicit=1", out.id);
    return 0;
  }

  let syn = syntax_chars();
  // 1. the sweep over scalar values, 64 one-character patterns per case
  let sw = sweep_scalars(&tier);
  let n_sweep = sw.len();
  for block in sw.chunks(64) {
    let pats: Vec<String> = block.iter().map(|c| c.to_string()).collect();
    out.emit("sweep", &pats);
  }
  // 2. true single-pattern cases
  let mut n_single = 0;
  let single_step = if tier == "thorough" { 101 } else { 1009 };
  for (i, c) in sw.iter().enumerate() {
    let cu = *c as u32;
    if cu < 0x500 || is_nonchar(cu) || i % single_step == 0 || (tier == "thorough" && cu < 0x3000) {
      out.emit("single", &[c.to_string()]);
      n_single += 1;
    }
  }
  for c in &syn { out.emit("single", &[c.to_string()]); n_single += 1; }
  // 3. all ordered pairs over the syntax-relevant characters
  let mut n_pair = 0;
  for x in &syn { for y in &syn {
    let mut s = String::new(); s.push(*x); s.push(*y);
    out.emit("pair", &[s]);
    n_pair += 1;
  } }
  // 4. hand-written
  let hp = hand_patterns();
  let n_hand = hp.len();
  for pats in &hp {
    if pats.iter().any(|p| p.is_empty() || p.contains('\0')) { continue; }
    out.emit("hand", pats);
  }
  // 5. seeded random strings and lists
  let mut rng = Rng::new(seed ^ if search { 0x5eed_5eed } else { 0 });
  let mut n_random = if tier == "thorough" { 60000 } else { 4000 };
  if search { n_random *= 4; }
  let mut len_hist = [0usize; 13];
  let mut list_hist = [0usize; 6];
  for _ in 0..n_random {
    let npat = if rng.chance(1, 2) { 1 } else { rng.below(6) };
    list_hist[npat] += 1;
    let mut pats = Vec::new();
    for _ in 0..npat {
      let len = 1 + rng.below(12);
      len_hist[len] += 1;
      let s: String = (0..len).map(|_| random_char(&mut rng, &syn)).collect();
      pats.push(s);
    }
    out.emit("random", &pats);
  }
  out.finish();
  println!("GEN cases={} files={} sweep_scalars={} singles={} pairs={} hand={} random={} syntax_chars={} list_sizes={:?} pattern_lengths={:?} seed={} tier={}{}",
    out.id, out.file_no, n_sweep, n_single, n_pair, n_hand, n_random, syn.len(), list_hist, &len_hist[1..], seed, tier, if search { " budget=search" } else { "" });
  0
}
