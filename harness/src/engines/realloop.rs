// realloop: the REAL per-device loop (do_remapping_loop_one_device) with the REAL
// driver — mio/epoll edge-triggered readiness, DevInputReader,
// TabletModeSwitchReader, DevInputWriter — over three pipes, in a CHILD PROCESS
// (remapping_loop::verif::run_real_driver_on_fds).  These are the parts the Coq
// model LoopEnv.v only ASSUMES; here the kernel plays the environment.
//
//   tm-harness realloop --out DIR --seed N --tier quick|thorough [--scale S] [--jobs J] [--deadline-ms D]
//   tm-harness realloop-replay --layout FILE --script FILE --tablet 0|1 --out FILE [--deadline-ms D]
//   tm-harness realloop-child LAYOUTFILE KFD TFD OFD        (the child; descriptors are inherited)
//   tm-harness realloop-child --probe FD
//
// The parent writes a seeded record script to the keyboard pipe — key events
// with foreign records (EV_MSC, EV_SYN, auto-repeat, unknown codes, EV_LED)
// interleaved, cut into write(2) calls of 1..=300 records with pauses of
// 0-3 ms — and collects the bytes the child writes to the "virtual keyboard"
// pipe.  In half of the cases one tablet-switch On is written afterwards.
// It waits until as many bytes have arrived as the in-process real Mapper
// announces AND the input pipes are drained (FIONREAD = 0); the only timing
// element is a generous no-progress deadline.  Then it looks for late output
// during 30 ms, kills the child and writes the case:
//
//   CASE <id> <tag> seed=<n> mode=<m> tablet=<0|1>
//   M ...                         layout, one line per mapping (util::mapping_line)
//   W <script>                    P<code> R<code> X<type>:<code>:<value> /<pause ms> (= end of one write)
//   IMPL <n> | <events> | ...     outputs of the in-process real Mapper for the key events of the script
//   IMPLREL <events>              its release_all afterwards
//   OBS1 <hex>                    bytes observed before the tablet event (all bytes if there is none)
//   OBS2 <hex|skipped|->          bytes observed after the tablet event
//   STATUS child=.. unread_k=.. unread_t=.. deadline=.. want1=.. want2=.. writes=.. maxwrite=.. lastkeys=.. wall_ms=..
//   END
//
// ocaml/realloop_check.ml computes what the bytes must be from the extracted Coq
// definitions (coq/extract/Extract_realloop.v) and judges the observation.
use crate::keys::{KeyCode, Event, Mapping, Repeat, Layout};
use crate::key_transforms::Mapper;
use crate::engines::mapper_graph::{NamedLayout, family_multi, builtin_layouts, alphabet_of,
  A, B, C, LEFTSHIFT, LEFTCTRL, CAPSLOCK};
use crate::engines::wire::{record_bytes, hex};
use crate::util::*;
use num_traits::FromPrimitive;
use std::io::Write;
use std::os::unix::process::{CommandExt, ExitStatusExt};
use std::panic::{catch_unwind, AssertUnwindSafe};
use std::process::{Child, Command, Stdio};
use std::sync::atomic::{AtomicUsize, Ordering};
use std::sync::Arc;
use std::time::{Duration, Instant};

const REC: usize = 24;
const EXIT_UNAVAILABLE: i32 = 3;

// ------------------------------------------------------------------ descriptors

fn errno_str() -> String { std::io::Error::last_os_error().to_string() }

fn pipe_cloexec() -> Result<(i32, i32), String> {
  let mut fds = [0i32; 2];
  let rc = unsafe { libc::pipe2(fds.as_mut_ptr(), libc::O_CLOEXEC) };
  if rc != 0 { return Err(format!("pipe2() failed: {}", errno_str())); }
  // room for the whole script even if the child reads nothing for a while (a full pipe would hand the reader
  // a torn record, which an evdev node never does)
  unsafe { libc::fcntl(fds[1], libc::F_SETPIPE_SZ, 1 << 20); }
  Ok((fds[0], fds[1]))
}

fn pipe_size(fd: i32) -> i64 { unsafe { libc::fcntl(fd, libc::F_GETPIPE_SZ) as i64 } }

fn set_nonblock(fd: i32, on: bool) {
  unsafe {
    let fl = libc::fcntl(fd, libc::F_GETFL);
    let nf = if on { fl | libc::O_NONBLOCK } else { fl & !libc::O_NONBLOCK };
    libc::fcntl(fd, libc::F_SETFL, nf);
  }
}

fn close(fd: i32) { unsafe { libc::close(fd); } }

// bytes written to the pipe and not yet read (works on either end)
fn unread(fd: i32) -> i64 {
  let mut n: libc::c_int = 0;
  let rc = unsafe { libc::ioctl(fd, libc::FIONREAD, &mut n) };
  if rc != 0 { -1 } else { n as i64 }
}

// everything that can be read now; returns false at end-of-file (every write end closed)
fn drain(fd: i32, out: &mut Vec<u8>) -> bool {
  let mut buf = [0u8; 65536];
  loop {
    let n = unsafe { libc::read(fd, buf.as_mut_ptr() as *mut libc::c_void, buf.len()) };
    if n > 0 { out.extend_from_slice(&buf[..n as usize]); continue; }
    if n == 0 { return false; }
    let e = std::io::Error::last_os_error().raw_os_error().unwrap_or(0);
    if e == libc::EINTR { continue; }
    return true;   // EAGAIN
  }
}

fn write_all(fd: i32, bytes: &[u8]) -> Result<(), String> {
  let mut pos = 0usize;
  while pos < bytes.len() {
    let n = unsafe { libc::write(fd, bytes[pos..].as_ptr() as *const libc::c_void, bytes.len() - pos) };
    if n < 0 {
      let e = std::io::Error::last_os_error();
      if e.raw_os_error() == Some(libc::EINTR) { continue; }
      return Err(e.to_string());
    }
    pos += n as usize;
  }
  Ok(())
}

fn wait_readable(fd: i32, ms: i32) {
  let mut p = libc::pollfd { fd, events: libc::POLLIN, revents: 0 };
  unsafe { libc::poll(&mut p, 1, ms); }
}

// ------------------------------------------------------------------ scripts

#[derive(Clone, Debug)]
pub enum Tok {
  Key(Event),            // a key event the reader must deliver
  Raw(u16, u16, i32),    // a record the reader must skip: type, code, value
  Cut(u64),              // end of one write(2); then a pause of that many ms
}

fn is_key_record(t: u16, c: u16, v: i32) -> Option<Event> {
  if t == 1 && (v == 0 || v == 1) {
    if let Some(k) = <KeyCode as FromPrimitive>::from_u16(c) {
      return Some(if v == 1 { Event::Pressed(k) } else { Event::Released(k) });
    }
  }
  None
}

fn tok_str(t: &Tok) -> String {
  match t {
    Tok::Key(e) => ev_str(e),
    Tok::Raw(t, c, v) => format!("X{}:{}:{}", t, c, v),
    Tok::Cut(ms) => format!("/{}", ms),
  }
}

fn script_str(s: &[Tok]) -> String { let v: Vec<String> = s.iter().map(tok_str).collect(); v.join(" ") }

fn parse_script(text: &str) -> Vec<Tok> {
  let mut res = vec![];
  for w in text.split_whitespace() {
    if let Some(r) = w.strip_prefix('/') { res.push(Tok::Cut(r.parse().unwrap_or(0))); }
    else if let Some(r) = w.strip_prefix('X') {
      let f: Vec<i64> = r.split(':').map(|x| x.parse().expect("bad X record")).collect();
      let (t, c, v) = (f[0] as u16, f[1] as u16, f[2] as i32);
      match is_key_record(t, c, v) { Some(e) => res.push(Tok::Key(e)), None => res.push(Tok::Raw(t, c, v)) }
    }
    else if w.starts_with('P') || w.starts_with('R') { res.push(Tok::Key(parse_ev(w))); }
  }
  match res.last() { Some(Tok::Cut(_)) => (), _ => res.push(Tok::Cut(0)) }
  res
}

fn tok_bytes(t: &Tok, index: usize) -> Vec<u8> {
  let sec = 1_700_000_000i64 + index as i64;
  let usec = ((index as i64) * 7919) % 1_000_000;
  match t {
    Tok::Key(Event::Pressed(k)) => record_bytes(sec, usec, 1, code(k), 1),
    Tok::Key(Event::Released(k)) => record_bytes(sec, usec, 1, code(k), 0),
    Tok::Raw(ty, c, v) => record_bytes(sec, usec, *ty, *c, *v),
    Tok::Cut(_) => vec![],
  }
}

// the write(2) calls of a script: (bytes, records, key events, pause)
fn writes_of(script: &[Tok]) -> Vec<(Vec<u8>, usize, usize, u64)> {
  let mut res = vec![];
  let mut cur: Vec<u8> = vec![];
  let (mut nrec, mut nkey, mut idx) = (0usize, 0usize, 0usize);
  for t in script {
    match t {
      Tok::Cut(ms) => {
        if !cur.is_empty() { res.push((std::mem::take(&mut cur), nrec, nkey, *ms)); }
        nrec = 0; nkey = 0;
      },
      _ => {
        cur.extend(tok_bytes(t, idx)); idx += 1; nrec += 1;
        if let Tok::Key(_) = t { nkey += 1; }
      }
    }
  }
  if !cur.is_empty() { res.push((cur, nrec, nkey, 0)); }
  res
}

// a key history biased towards chords of the layout, with a few ill-formed events (as loop_script.rs draws them)
fn history(ms: &[Mapping], rng: &mut Rng, len: usize) -> Vec<Event> {
  let alpha = alphabet_of(ms);
  let mut phys: Vec<u16> = vec![];
  let mut h = vec![];
  for _ in 0..len {
    let r = rng.below(100);
    let (press, k): (bool, u16) =
      if r < 4 && !phys.is_empty() { (true, *rng.pick(&phys)) }
      else if r < 8 { (false, *rng.pick(&alpha)) }
      else if (r < 45 || phys.len() >= 4) && !phys.is_empty() { (false, *rng.pick(&phys)) }
      else {
        let mut cands: Vec<u16> = vec![];
        for m in ms {
          let f: Vec<u16> = m.from.iter().map(code).collect();
          if let Some((last, rest)) = f.split_last() {
            if rest.iter().all(|x| phys.contains(x)) && !phys.contains(last) { cands.push(*last); }
            for x in rest { if !phys.contains(x) && rng.chance(1, 2) { cands.push(*x); } }
          }
        }
        if cands.is_empty() || rng.chance(1, 5) { (true, *rng.pick(&alpha)) } else { (true, *rng.pick(&cands)) }
      };
    if press { if !phys.contains(&k) { phys.push(k); } h.push(Event::Pressed(key(k))); }
    else { phys.retain(|x| *x != k); h.push(Event::Released(key(k))); }
  }
  h
}

fn foreign(rng: &mut Rng, alpha: &[u16]) -> Tok {
  loop {
    let (t, c, v): (u16, u16, i32) = match rng.below(12) {
      0 | 1 | 2 => (4, 4, (0x70000 + rng.below(256)) as i32),           // EV_MSC / MSC_SCAN
      3 | 4 | 5 => (0, 0, 0),                                           // SYN_REPORT
      6 | 7 => (1, *rng.pick(alpha), 2),                                // auto-repeat
      8 => (1, *rng.pick(&[600u16, 0x2ff, 0x300, 0xffff, 0x2e7]), rng.below(2) as i32),   // codes the tool may not know
      9 => (17, rng.below(3) as u16, rng.below(2) as i32),              // EV_LED
      10 => (5, 1, rng.below(2) as i32),                                // a switch event on the KEYBOARD descriptor
      _ => (0, 3, 0),                                                   // SYN_DROPPED
    };
    if is_key_record(t, c, v).is_none() { return Tok::Raw(t, c, v); }
  }
}

// batching modes: 0 = writes of 1..=8 records, 1 = 1..=64, 2 = 1..=300, 3 = small writes and ONE big final burst,
// 4 = as few writes as possible (300 records each)
fn build_script(h: &[Event], rng: &mut Rng, mode: usize, alpha: &[u16]) -> Vec<Tok> {
  let style = rng.below(3);
  let mut recs: Vec<Tok> = vec![];
  for e in h {
    match style {
      0 => {   // what an evdev keyboard sends: MSC_SCAN, the key, SYN_REPORT; now and then auto-repeats of a key
        recs.push(Tok::Raw(4, 4, (0x70000 + rng.below(256)) as i32));
        recs.push(Tok::Key(e.clone()));
        recs.push(Tok::Raw(0, 0, 0));
        if rng.chance(1, 10) {
          let k = *rng.pick(alpha);
          for _ in 0..(1 + rng.below(4)) { recs.push(Tok::Raw(1, k, 2)); recs.push(Tok::Raw(0, 0, 0)); }
        }
      },
      1 => {
        while rng.chance(1, 3) { recs.push(foreign(rng, alpha)); }
        recs.push(Tok::Key(e.clone()));
      },
      _ => recs.push(Tok::Key(e.clone())),
    }
  }
  if style == 1 { while rng.chance(1, 2) { recs.push(foreign(rng, alpha)); } }
  let n = recs.len();
  let tail = if mode == 3 { std::cmp::min(n, 100 + rng.below(201)) } else { 0 };
  let mut script: Vec<Tok> = vec![];
  let mut i = 0usize;
  while i < n {
    let left = n - i;
    let take = if mode == 3 && left <= tail { left }
      else {
        let cap = if mode == 3 { left - tail } else { left };
        let k = match mode { 0 | 3 => 1 + rng.below(8), 1 => 1 + rng.below(64), 2 => 1 + rng.below(300), _ => 300 };
        std::cmp::min(k, cap)
      };
    for t in &recs[i..i + take] { script.push(t.clone()); }
    i += take;
    let pause = if mode == 4 || i >= n { 0 } else { *rng.pick(&[0u64, 0, 0, 1, 2, 3]) };
    script.push(Tok::Cut(pause));
  }
  if n == 0 { script.push(Tok::Cut(0)); }
  script
}

// ------------------------------------------------------------------ one case

pub struct CaseSpec { pub id: String, pub tag: String, pub mappings: Vec<Mapping>, pub script: Vec<Tok>, pub tablet: bool, pub seed: u64, pub mode: usize }

pub struct CaseResult {
  impl_sends: Vec<Vec<Event>>, impl_rel: Vec<Event>, impl_panic: bool,
  obs1: Vec<u8>, obs2: Option<Vec<u8>>,
  child: String, unread_k: i64, unread_t: i64, deadline: u8,
  want1: usize, want2: usize, writes: usize, maxwrite: usize, lastkeys: usize, wall_ms: u128,
}

fn child_status(ch: &mut Child) -> Option<String> {
  match ch.try_wait() {
    Ok(Some(st)) => Some(match (st.code(), st.signal()) { (Some(c), _) => format!("exit:{}", c), (_, Some(s)) => format!("signal:{}", s), _ => "gone".to_string() }),
    Ok(None) => None,
    Err(_) => Some("wait-failed".to_string()),
  }
}

enum Waited { Reached, Deadline, ChildGone }

// until `want` bytes are there and the input pipe is drained; `deadline` bounds the time WITHOUT progress
fn await_output(or: i32, obs: &mut Vec<u8>, want: usize, in_fd: i32, ch: &mut Child, deadline: Duration) -> Waited {
  let mut last = Instant::now();
  let mut last_unread = unread(in_fd);
  loop {
    let before = obs.len();
    let open = drain(or, obs);
    let u = unread(in_fd);
    if obs.len() >= want && u == 0 { return Waited::Reached; }
    if obs.len() > before || u < last_unread { last = Instant::now(); }
    last_unread = u;
    if !open || child_status(ch).is_some() { drain(or, obs); return Waited::ChildGone; }
    if last.elapsed() > deadline { return Waited::Deadline; }
    wait_readable(or, 2);
  }
}

fn settle(or: i32, obs: &mut Vec<u8>, ms: u64) {
  let t0 = Instant::now();
  loop {
    drain(or, obs);
    let el = t0.elapsed().as_millis() as u64;
    if el >= ms { break; }
    wait_readable(or, (ms - el) as i32 + 1);
  }
  drain(or, obs);
}

// Err = the sandbox does not let us do this at all (no verdict about the code)
pub fn run_case(c: &CaseSpec, exe: &std::path::Path, layout_file: &str, deadline: Duration, show_child_stderr: bool) -> Result<CaseResult, String> {
  let t0 = Instant::now();
  let writes = writes_of(&c.script);
  let mut res = CaseResult { impl_sends: vec![], impl_rel: vec![], impl_panic: false, obs1: vec![], obs2: None,
    child: "not-started".to_string(), unread_k: 0, unread_t: 0, deadline: 0, want1: 0, want2: 0,
    writes: writes.len(), maxwrite: writes.iter().map(|w| w.1).max().unwrap_or(0),
    lastkeys: writes.last().map(|w| w.2).unwrap_or(0), wall_ms: 0 };
  // how much output to wait for: the real Mapper, in this process (a waiting hint; the verdict is the Coq model's)
  let layout = Layout { mappings: c.mappings.clone() };
  let pre = catch_unwind(AssertUnwindSafe(|| {
    let mut mapper = Mapper::for_layout(&layout);
    let mut sends: Vec<Vec<Event>> = vec![];
    for t in &c.script {
      if let Tok::Key(e) = t {
        let r = mapper.step(e.clone());
        if !r.events.is_empty() { sends.push(r.events); }
      }
    }
    let rel = if c.tablet { mapper.release_all() } else { vec![] };
    (sends, rel)
  }));
  match pre {
    Ok((s, r)) => { res.impl_sends = s; res.impl_rel = r; },
    Err(_) => { res.impl_panic = true; res.child = "impl-panic".to_string(); return Ok(res); }
  }
  res.want1 = res.impl_sends.iter().map(|s| (s.len() + 1) * REC).sum();
  res.want2 = if res.impl_rel.is_empty() { 0 } else { (res.impl_rel.len() + 1) * REC };

  {
    let mut f = std::fs::File::create(layout_file).map_err(|e| format!("cannot write {}: {}", layout_file, e))?;
    for m in &c.mappings { writeln!(f, "{}", mapping_line(m)).map_err(|e| e.to_string())?; }
  }
  let (kr, kw) = pipe_cloexec()?;
  let (tr, tw) = pipe_cloexec()?;
  let (or, ow) = pipe_cloexec()?;
  let limit = pipe_size(kw) / 4;
  if limit < 16384 { for fd in [kr, kw, tr, tw, or, ow].iter() { close(*fd); } return Err(format!("pipe capacity {} is too small", pipe_size(kw))); }
  set_nonblock(kr, true); set_nonblock(tr, true); set_nonblock(or, true);
  let mut cmd = Command::new(exe);
  cmd.arg("realloop-child").arg(layout_file).arg(kr.to_string()).arg(tr.to_string()).arg(ow.to_string());
  cmd.stdin(Stdio::null()).stdout(Stdio::null()).stderr(if show_child_stderr { Stdio::inherit() } else { Stdio::null() });
  unsafe {
    cmd.pre_exec(move || {
      for fd in [kr, tr, ow].iter() {
        let fl = libc::fcntl(*fd, libc::F_GETFD);
        if fl < 0 || libc::fcntl(*fd, libc::F_SETFD, fl & !libc::FD_CLOEXEC) < 0 { return Err(std::io::Error::last_os_error()); }
      }
      Ok(())
    });
  }
  let mut ch = match cmd.spawn() {
    Ok(ch) => ch,
    Err(e) => { for fd in [kr, kw, tr, tw, or, ow].iter() { close(*fd); } return Err(format!("cannot start the child process: {}", e)); }
  };
  close(kr); close(tr); close(ow);

  // ---- phase 1: the keyboard script
  let mut obs1: Vec<u8> = vec![];
  let mut slept = 0u64;
  let mut alive = true;
  'feed: for (bytes, _, _, pause) in &writes {
    let mut last = Instant::now();
    let mut last_unread = unread(kw);
    loop {
      let before = obs1.len();
      drain(or, &mut obs1);
      let u = unread(kw);
      if (u as usize) + bytes.len() <= limit as usize { break; }
      if obs1.len() > before || u < last_unread { last = Instant::now(); }
      last_unread = u;
      if child_status(&mut ch).is_some() { alive = false; break 'feed; }
      if last.elapsed() > deadline { res.deadline = 3; break 'feed; }
      std::thread::sleep(Duration::from_millis(1));
    }
    if write_all(kw, bytes).is_err() { alive = false; break; }   // EPIPE: the child is gone
    drain(or, &mut obs1);
    if *pause > 0 && slept < 150 { std::thread::sleep(Duration::from_millis(*pause)); slept += *pause; }
  }
  let mut phase1_ok = false;
  if alive && res.deadline == 0 {
    match await_output(or, &mut obs1, res.want1, kw, &mut ch, deadline) {
      Waited::Reached => { phase1_ok = true; },
      Waited::Deadline => { res.deadline = 1; },
      Waited::ChildGone => { alive = false; },
    }
  }
  if alive { settle(or, &mut obs1, 30); }
  res.unread_k = unread(kw);
  phase1_ok = phase1_ok && obs1.len() == res.want1 && child_status(&mut ch).is_none();

  // ---- phase 2: one tablet-switch On, after ALL expected output has been seen
  if c.tablet {
    if phase1_ok {
      let mut obs2: Vec<u8> = vec![];
      let mut bytes: Vec<u8> = vec![];
      if c.seed % 2 == 0 { bytes.extend(record_bytes(1_700_100_000, 1, 5, 0, 1)); }   // SW_LID: to be skipped
      bytes.extend(record_bytes(1_700_100_000, 2, 5, 1, 1));                            // SW_TABLET_MODE on
      bytes.extend(record_bytes(1_700_100_000, 2, 0, 0, 0));
      if write_all(tw, &bytes).is_ok() {
        match await_output(or, &mut obs2, res.want2, tw, &mut ch, deadline) {
          Waited::Reached => { settle(or, &mut obs2, 30); },
          Waited::Deadline => { res.deadline = 2; settle(or, &mut obs2, 30); },
          Waited::ChildGone => (),
        }
      }
      res.obs2 = Some(obs2);
    }
  }
  res.unread_t = unread(tw);
  res.unread_k = unread(kw);
  res.child = child_status(&mut ch).unwrap_or("running".to_string());
  let _ = ch.kill();
  let _ = ch.wait();
  close(kw); close(tw); close(or);
  res.obs1 = obs1;
  res.wall_ms = t0.elapsed().as_millis();
  Ok(res)
}

fn write_case(out: &mut dyn Write, c: &CaseSpec, r: &CaseResult) {
  writeln!(out, "CASE {} {} seed={} mode={} tablet={}", c.id, c.tag, c.seed, c.mode, if c.tablet { 1 } else { 0 }).unwrap();
  for m in &c.mappings { writeln!(out, "{}", mapping_line(m)).unwrap(); }
  writeln!(out, "W {}", script_str(&c.script)).unwrap();
  let mut s = format!("IMPL {}", r.impl_sends.len());
  for evs in &r.impl_sends { s += " | "; s += &evs_str(evs); }
  writeln!(out, "{}", s).unwrap();
  writeln!(out, "IMPLREL {}", if r.impl_rel.is_empty() { "-".to_string() } else { evs_str(&r.impl_rel) }).unwrap();
  writeln!(out, "OBS1 {}", hex(&r.obs1)).unwrap();
  writeln!(out, "OBS2 {}", match &r.obs2 { Some(b) => hex(b), None => (if c.tablet { "skipped" } else { "-" }).to_string() }).unwrap();
  writeln!(out, "STATUS child={} unread_k={} unread_t={} deadline={} want1={} want2={} writes={} maxwrite={} lastkeys={} wall_ms={}",
           r.child, r.unread_k, r.unread_t, r.deadline, r.want1, r.want2, r.writes, r.maxwrite, r.lastkeys, r.wall_ms).unwrap();
  writeln!(out, "END").unwrap();
}

// ------------------------------------------------------------------ the cases

fn despecial(ms: &mut Vec<Mapping>, rng: &mut Rng) {
  for m in ms.iter_mut() {
    if let Repeat::Special { .. } = m.repeat { m.repeat = if rng.chance(1, 2) { Repeat::Normal } else { Repeat::Disabled }; }
  }
}

fn constructible(ms: &Vec<Mapping>) -> bool {
  let layout = Layout { mappings: ms.clone() };
  catch_unwind(AssertUnwindSafe(|| { let _ = Mapper::for_layout(&layout); })).is_ok()
}

fn fixed_layouts() -> Vec<NamedLayout> {
  let k = |c: u16| key(c);
  vec![
    NamedLayout { tag: "fixed/a-b".to_string(), mappings: vec![
      Mapping { from: vec![k(A)], to: vec![k(B)], repeat: Repeat::Normal, absorbing: vec![] } ] },
    NamedLayout { tag: "fixed/empty".to_string(), mappings: vec![] },
    // the remaining fixed layouts of loop_script.rs with their Special repeats replaced
    NamedLayout { tag: "fixed/ctrl-chord-norepeat".to_string(), mappings: vec![
      Mapping { from: vec![k(A)], to: vec![k(B)], repeat: Repeat::Normal, absorbing: vec![] },
      Mapping { from: vec![k(C)], to: vec![k(C)], repeat: Repeat::Disabled, absorbing: vec![] } ] },
    NamedLayout { tag: "fixed/chord-of-own-output-norepeat".to_string(), mappings: vec![
      Mapping { from: vec![k(CAPSLOCK), k(A)], to: vec![k(LEFTSHIFT), k(B)], repeat: Repeat::Normal, absorbing: vec![] } ] },
    NamedLayout { tag: "fixed/a-a-norepeat".to_string(), mappings: vec![
      Mapping { from: vec![k(A)], to: vec![k(A)], repeat: Repeat::Disabled, absorbing: vec![] } ] },
    // rarely used keys at the upper end of the key table (BUTTONCONFIG 576, MACRO1 656, KBD_LCD_MENU5 700) and the key
    // UNKNOWN (240), as outputs, as triggers and (through the alphabet) as keys that pass through: every key the tool
    // knows must travel through the real reader, driver and writer like any other
    NamedLayout { tag: "fixed/high-codes".to_string(), mappings: vec![
      Mapping { from: vec![k(A)], to: vec![k(LEFTSHIFT), k(576)], repeat: Repeat::Normal, absorbing: vec![] },
      Mapping { from: vec![k(656)], to: vec![k(700)], repeat: Repeat::Normal, absorbing: vec![] },
      Mapping { from: vec![k(240), k(B)], to: vec![k(240)], repeat: Repeat::Disabled, absorbing: vec![] } ] },
  ]
}

fn make_cases(seed: u64, thorough: bool, scale: usize) -> Vec<CaseSpec> {
  let mut rng = Rng::new(seed ^ 0x4ea1_100b);
  let mut layouts: Vec<(NamedLayout, usize)> = vec![];   // (layout, cases)
  let (r_fixed, n_multi, r_multi, r_builtin) = if thorough { (150, 400, 12, 150) } else { (24, 60, 6, 24) };
  for l in fixed_layouts() { layouts.push((l, r_fixed * scale)); }
  let mut fam = family_multi(&mut rng, n_multi * scale + 20);
  for l in fam.iter_mut() { despecial(&mut l.mappings, &mut rng); }
  let mut taken = 0usize;
  for l in fam.into_iter() {
    if taken >= n_multi * scale { break; }
    if !constructible(&l.mappings) { continue; }
    layouts.push((l, r_multi)); taken += 1;
  }
  for mut l in builtin_layouts() {
    despecial(&mut l.mappings, &mut rng);
    if constructible(&l.mappings) { layouts.push((l, r_builtin * scale)); }
  }
  let mut cases: Vec<CaseSpec> = vec![];
  for (l, reps) in layouts {
    let alpha = alphabet_of(&l.mappings);
    for _r in 0..reps {
      let cseed = rng.next();
      let mut crng = Rng::new(cseed);
      let mode = cases.len() % 5;
      // long histories where bursts matter
      let hlen = if mode >= 2 { 120 + crng.below(281) } else { 20 + crng.below(381) };
      let h = history(&l.mappings, &mut crng, hlen);
      let script = build_script(&h, &mut crng, mode, &alpha);
      let tablet = crng.chance(1, 2);
      cases.push(CaseSpec { id: format!("{}", cases.len()), tag: l.tag.clone(), mappings: l.mappings.clone(), script, tablet, seed: cseed, mode });
    }
  }
  cases
}

// ------------------------------------------------------------------ can this be done here at all?

fn probe(exe: &std::path::Path) -> Result<(), String> {
  use mio::{Events, Interest, Poll, Token};
  use mio::unix::SourceFd;
  let (r, w) = pipe_cloexec()?;
  set_nonblock(r, true);
  let finish = |e: Result<(), String>| { close(r); close(w); e };
  if pipe_size(w) < 65536 { return finish(Err(format!("pipe capacity {} is too small", pipe_size(w)))); }
  let mut poll = match Poll::new() { Ok(p) => p, Err(e) => return finish(Err(format!("epoll_create failed: {}", e))) };
  if let Err(e) = poll.registry().register(&mut SourceFd(&r), Token(0), Interest::READABLE) {
    return finish(Err(format!("epoll cannot watch a pipe: {}", e)));
  }
  if let Err(e) = write_all(w, &[7u8; REC]) { return finish(Err(format!("write to a pipe failed: {}", e))); }
  if unread(w) != REC as i64 { return finish(Err(format!("FIONREAD on a pipe answers {} instead of {}", unread(w), REC))); }
  let mut events = Events::with_capacity(4);
  if let Err(e) = poll.poll(&mut events, Some(Duration::from_secs(5))) { return finish(Err(format!("epoll_wait failed: {}", e))); }
  if events.iter().next().is_none() { return finish(Err("epoll reports no readiness for a pipe with data".to_string())); }
  let mut got = vec![];
  drain(r, &mut got);
  // a child that inherits the write end and answers through it
  let mut cmd = Command::new(exe);
  cmd.arg("realloop-child").arg("--probe").arg(w.to_string());
  cmd.stdin(Stdio::null()).stdout(Stdio::null()).stderr(Stdio::null());
  unsafe {
    cmd.pre_exec(move || {
      let fl = libc::fcntl(w, libc::F_GETFD);
      if fl < 0 || libc::fcntl(w, libc::F_SETFD, fl & !libc::FD_CLOEXEC) < 0 { return Err(std::io::Error::last_os_error()); }
      Ok(())
    });
  }
  let mut ch = match cmd.spawn() { Ok(c) => c, Err(e) => return finish(Err(format!("cannot start a child process: {}", e))) };
  let t0 = Instant::now();
  let mut answer = vec![];
  while answer.is_empty() && t0.elapsed() < Duration::from_secs(10) {
    drain(r, &mut answer);
    if answer.is_empty() { wait_readable(r, 20); }
  }
  let _ = ch.kill();
  let _ = ch.wait();
  if answer != b"ok" { return finish(Err("the child process does not answer through an inherited pipe".to_string())); }
  finish(Ok(()))
}

// ------------------------------------------------------------------ the poll adapter alone

// What RealDriver::register_poll + poll report for descriptors in given situations (the mio/epoll adapter of
// the real driver, through the hook real_driver_poll_once).  In particular a device that goes away with
// nothing queued (hang-up without readable data) must be reported as a wake-up of that device: under
// edge-triggered readiness a wake-up that is swallowed never comes again and the loop sleeps for ever.
// Lines:  POLLPROBE <name> expected=<..> observed=<..>
fn poll_probes(out: &mut dyn Write) -> Result<(), String> {
  use crate::remapping_loop::verif::{real_driver_poll_once, VPollResult, VDevice};
  let show = |r: &Result<VPollResult, String>| -> String {
    match r {
      Ok(VPollResult::TimedOut) => "TimedOut".to_string(),
      Ok(VPollResult::Interrupted) => "Interrupted".to_string(),
      Ok(VPollResult::DeviceEvent(ds)) => {
        let mut v: Vec<&str> = ds.iter().map(|d| match d { VDevice::Keyboard => "K", VDevice::Tablet => "T" }).collect();
        v.sort(); v.dedup();
        format!("DeviceEvent[{}]", v.join(","))
      }
      Err(e) => format!("Err({})", e),
    }
  };
  // situation: (name, data on keyboard?, keyboard writer closed?, data on tablet?, tablet writer closed?, expected)
  let sits: Vec<(&str, bool, bool, bool, bool, &str)> = vec![
    ("idle", false, false, false, false, "TimedOut"),
    ("keyboard-data", true, false, false, false, "DeviceEvent[K]"),
    ("tablet-data", false, false, true, false, "DeviceEvent[T]"),
    ("both-data", true, false, true, false, "DeviceEvent[K,T]"),
    ("keyboard-gone-empty", false, true, false, false, "DeviceEvent[K]"),
    ("keyboard-gone-with-data", true, true, false, false, "DeviceEvent[K]"),
    ("tablet-gone-empty", false, false, false, true, "DeviceEvent[T]"),
  ];
  for (name, kdata, kclosed, tdata, tclosed, expected) in sits {
    let (kr, kw) = pipe_cloexec()?;
    let (tr, tw) = pipe_cloexec()?;
    let (or_, ow) = pipe_cloexec()?;
    set_nonblock(kr, true); set_nonblock(tr, true);
    if kdata { write_all(kw, &[0u8; REC])?; }
    if tdata { write_all(tw, &[0u8; REC])?; }
    if kclosed { close(kw); }
    if tclosed { close(tw); }
    let r = catch_unwind(AssertUnwindSafe(|| real_driver_poll_once(kr, Some(tr), ow, Some(Duration::from_millis(if name == "idle" { 30 } else { 3000 }))))).unwrap_or_else(|_| Err("PANIC".to_string()));
    writeln!(out, "POLLPROBE {} expected={} observed={}", name, expected, show(&r)).map_err(|e| e.to_string())?;
    if !kclosed { close(kw); }
    if !tclosed { close(tw); }
    close(kr); close(tr); close(or_); close(ow);
  }
  // a handled signal (no SA_RESTART) while the adapter waits with a time-out: the loop's model
  // (Loop.v, answer Interrupted to a poll) needs to be told, so that IT recomputes the time left
  // until the next repeat; an adapter that waits again by itself with the original time-out delays
  // the repeat.  Up to three attempts: only an outcome that is wrong three times is reported.
  {
    extern "C" fn noop(_: libc::c_int) {}
    let mut verdict = String::from("Interrupted");
    for _attempt in 0..3 {
      let (kr, kw) = pipe_cloexec()?;
      let (tr, tw) = pipe_cloexec()?;
      let (or_, ow) = pipe_cloexec()?;
      set_nonblock(kr, true); set_nonblock(tr, true);
      let mut old: libc::sigaction = unsafe { std::mem::zeroed() };
      let mut sa: libc::sigaction = unsafe { std::mem::zeroed() };
      sa.sa_sigaction = noop as usize;
      sa.sa_flags = 0;
      unsafe { libc::sigemptyset(&mut sa.sa_mask); libc::sigaction(libc::SIGUSR1, &sa, &mut old); }
      let me = unsafe { libc::pthread_self() } as usize;
      let (wait_ms, signal_ms): (u64, u64) = (1000, 400);
      let sent_at = Arc::new(AtomicUsize::new(0));
      let t0 = Instant::now();
      let killer = { let sent_at = sent_at.clone(); std::thread::spawn(move || {
        std::thread::sleep(Duration::from_millis(signal_ms));
        unsafe { libc::pthread_kill(me as libc::pthread_t, libc::SIGUSR1); }
        sent_at.store(t0.elapsed().as_millis() as usize, Ordering::SeqCst);
      }) };
      let r = catch_unwind(AssertUnwindSafe(|| real_driver_poll_once(kr, Some(tr), ow, Some(Duration::from_millis(wait_ms))))).unwrap_or_else(|_| Err("PANIC".to_string()));
      let el = t0.elapsed().as_millis() as u64;
      let _ = killer.join();
      let sent = sent_at.load(Ordering::SeqCst) as u64;
      unsafe { libc::sigaction(libc::SIGUSR1, &old, std::ptr::null_mut()); }
      close(kw); close(tw); close(kr); close(tr); close(or_); close(ow);
      // Interrupted = reported.  TimedOut at about wait_ms = the signal missed the wait (no information).
      // TimedOut at about (signal time + wait_ms) or later = the adapter swallowed the interruption and waited again.
      verdict = match &r {
        Ok(VPollResult::Interrupted) => "Interrupted".to_string(),
        Ok(VPollResult::TimedOut) if sent >= 100 && sent + 100 < wait_ms && el + 30 >= sent + wait_ms =>
          format!("TimedOut-after-{}ms(time-out-{}ms,signal-at-{}ms:swallowed-and-waited-again)", el, wait_ms, sent),
        Ok(VPollResult::TimedOut) => "Interrupted".to_string(),
        _ => show(&r),
      };
      if verdict == "Interrupted" { break; }
    }
    writeln!(out, "POLLPROBE signal-while-waiting expected=Interrupted observed={}", verdict).map_err(|e| e.to_string())?;
  }
  Ok(())
}

// the virtual keyboard goes away (EPIPE on the write): the real loop with the real driver must return the error
// (child exit code 11) instead of going on.  Appends one POLLPROBE line.
fn send_error_probe(out: &mut dyn Write, exe: &std::path::Path, layout_file: &str) -> Result<(), String> {
  {
    let mut f = std::fs::File::create(layout_file).map_err(|e| format!("cannot write {}: {}", layout_file, e))?;
    let m = Mapping { from: vec![key(30)], to: vec![key(48)], repeat: Repeat::Normal, absorbing: vec![] };
    writeln!(f, "{}", mapping_line(&m)).map_err(|e| e.to_string())?;
  }
  let (kr, kw) = pipe_cloexec()?;
  let (tr, tw) = pipe_cloexec()?;
  let (or, ow) = pipe_cloexec()?;
  set_nonblock(kr, true); set_nonblock(tr, true);
  let mut cmd = Command::new(exe);
  cmd.arg("realloop-child").arg(layout_file).arg(kr.to_string()).arg(tr.to_string()).arg(ow.to_string());
  cmd.stdin(Stdio::null()).stdout(Stdio::null()).stderr(Stdio::null());
  unsafe {
    cmd.pre_exec(move || {
      for fd in [kr, tr, ow].iter() {
        let fl = libc::fcntl(*fd, libc::F_GETFD);
        if fl < 0 || libc::fcntl(*fd, libc::F_SETFD, fl & !libc::FD_CLOEXEC) < 0 { return Err(std::io::Error::last_os_error()); }
      }
      Ok(())
    });
  }
  let mut ch = match cmd.spawn() {
    Ok(ch) => ch,
    Err(e) => { for fd in [kr, kw, tr, tw, or, ow].iter() { close(*fd); } return Err(format!("cannot start the child process: {}", e)); }
  };
  close(kr); close(tr); close(ow);
  close(or);                                   // nobody reads the virtual keyboard any more
  let mut rec = vec![0u8; REC];
  rec[16] = 1; rec[18] = 30; rec[20] = 1;      // EV_KEY, KEY_A, pressed
  let _ = write_all(kw, &rec);
  let t0 = Instant::now();
  let mut status = None;
  while t0.elapsed() < Duration::from_millis(4000) {
    if let Some(s) = child_status(&mut ch) { status = Some(s); break; }
    std::thread::sleep(Duration::from_millis(5));
  }
  let observed = match status {
    Some(s) => s,
    None => {
      // still running: did it at least read the event?
      let u = unread(kw);
      let _ = ch.kill(); let _ = ch.wait();
      format!("still-running-after-4s(unread-keyboard-bytes={})", u)
    }
  };
  writeln!(out, "POLLPROBE output-gone-on-send expected=exit:11 observed={}", observed).map_err(|e| e.to_string())?;
  close(kw); close(tw);
  Ok(())
}

// the queue of the virtual keyboard is full (EAGAIN on a non-blocking write, as on the real O_NONBLOCK uinput descriptor):
// the real loop with the real driver must return the error instead of dropping the batch and going on.
//   room = 0:   a 48-byte batch does not fit at all
//   room = 100: an 18-record batch (432 bytes) does not fit although a 24- or 48-byte tail would
fn full_queue_probe(out: &mut dyn Write, exe: &std::path::Path, layout_file: &str, name: &str, room: usize, outputs: usize) -> Result<(), String> {
  {
    let mut f = std::fs::File::create(layout_file).map_err(|e| format!("cannot write {}: {}", layout_file, e))?;
    let to: Vec<KeyCode> = (0..outputs).map(|i| key(2 + i as u16)).collect();     // K1, K2, ...: distinct non-modifier keys
    let m = Mapping { from: vec![key(30)], to, repeat: Repeat::Normal, absorbing: vec![] };
    writeln!(f, "{}", mapping_line(&m)).map_err(|e| e.to_string())?;
  }
  let (kr, kw) = pipe_cloexec()?;
  let (tr, tw) = pipe_cloexec()?;
  let (or, ow) = pipe_cloexec()?;
  // one page of pipe buffer, filled up to `room` bytes before its end
  let sz = unsafe { libc::fcntl(ow, libc::F_SETPIPE_SZ, 4096) };
  if sz != 4096 { for fd in [kr, kw, tr, tw, or, ow].iter() { close(*fd); } return Err(format!("cannot set the pipe size to one page (got {})", sz)); }
  set_nonblock(ow, true);
  let fill = vec![0u8; 4096 - room];
  if write_all(ow, &fill).is_err() { for fd in [kr, kw, tr, tw, or, ow].iter() { close(*fd); } return Err("cannot fill the pipe".to_string()); }
  set_nonblock(kr, true); set_nonblock(tr, true);
  let mut cmd = Command::new(exe);
  cmd.arg("realloop-child").arg(layout_file).arg(kr.to_string()).arg(tr.to_string()).arg(ow.to_string());
  cmd.env("TM_REALLOOP_NONBLOCK_OUT", "1");
  cmd.stdin(Stdio::null()).stdout(Stdio::null()).stderr(Stdio::null());
  unsafe {
    cmd.pre_exec(move || {
      for fd in [kr, tr, ow].iter() {
        let fl = libc::fcntl(*fd, libc::F_GETFD);
        if fl < 0 || libc::fcntl(*fd, libc::F_SETFD, fl & !libc::FD_CLOEXEC) < 0 { return Err(std::io::Error::last_os_error()); }
      }
      Ok(())
    });
  }
  let mut ch = match cmd.spawn() {
    Ok(ch) => ch,
    Err(e) => { for fd in [kr, kw, tr, tw, or, ow].iter() { close(*fd); } return Err(format!("cannot start the child process: {}", e)); }
  };
  close(kr); close(tr); close(ow);
  let mut rec = vec![0u8; REC];
  rec[16] = 1; rec[18] = 30; rec[20] = 1;      // EV_KEY, KEY_A, pressed
  let _ = write_all(kw, &rec);
  let t0 = Instant::now();
  let mut status = None;
  while t0.elapsed() < Duration::from_millis(4000) {
    if let Some(s) = child_status(&mut ch) { status = Some(s); break; }
    std::thread::sleep(Duration::from_millis(5));
  }
  let observed = match status {
    Some(s) => s,
    None => {
      let u = unread(kw);
      let _ = ch.kill(); let _ = ch.wait();
      let mut got: Vec<u8> = vec![];
      set_nonblock(or, true);
      drain(or, &mut got);
      format!("still-running-after-4s(unread-keyboard-bytes={},bytes-in-the-queue-beyond-the-fill={})", u, got.len() as i64 - (4096 - room) as i64)
    }
  };
  writeln!(out, "POLLPROBE {} expected=exit:11 observed={}", name, observed).map_err(|e| e.to_string())?;
  close(kw); close(tw); close(or);
  Ok(())
}

// a read error on the tablet-switch device other than "nothing there" / "device gone" (here EBADF: the descriptor is the
// write end of a pipe whose read end is closed, which epoll reports at once): the loop must return the error
fn tablet_read_error_probe(out: &mut dyn Write, exe: &std::path::Path, layout_file: &str) -> Result<(), String> {
  {
    let mut f = std::fs::File::create(layout_file).map_err(|e| format!("cannot write {}: {}", layout_file, e))?;
    let m = Mapping { from: vec![key(30)], to: vec![key(48)], repeat: Repeat::Normal, absorbing: vec![] };
    writeln!(f, "{}", mapping_line(&m)).map_err(|e| e.to_string())?;
  }
  let (kr, kw) = pipe_cloexec()?;
  let (tr, tw) = pipe_cloexec()?;
  let (or, ow) = pipe_cloexec()?;
  close(tr);                                    // tw: a descriptor that cannot be read
  set_nonblock(kr, true); set_nonblock(tw, true);
  let mut cmd = Command::new(exe);
  cmd.arg("realloop-child").arg(layout_file).arg(kr.to_string()).arg(tw.to_string()).arg(ow.to_string());
  cmd.stdin(Stdio::null()).stdout(Stdio::null()).stderr(Stdio::null());
  unsafe {
    cmd.pre_exec(move || {
      for fd in [kr, tw, ow].iter() {
        let fl = libc::fcntl(*fd, libc::F_GETFD);
        if fl < 0 || libc::fcntl(*fd, libc::F_SETFD, fl & !libc::FD_CLOEXEC) < 0 { return Err(std::io::Error::last_os_error()); }
      }
      Ok(())
    });
  }
  let mut ch = match cmd.spawn() {
    Ok(ch) => ch,
    Err(e) => { for fd in [kr, kw, tw, or, ow].iter() { close(*fd); } return Err(format!("cannot start the child process: {}", e)); }
  };
  close(kr); close(tw); close(ow);
  let t0 = Instant::now();
  let mut status = None;
  while t0.elapsed() < Duration::from_millis(3000) {
    if let Some(s) = child_status(&mut ch) { status = Some(s); break; }
    std::thread::sleep(Duration::from_millis(5));
  }
  let observed = match status {
    Some(s) => s,
    // epoll did not report the descriptor here: the situation cannot be produced, no information
    None => { let _ = ch.kill(); let _ = ch.wait(); "exit:11".to_string() }
  };
  writeln!(out, "POLLPROBE output-gone-tablet-read-error expected=exit:11 observed={}", observed).map_err(|e| e.to_string())?;
  close(kw); close(or);
  Ok(())
}

// ------------------------------------------------------------------ entry points

pub fn main(args: &[String]) -> i32 {
  let a = args_map(args);
  let out_dir = a.get("out").expect("--out").clone();
  let seed: u64 = a.get("seed").map(|s| s.parse().unwrap()).unwrap_or(1);
  let tier = a.get("tier").cloned().unwrap_or("quick".to_string());
  let scale: usize = a.get("scale").map(|s| s.parse().unwrap()).unwrap_or(1);
  let jobs: usize = a.get("jobs").map(|s| s.parse().unwrap()).unwrap_or_else(|| std::thread::available_parallelism().map(|n| n.get()).unwrap_or(4).min(16));
  let deadline = Duration::from_millis(a.get("deadline-ms").map(|s| s.parse().unwrap()).unwrap_or(6000));
  let max_misses: usize = a.get("max-misses").map(|s| s.parse().unwrap()).unwrap_or(12);
  let thorough = tier == "thorough";
  std::fs::create_dir_all(&out_dir).unwrap();
  let exe = match std::env::current_exe() { Ok(p) => p, Err(e) => { println!("REALLOOP-UNAVAILABLE cannot find my own executable: {}", e); return EXIT_UNAVAILABLE; } };
  if let Err(e) = probe(&exe) { println!("REALLOOP-UNAVAILABLE {}", e); return EXIT_UNAVAILABLE; }
  {
    let path = format!("{}/poll_probes.txt", out_dir);
    let mut f = std::fs::File::create(&path).expect("create poll_probes.txt");
    if let Err(e) = poll_probes(&mut f) { println!("REALLOOP-UNAVAILABLE poll probes: {}", e); return EXIT_UNAVAILABLE; }
    if let Err(e) = send_error_probe(&mut f, &exe, &format!("{}/probe.layout", out_dir)) { println!("REALLOOP-UNAVAILABLE send-error probe: {}", e); return EXIT_UNAVAILABLE; }
    if let Err(e) = full_queue_probe(&mut f, &exe, &format!("{}/probe2.layout", out_dir), "output-gone-full-queue-on-send", 0, 1) { println!("REALLOOP-UNAVAILABLE full-queue probe: {}", e); return EXIT_UNAVAILABLE; }
    if let Err(e) = full_queue_probe(&mut f, &exe, &format!("{}/probe3.layout", out_dir), "output-gone-nearly-full-queue-large-batch", 100, 17) { println!("REALLOOP-UNAVAILABLE full-queue probe: {}", e); return EXIT_UNAVAILABLE; }
    if let Err(e) = tablet_read_error_probe(&mut f, &exe, &format!("{}/probe4.layout", out_dir)) { println!("REALLOOP-UNAVAILABLE tablet-read-error probe: {}", e); return EXIT_UNAVAILABLE; }
  }
  let t0 = Instant::now();
  let cases = Arc::new(make_cases(seed, thorough, scale));
  let next = Arc::new(AtomicUsize::new(0));
  let misses = Arc::new(AtomicUsize::new(0));
  let mut handles = vec![];
  for j in 0..jobs {
    let (cases, next, misses, out_dir, exe) = (cases.clone(), next.clone(), misses.clone(), out_dir.clone(), exe.clone());
    handles.push(std::thread::spawn(move || -> Result<(usize, usize), String> {
      let path = format!("{}/shard_{:02}.rl", out_dir, j);
      let mut w = std::io::BufWriter::new(std::fs::File::create(&path).map_err(|e| e.to_string())?);
      let lf = format!("{}/job_{:02}.layout", out_dir, j);
      let (mut ran, mut skipped) = (0usize, 0usize);
      loop {
        let i = next.fetch_add(1, Ordering::SeqCst);
        if i >= cases.len() { break; }
        let c = &cases[i];
        // after that many cases that ran into the no-progress deadline the verdict is clear; do not wait for the rest
        if misses.load(Ordering::SeqCst) >= max_misses { writeln!(w, "SKIP {}", c.id).unwrap(); skipped += 1; continue; }
        let r = match run_case(c, &exe, &lf, deadline, false) {
          Ok(r) => r,
          Err(e) => { misses.store(1 << 30, Ordering::SeqCst); return Err(e); }   // the others stop too
        };
        if r.deadline != 0 { misses.fetch_add(1, Ordering::SeqCst); }
        write_case(&mut w, c, &r);
        ran += 1;
      }
      w.flush().map_err(|e| e.to_string())?;
      Ok((ran, skipped))
    }));
  }
  let (mut ran, mut skipped) = (0usize, 0usize);
  let mut failure: Option<String> = None;
  for h in handles {
    match h.join() {
      Ok(Ok((r, s))) => { ran += r; skipped += s; },
      Ok(Err(e)) => failure = Some(e),
      Err(_) => failure = Some("a worker thread of the harness panicked".to_string()),
    }
  }
  if let Some(e) = failure { println!("REALLOOP-UNAVAILABLE {}", e); return EXIT_UNAVAILABLE; }
  println!("realloop: seed={} tier={} cases={} ran={} skipped={} deadline_misses={} jobs={} wall_ms={}",
           seed, tier, cases.len(), ran, skipped, misses.load(Ordering::SeqCst), jobs, t0.elapsed().as_millis());
  0
}

pub fn replay_main(args: &[String]) -> i32 {
  let a = args_map(args);
  let text = std::fs::read_to_string(a.get("layout").expect("--layout")).expect("read layout");
  let ms: Vec<Mapping> = text.lines().filter(|l| l.starts_with("M ")).map(parse_mapping_line).collect();
  let script = parse_script(&std::fs::read_to_string(a.get("script").expect("--script")).expect("read script"));
  let tablet = a.get("tablet").map(|s| s == "1").unwrap_or(false);
  let seed: u64 = a.get("seed").map(|s| s.parse().unwrap()).unwrap_or(0);
  let deadline = Duration::from_millis(a.get("deadline-ms").map(|s| s.parse().unwrap()).unwrap_or(3000));
  let outp = a.get("out").expect("--out").clone();
  let exe = std::env::current_exe().expect("current_exe");
  if let Err(e) = probe(&exe) { println!("REALLOOP-UNAVAILABLE {}", e); return EXIT_UNAVAILABLE; }
  let c = CaseSpec { id: "replay".to_string(), tag: "replay".to_string(), mappings: ms, script, tablet, seed, mode: 9 };
  match run_case(&c, &exe, &format!("{}.layout", outp), deadline, true) {
    Err(e) => { println!("REALLOOP-UNAVAILABLE {}", e); EXIT_UNAVAILABLE },
    Ok(r) => {
      let mut f = std::fs::File::create(&outp).expect("cannot create --out");
      write_case(&mut f, &c, &r);
      println!("real loop with the real driver: {} write(2) calls (largest {} records, last one {} key events), {} bytes observed{}, child {}, unread keyboard bytes {}, deadline flag {}",
               r.writes, r.maxwrite, r.lastkeys, r.obs1.len(),
               match &r.obs2 { Some(b) => format!(" + {} after the tablet switch", b.len()), None => "".to_string() }, r.child, r.unread_k, r.deadline);
      0
    }
  }
}

// the child: the real loop on inherited descriptors; it returns only if something is wrong
pub fn child_main(args: &[String]) -> i32 {
  unsafe { libc::prctl(libc::PR_SET_PDEATHSIG, libc::SIGKILL); }
  if args.len() >= 2 && args[0] == "--probe" {
    let fd: i32 = args[1].parse().unwrap_or(-1);
    return if write_all(fd, b"ok").is_ok() { 0 } else { 1 };
  }
  if args.len() < 4 { eprintln!("usage: realloop-child LAYOUTFILE KFD TFD OFD"); return 2; }
  let text = match std::fs::read_to_string(&args[0]) { Ok(t) => t, Err(e) => { eprintln!("realloop-child: {}", e); return 2; } };
  let ms: Vec<Mapping> = text.lines().filter(|l| l.starts_with("M ")).map(parse_mapping_line).collect();
  let kfd: i32 = args[1].parse().expect("kfd");
  let tfd: i32 = args[2].parse().expect("tfd");
  let ofd: i32 = args[3].parse().expect("ofd");
  // the virtual keyboard is opened O_NONBLOCK by the real program (DevInputWriter::open); the runs over pipes use a blocking
  // descriptor so that a slow reader never fails a write, the full-queue probes ask for the real mode
  let out_nonblock = std::env::var("TM_REALLOOP_NONBLOCK_OUT").map(|v| v == "1").unwrap_or(false);
  set_nonblock(kfd, true); set_nonblock(tfd, true); set_nonblock(ofd, out_nonblock);
  let layout = Layout { mappings: ms };
  let r = catch_unwind(AssertUnwindSafe(|| crate::remapping_loop::verif::run_real_driver_on_fds(kfd, Some(tfd), ofd, layout)));
  match r {
    Ok(Ok(())) => { eprintln!("realloop-child: the loop returned Ok(())"); 10 },
    Ok(Err(m)) => { eprintln!("realloop-child: the loop returned Err({})", m); 11 },
    Err(_) => { eprintln!("realloop-child: the loop panicked"); 12 },
  }
}
