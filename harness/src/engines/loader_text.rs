// loader_text: the JSON *text* layer of the loader engine.  Generates byte
// strings, runs the REAL serde_json readers on them (from_slice, from_reader and,
// when the bytes are UTF-8, from_str — all into serde_json::Value) and records
// the outcome for ocaml/loader_check.ml, which runs the extracted Coq reader
// JsonText.parse_text on the same bytes:
//   TCASE id kind / X hex-bytes / V OK value + VP pretty-text + VC compact-text | V ERR / [A note] / END
// and, for texts of layout files, the REAL load_layout_from_file on a file with
// exactly these bytes, compared with the extracted JsonText.load_text:
//   ... / LF OK n + n "M" lines | LF ERR kind | LF PANIC / END
// Kinds (mostly valid inputs; the distribution is printed into the statistics):
//   pretty compact   serde_json's own printers on generated values (floats included)
//   ws               a hand-written emitter: random whitespace, random escape spellings
//   number           the number grammar: limits of i64/u64, long integers, fractions, exponents
//   escape           every escape, surrogate pairs, lone surrogates, bad escapes, control bytes
//   dupkeys          objects with repeated and unsorted keys
//   deep             nesting around the recursion limit (120..=131), arrays, objects, mixed
//   mutated          byte-level mutations: truncation, trailing garbage, insertions, deletions
//   utf8             valid and invalid UTF-8 sequences inside and outside strings
//   errtext          layout files with one syntax error, non-ASCII characters (2-4 bytes) before, at and after
//                    the error byte, errors far into a long line and on later lines
//   layouttext       saved layout files and shorthand layout files re-spaced, compacted and mutated
// EVERY text is also written to a file and read by the real load_layout_from_file under catch_unwind (LF).
use crate::util::*;
use crate::keys::Layout;
use serde_json::{json, Value, Map, Number};
use std::collections::BTreeMap;
use std::fmt::Write as FmtWrite;
use std::panic::{catch_unwind, AssertUnwindSafe};

pub struct TextStats { pub by_kind: BTreeMap<String, (usize, usize)>, pub readers_disagree: usize, pub bytes: usize, pub layout_loads: (usize, usize, usize) }

impl TextStats { pub fn new() -> TextStats { TextStats { by_kind: BTreeMap::new(), readers_disagree: 0, bytes: 0, layout_loads: (0, 0, 0) } } }

pub fn hex(bytes: &[u8]) -> String {
  const D: &[u8; 16] = b"0123456789abcdef";
  let mut s = String::with_capacity(bytes.len() * 2);
  for b in bytes { s.push(D[(b >> 4) as usize] as char); s.push(D[(b & 15) as usize] as char); }
  s
}

// (re)write the scratch layout file without truncating it to zero first (on a file system mounted with `discard`
// every truncation of a block is a TRIM): overwrite from the start, then set the length
pub fn put_file(path: &str, bytes: &[u8]) -> bool {
  use std::io::Write;
  match std::fs::OpenOptions::new().write(true).create(true).open(path) {
    Ok(mut f) => f.write_all(bytes).is_ok() && f.set_len(bytes.len() as u64).is_ok(),
    Err(_) => false
  }
}

// one line: '\n' and '\\' escaped (serde_json's output never contains a raw '\r')
pub fn esc_line(s: &str) -> String {
  let mut o = String::with_capacity(s.len() + 16);
  for c in s.chars() { match c { '\n' => o.push_str("\\n"), '\\' => o.push_str("\\\\"), '\r' => o.push_str("\\r"), c => o.push(c) } }
  o
}

// ---------------------------------------------------------------- values

const STR_POOL: &[&str] = &["", "a", "key", "from", "to", "mappings", "Special", "é", "\u{1F600}", "\"", "\\", "\u{8}\u{c}\n\r\t", "\u{0}", "\u{1}", "\u{1f}", " ",
  "\u{7f}", "\u{80}", "\u{7ff}", "\u{800}", "\u{fff}", "\u{1000}", "\u{cfff}", "\u{d000}", "\u{d7ff}", "\u{e000}", "\u{ffff}", "\u{10000}", "\u{3ffff}", "\u{40000}", "\u{fffff}", "\u{100000}",
  "\u{10ffff}", "/", "a/b", "\u{feff}", "x\"y\\z", "\u{2028}", "ab\u{0}cd"];

fn gen_string(rng: &mut Rng) -> String {
  match rng.below(4) {
    0 => rng.pick(STR_POOL).to_string(),
    1 => { let n = rng.below(9); (0..n).map(|_| (32u8 + rng.below(95) as u8) as char).collect() },
    2 => {
      let n = rng.below(6); let mut s = String::new();
      for _ in 0..n {
        let c = match rng.below(6) { 0 => rng.below(0x80) as u32, 1 => 0x80 + rng.below(0x780) as u32, 2 => 0x800 + rng.below(0xF800) as u32, 3 => 0x10000 + rng.below(0x100000) as u32, 4 => rng.below(0x20) as u32, _ => 97 + rng.below(26) as u32 };
        if let Some(ch) = std::char::from_u32(c) { s.push(ch); }
      }
      s
    },
    _ => { let mut s = rng.pick(STR_POOL).to_string(); s.push_str(*rng.pick(STR_POOL)); s }
  }
}

fn gen_number(rng: &mut Rng, floats: bool) -> Value {
  match rng.below(if floats { 8 } else { 5 }) {
    0 => json!(rng.below(2000) as i64 - 1000),
    1 => { let c: &[i64] = &[0, 1, -1, 9, 10, 2147483647, -2147483648, 4294967296, 9223372036854775807, -9223372036854775808, 9223372036854775806, -9223372036854775807, 999999999999999999, 1000000000000000000]; json!(*rng.pick(c)) },
    2 => json!(rng.next() as i64),
    3 => json!((rng.next() >> (rng.below(64) as u32)) as i64),
    4 => json!(-((rng.next() >> (1 + rng.below(63) as u32)) as i64)),
    5 => { let c: &[u64] = &[9223372036854775808, 18446744073709551615, 9223372036854775809, 18446744073709551614]; json!(*rng.pick(c)) },
    6 => { let c: &[f64] = &[1.5, 0.0, -0.0, 1e300, 180.0, 2147483648.5, 1e-9, 1.7976931348623157e308, 5e-324, 1e22, 1e23, 123456789.125, -2.5e-7, 9007199254740993.0, 1.8446744073709552e19]; json!(*rng.pick(c)) },
    _ => { let f = f64::from_bits(rng.next()); if f.is_finite() { json!(f) } else { json!(0.5) } },
  }
}

fn gen_value(rng: &mut Rng, depth: usize, floats: bool) -> Value {
  match rng.below(if depth >= 4 { 7 } else { 12 }) {
    0 => Value::Null,
    1 => json!(rng.chance(1, 2)),
    2 | 3 => gen_number(rng, floats),
    4 | 5 | 6 => json!(gen_string(rng)),
    7 => json!([]),
    8 => json!({}),
    9 | 10 => { let n = rng.below(4); Value::Array((0..n).map(|_| gen_value(rng, depth + 1, floats)).collect()) },
    _ => { let n = rng.below(4); let mut m = Map::new(); for _ in 0..n { m.insert(gen_string(rng), gen_value(rng, depth + 1, floats)); } Value::Object(m) }
  }
}

// ---------------------------------------------------------------- a hand-written emitter

struct Style { ws: u64, esc: u64 }          // probabilities in 1/16

fn put_ws(rng: &mut Rng, st: &Style, out: &mut Vec<u8>) {
  if rng.next() % 16 < st.ws { let n = 1 + rng.below(3); for _ in 0..n { out.push(*rng.pick(&[b' ', b'\n', b'\t', b'\r', b' '])); } }
}

fn put_hex4(rng: &mut Rng, n: u32, out: &mut Vec<u8>) {
  out.extend_from_slice(b"\\u");
  let mode = rng.below(3);
  for sh in [12u32, 8, 4, 0] {
    let d = ((n >> sh) & 15) as u8;
    let c = if d < 10 { b'0' + d } else if mode == 0 || (mode == 2 && rng.chance(1, 2)) { b'a' + d - 10 } else { b'A' + d - 10 };
    out.push(c);
  }
}

fn put_string(rng: &mut Rng, st: &Style, s: &str, out: &mut Vec<u8>) {
  out.push(b'"');
  for ch in s.chars() {
    let c = ch as u32;
    let must = c < 0x20 || ch == '"' || ch == '\\';
    if must || rng.next() % 16 < st.esc {
      let short: Option<u8> = match ch { '"' => Some(b'"'), '\\' => Some(b'\\'), '/' => Some(b'/'), '\u{8}' => Some(b'b'), '\u{c}' => Some(b'f'), '\n' => Some(b'n'), '\r' => Some(b'r'), '\t' => Some(b't'), _ => None };
      match short {
        Some(e) if rng.chance(3, 4) => { out.push(b'\\'); out.push(e); },
        _ => {
          if c < 0x10000 { put_hex4(rng, c, out); }
          else { let v = c - 0x10000; put_hex4(rng, 0xD800 + (v >> 10), out); put_hex4(rng, 0xDC00 + (v & 0x3FF), out); }
        }
      }
    } else { let mut b = [0u8; 4]; out.extend_from_slice(ch.encode_utf8(&mut b).as_bytes()); }
  }
  out.push(b'"');
}

fn emit(rng: &mut Rng, st: &Style, v: &Value, out: &mut Vec<u8>) {
  match v {
    Value::Null => out.extend_from_slice(b"null"),
    Value::Bool(true) => out.extend_from_slice(b"true"),
    Value::Bool(false) => out.extend_from_slice(b"false"),
    Value::Number(n) => out.extend_from_slice(n.to_string().as_bytes()),
    Value::String(s) => put_string(rng, st, s, out),
    Value::Array(a) => {
      out.push(b'['); put_ws(rng, st, out);
      for (i, x) in a.iter().enumerate() { if i > 0 { out.push(b','); put_ws(rng, st, out); } emit(rng, st, x, out); put_ws(rng, st, out); }
      out.push(b']');
    },
    Value::Object(m) => {
      out.push(b'{'); put_ws(rng, st, out);
      for (i, (k, x)) in m.iter().enumerate() {
        if i > 0 { out.push(b','); put_ws(rng, st, out); }
        put_string(rng, st, k, out); put_ws(rng, st, out); out.push(b':'); put_ws(rng, st, out); emit(rng, st, x, out); put_ws(rng, st, out);
      }
      out.push(b'}');
    }
  }
}

// ---------------------------------------------------------------- number texts

fn digits(rng: &mut Rng, n: usize, first_nonzero: bool) -> String {
  let mut s = String::new();
  for i in 0..n { let d = if i == 0 && first_nonzero { 1 + rng.below(9) } else { rng.below(10) }; s.push((b'0' + d as u8) as char); }
  s
}

fn gen_number_text(rng: &mut Rng) -> String {
  const INTS: &[&str] = &["0", "1", "9", "10", "9223372036854775807", "9223372036854775808", "9223372036854775809", "18446744073709551615", "18446744073709551616",
    "18446744073709551614", "1844674407370955161", "1844674407370955162", "184467440737095516150", "99999999999999999999", "100000000000000000000",
    "17976931348623157", "17976931348623158", "17976931348623159", "179769313486231570", "4294967296", "2147483648", "00", "01", "007", ""];
  let mut s = String::new();
  if rng.chance(2, 5) { s.push('-'); }
  match rng.below(5) {
    0 | 1 => s.push_str(*rng.pick(INTS)),
    2 => { let n = 1 + rng.below(19); s.push_str(&digits(rng, n, true)); },
    3 => { let n = 18 + rng.below(25); s.push_str(&digits(rng, n, true)); },
    _ => { let n = 300 + rng.below(12); s.push_str(&digits(rng, n, true)); },
  }
  if rng.chance(2, 5) {
    s.push('.');
    match rng.below(6) { 0 => {}, 1 => s.push('0'), 2 => { let n = 1 + rng.below(5); s.push_str(&digits(rng, n, false)); }, 3 => { let n = 15 + rng.below(12); s.push_str(&digits(rng, n, false)); },
      4 => { let n = 300 + rng.below(30); s.push_str(&"0".repeat(n)); s.push_str(&digits(rng, 3, true)); }, _ => { let n = 1 + rng.below(330); s.push_str(&digits(rng, n, false)); } }
  }
  if rng.chance(2, 5) {
    s.push(if rng.chance(1, 2) { 'e' } else { 'E' });
    match rng.below(4) { 0 => s.push('+'), 1 => s.push('-'), _ => {} }
    const EXPS: &[&str] = &["0", "1", "2", "10", "22", "23", "290", "291", "292", "293", "300", "307", "308", "309", "310", "323", "324", "325", "400", "2147483647", "2147483648", "99999999999", "", "007", "0308"];
    if rng.chance(1, 2) { s.push_str(*rng.pick(EXPS)); } else { let n = rng.below(4); s.push_str(&digits(rng, n, false)); }
  }
  if rng.chance(1, 12) { s.push(*rng.pick(&['.', 'e', '-', '+', 'x', '0'])); }
  s
}

// ---------------------------------------------------------------- escape texts

fn gen_escape_text(rng: &mut Rng) -> Vec<u8> {
  const GOOD: &[&str] = &["\\\"", "\\\\", "\\/", "\\b", "\\f", "\\n", "\\r", "\\t", "\\u0000", "\\u001f", "\\u0041", "\\u00e9", "\\u00E9", "\\u07ff", "\\u0800", "\\ud7ff", "\\ue000", "\\uffff", "\\uFFFF",
    "\\ud800\\udc00", "\\udbff\\udfff", "\\uD83D\\uDE00", "\\ud83d\\ude00", "\\uDBFF\\uDC00", "a", "z", " ", "é", "\u{1F600}", "\u{7f}", "/", "\\u002f", "\\u0022", "\\u005c", "\\u005C"];
  const BAD: &[&str] = &["\\ud800", "\\udc00", "\\udfff", "\\udbff", "\\ud800\\u0041", "\\ud800\\ud800", "\\ud800\\n", "\\ud800x", "\\ud800\\", "\\ud800\\u", "\\ud800\\udc0", "\\ud800\\udbff\\udc00", "\\udc00\\ud800",
    "\\u12", "\\u", "\\u12G4", "\\u 123", "\\u+123", "\\U0041", "\\a", "\\x41", "\\0", "\\'", "\\ ", "\\", "\u{1}", "\u{1f}", "\n", "\t", "\r", "\u{0}", "\\u00", "\\ud83d\\ude0", "\\ud83d\\uDE0G"];
  let mut out: Vec<u8> = vec![];
  let wrap = rng.below(3);
  if wrap == 1 { out.extend_from_slice(b"["); } else if wrap == 2 { out.extend_from_slice(b"{\"k\":"); }
  out.push(b'"');
  let n = 1 + rng.below(5);
  let bad_at = if rng.chance(1, 4) { Some(rng.below(n)) } else { None };
  for i in 0..n {
    if Some(i) == bad_at { out.extend_from_slice((*rng.pick(BAD)).as_bytes()); } else { out.extend_from_slice((*rng.pick(GOOD)).as_bytes()); }
  }
  out.push(b'"');
  if wrap == 1 { out.extend_from_slice(b"]"); } else if wrap == 2 { out.extend_from_slice(b"}"); }
  out
}

// ---------------------------------------------------------------- duplicate keys

fn gen_dupkeys_text(rng: &mut Rng) -> Vec<u8> {
  let st = Style { ws: rng.below(6) as u64, esc: rng.below(5) as u64 };
  let n = 2 + rng.below(5);
  let pool: Vec<String> = (0..(1 + rng.below(3))).map(|_| gen_string(rng)).collect();
  let mut out = vec![b'{'];
  for i in 0..n {
    if i > 0 { out.push(b','); }
    put_ws(rng, &st, &mut out);
    let k = if rng.chance(2, 3) { rng.pick(&pool).clone() } else { gen_string(rng) };
    put_string(rng, &st, &k, &mut out); put_ws(rng, &st, &mut out); out.push(b':');
    let v = if rng.chance(1, 4) {
      // a nested object with duplicates of its own
      let mut inner = vec![b'{'];
      for j in 0..(1 + rng.below(3)) { if j > 0 { inner.push(b','); } { let kk = rng.pick(&pool).clone(); put_string(rng, &st, &kk, &mut inner); }; inner.push(b':'); inner.extend_from_slice(format!("{}", i * 10 + j).as_bytes()); }
      inner.push(b'}'); inner
    } else { let mut t = vec![]; let gv = gen_value(rng, 3, false); emit(rng, &st, &gv, &mut t); t };
    out.extend_from_slice(&v);
  }
  put_ws(rng, &st, &mut out);
  out.push(b'}');
  out
}

// ---------------------------------------------------------------- deep nesting

fn deep_texts() -> Vec<Vec<u8>> {
  let mut v = vec![];
  for d in 120usize..=131 {
    v.push(("[".repeat(d) + &"]".repeat(d)).into_bytes());
    v.push(("[".repeat(d) + "1" + &"]".repeat(d)).into_bytes());
    v.push(("{\"a\":".repeat(d) + "null" + &"}".repeat(d)).into_bytes());
    v.push(("{\"a\":".repeat(d - 1) + "{}" + &"}".repeat(d - 1)).into_bytes());
    v.push(("[ ".repeat(d) + &" ]".repeat(d)).into_bytes());
    let mut s = String::new(); for i in 0..d { s.push_str(if i % 2 == 0 { "[" } else { "{\"k\":" }); } s.push_str("\"x\""); for i in (0..d).rev() { s.push_str(if i % 2 == 0 { "]" } else { "}" }); }
    v.push(s.into_bytes());
    // wide and deep: the limit is on nesting, not on size
    v.push(("[[],".repeat(d) + "[]" + &"]".repeat(d)).into_bytes());
    // beyond the limit but never closed / garbage after the limit
    v.push("[".repeat(d).into_bytes());
  }
  v
}

// ---------------------------------------------------------------- mutations

fn mutate_bytes(rng: &mut Rng, b: &mut Vec<u8>) -> &'static str {
  const INS: &[u8] = b"{}[]:,\"\\ \n\t\r0123456789-+.eEnulltruefalse/\x00\x01\x1f\x7f\x80\xbf\xc3\xe2\xf0\xff";
  if b.is_empty() { b.push(*rng.pick(INS)); return "insert"; }
  match rng.below(9) {
    0 | 1 => { let n = rng.below(b.len()); b.truncate(n); "truncate" },
    2 => { let n = 1 + rng.below(4); for _ in 0..n { b.push(*rng.pick(INS)); } "trailing" },
    3 => { for _ in 0..(1 + rng.below(3)) { b.push(*rng.pick(b" \n\t\r")); } "trailing-ws" },
    4 => { let i = rng.below(b.len()); b.remove(i); "delete" },
    5 => { let i = rng.below(b.len() + 1); b.insert(i, *rng.pick(INS)); "insert" },
    6 => { let i = rng.below(b.len()); b[i] = *rng.pick(INS); "replace" },
    7 => { let i = rng.below(b.len()); let c = b[i]; b.insert(i, c); "duplicate" },
    _ => { if b.len() >= 2 { let i = rng.below(b.len() - 1); b.swap(i, i + 1); } "swap" },
  }
}

// ---------------------------------------------------------------- UTF-8

fn gen_utf8_text(rng: &mut Rng) -> Vec<u8> {
  const SEQS: &[&[u8]] = &[b"\x7f", b"\xc2\x80", b"\xdf\xbf", b"\xe0\xa0\x80", b"\xe1\x80\x80", b"\xec\xbf\xbf", b"\xed\x80\x80", b"\xed\x9f\xbf", b"\xee\x80\x80", b"\xef\xbf\xbf",
    b"\xf0\x90\x80\x80", b"\xf1\x80\x80\x80", b"\xf3\xbf\xbf\xbf", b"\xf4\x80\x80\x80", b"\xf4\x8f\xbf\xbf", b"\xef\xbb\xbf",
    // invalid
    b"\x80", b"\xbf", b"\xc0\x80", b"\xc1\xbf", b"\xc2", b"\xc2\x7f", b"\xc2\xc0", b"\xe0\x80\x80", b"\xe0\x9f\xbf", b"\xe0\xa0", b"\xe1\x80", b"\xe1\x80\x7f", b"\xed\xa0\x80", b"\xed\xbf\xbf",
    b"\xf0\x80\x80\x80", b"\xf0\x8f\xbf\xbf", b"\xf0\x90\x80", b"\xf4\x90\x80\x80", b"\xf5\x80\x80\x80", b"\xf8\x88\x80\x80\x80", b"\xfe", b"\xff", b"\xf1\x80\x80", b"\xe2\x82", b"\xf0\x9f\x98"];
  let mut out: Vec<u8> = vec![];
  let pos = rng.below(8);          // mostly inside a string
  if pos == 0 { out.extend_from_slice(*rng.pick(SEQS)); }
  if rng.chance(1, 2) { out.push(b'['); }
  let open = out.last() == Some(&b'[');
  out.push(b'"');
  let n = 1 + rng.below(4);
  for _ in 0..n {
    if rng.chance(1, 3) { out.extend_from_slice(b"ab"); }
    if rng.chance(3, 4) { let k = rng.below(16); out.extend_from_slice(SEQS[k]); } else { out.extend_from_slice(*rng.pick(SEQS)); }
    if rng.chance(1, 6) { out.extend_from_slice(b"\\u00e9"); }
  }
  out.push(b'"');
  if pos == 1 { out.extend_from_slice(*rng.pick(SEQS)); }
  if open { out.push(b']'); }
  if pos == 2 { out.extend_from_slice(*rng.pick(SEQS)); }
  out
}

// ---------------------------------------------------------------- malformed layout files

// spans (start of content, end of content) of the string literals of a JSON text
fn string_spans(t: &[u8]) -> Vec<(usize, usize)> {
  let mut v = vec![]; let mut i = 0;
  while i < t.len() {
    if t[i] == b'"' {
      let st = i + 1; let mut j = st;
      while j < t.len() && t[j] != b'"' { if t[j] == b'\\' { j += 1; } j += 1; }
      v.push((st, j.min(t.len()))); i = j + 1;
    } else { i += 1; }
  }
  v
}

// a layout text with ONE syntax error, non-ASCII characters (2, 3, 4 bytes) directly before, at and after the
// byte of the error; long single lines (compact bases) and errors on later lines (pretty bases)
fn gen_errtext(rng: &mut Rng, base: &[u8]) -> Vec<u8> {
  const NA: &[&str] = &["é", "ß", "€", "中", "\u{1F600}", "\u{10FFFF}", "\u{7ff}", "\u{800}", "éé", "€\u{1F600}", "\u{1F600}é€", ""];
  const BAD_IN_STRING: &[&[u8]] = &[b"\\q", b"\x01", b"\\u12", b"\\ud800", b"\\udc00x", b"\n", b"\t", b"\\u00zz", b"\\ud83d\\u0041", b"\\"];
  const BAD_OUTSIDE: &[&[u8]] = &[b"x", b",", b"}", b"]", b":", b"\x01", b"tru", b"01", b"-", b"1.", b"\"", b"\\", b"'", b"\xc3\xa9", b"\xf0\x9f\x98\x80", b"\xe2\x82\xac", b"\xff", b"//", b"nul"];
  let mut t = base.to_vec();
  let spans = string_spans(&t);
  // prefer errors far from the start: later lines / column > 40
  let far = |rng: &mut Rng, n: usize| -> usize { if n == 0 { 0 } else if rng.chance(3, 4) { n / 2 + rng.below(n - n / 2) } else { rng.below(n) } };
  match rng.below(6) {
    0 | 1 if !spans.is_empty() => {
      // inside a string: <non-ASCII> <bad> <non-ASCII>
      let (st, en) = spans[far(rng, spans.len())];
      let mut ins: Vec<u8> = vec![]; ins.extend_from_slice((*rng.pick(NA)).as_bytes()); ins.extend_from_slice(*rng.pick(BAD_IN_STRING)); ins.extend_from_slice((*rng.pick(NA)).as_bytes());
      let at = if rng.chance(1, 2) { st } else { en };
      t.splice(at..at, ins);
    },
    2 if !spans.is_empty() => {
      // a string made non-ASCII, then a stray token directly after its closing quote
      let (st, en) = spans[far(rng, spans.len())];
      let tail: Vec<u8> = (*rng.pick(BAD_OUTSIDE)).to_vec();
      if en < t.len() { t.splice(en + 1..en + 1, tail); }
      t.splice(st..st, (*rng.pick(NA)).as_bytes().to_vec());
    },
    3 if !spans.is_empty() => {
      // truncated directly after (or in the middle of) a multi-byte character
      let (st, _) = spans[far(rng, spans.len())];
      let na = (*rng.pick(NA)).as_bytes().to_vec(); let cut = if na.is_empty() || rng.chance(1, 2) { na.len() } else { 1 + rng.below(na.len()) };
      t.truncate(st); t.extend_from_slice(&na[..cut.min(na.len())]);
    },
    4 => {
      // raw non-ASCII / garbage between tokens
      let n = t.len(); let mut at = far(rng, n);
      while at < n && (t[at] & 0xC0) == 0x80 { at += 1; }
      let mut ins: Vec<u8> = (*rng.pick(BAD_OUTSIDE)).to_vec(); if rng.chance(1, 2) { ins.extend_from_slice((*rng.pick(NA)).as_bytes()); }
      t.splice(at..at, ins);
    },
    _ => {
      // non-ASCII around a deleted structural character
      let n = t.len(); let start = far(rng, n);
      if let Some(off) = t[start..].iter().position(|b| b"{}[]:,".contains(b)) {
        let at = start + off; let mut ins: Vec<u8> = vec![b'"']; ins.extend_from_slice((*rng.pick(NA)).as_bytes()); ins.push(b'"');
        t.splice(at..at + 1, ins);
      } else { t.extend_from_slice("é}".as_bytes()); }
    }
  }
  t
}

// ---------------------------------------------------------------- running the real readers

pub fn real_parse(bytes: &[u8]) -> (Option<Value>, Option<String>) {
  let r_slice: Option<Value> = catch_unwind(AssertUnwindSafe(|| serde_json::from_slice::<Value>(bytes).ok())).unwrap_or(None);
  let r_reader: Option<Value> = catch_unwind(AssertUnwindSafe(|| serde_json::from_reader::<&[u8], Value>(bytes).ok())).unwrap_or(None);
  let mut note = None;
  if r_slice != r_reader { note = Some("from_slice-and-from_reader-disagree".to_string()); }
  if let Ok(s) = std::str::from_utf8(bytes) {
    let r_str: Option<Value> = catch_unwind(AssertUnwindSafe(|| serde_json::from_str::<Value>(s).ok())).unwrap_or(None);
    if r_str != r_slice { note = Some("from_str-and-from_slice-disagree".to_string()); }
  }
  (r_slice, note)
}

pub struct TextSink<'a> { pub next_id: usize, pub stats: TextStats, pub tmp: String, pub write: &'a mut dyn FnMut(&[u8], &str) }

impl<'a> TextSink<'a> {
  fn case(&mut self, kind: &str, bytes: &[u8], as_layout_file: bool) {
    let id = self.next_id; self.next_id += 1;
    let mut rec = String::new();
    let _ = writeln!(rec, "TCASE {} {}", id, kind);
    let _ = writeln!(rec, "X {}", hex(bytes));
    let (r, note) = real_parse(bytes);
    let e = self.stats.by_kind.entry(kind.to_string()).or_insert((0, 0));
    match &r {
      Some(v) => {
        e.0 += 1; let mut j = String::new(); super::enc_value(v, &mut j); let _ = writeln!(rec, "V OK{}", j);
        // what the real printers write for the Value just read (compared with print_pretty / print_compact)
        if let Ok(p) = serde_json::to_string_pretty(v) { let _ = writeln!(rec, "VP {}", esc_line(&p)); }
        if let Ok(p) = serde_json::to_string(v) { let _ = writeln!(rec, "VC {}", esc_line(&p)); }
      },
      None => { e.1 += 1; let _ = writeln!(rec, "V ERR"); }
    }
    if let Some(n) = note { self.stats.readers_disagree += 1; let _ = writeln!(rec, "A {}", n); }
    self.stats.bytes += bytes.len();
    if as_layout_file {
      // exactly these bytes as a layout file, read the way the service reads /etc/totalmapper.json
      let path = self.tmp.clone();
      if put_file(&path, bytes) {
        let r3 = catch_unwind(AssertUnwindSafe(|| crate::layout_loading::load_layout_from_file(&path)));
        let o3 = match r3 { Err(_) => super::Outcome::Panic, Ok(Err(e)) => super::Outcome::Err(e), Ok(Ok(l3)) => super::Outcome::Ok(l3) };
        match &o3 { super::Outcome::Ok(_) => self.stats.layout_loads.0 += 1, super::Outcome::Err(_) => self.stats.layout_loads.1 += 1, super::Outcome::Panic => self.stats.layout_loads.2 += 1 }
        super::Sink::outcome_lines(&o3, "LF", &mut rec);
      }
    }
    let _ = writeln!(rec, "END");
    (self.write)(bytes, &rec);
  }
}

// re-space a JSON text: whitespace only between tokens (outside strings)
pub fn respace(rng: &mut Rng, text: &[u8], compact: bool) -> Vec<u8> {
  let mut out = vec![]; let mut in_str = false; let mut esc = false;
  for &b in text {
    if in_str { out.push(b); if esc { esc = false; } else if b == b'\\' { esc = true; } else if b == b'"' { in_str = false; } continue; }
    match b {
      b' ' | b'\n' | b'\t' | b'\r' => { if !compact && rng.chance(1, 2) { out.push(*rng.pick(&[b' ', b'\n', b'\t', b'\r'])); } },
      b'"' => { in_str = true; out.push(b); },
      b'{' | b'}' | b'[' | b']' | b':' | b',' => { if !compact && rng.chance(1, 3) { out.push(*rng.pick(&[b' ', b'\n', b'\t', b'\r'])); } out.push(b); if !compact && rng.chance(1, 3) { out.push(b' '); } },
      _ => out.push(b)
    }
  }
  out
}

pub fn run(sink: &mut TextSink, seed: u64, scale: usize, layouts: &[Layout], bases: &[Vec<u8>]) {
  // a stream of its own (the value cases keep their sequence); the seed goes through one splitmix step first, because
  // Rng::new(s + 1) is Rng::new(s) advanced by one draw
  let mut rng = Rng::new(Rng::new(seed ^ 0x7465_7874_6c61_7965).next());
  let mut corpus: Vec<Vec<u8>> = vec![];
  for _ in 0..(300 * scale) {
    let v = gen_value(&mut rng, 0, true);
    let t = serde_json::to_string_pretty(&v).unwrap_or_default().into_bytes();
    sink.case("pretty", &t, true);
    if corpus.len() < 4000 { corpus.push(t); }
  }
  for _ in 0..(300 * scale) {
    let v = gen_value(&mut rng, 0, true);
    let t = serde_json::to_string(&v).unwrap_or_default().into_bytes();
    sink.case("compact", &t, true);
    if corpus.len() < 4000 { corpus.push(t); }
  }
  for _ in 0..(400 * scale) {
    let v = gen_value(&mut rng, 0, true);
    let st = Style { ws: rng.below(10) as u64, esc: rng.below(12) as u64 };
    let mut t = vec![]; put_ws(&mut rng, &st, &mut t); emit(&mut rng, &st, &v, &mut t); put_ws(&mut rng, &st, &mut t);
    sink.case("ws", &t, true);
    if corpus.len() < 4000 { corpus.push(t); }
  }
  for _ in 0..(600 * scale) {
    let n = gen_number_text(&mut rng);
    let t = match rng.below(6) { 0 => format!("[{}]", n), 1 => format!("[{},{}]", n, gen_number_text(&mut rng)), 2 => format!("{{\"a\":{}}}", n), 3 => format!(" {} ", n), _ => n };
    sink.case("number", t.as_bytes(), true);
  }
  for _ in 0..(400 * scale) { let t = gen_escape_text(&mut rng); sink.case("escape", &t, true); }
  for _ in 0..(200 * scale) { let t = gen_dupkeys_text(&mut rng); sink.case("dupkeys", &t, true); if corpus.len() < 4000 { corpus.push(t); } }
  for t in deep_texts() { sink.case("deep", &t, true); }
  for _ in 0..(600 * scale) {
    let mut t = rng.pick(&corpus).clone();
    let k = 1 + rng.below(2);
    for _ in 0..k { mutate_bytes(&mut rng, &mut t); }
    sink.case("mutated", &t, true);
  }
  for _ in 0..(300 * scale) { let t = gen_utf8_text(&mut rng); sink.case("utf8", &t, true); }
  // malformed layout files: one syntax error each, non-ASCII around it, long lines and late lines
  if !bases.is_empty() {
    for _ in 0..(250 * scale) { let b = rng.pick(bases); let t = gen_errtext(&mut rng, b); sink.case("errtext", &t, true); }
    // ... and the same bases untouched and re-spaced (valid files in the shorthand syntax)
    for _ in 0..(50 * scale) { let b = rng.pick(bases).clone(); let t = if rng.chance(1, 2) { b } else { respace(&mut rng, &b, false) }; sink.case("layouttext", &t, true); }
  }
  // layout files: the saved text of a layout, re-spaced / compacted / mutated, through the real load_layout_from_file
  if !layouts.is_empty() {
    for _ in 0..(200 * scale) {
      let l = rng.pick(layouts);
      let saved = serde_json::to_string_pretty(l).unwrap_or_default().into_bytes();
      let mut t = match rng.below(4) { 0 => saved, 1 => respace(&mut rng, &saved, true), _ => respace(&mut rng, &saved, false) };
      if rng.chance(1, 3) { mutate_bytes(&mut rng, &mut t); }
      sink.case("layouttext", &t, true);
    }
  }
}
