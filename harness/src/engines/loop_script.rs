// loop-script: drive the REAL do_remapping_loop_one_device (through the
// remapping_loop::verif hook) with a scripted driver that SIMULATES the
// environment of coq/theories/LoopEnv.v (keyboard and tablet queues behind
// edge-triggered readiness, arbitrary batching, spurious time-outs,
// interruptions, End, injected errors) and record the transcript of the calls
// the real loop makes, with CLOCK_MONOTONIC readings at entry and exit of every
// call.  ocaml/loop_check.ml runs the extracted model on the same answers and
// applies the extracted C10/C11/C12/C20 checkers to the real transcript.
use crate::keys::{KeyCode, Event, Mapping, Repeat, Layout};
use crate::remapping_loop::verif::{ScriptedDriver, VPollResult, VDevice, VNext, run_one_device};
use crate::engines::mapper_graph::{NamedLayout, family_multi, builtin_layouts, alphabet_of,
  A, B, C, LEFTSHIFT, LEFTCTRL, CAPSLOCK, F20, F21};
use crate::util::*;
use std::collections::VecDeque;
use std::io::Write;
use std::panic::{catch_unwind, AssertUnwindSafe};
use std::time::Duration;

pub struct Exhausted;

fn mono_ns() -> u64 {
  let mut ts = libc::timespec { tv_sec: 0, tv_nsec: 0 };
  unsafe { libc::clock_gettime(libc::CLOCK_MONOTONIC, &mut ts); }
  (ts.tv_sec as u64) * 1_000_000_000 + (ts.tv_nsec as u64)
}

#[derive(Clone)]
pub enum CallRec {
  Register,
  Poll(Option<u128>),       // ns
  Kbd,
  Tab,
  Send(Vec<Event>),
}

#[derive(Clone)]
pub enum RespRec {
  Unit,
  Devs(Vec<VDevice>),
  TimedOut,
  Interrupted,
  KOne(Event), KBusy, KEnd,
  TOne(bool), TBusy, TEnd,
  Err(usize),
  None,                      // the call was not answered: script exhausted
}

pub struct Rec { pub call: CallRec, pub resp: RespRec, pub enter: u64, pub exit: u64 }

fn call_str(c: &CallRec) -> String {
  match c {
    CallRec::Register => "R".to_string(),
    CallRec::Poll(None) => "P -".to_string(),
    CallRec::Poll(Some(ns)) => format!("P {}", ns),
    CallRec::Kbd => "K".to_string(),
    CallRec::Tab => "B".to_string(),
    CallRec::Send(evs) => format!("S {} {}", evs.len(), evs_str(evs)),
  }
}

fn resp_str(r: &RespRec) -> String {
  match r {
    RespRec::Unit => "U".to_string(),
    RespRec::Devs(ds) => {
      let v: Vec<&str> = ds.iter().map(|d| match d { VDevice::Keyboard => "K", VDevice::Tablet => "T" }).collect();
      format!("D {} {}", ds.len(), v.join(" "))
    },
    RespRec::TimedOut => "O".to_string(),
    RespRec::Interrupted => "I".to_string(),
    RespRec::KOne(e) => ev_str(e),
    RespRec::KBusy | RespRec::TBusy => "B".to_string(),
    RespRec::KEnd | RespRec::TEnd => "N".to_string(),
    RespRec::TOne(b) => (if *b { "1" } else { "0" }).to_string(),
    RespRec::Err(k) => format!("E {}", k),
    RespRec::None => "X".to_string(),
  }
}

// ------------------------------------------------------------------ the simulated environment

pub struct Plan {
  pub khist: Vec<Event>,
  pub kends: bool,
  pub thist: Vec<bool>,
  pub tends: bool,
  pub max_interrupts: usize,
  pub consecutive_interrupts_ok: bool,
  pub p_tick: u64,            // out of 100: answer TimedOut to a poll with a time-out although input is still to come
  pub max_ticks: usize,
  pub spurious_idle_timeouts: bool,
  pub real_sleep: bool,       // let small time-outs really elapse, and dawdle now and then
  pub max_calls: usize,
  pub fault_at: Option<usize>,
  pub max_batch: usize,       // largest number of key events that arrive together (one readiness notification)
  pub stall: Option<(usize, u64)>,   // (k, ms): every time-out really elapses, and the k-th TimedOut answer comes ms late (a stalled process)
}

pub struct SimDriver {
  rng: Rng,
  kfuture: VecDeque<Event>, kqueue: VecDeque<Event>, kready: bool, kends: bool, kgone: bool,
  tfuture: VecDeque<bool>, tqueue: VecDeque<bool>, tready: bool, tends: bool, tgone: bool,
  interrupts_left: usize, consecutive_ok: bool, last_was_interrupt: bool,
  p_tick: u64, ticks_left: usize, spurious: bool, real_sleep: bool, slept_ns: u64, stall: Option<(usize, u64)>, ticks_done: usize,
  max_calls: usize, fault_at: Option<usize>, max_batch: usize,
  pub recs: Vec<Rec>,
  pub unread_at_exit: usize,
}

impl SimDriver {
  pub fn new(plan: &Plan, seed: u64) -> SimDriver {
    SimDriver {
      rng: Rng::new(seed),
      kfuture: plan.khist.iter().cloned().collect(), kqueue: VecDeque::new(), kready: false, kends: plan.kends, kgone: false,
      tfuture: plan.thist.iter().cloned().collect(), tqueue: VecDeque::new(), tready: false, tends: plan.tends, tgone: false,
      interrupts_left: plan.max_interrupts, consecutive_ok: plan.consecutive_interrupts_ok, last_was_interrupt: false,
      p_tick: plan.p_tick, ticks_left: plan.max_ticks, spurious: plan.spurious_idle_timeouts, real_sleep: plan.real_sleep, slept_ns: 0, stall: plan.stall, ticks_done: 0,
      max_calls: plan.max_calls, fault_at: plan.fault_at, max_batch: plan.max_batch,
      recs: vec![], unread_at_exit: 0,
    }
  }

  // one arrival on a device, if anything is left to arrive
  fn arrive_kbd(&mut self) -> bool {
    if self.kgone { return false; }
    if !self.kfuture.is_empty() {
      let n = 1 + self.rng.below(self.max_batch.max(1));
      for _ in 0..n { if let Some(e) = self.kfuture.pop_front() { self.kqueue.push_back(e); } }
      self.kready = true;
      true
    } else if self.kends {
      self.kgone = true; self.kready = true; true
    } else { false }
  }

  fn arrive_tab(&mut self) -> bool {
    if self.tgone { return false; }
    if !self.tfuture.is_empty() {
      let n = 1 + self.rng.below(2);
      for _ in 0..n { if let Some(e) = self.tfuture.pop_front() { self.tqueue.push_back(e); } }
      self.tready = true;
      true
    } else if self.tends && self.kfuture.is_empty() && self.rng.chance(1, 3) {
      self.tgone = true; self.tready = true; true
    } else { false }
  }

  fn something_left(&self) -> bool {
    (!self.kgone && (!self.kfuture.is_empty() || self.kends)) || (!self.tgone && !self.tfuture.is_empty())
  }

  fn dawdle(&mut self) {
    let c = self.rng.chance(1, 12);
    let ms = 1 + self.rng.below(4) as u64;
    if self.real_sleep && self.slept_ns < 60_000_000 && c {
      std::thread::sleep(Duration::from_millis(ms));
      self.slept_ns += ms * 1_000_000;
    }
  }

  // begin a call: budget, fault injection.  Returns Some(err index) if this call must fail.
  fn begin(&mut self, call: CallRec) -> (usize, u64, bool) {
    let idx = self.recs.len();
    let enter = mono_ns();
    self.recs.push(Rec { call, resp: RespRec::None, enter, exit: enter });
    if idx >= self.max_calls { self.finish_exhausted(); }
    let fail = self.fault_at == Some(idx);
    (idx, enter, fail)
  }

  fn finish_exhausted(&mut self) -> ! {
    self.unread_at_exit = self.kqueue.len() + self.tqueue.len();
    std::panic::resume_unwind(Box::new(Exhausted));
  }

  fn end(&mut self, idx: usize, resp: RespRec) {
    self.recs[idx].resp = resp;
    self.recs[idx].exit = mono_ns();
  }
}

impl ScriptedDriver for SimDriver {
  fn register_poll(&mut self) -> Result<(), String> {
    let (idx, _, fail) = self.begin(CallRec::Register);
    if fail { self.end(idx, RespRec::Err(idx)); return Err(format!("injected-{}", idx)); }
    self.end(idx, RespRec::Unit);
    Ok(())
  }

  fn poll(&mut self, timeout: Option<Duration>) -> Result<VPollResult, String> {
    let (idx, _, fail) = self.begin(CallRec::Poll(timeout.map(|d| d.as_nanos())));
    if fail { self.end(idx, RespRec::Err(idx)); return Err(format!("injected-{}", idx)); }
    self.dawdle();
    // arrivals before the answer
    if self.rng.chance(1, 2) { self.arrive_kbd(); }
    if self.rng.chance(1, 3) { self.arrive_tab(); }
    if self.interrupts_left > 0 && (self.consecutive_ok || !self.last_was_interrupt) && self.rng.chance(1, 9) {
      self.interrupts_left -= 1;
      self.last_was_interrupt = true;
      self.end(idx, RespRec::Interrupted);
      return Ok(VPollResult::Interrupted);
    }
    self.last_was_interrupt = false;
    loop {
      if self.kready || self.tready {
        let mut ds: Vec<VDevice> = vec![];
        if self.kready { ds.push(VDevice::Keyboard); }
        if self.tready { ds.push(VDevice::Tablet); }
        // spurious members, repeats, either order
        if self.rng.chance(1, 10) { ds.push(if self.rng.chance(1, 2) { VDevice::Keyboard } else { VDevice::Tablet }); }
        if self.rng.chance(1, 12) { let d = ds[self.rng.below(ds.len())].clone(); ds.push(d); }
        self.rng.shuffle(&mut ds);
        self.kready = false; self.tready = false;
        self.end(idx, RespRec::Devs(ds.clone()));
        return Ok(VPollResult::DeviceEvent(ds));
      }
      // nothing pending
      let more = self.something_left();
      match timeout {
        Some(d) => {
          if self.ticks_left > 0 && (!more || self.rng.below(100) < self.p_tick as usize) {
            self.ticks_left -= 1;
            self.ticks_done += 1;
            if let Some((k, late_ms)) = self.stall {
              // a process that is stopped or starved for a while: the time-out elapses for real, once it comes late
              let extra = if self.ticks_done == k { late_ms } else { 0 };
              std::thread::sleep(d.min(Duration::from_millis(80)) + Duration::from_micros(300) + Duration::from_millis(extra));
            } else
            if self.real_sleep && d <= Duration::from_millis(15) && self.slept_ns < 200_000_000 {
              let extra = if self.rng.chance(1, 2) { 1 + self.rng.below(4) as u64 } else { 0 };
              std::thread::sleep(d + Duration::from_micros(300) + Duration::from_millis(extra));
              self.slept_ns += d.as_nanos() as u64 + extra * 1_000_000;
            }
            self.end(idx, RespRec::TimedOut);
            return Ok(VPollResult::TimedOut);
          }
        },
        None => {
          if self.spurious && self.ticks_left > 0 && self.rng.chance(1, 8) {
            self.ticks_left -= 1;
            self.end(idx, RespRec::TimedOut);
            return Ok(VPollResult::TimedOut);
          }
          if self.spurious && self.rng.chance(1, 40) {
            self.end(idx, RespRec::Devs(vec![]));
            return Ok(VPollResult::DeviceEvent(vec![]));
          }
        }
      }
      if !more { self.finish_exhausted(); }
      // force progress: something arrives
      if self.rng.chance(2, 3) { if !self.arrive_kbd() { self.arrive_tab(); } } else { if !self.arrive_tab() { self.arrive_kbd(); } }
      if !self.kready && !self.tready {
        // the tablet "gone" arrival is probabilistic; insist
        if !self.kgone && (!self.kfuture.is_empty() || self.kends) { self.arrive_kbd(); }
        else if !self.tgone && !self.tfuture.is_empty() { self.arrive_tab(); }
      }
      if !self.kready && !self.tready { self.finish_exhausted(); }
    }
  }

  fn next_keyboard(&mut self) -> Result<VNext<Event>, String> {
    let (idx, _, fail) = self.begin(CallRec::Kbd);
    if fail { self.end(idx, RespRec::Err(idx)); return Err(format!("injected-{}", idx)); }
    self.dawdle();
    // events may arrive while the loop is reading
    if self.rng.chance(1, 6) { self.arrive_kbd(); }
    if self.rng.chance(1, 10) { self.arrive_tab(); }
    if self.kgone { self.end(idx, RespRec::KEnd); return Ok(VNext::End); }
    match self.kqueue.pop_front() {
      Some(e) => { self.end(idx, RespRec::KOne(e.clone())); Ok(VNext::One(e)) },
      None => { self.end(idx, RespRec::KBusy); Ok(VNext::Busy) }
    }
  }

  fn next_tablet(&mut self) -> Result<VNext<bool>, String> {
    let (idx, _, fail) = self.begin(CallRec::Tab);
    if fail { self.end(idx, RespRec::Err(idx)); return Err(format!("injected-{}", idx)); }
    if self.rng.chance(1, 10) { self.arrive_kbd(); }
    if self.tgone { self.end(idx, RespRec::TEnd); return Ok(VNext::End); }
    match self.tqueue.pop_front() {
      Some(b) => { self.end(idx, RespRec::TOne(b)); Ok(VNext::One(b)) },
      None => { self.end(idx, RespRec::TBusy); Ok(VNext::Busy) }
    }
  }

  fn send(&mut self, evs: &Vec<Event>) -> Result<(), String> {
    let (idx, _, fail) = self.begin(CallRec::Send(evs.clone()));
    if fail { self.end(idx, RespRec::Err(idx)); return Err(format!("injected-{}", idx)); }
    self.dawdle();
    self.end(idx, RespRec::Unit);
    Ok(())
  }
}

// ------------------------------------------------------------------ replay of a fixed answer script

pub struct FixedDriver { toks: VecDeque<String>, pub recs: Vec<Rec>, pub note: Option<String> }

impl FixedDriver {
  fn take(&mut self, call: CallRec) -> (usize, String) {
    let idx = self.recs.len();
    let t = mono_ns();
    self.recs.push(Rec { call, resp: RespRec::None, enter: t, exit: t });
    match self.toks.pop_front() {
      Some(s) => (idx, s),
      None => std::panic::resume_unwind(Box::new(Exhausted)),
    }
  }
  fn bad(&mut self, idx: usize, tok: &str) -> ! {
    self.note = Some(format!("answer {} of the script ({}) does not fit the call the loop makes here", idx, tok));
    std::panic::resume_unwind(Box::new(Exhausted));
  }
  fn done(&mut self, idx: usize, r: RespRec) { self.recs[idx].resp = r; self.recs[idx].exit = mono_ns(); }
}

fn err_tok(tok: &str) -> Option<usize> {
  if tok.starts_with('E') { tok[1..].parse().ok() } else { None }
}

impl ScriptedDriver for FixedDriver {
  fn register_poll(&mut self) -> Result<(), String> {
    let (idx, tok) = self.take(CallRec::Register);
    if let Some(k) = err_tok(&tok) { self.done(idx, RespRec::Err(k)); return Err(format!("injected-{}", k)); }
    if tok != "U" { self.bad(idx, &tok); }
    self.done(idx, RespRec::Unit); Ok(())
  }
  fn poll(&mut self, timeout: Option<Duration>) -> Result<VPollResult, String> {
    let (idx, tok) = self.take(CallRec::Poll(timeout.map(|d| d.as_nanos())));
    if let Some(k) = err_tok(&tok) { self.done(idx, RespRec::Err(k)); return Err(format!("injected-{}", k)); }
    if tok == "O" { self.done(idx, RespRec::TimedOut); return Ok(VPollResult::TimedOut); }
    if tok == "I" { self.done(idx, RespRec::Interrupted); return Ok(VPollResult::Interrupted); }
    if tok.starts_with("D[") && tok.ends_with(']') {
      let inner = &tok[2..tok.len() - 1];
      let mut ds = vec![];
      for p in inner.split(',') {
        match p { "K" => ds.push(VDevice::Keyboard), "T" => ds.push(VDevice::Tablet), "" => (), _ => self.bad(idx, &tok) }
      }
      self.done(idx, RespRec::Devs(ds.clone()));
      return Ok(VPollResult::DeviceEvent(ds));
    }
    self.bad(idx, &tok)
  }
  fn next_keyboard(&mut self) -> Result<VNext<Event>, String> {
    let (idx, tok) = self.take(CallRec::Kbd);
    if let Some(k) = err_tok(&tok) { self.done(idx, RespRec::Err(k)); return Err(format!("injected-{}", k)); }
    if tok == "B" { self.done(idx, RespRec::KBusy); return Ok(VNext::Busy); }
    if tok == "N" { self.done(idx, RespRec::KEnd); return Ok(VNext::End); }
    if (tok.starts_with('P') || tok.starts_with('R')) && tok[1..].parse::<u16>().is_ok() {
      let e = parse_ev(&tok);
      self.done(idx, RespRec::KOne(e.clone()));
      return Ok(VNext::One(e));
    }
    self.bad(idx, &tok)
  }
  fn next_tablet(&mut self) -> Result<VNext<bool>, String> {
    let (idx, tok) = self.take(CallRec::Tab);
    if let Some(k) = err_tok(&tok) { self.done(idx, RespRec::Err(k)); return Err(format!("injected-{}", k)); }
    match tok.as_str() {
      "B" => { self.done(idx, RespRec::TBusy); Ok(VNext::Busy) },
      "N" => { self.done(idx, RespRec::TEnd); Ok(VNext::End) },
      "1" => { self.done(idx, RespRec::TOne(true)); Ok(VNext::One(true)) },
      "0" => { self.done(idx, RespRec::TOne(false)); Ok(VNext::One(false)) },
      _ => self.bad(idx, &tok)
    }
  }
  fn send(&mut self, evs: &Vec<Event>) -> Result<(), String> {
    let (idx, tok) = self.take(CallRec::Send(evs.clone()));
    if let Some(k) = err_tok(&tok) { self.done(idx, RespRec::Err(k)); return Err(format!("injected-{}", k)); }
    if tok != "U" { self.bad(idx, &tok); }
    self.done(idx, RespRec::Unit); Ok(())
  }
}

// ------------------------------------------------------------------ layouts and histories

const DELAYS: [i32; 4] = [400, 800, 1200, 2000];
const INTERVALS: [i32; 4] = [200, 600, 1000, 1600];

// re-draw the repeat fields so that time-outs are unmistakable, chords overlap
// keys that can be held, contain duplicates, or are empty
fn retime(ms: &mut Vec<Mapping>, rng: &mut Rng, mode: usize) {
  let alpha = alphabet_of(ms);
  for m in ms.iter_mut() {
    let make_special = match &m.repeat { Repeat::Special { .. } => true, Repeat::Disabled => rng.chance(1, 3), Repeat::Normal => rng.chance(1, 3) };
    if !make_special { continue; }
    let mut keys: Vec<u16> = vec![];
    let n = rng.below(4);
    for _ in 0..n {
      let k = match rng.below(6) { 0 => F20, 1 => F21, 2 => LEFTCTRL, 3 => LEFTSHIFT, _ => *rng.pick(&alpha) };
      keys.push(k);
    }
    let (d, i) = match mode {
      1 => (rng.below(4) as i32, rng.below(4) as i32),                      // tiny, zero included: the tick is late (now >= next_wakeup)
      2 => (if rng.chance(1, 2) { -1 - (rng.below(1000) as i32) } else { *rng.pick(&DELAYS) },
            if rng.chance(1, 2) { -1 - (rng.below(1000) as i32) } else { *rng.pick(&INTERVALS) }),  // negative: `as u64` wraps
      _ => {
        let d = *rng.pick(&DELAYS);
        let mut i = *rng.pick(&INTERVALS);
        while (d - i).abs() < 200 { i = *rng.pick(&INTERVALS); }
        (d, i)
      }
    };
    m.repeat = Repeat::Special { keys: keys.iter().map(|c| key(*c)).collect(), delay_ms: d, interval_ms: i };
  }
}

fn fixed_layouts() -> Vec<NamedLayout> {
  let k = |c: u16| key(c);
  let sp = |keys: &[u16], d: i32, i: i32| Repeat::Special { keys: keys.iter().map(|c| key(*c)).collect(), delay_ms: d, interval_ms: i };
  vec![
    NamedLayout { tag: "fixed/a-b".to_string(), mappings: vec![
      Mapping { from: vec![k(A)], to: vec![k(B)], repeat: Repeat::Normal, absorbing: vec![] } ] },
    NamedLayout { tag: "fixed/empty".to_string(), mappings: vec![] },
    NamedLayout { tag: "fixed/ctrl-chord".to_string(), mappings: vec![
      Mapping { from: vec![k(A)], to: vec![k(B)], repeat: sp(&[LEFTCTRL, F20], 400, 1000), absorbing: vec![] },
      Mapping { from: vec![k(C)], to: vec![k(C)], repeat: sp(&[F20, F20, F21], 1200, 200), absorbing: vec![] } ] },
    NamedLayout { tag: "fixed/chord-of-own-output".to_string(), mappings: vec![
      Mapping { from: vec![k(CAPSLOCK), k(A)], to: vec![k(LEFTSHIFT), k(B)], repeat: sp(&[LEFTSHIFT, B, F20], 800, 200), absorbing: vec![] } ] },
    NamedLayout { tag: "fixed/empty-chord".to_string(), mappings: vec![
      Mapping { from: vec![k(A)], to: vec![k(A)], repeat: sp(&[], 400, 600), absorbing: vec![] } ] },
  ]
}

// a key history biased towards chords of the layout, with a few ill-formed events
fn history(ms: &[Mapping], rng: &mut Rng, len: usize) -> Vec<Event> {
  let alpha = alphabet_of(ms);
  let mut phys: Vec<u16> = vec![];
  let mut h = vec![];
  for _ in 0..len {
    let r = rng.below(100);
    let (press, k): (bool, u16) =
      if r < 4 && !phys.is_empty() { (true, *rng.pick(&phys)) }
      else if r < 8 { (false, *rng.pick(&alpha)) }
      else if (r < 45 || phys.len() >= 4) && !phys.is_empty() { (false, *rng.pick(&phys)) }
      else {
        let mut cands: Vec<u16> = vec![];
        for m in ms {
          let f: Vec<u16> = m.from.iter().map(code).collect();
          if let Some((last, rest)) = f.split_last() {
            if rest.iter().all(|x| phys.contains(x)) && !phys.contains(last) { cands.push(*last); }
            for x in rest { if !phys.contains(x) && rng.chance(1, 2) { cands.push(*x); } }
          }
        }
        if cands.is_empty() || rng.chance(1, 5) { (true, *rng.pick(&alpha)) } else { (true, *rng.pick(&cands)) }
      };
    if press { if !phys.contains(&k) { phys.push(k); } h.push(Event::Pressed(key(k))); }
    else { phys.retain(|x| *x != k); h.push(Event::Released(key(k))); }
  }
  h
}

fn tablet_history(rng: &mut Rng, kind: usize) -> Vec<bool> {
  match kind {
    0 => vec![],
    1 => vec![true, false],
    2 => vec![true, true, false, false],
    3 => vec![false, true, false],
    _ => { let n = 1 + rng.below(5); (0..n).map(|_| rng.chance(1, 2)).collect() }
  }
}

// ------------------------------------------------------------------ running one case

pub enum Outcome { Ok, Err(String), Starved, Panic }

fn outcome_str(o: &Outcome) -> String {
  match o {
    Outcome::Ok => "ok".to_string(),
    Outcome::Err(m) => {
      // "that error": the injected failure, possibly wrapped in context by the loop (the wording is not part of C20)
      if let Some(p) = m.find("injected-") {
        let digits: String = m[p + 9..].chars().take_while(|c| c.is_ascii_digit()).collect();
        if !digits.is_empty() { return format!("err {}", digits); }
      }
      format!("err other:{}", m.replace(' ', "_"))
    },
    Outcome::Starved => "starved".to_string(),
    Outcome::Panic => "panic".to_string(),
  }
}

// --verbose must not change what the loop does: a share of the runs has it on (the harness' stderr is silenced)
thread_local! { static VERBOSE_RUN: std::cell::Cell<bool> = std::cell::Cell::new(false); }

fn run_real<D: ScriptedDriver>(driver: &mut D, mappings: &Vec<Mapping>) -> Outcome {
  let layout = Layout { mappings: mappings.clone() };
  let verbose = VERBOSE_RUN.with(|v| v.get());
  let res = catch_unwind(AssertUnwindSafe(|| run_one_device(driver, layout, verbose)));
  match res {
    Ok(Ok(())) => Outcome::Ok,
    Ok(Err(m)) => Outcome::Err(m),
    Err(p) => if p.downcast_ref::<Exhausted>().is_some() { Outcome::Starved } else { Outcome::Panic },
  }
}

fn write_case(out: &mut dyn Write, id: &str, tag: &str, seed: u64, fault: Option<usize>, mappings: &Vec<Mapping>,
              recs: &Vec<Rec>, outcome: &Outcome, unread: usize) {
  writeln!(out, "CASE {} {} seed={} fault={}", id, tag, seed, fault.map(|k| k.to_string()).unwrap_or("-".to_string())).unwrap();
  for m in mappings { writeln!(out, "{}", mapping_line(m)).unwrap(); }
  for r in recs {
    writeln!(out, "T {} {} {} | {}", r.enter, r.exit, call_str(&r.call), resp_str(&r.resp)).unwrap();
  }
  // what the REAL Mapper (one instance, as the loop uses it) returns for the inputs this transcript delivered: a key event
  // read while the switch is off is a step, a tablet event a release_all.  Lets the checker tell "the loop wrote something
  // else than the mapper returned" (the loop's business) from "the mapper returned something else than its model"
  // (the mapper properties' business, mapper engine).
  let rm = catch_unwind(AssertUnwindSafe(|| {
    let layout = Layout { mappings: mappings.clone() };
    let mut mapper = crate::key_transforms::Mapper::for_layout(&layout);
    let mut tablet = false;
    let mut lines: Vec<String> = vec![];
    for (i, r) in recs.iter().enumerate() {
      match (&r.call, &r.resp) {
        (CallRec::Kbd, RespRec::KOne(ev)) => {
          if !tablet { let evs = mapper.step(ev.clone()).events; lines.push(format!("RM {} {} {}", i, evs.len(), evs_str(&evs))); }
          else { lines.push(format!("RM {} 0 ", i)); }
        },
        (CallRec::Tab, RespRec::TOne(on)) => {
          tablet = *on;
          let evs = mapper.release_all();
          lines.push(format!("RM {} {} {}", i, evs.len(), evs_str(&evs)));
        },
        _ => {}
      }
    }
    lines
  }));
  if let Ok(lines) = rm { for l in lines { writeln!(out, "{}", l).unwrap(); } }
  writeln!(out, "OUT {}", outcome_str(outcome)).unwrap();
  writeln!(out, "UNREAD {}", unread).unwrap();
  writeln!(out, "END").unwrap();
}

struct CaseSpec { tag: String, mappings: Vec<Mapping>, plan: Plan, seed: u64, inject_all: bool }

fn make_cases(seed: u64, thorough: bool, scale: usize) -> Vec<CaseSpec> {
  let mut rng = Rng::new(seed ^ 0x100b);
  let mut cases: Vec<CaseSpec> = vec![];
  let n_multi = (if thorough { 12000 } else { 1500 }) * scale;
  let per_layout = if thorough { 4 } else { 3 };
  let mut layouts: Vec<(NamedLayout, usize)> = vec![];      // (layout, timing mode)
  for l in fixed_layouts() { layouts.push((l, 0)); }
  let mut fam = family_multi(&mut rng, n_multi);
  for (i, l) in fam.iter_mut().enumerate() {
    let mode = if i % 7 == 5 { 1 } else if i % 17 == 7 { 2 } else { 0 };
    retime(&mut l.mappings, &mut rng, mode);
    l.tag = format!("{}/t{}", l.tag, mode);
  }
  for (i, l) in fam.into_iter().enumerate() { let mode = if i % 7 == 5 { 1 } else if i % 17 == 7 { 2 } else { 0 }; layouts.push((l, mode)); }
  let nfixed = 5;
  let mut li = 0usize;
  for (l, mode) in layouts {
    let reps = if li < nfixed { per_layout * 6 } else { per_layout };
    for r in 0..reps {
      let cseed = rng.next();
      let mut crng = Rng::new(cseed);
      let hlen = 3 + crng.below(if thorough { 60 } else { 28 });
      let tkind = if r % 3 == 0 { 0 } else { 1 + crng.below(4) };
      let plan = Plan {
        khist: history(&l.mappings, &mut crng, hlen),
        kends: crng.chance(2, 3),
        thist: tablet_history(&mut crng, tkind),
        tends: crng.chance(1, 6),
        max_interrupts: if crng.chance(1, 3) { 1 } else { 0 },
        consecutive_interrupts_ok: false,
        p_tick: [0u64, 20, 50, 85][crng.below(4)],
        max_ticks: if mode == 2 { 4 } else { 2 + crng.below(12) },
        spurious_idle_timeouts: crng.chance(1, 2),
        real_sleep: mode == 1 || crng.chance(1, 12),
        max_calls: 400,
        fault_at: None,
        max_batch: 8,
        stall: None,
      };
      cases.push(CaseSpec { tag: l.tag.clone(), mappings: l.mappings.clone(), plan, seed: cseed, inject_all: (li + r) % (if thorough { 4 } else { 9 }) == 0 });
    }
    li += 1;
  }
  // builtin layouts: a few longer runs each
  for l in builtin_layouts() {
    for r in 0..(if thorough { 12 } else { 3 }) {
      let cseed = rng.next();
      let mut crng = Rng::new(cseed);
      let hlen = 20 + crng.below(if thorough { 200 } else { 60 });
      let plan = Plan {
        khist: history(&l.mappings, &mut crng, hlen),
        kends: true,
        thist: tablet_history(&mut crng, if r == 0 { 0 } else { 4 }),
        tends: false,
        max_interrupts: 1, consecutive_interrupts_ok: false,
        p_tick: 50, max_ticks: 10, spurious_idle_timeouts: true, real_sleep: false,
        max_calls: 1500, fault_at: None, max_batch: 8, stall: None,
      };
      cases.push(CaseSpec { tag: l.tag.clone(), mappings: l.mappings.clone(), plan, seed: cseed, inject_all: false });
    }
  }
  // bursts: hundreds of key events arriving under ONE readiness notification (a stalled process, a macro
  // keyboard): the read loop must drain them all before it polls again
  for (bi, l) in fixed_layouts().into_iter().enumerate() {
    for r in 0..(if thorough { 4 } else { 2 }) {
      let cseed = rng.next();
      let mut crng = Rng::new(cseed);
      let hlen = 150 + crng.below(if thorough { 900 } else { 350 });
      let plan = Plan {
        khist: history(&l.mappings, &mut crng, hlen),
        kends: r % 2 == 0,
        thist: tablet_history(&mut crng, if (bi + r) % 3 == 0 { 1 } else { 0 }),
        tends: false,
        max_interrupts: 0, consecutive_interrupts_ok: false,
        p_tick: 0, max_ticks: 3, spurious_idle_timeouts: false, real_sleep: false,
        max_calls: 6000, fault_at: None, max_batch: [70usize, 130, 300, 1100][crng.below(4)], stall: None,
      };
      cases.push(CaseSpec { tag: format!("{}/burst", l.tag), mappings: l.mappings.clone(), plan, seed: cseed, inject_all: false });
    }
  }
  // stalls: the repeat timer with real elapsed time; the k-th time-out comes 2.5 .. 5 intervals late.  The schedule must stay
  // on the grid t0 + delay + j*interval (missed chords are caught up at once, later ones do not drift)
  for r in 0..(if thorough { 8 } else { 3 }) {
    let cseed = rng.next();
    let mut crng = Rng::new(cseed);
    let (d, i) = (20 + crng.below(30) as i32, 20 + crng.below(25) as i32);
    let mappings = vec![Mapping { from: vec![key(A)], to: vec![key(B)],
      repeat: Repeat::Special { keys: vec![key(F20)], delay_ms: d, interval_ms: i }, absorbing: vec![] }];
    let k = 2 + crng.below(3);
    let late = (i as u64) * (5 + crng.below(6) as u64) / 2;
    let plan = Plan { khist: vec![Event::Pressed(key(A))], kends: false, thist: vec![], tends: false, max_interrupts: 0,
      consecutive_interrupts_ok: false, p_tick: 100, max_ticks: k + 6, spurious_idle_timeouts: false, real_sleep: false,
      max_calls: 200, fault_at: None, max_batch: 8, stall: Some((k, late)) };
    cases.push(CaseSpec { tag: format!("fixed/stall-{}-{}ms", r, late), mappings, plan, seed: cseed, inject_all: false });
  }
  // negative interval: `next_wakeup + interval as u64` overflows Instant after about 500 ticks
  {
    let mappings = vec![Mapping { from: vec![key(A)], to: vec![key(B)],
      repeat: Repeat::Special { keys: vec![key(F20)], delay_ms: 400, interval_ms: -1 }, absorbing: vec![] }];
    let plan = Plan { khist: vec![Event::Pressed(key(A))], kends: false, thist: vec![], tends: false, max_interrupts: 0,
      consecutive_interrupts_ok: false, p_tick: 100, max_ticks: 600, spurious_idle_timeouts: false, real_sleep: false,
      max_calls: 2000, fault_at: None, max_batch: 8, stall: None };
    cases.push(CaseSpec { tag: "fixed/negative-interval".to_string(), mappings, plan, seed: 77, inject_all: false });
  }
  // two consecutive interruptions make the real loop sleep 4 s: thorough tier only
  if thorough {
    let mappings = vec![Mapping { from: vec![key(A)], to: vec![key(B)], repeat: Repeat::Normal, absorbing: vec![] }];
    let plan = Plan { khist: vec![Event::Pressed(key(A)), Event::Released(key(A))], kends: true, thist: vec![], tends: false, max_interrupts: 2,
      consecutive_interrupts_ok: true, p_tick: 0, max_ticks: 0, spurious_idle_timeouts: false, real_sleep: false,
      max_calls: 100, fault_at: None, max_batch: 8, stall: None };
    for s in 0..6 { cases.push(CaseSpec { tag: "fixed/two-interrupts".to_string(), mappings: mappings.clone(), plan: plan_copy(&plan), seed: 1000 + s, inject_all: false }); }
  }
  cases
}

fn plan_copy(p: &Plan) -> Plan {
  Plan { khist: p.khist.clone(), kends: p.kends, thist: p.thist.clone(), tends: p.tends, max_interrupts: p.max_interrupts,
    consecutive_interrupts_ok: p.consecutive_interrupts_ok, p_tick: p.p_tick, max_ticks: p.max_ticks,
    spurious_idle_timeouts: p.spurious_idle_timeouts, real_sleep: p.real_sleep, max_calls: p.max_calls, fault_at: p.fault_at, max_batch: p.max_batch, stall: p.stall }
}

// tm-harness loop-script --out DIR --seed N --tier quick|thorough [--shards K] [--scale S]
pub fn main(args: &[String]) -> i32 {
  let a = args_map(args);
  let out_dir = a.get("out").expect("--out").clone();
  let seed: u64 = a.get("seed").map(|s| s.parse().unwrap()).unwrap_or(1);
  let tier = a.get("tier").cloned().unwrap_or("quick".to_string());
  let shards: usize = a.get("shards").map(|s| s.parse().unwrap()).unwrap_or(16);
  let scale: usize = a.get("scale").map(|s| s.parse().unwrap()).unwrap_or(1);
  let thorough = tier == "thorough";
  std::fs::create_dir_all(&out_dir).unwrap();
  // the verbose runs of the real loop write to stderr: send it to /dev/null (this command reports on stdout)
  unsafe {
    let null = libc::open(b"/dev/null\0".as_ptr() as *const libc::c_char, libc::O_WRONLY);
    if null >= 0 { libc::dup2(null, 2); libc::close(null); }
  }
  let cases = std::sync::Arc::new(make_cases(seed, thorough, scale));
  let total = cases.len();
  let mut handles = vec![];
  for sh in 0..shards {
    let cases = cases.clone();
    let out_dir = out_dir.clone();
    handles.push(std::thread::spawn(move || {
      let path = format!("{}/shard_{:02}.tr", out_dir, sh);
      let f = std::fs::File::create(&path).unwrap();
      let mut w = std::io::BufWriter::new(f);
      let mut stats = (0usize, 0usize, 0usize);   // runs, calls, fault runs
      for (i, c) in cases.iter().enumerate() {
        if i % shards != sh { continue; }
        let mut d = SimDriver::new(&c.plan, c.seed);
        VERBOSE_RUN.with(|v| v.set(i % 3 == 2));
        let o = run_real(&mut d, &c.mappings);
        write_case(&mut w, &format!("{}", i), &c.tag, c.seed, None, &c.mappings, &d.recs, &o, d.unread_at_exit);
        stats.0 += 1; stats.1 += d.recs.len();
        if c.inject_all {
          // the same environment, with the k-th call failing, for every k
          let n = d.recs.len();
          for k in 0..n {
            let mut p = plan_copy(&c.plan);
            p.fault_at = Some(k);
            p.real_sleep = false;
            let mut d2 = SimDriver::new(&p, c.seed);
            let o2 = run_real(&mut d2, &c.mappings);
            write_case(&mut w, &format!("{}.f{}", i, k), &c.tag, c.seed, Some(k), &c.mappings, &d2.recs, &o2, d2.unread_at_exit);
            stats.0 += 1; stats.1 += d2.recs.len(); stats.2 += 1;
          }
        }
      }
      w.flush().unwrap();
      stats
    }));
  }
  let mut agg = (0usize, 0usize, 0usize);
  for h in handles { let s = h.join().unwrap(); agg.0 += s.0; agg.1 += s.1; agg.2 += s.2; }
  println!("loop-script: base_cases={} runs={} calls={} fault_runs={}", total, agg.0, agg.1, agg.2);
  0
}

// tm-harness loop-replay --layout FILE --script "U D[K] P30 U B ..."
// runs the real loop against the fixed list of answers and prints its transcript
pub fn replay_main(args: &[String]) -> i32 {
  let a = args_map(args);
  let text = std::fs::read_to_string(a.get("layout").expect("--layout")).expect("read layout");
  let ms: Vec<Mapping> = text.lines().filter(|l| l.starts_with("M ")).map(parse_mapping_line).collect();
  let script = std::fs::read_to_string(a.get("script").expect("--script")).expect("read script");
  let toks: VecDeque<String> = script.split_whitespace().map(|t| match t.rfind("=>") { Some(p) => t[p + 2..].to_string(), None => t.to_string() }).collect();
  let mut d = FixedDriver { toks, recs: vec![], note: None };
  let o = run_real(&mut d, &ms);
  let mut so = std::io::stdout();
  write_case(&mut so, "replay", "replay", 0, None, &ms, &d.recs, &o, 0);
  if let Some(n) = &d.note { println!("NOTE {}", n); }
  0
}
