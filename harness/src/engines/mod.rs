pub mod mapper_graph;
