pub mod mapper_graph;
pub mod wire;
pub mod listing;
