pub mod mapper_graph;
pub mod wire;
pub mod listing;
pub mod loader;
pub mod escape;
pub mod loop_script;
pub mod tables;
pub mod realloop;
