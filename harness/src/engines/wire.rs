// wire: drives the REAL DevInputWriter::send and DevInputReader::next of
// /repo/src/dev_input_rw.rs over pipes (property C18), and the REAL
// TabletModeSwitchReader::next of /repo/src/tablet_mode_switch_reader.rs (property C12).
//
//   tm-harness wire --out FILE --seed N --tier quick|thorough [--batches N] [--streams N]
//   tm-harness wire-replay (--batch "P30 R30" | --records "sec:usec:type:code:value ..." | --bytes HEX
//                           | --tablet-records "sec:usec:type:code:value ..." | --tablet-bytes HEX)
//
// Case file, one case per line (fields separated by " | "):
//   FACTS size=.. off_time=.. off_type=.. off_code=.. off_value=.. timeval=.. endian=..
//        measured on libc::input_event — the model's layout assumptions
//   W <events> | <hex written by the real writer, or PANIC / ERR> | <OK|PANIC> <events the real reader returns on those bytes>
//   R <records sec:usec:type:code:value> | <hex fed, built through libc::input_event> | <OK|PANIC> <events returned>
//   X <hex fed (arbitrary bytes, truncated streams)> | <OK|PANIC> <events returned>
//   T <records sec:usec:type:code:value> | <hex fed> | <OK|PANIC> <On|Off ... returned by the real TabletModeSwitchReader::next>
//   Y <hex fed (arbitrary bytes, truncated streams)> | <OK|PANIC> <On|Off ...>            (property C12: the switch reader)
// The OCaml side (ocaml/wire_check.ml) recomputes every line with the extracted
// Coq model and applies the extracted checkers of WireSpec.v to the REAL outputs.
use crate::dev_input_rw::{DevInputReader, DevInputWriter};
use crate::keys::{Event, KeyCode};
use crate::tablet_mode_switch_reader::{TabletModeSwitchReader, TableModeEvent};
use crate::util::*;
use num_traits::FromPrimitive;
use std::io::Write;
use std::mem::size_of;
use std::panic::{catch_unwind, AssertUnwindSafe};

const REC: usize = 24; // only used to pick stream sizes; the real size is measured and printed

fn make_pipe() -> (i32, i32) {
  let mut fds = [0i32; 2];
  let rc = unsafe { libc::pipe(fds.as_mut_ptr()) };
  if rc != 0 { panic!("harness: pipe() failed"); }
  (fds[0], fds[1])
}

fn set_nonblock(fd: i32) {
  unsafe {
    let fl = libc::fcntl(fd, libc::F_GETFL);
    libc::fcntl(fd, libc::F_SETFL, fl | libc::O_NONBLOCK);
  }
}

fn close(fd: i32) { unsafe { libc::close(fd); } }

fn drain(fd: i32) -> Vec<u8> {
  let mut out = vec![];
  let mut buf = [0u8; 65536];
  loop {
    let n = unsafe { libc::read(fd, buf.as_mut_ptr() as *mut libc::c_void, buf.len()) };
    if n <= 0 { break; }
    out.extend_from_slice(&buf[..n as usize]);
  }
  out
}

pub enum Written { Bytes(Vec<u8>), Panic, Err(String) }

// the bytes DevInputWriter::send hands to its file descriptor for one batch
pub fn real_write(evs: &Vec<Event>) -> Written {
  let (r, w) = make_pipe();
  set_nonblock(r);
  // a batch of 2000 events is 48 KB: below the 64 KB capacity of a pipe, so the
  // single write(2) of send() is taken whole (model assumption A3)
  let mut writer = DevInputWriter::verif_from_fd(w);
  let res = catch_unwind(AssertUnwindSafe(|| writer.send(evs)));
  let bytes = drain(r);
  close(r); close(w);
  match res {
    Err(_) => Written::Panic,
    Ok(Err(e)) => Written::Err(format!("{:?}", e).replace(' ', "_")),
    Ok(Ok(())) => Written::Bytes(bytes),
  }
}

// next() again and again on a non-blocking pipe holding `bytes`, until it does
// not return Ok (EAGAIN on the drained pipe; the write end stays open, so read
// never reports end-of-file).  Returns the events and whether a call panicked.
pub fn real_read(bytes: &[u8]) -> (Vec<Event>, bool) {
  let (r, w) = make_pipe();
  set_nonblock(r);
  set_nonblock(w);
  let mut evs = vec![];
  let mut panicked = false;
  let mut reader = DevInputReader { fd: r };
  let mut pos = 0usize;
  // feed in pieces that fit the pipe; between pieces let the reader run dry
  loop {
    let end = std::cmp::min(bytes.len(), pos + 49152 / REC * REC);
    while pos < end {
      let n = unsafe { libc::write(w, bytes[pos..end].as_ptr() as *const libc::c_void, end - pos) };
      if n <= 0 { panic!("harness: cannot fill the pipe"); }
      pos += n as usize;
    }
    let mut guard = 0usize;
    loop {
      guard += 1;
      if guard > bytes.len() + 4 { panicked = true; break; } // more events than bytes: runaway
      match catch_unwind(AssertUnwindSafe(|| reader.next())) {
        Err(_) => { panicked = true; break; }
        Ok(Err(_)) => break,
        Ok(Ok(e)) => evs.push(e),
      }
    }
    if panicked || pos >= bytes.len() { break; }
  }
  close(r); close(w);
  (evs, panicked)
}

// the same for TabletModeSwitchReader::next (src/tablet_mode_switch_reader.rs): the REAL reader
// on the read end of a non-blocking pipe; true = TableModeEvent::On, false = Off
pub fn real_tablet_read(bytes: &[u8]) -> (Vec<bool>, bool) {
  let (r, w) = make_pipe();
  set_nonblock(r);
  set_nonblock(w);
  let mut evs = vec![];
  let mut panicked = false;
  let mut reader = TabletModeSwitchReader { fd: r };
  let mut pos = 0usize;
  loop {
    let end = std::cmp::min(bytes.len(), pos + 49152 / REC * REC);
    while pos < end {
      let n = unsafe { libc::write(w, bytes[pos..end].as_ptr() as *const libc::c_void, end - pos) };
      if n <= 0 { panic!("harness: cannot fill the pipe"); }
      pos += n as usize;
    }
    let mut guard = 0usize;
    loop {
      guard += 1;
      if guard > bytes.len() + 4 { panicked = true; break; } // more events than bytes: runaway
      match catch_unwind(AssertUnwindSafe(|| reader.next())) {
        Err(_) => { panicked = true; break; }
        Ok(Err(_)) => break,
        Ok(Ok(TableModeEvent::On)) => evs.push(true),
        Ok(Ok(TableModeEvent::Off)) => evs.push(false),
      }
    }
    if panicked || pos >= bytes.len() { break; }
  }
  close(r); close(w);
  (evs, panicked)
}

fn tablet_result_str(r: &(Vec<bool>, bool)) -> String {
  let mut s = String::from(if r.1 { "PANIC" } else { "OK" });
  for e in &r.0 { s.push_str(if *e { " On" } else { " Off" }); }
  s
}

pub fn hex(b: &[u8]) -> String {
  let mut s = String::with_capacity(2 * b.len());
  for x in b { s.push_str(&format!("{:02x}", x)); }
  if s.is_empty() { s.push('-'); }
  s
}

pub fn unhex(s: &str) -> Vec<u8> {
  if s == "-" { return vec![]; }
  let c: Vec<char> = s.chars().collect();
  let mut out = vec![];
  let mut i = 0;
  while i + 1 < c.len() {
    out.push(u8::from_str_radix(&format!("{}{}", c[i], c[i + 1]), 16).expect("bad hex"));
    i += 2;
  }
  out
}

fn read_result_str(r: &(Vec<Event>, bool)) -> String {
  let mut s = String::from(if r.1 { "PANIC" } else { "OK" });
  for e in &r.0 { s.push(' '); s.push_str(&ev_str(e)); }
  s
}

// one record laid out by the C struct itself (the layout oracle)
pub fn record_bytes(sec: i64, usec: i64, type_: u16, code: u16, value: i32) -> Vec<u8> {
  let ev = libc::input_event {
    time: libc::timeval { tv_sec: sec as libc::time_t, tv_usec: usec as libc::suseconds_t },
    type_, code, value,
  };
  let p = &ev as *const libc::input_event as *const u8;
  unsafe { std::slice::from_raw_parts(p, size_of::<libc::input_event>()) }.to_vec()
}

fn facts() -> String {
  let ev: libc::input_event = unsafe { std::mem::zeroed() };
  let base = &ev as *const libc::input_event as usize;
  let off_time = &ev.time as *const libc::timeval as usize - base;
  let off_usec = &ev.time.tv_usec as *const libc::suseconds_t as usize - base;
  let off_type = &ev.type_ as *const u16 as usize - base;
  let off_code = &ev.code as *const u16 as usize - base;
  let off_value = &ev.value as *const i32 as usize - base;
  let endian = if cfg!(target_endian = "little") { "little" } else { "big" };
  let probe = 0x0102u16.to_ne_bytes();
  format!("FACTS size={} off_time={} off_usec={} off_type={} off_code={} off_value={} timeval={} sec={} usec={} endian={} probe={:02x}{:02x}",
          size_of::<libc::input_event>(), off_time, off_usec, off_type, off_code, off_value,
          size_of::<libc::timeval>(), size_of::<libc::time_t>(), size_of::<libc::suseconds_t>(), endian, probe[0], probe[1])
}

pub fn known_keys() -> Vec<KeyCode> {
  let mut v = vec![];
  for c in 0..=0xffffu32 {
    if let Some(k) = <KeyCode as FromPrimitive>::from_u32(c) { v.push(k); }
  }
  v
}

struct Rec { sec: i64, usec: i64, type_: u16, code: u16, value: i32 }

fn rec_str(r: &Rec) -> String { format!("{}:{}:{}:{}:{}", r.sec, r.usec, r.type_, r.code, r.value) }

fn rand_time(rng: &mut Rng) -> (i64, i64) {
  match rng.below(12) {
    0 => (0, 0),
    1 => (-1, (rng.below(1_000_000)) as i64),
    2 => ((1i64 << 40) + rng.below(1000) as i64, 999_999),
    _ => (1_700_000_000 + rng.below(100_000_000) as i64, rng.below(1_000_000) as i64),
  }
}

fn rand_record(rng: &mut Rng, known: &[u16], unknown: &[u16]) -> Rec {
  let (sec, usec) = rand_time(rng);
  let k = *rng.pick(known);
  let (type_, code, value): (u16, u16, i32) = match rng.below(22) {
    // genuine key events
    0 | 1 | 2 | 3 | 4 | 5 => (1, k, rng.below(2) as i32),
    // EV_SYN
    6 => (0, 0, 0),
    7 => (0, *rng.pick(&[0u16, 1, 2, 3]), rng.below(3) as i32),
    // EV_MSC / MSC_SCAN
    8 => (4, 4, (0x70000 + rng.below(256)) as i32),
    // auto-repeat of a known key
    9 | 10 => (1, k, 2),
    // EV_KEY with a code the tool does not know
    11 => (1, *rng.pick(&[0u16, 600, 0xffff, 0x100, 0x2ff, 0x300]), rng.below(2) as i32),
    12 => (1, *rng.pick(unknown), rng.below(3) as i32),
    // known low byte, foreign high byte (a reader that looks at one byte of the code accepts it)
    13 => (1, (k & 0xff) | 0x4000, rng.below(2) as i32),
    // EV_KEY with other values
    14 => (1, k, *rng.pick(&[-1i32, -2, 3, 255, 256, 257, 65536, 65537, 0x0100_0000, 0x0100_0001,
                             i32::MIN, i32::MAX, i32::MIN + 1, -256, -65536, 0x7fff_ff00u32 as i32])),
    // other event types with key-like payload (a reader that looks at one byte of the type accepts 0x0101)
    15 => (*rng.pick(&[2u16, 3, 5, 0x11, 0x12, 0x14, 0x15, 0x16, 0x17, 0x1f]), k, rng.below(2) as i32),
    16 => (*rng.pick(&[0x0101u16, 0x0100, 0x0201, 0xff01, 0x8001]), k, rng.below(2) as i32),
    // anything
    17 => (rng.next() as u16, rng.next() as u16, rng.next() as i32),
    18 => (1, rng.next() as u16, rng.below(3) as i32),
    19 => (rng.below(3) as u16, k, rng.below(3) as i32),
    _ => (1, k, rng.below(2) as i32),
  };
  Rec { sec, usec, type_, code, value }
}

fn rand_batch(rng: &mut Rng, keys: &[KeyCode], common: &[KeyCode], high: &[KeyCode], maxlen: usize) -> Vec<Event> {
  let n = match rng.below(20) { 0 => 0, 1 => 1, 2 => 41 + rng.below(maxlen.saturating_sub(40).max(1)), _ => rng.below(41) };
  let mode = rng.below(4);
  let mut evs = vec![];
  for _ in 0..n {
    let k = match (mode, rng.below(10)) {
      (0, _) => rng.pick(keys).clone(),
      (1, _) => rng.pick(common).clone(),
      (2, _) => rng.pick(high).clone(),
      (_, 0..=3) => rng.pick(common).clone(),
      (_, 4..=6) => rng.pick(high).clone(),
      _ => rng.pick(keys).clone(),
    };
    evs.push(if rng.chance(1, 2) { Event::Pressed(k) } else { Event::Released(k) });
  }
  evs
}

fn write_case(out: &mut dyn Write, evs: &Vec<Event>) {
  let w = real_write(evs);
  match w {
    Written::Bytes(b) => {
      let rr = real_read(&b);
      writeln!(out, "W {} | {} | {}", evs_str(evs), hex(&b), read_result_str(&rr)).unwrap();
    }
    Written::Panic => { writeln!(out, "W {} | PANIC | OK", evs_str(evs)).unwrap(); }
    Written::Err(e) => { writeln!(out, "W {} | ERR:{} | OK", evs_str(evs), e).unwrap(); }
  }
}

fn read_case(out: &mut dyn Write, recs: &[Rec]) {
  let mut bytes = vec![];
  for r in recs { bytes.extend(record_bytes(r.sec, r.usec, r.type_, r.code, r.value)); }
  let rr = real_read(&bytes);
  let rs: Vec<String> = recs.iter().map(rec_str).collect();
  writeln!(out, "R {} | {} | {}", rs.join(" "), hex(&bytes), read_result_str(&rr)).unwrap();
}

fn raw_case(out: &mut dyn Write, bytes: &[u8]) {
  let rr = real_read(bytes);
  writeln!(out, "X {} | {}", hex(bytes), read_result_str(&rr)).unwrap();
}

fn tablet_case(out: &mut dyn Write, recs: &[Rec]) {
  let mut bytes = vec![];
  for r in recs { bytes.extend(record_bytes(r.sec, r.usec, r.type_, r.code, r.value)); }
  let rr = real_tablet_read(&bytes);
  let rs: Vec<String> = recs.iter().map(rec_str).collect();
  writeln!(out, "T {} | {} | {}", rs.join(" "), hex(&bytes), tablet_result_str(&rr)).unwrap();
}

fn tablet_raw_case(out: &mut dyn Write, bytes: &[u8]) {
  let rr = real_tablet_read(bytes);
  writeln!(out, "Y {} | {}", hex(bytes), tablet_result_str(&rr)).unwrap();
}

// the grid of the switch reader's decision: every combination is fed alone and drawn from in the mixtures
const TAB_TYPES: [u16; 9] = [0, 1, 2, 3, 4, 5, 0x11, 0x14, 0xffff];
const TAB_CODES: [u16; 5] = [0, 1, 2, 5, 0xffff];
const TAB_VALUES: [i32; 6] = [-1, 0, 1, 2, i32::MIN, i32::MAX];

fn rand_tablet_record(rng: &mut Rng, known: &[u16], unknown: &[u16]) -> Rec {
  let (sec, usec) = rand_time(rng);
  match rng.below(20) {
    // genuine tablet-mode switch events
    0 | 1 | 2 | 3 | 4 => Rec { sec, usec, type_: 5, code: 1, value: rng.below(2) as i32 },
    // the SYN_REPORT that follows every event of a real device
    5 | 6 => Rec { sec, usec, type_: 0, code: 0, value: 0 },
    // other switches (SW_LID, SW_HEADPHONE_INSERT, SW_DOCK, ...)
    7 | 8 => Rec { sec, usec, type_: 5, code: *rng.pick(&[0u16, 2, 3, 4, 5, 0x10, 0x101, 0xffff]), value: rng.below(2) as i32 },
    // the tablet switch with other values
    9 => Rec { sec, usec, type_: 5, code: 1, value: *rng.pick(&[-1i32, 2, 3, 256, 257, 65536, 65537, 0x0100_0000, 0x0100_0001, i32::MIN, i32::MAX, -256]) },
    // 5 / 1 in one byte of the type / code only
    10 => Rec { sec, usec, type_: *rng.pick(&[0x0105u16, 0x0500, 0xff05, 0x8005]), code: 1, value: rng.below(2) as i32 },
    11 => Rec { sec, usec, type_: 5, code: *rng.pick(&[0x0101u16, 0x0100, 0xff01, 0x8001]), value: rng.below(2) as i32 },
    // the writer's own key records (zero time, EV_KEY, known key, 1/0); KEY_ESC has code 1
    12 | 13 | 14 => Rec { sec: 0, usec: 0, type_: 1, code: if rng.chance(1, 3) { 1 } else { *rng.pick(known) }, value: rng.below(2) as i32 },
    // the grid
    15 | 16 | 17 => Rec { sec, usec, type_: *rng.pick(&TAB_TYPES), code: *rng.pick(&TAB_CODES), value: *rng.pick(&TAB_VALUES) },
    // anything the keyboard generator makes
    18 => rand_record(rng, known, unknown),
    _ => Rec { sec, usec, type_: rng.next() as u16, code: rng.next() as u16, value: rng.next() as i32 },
  }
}

pub fn main(args: &[String]) -> i32 {
  let a = args_map(args);
  let seed: u64 = a.get("seed").map(|s| s.parse().unwrap()).unwrap_or(1);
  let tier = a.get("tier").cloned().unwrap_or("quick".to_string());
  let thorough = tier == "thorough";
  let nbatches: usize = a.get("batches").map(|s| s.parse().unwrap()).unwrap_or(if thorough { 40000 } else { 3000 });
  let nstreams: usize = a.get("streams").map(|s| s.parse().unwrap()).unwrap_or(if thorough { 8000 } else { 800 });
  let outp = a.get("out").cloned().unwrap_or("/dev/stdout".to_string());
  let mut out = std::io::BufWriter::new(std::fs::File::create(&outp).expect("cannot create --out"));
  let mut rng = Rng::new(seed);

  writeln!(out, "{}", facts()).unwrap();

  // shrinking aid for the python engine: every record / event of a failing case on its own,
  // then every prefix
  if let Some(rs) = a.get("split-records") {
    let toks: Vec<&str> = rs.split_whitespace().collect();
    let parse = |t: &str| -> Rec {
      let f: Vec<i64> = t.split(':').map(|x| x.parse().expect("bad record")).collect();
      Rec { sec: f[0], usec: f[1], type_: f[2] as u16, code: f[3] as u16, value: f[4] as i32 }
    };
    for t in &toks { read_case(&mut out, &[parse(t)]); }
    for n in 2..=std::cmp::min(toks.len(), 300) { let v: Vec<Rec> = toks[..n].iter().map(|t| parse(t)).collect(); read_case(&mut out, &v); }
    out.flush().unwrap();
    println!("wire: split-records {}", toks.len());
    return 0;
  }
  if let Some(rs) = a.get("split-tablet-records") {
    let toks: Vec<&str> = rs.split_whitespace().collect();
    let parse = |t: &str| -> Rec {
      let f: Vec<i64> = t.split(':').map(|x| x.parse().expect("bad record")).collect();
      Rec { sec: f[0], usec: f[1], type_: f[2] as u16, code: f[3] as u16, value: f[4] as i32 }
    };
    for t in &toks { tablet_case(&mut out, &[parse(t)]); }
    for n in 2..=std::cmp::min(toks.len(), 300) { let v: Vec<Rec> = toks[..n].iter().map(|t| parse(t)).collect(); tablet_case(&mut out, &v); }
    out.flush().unwrap();
    println!("wire: split-tablet-records {}", toks.len());
    return 0;
  }
  if let Some(b) = a.get("split-batch") {
    let evs: Vec<Event> = b.split_whitespace().map(parse_ev).collect();
    for e in &evs { write_case(&mut out, &vec![e.clone()]); }
    for n in 2..=std::cmp::min(evs.len(), 300) { write_case(&mut out, &evs[..n].to_vec()); }
    out.flush().unwrap();
    println!("wire: split-batch {}", evs.len());
    return 0;
  }

  let keys = known_keys();
  let known: Vec<u16> = keys.iter().map(code).collect();
  let unknown: Vec<u16> = (0..=0xffffu16).filter(|c| !known.contains(c)).collect();
  let common: Vec<KeyCode> = keys.iter().filter(|k| code(k) < 128).cloned().collect();
  let high: Vec<KeyCode> = keys.iter().filter(|k| code(k) >= 256).cloned().collect();
  let high = if high.is_empty() { keys.clone() } else { high };
  let common = if common.is_empty() { keys.clone() } else { common };

  // ---- writer: every known key x {press, release}, the empty batch, random batches
  let mut nw = 0usize;
  write_case(&mut out, &vec![]); nw += 1;
  for k in &keys {
    write_case(&mut out, &vec![Event::Pressed(k.clone())]);
    write_case(&mut out, &vec![Event::Released(k.clone())]);
    nw += 2;
  }
  // all known keys in one batch, pressed then released in reverse
  {
    let mut evs: Vec<Event> = keys.iter().map(|k| Event::Pressed(k.clone())).collect();
    evs.extend(keys.iter().rev().map(|k| Event::Released(k.clone())));
    write_case(&mut out, &evs); nw += 1;
  }
  for _ in 0..nbatches {
    let evs = rand_batch(&mut rng, &keys, &common, &high, if thorough { 400 } else { 200 });
    write_case(&mut out, &evs); nw += 1;
  }

  // ---- reader: every code x value {0,1,2} as EV_KEY records, then seeded mixtures
  let mut nr = 0usize;
  let code_limit: u32 = if thorough { 0x10000 } else { 0x300 };
  let mut recs: Vec<Rec> = vec![];
  for c in 0..code_limit {
    for v in 0..3 {
      let (sec, usec) = rand_time(&mut rng);
      recs.push(Rec { sec, usec, type_: 1, code: c as u16, value: v });
    }
    if recs.len() >= 768 || c + 1 == code_limit { read_case(&mut out, &recs); nr += 1; recs.clear(); }
  }
  if !thorough {
    // a sample of the codes above KEY_MAX
    for _ in 0..6 {
      let mut recs: Vec<Rec> = vec![];
      for _ in 0..400 {
        let (sec, usec) = rand_time(&mut rng);
        recs.push(Rec { sec, usec, type_: 1, code: (0x300 + rng.below(0x10000 - 0x300)) as u16, value: rng.below(3) as i32 });
      }
      read_case(&mut out, &recs); nr += 1;
    }
  }
  for _ in 0..nstreams {
    let n = match rng.below(10) { 0 => 0, 1 => 1, 2 => 40 + rng.below(300), _ => rng.below(40) };
    let recs: Vec<Rec> = (0..n).map(|_| rand_record(&mut rng, &known, &unknown)).collect();
    read_case(&mut out, &recs); nr += 1;
  }
  // the writer's own batches with foreign records interleaved (the shape of C18_reader_filters)
  for _ in 0..nstreams / 2 {
    let evs = rand_batch(&mut rng, &keys, &common, &high, 60);
    let mut recs: Vec<Rec> = vec![];
    for e in &evs {
      while rng.chance(1, 3) {
        let mut f = rand_record(&mut rng, &known, &unknown);
        if f.type_ == 1 && (f.value == 0 || f.value == 1) && known.contains(&f.code) { f.value = 2; }
        recs.push(f);
      }
      let (c, v) = match e { Event::Pressed(k) => (code(k), 1), Event::Released(k) => (code(k), 0) };
      recs.push(Rec { sec: 0, usec: 0, type_: 1, code: c, value: v });
    }
    recs.push(Rec { sec: 0, usec: 0, type_: 0, code: 0, value: 0 });
    read_case(&mut out, &recs); nr += 1;
  }

  // ---- raw byte streams: garbage and truncated streams (model correspondence only)
  let mut nx = 0usize;
  for _ in 0..nstreams / 4 {
    let n = rng.below(200);
    let mut bytes: Vec<u8> = vec![];
    if rng.chance(1, 2) {
      for _ in 0..n { bytes.push(rng.next() as u8); }
    } else {
      let m = 1 + rng.below(6);
      for _ in 0..m {
        let r = rand_record(&mut rng, &known, &unknown);
        bytes.extend(record_bytes(r.sec, r.usec, r.type_, r.code, r.value));
      }
      let cut = rng.below(REC);
      let keep = bytes.len() - cut;
      bytes.truncate(keep);
    }
    raw_case(&mut out, &bytes); nx += 1;
  }

  // ---- the tablet-mode switch reader (property C12): its own generator state, so that the cases above
  // do not depend on it
  let mut trng = Rng::new(seed ^ 0x7ab1e7);
  let mut nt = 0usize;
  let mut ny = 0usize;
  tablet_case(&mut out, &[]); nt += 1;
  // every (type, code, value) of the grid as a single record, with a zero and with a random timestamp
  for &t in &TAB_TYPES { for &c in &TAB_CODES { for &v in &TAB_VALUES {
    tablet_case(&mut out, &[Rec { sec: 0, usec: 0, type_: t, code: c, value: v }]);
    let (sec, usec) = rand_time(&mut trng);
    tablet_case(&mut out, &[Rec { sec, usec, type_: t, code: c, value: v }]);
    nt += 2;
  } } }
  // the whole grid in one stream, in order and shuffled
  {
    let mut recs: Vec<Rec> = vec![];
    for &t in &TAB_TYPES { for &c in &TAB_CODES { for &v in &TAB_VALUES {
      let (sec, usec) = rand_time(&mut trng);
      recs.push(Rec { sec, usec, type_: t, code: c, value: v });
    } } }
    tablet_case(&mut out, &recs); nt += 1;
    trng.shuffle(&mut recs);
    tablet_case(&mut out, &recs); nt += 1;
  }
  // every grid record between two of the writer's own key records (ESC = code 1 released, then pressed)
  for &t in &TAB_TYPES { for &c in &TAB_CODES { for &v in &TAB_VALUES {
    tablet_case(&mut out, &[Rec { sec: 0, usec: 0, type_: 1, code: 1, value: 0 },
                            Rec { sec: 1, usec: 2, type_: t, code: c, value: v },
                            Rec { sec: 0, usec: 0, type_: 1, code: *trng.pick(&known), value: 1 }]);
    nt += 1;
  } } }
  // seeded mixtures
  let ntab = if thorough { nstreams } else { nstreams / 2 };
  for _ in 0..ntab {
    let n = match trng.below(10) { 0 => 1, 1 => 2, 2 => 40 + trng.below(300), _ => trng.below(40) };
    let recs: Vec<Rec> = (0..n).map(|_| rand_tablet_record(&mut trng, &known, &unknown)).collect();
    tablet_case(&mut out, &recs); nt += 1;
  }
  // a real writer batch (written by DevInputWriter::send itself) with switch records spliced between its records
  for _ in 0..ntab / 4 {
    let evs = rand_batch(&mut trng, &keys, &common, &high, 60);
    let mut recs: Vec<Rec> = vec![];
    for e in &evs {
      while trng.chance(1, 3) { recs.push(rand_tablet_record(&mut trng, &known, &unknown)); }
      let (c, v) = match e { Event::Pressed(k) => (code(k), 1), Event::Released(k) => (code(k), 0) };
      recs.push(Rec { sec: 0, usec: 0, type_: 1, code: c, value: v });
    }
    recs.push(Rec { sec: 0, usec: 0, type_: 0, code: 0, value: 0 });
    tablet_case(&mut out, &recs); nt += 1;
  }
  // truncated tails (every cut 1..23 of a stream ending in an On / Off record) and garbage
  for cut in 1..REC {
    let mut bytes: Vec<u8> = vec![];
    for _ in 0..trng.below(4) { let r = rand_tablet_record(&mut trng, &known, &unknown); bytes.extend(record_bytes(r.sec, r.usec, r.type_, r.code, r.value)); }
    let (sec, usec) = rand_time(&mut trng);
    bytes.extend(record_bytes(sec, usec, 5, 1, (cut % 2) as i32));
    let keep = bytes.len() - cut;
    bytes.truncate(keep);
    tablet_raw_case(&mut out, &bytes); ny += 1;
  }
  for _ in 0..ntab / 4 {
    let n = trng.below(200);
    let mut bytes: Vec<u8> = vec![];
    if trng.chance(1, 2) {
      for _ in 0..n { bytes.push(trng.next() as u8); }
    } else {
      let m = 1 + trng.below(6);
      for _ in 0..m {
        let r = rand_tablet_record(&mut trng, &known, &unknown);
        bytes.extend(record_bytes(r.sec, r.usec, r.type_, r.code, r.value));
      }
      let cut = trng.below(REC);
      let keep = bytes.len() - cut;
      bytes.truncate(keep);
    }
    tablet_raw_case(&mut out, &bytes); ny += 1;
  }
  out.flush().unwrap();
  println!("wire: seed={} tier={} known_keys={} write_cases={} read_cases={} raw_cases={} tablet_cases={} tablet_raw_cases={}", seed, tier, keys.len(), nw, nr, nx, nt, ny);
  0
}

pub fn replay_main(args: &[String]) -> i32 {
  let a = args_map_raw(args);
  println!("{}", facts());
  if let Some(b) = a.get("batch") {
    let evs: Vec<Event> = b.split_whitespace().map(parse_ev).collect();
    match real_write(&evs) {
      Written::Bytes(bytes) => {
        println!("batch: {}", evs_str(&evs));
        println!("real writer wrote {} bytes:", bytes.len());
        for ch in bytes.chunks(size_of::<libc::input_event>()) { println!("  {}", hex(ch)); }
        let rr = real_read(&bytes);
        println!("real reader on those bytes: {}", read_result_str(&rr));
      }
      Written::Panic => println!("real writer: PANIC"),
      Written::Err(e) => println!("real writer: ERR {}", e),
    }
  }
  if let Some(rs) = a.get("records") {
    let mut bytes = vec![];
    for t in rs.split_whitespace() {
      let f: Vec<i64> = t.split(':').map(|x| x.parse().expect("bad record")).collect();
      bytes.extend(record_bytes(f[0], f[1], f[2] as u16, f[3] as u16, f[4] as i32));
    }
    let rr = real_read(&bytes);
    println!("records: {}", rs);
    println!("real reader: {}", read_result_str(&rr));
  }
  if let Some(rs) = a.get("tablet-records") {
    let mut bytes = vec![];
    for t in rs.split_whitespace() {
      let f: Vec<i64> = t.split(':').map(|x| x.parse().expect("bad record")).collect();
      bytes.extend(record_bytes(f[0], f[1], f[2] as u16, f[3] as u16, f[4] as i32));
    }
    let rr = real_tablet_read(&bytes);
    println!("records (sec:usec:type:code:value): {}", rs);
    for ch in bytes.chunks(size_of::<libc::input_event>()) { println!("  {}", hex(ch)); }
    println!("real TabletModeSwitchReader::next until Err: {}", tablet_result_str(&rr));
  }
  if let Some(h) = a.get("tablet-bytes") {
    let bytes = unhex(h);
    let rr = real_tablet_read(&bytes);
    println!("bytes: {}", h);
    println!("real TabletModeSwitchReader::next until Err: {}", tablet_result_str(&rr));
  }
  if let Some(h) = a.get("bytes") {
    let bytes = unhex(h);
    let rr = real_read(&bytes);
    println!("bytes: {}", h);
    println!("real reader: {}", read_result_str(&rr));
  }
  0
}

// like util::args_map but a value may start with '-' (negative numbers in records)
fn args_map_raw(args: &[String]) -> std::collections::HashMap<String, String> {
  let mut m = std::collections::HashMap::new();
  let mut i = 0;
  while i + 1 < args.len() {
    if args[i].starts_with("--") { m.insert(args[i][2..].to_string(), args[i + 1].clone()); i += 2; } else { i += 1; }
  }
  m
}
