// mapper-graph: enumerate the reachable transition graph of the REAL Mapper
// (through the snapshot/restore/fingerprint hook) for every layout of a
// generated family and dump it as a table; also seeded random walks on big
// layouts (a walk is a degenerate, linear table).  The OCaml side replays the
// tables against the extracted Coq model and the extracted property monitors.
use crate::keys::{KeyCode, Event, Mapping, Repeat, Layout};
use crate::key_transforms::{Mapper, ResultingRepeat, StepResult, VerifSnapshot};
use crate::util::*;
use std::collections::HashMap;
use std::io::Write;
use std::panic::{catch_unwind, AssertUnwindSafe};

pub const A: u16 = 30;
pub const B: u16 = 48;
pub const C: u16 = 46;
pub const D: u16 = 32;
pub const X: u16 = 45;
pub const Y: u16 = 21;
pub const LEFTSHIFT: u16 = 42;
pub const RIGHTSHIFT: u16 = 54;
pub const LEFTCTRL: u16 = 29;
pub const LEFTALT: u16 = 56;
pub const CAPSLOCK: u16 = 58;
pub const F20: u16 = 190;
pub const F21: u16 = 191;
pub const FOREIGN_KEY: u16 = 57;      // SPACE
pub const FOREIGN_MOD: u16 = 100;     // RIGHTALT

pub struct NamedLayout {
  pub tag: String,
  pub mappings: Vec<Mapping>,
}

fn is_mod(k: u16) -> bool {
  matches!(k, 42 | 54 | 125 | 126 | 29 | 97 | 56 | 100)
}

fn mk(from: &[u16], to: &[u16], repeat: Repeat, abs: &[u16]) -> Mapping {
  Mapping {
    from: from.iter().map(|c| key(*c)).collect(),
    to: to.iter().map(|c| key(*c)).collect(),
    repeat,
    absorbing: abs.iter().map(|c| key(*c)).collect(),
  }
}

fn repeat_of(kind: usize, rng: &mut Rng) -> Repeat {
  match kind {
    0 => Repeat::Normal,
    1 => Repeat::Disabled,
    _ => {
      let keys: Vec<u16> = match rng.below(4) { 0 => vec![], 1 => vec![F20], 2 => vec![LEFTCTRL, F20], _ => vec![F21] };
      // mostly ordinary timings; one in four from the edges the parser also accepts (zero, negative, extreme)
      let (d, i): (i32, i32) = if rng.chance(1, 4) {
        *rng.pick(&[(0, 0), (0, 30), (130, 0), (-1, 30), (130, -7), (i32::MAX, 1), (1, i32::MIN), (-2147483647, 2147483647)])
      } else { (200 + 10 * (rng.below(5) as i32), 30 + (rng.below(4) as i32)) };
      Repeat::Special { keys: keys.iter().map(|c| key(*c)).collect(), delay_ms: d, interval_ms: i }
    }
  }
}

// all ordered selections of `len` distinct keys
fn selections(alpha: &[u16], len: usize) -> Vec<Vec<u16>> {
  if len == 0 { return vec![vec![]]; }
  let mut res = vec![];
  for s in selections(alpha, len - 1) {
    for k in alpha {
      if !s.contains(k) { let mut t = s.clone(); t.push(*k); res.push(t); }
    }
  }
  res
}

// Family A: every single-mapping layout over {A, B, LEFTSHIFT, CAPSLOCK}
pub fn family_single(rng: &mut Rng) -> Vec<NamedLayout> {
  let alpha = [A, B, LEFTSHIFT, CAPSLOCK];
  let mut res = vec![];
  let mut froms = selections(&alpha, 1); froms.extend(selections(&alpha, 2));
  let mut tos = selections(&alpha, 0); tos.extend(selections(&alpha, 1)); tos.extend(selections(&alpha, 2));
  for f in &froms {
    for t in &tos {
      for kind in 0..3 {
        let trig_mods: Vec<u16> = f[..f.len() - 1].to_vec();
        let nsub = 1usize << trig_mods.len();
        for sub in 0..nsub {
          let abs: Vec<u16> = trig_mods.iter().enumerate().filter(|(i, _)| sub & (1 << i) != 0).map(|(_, k)| *k).collect();
          let tag = format!("single/{:?}>{:?}/r{}/a{:?}", f, t, kind, abs).replace(' ', "");
          res.push(NamedLayout { tag, mappings: vec![mk(f, t, repeat_of(kind, rng), &abs)] });
        }
      }
    }
  }
  res
}

fn random_mapping(rng: &mut Rng, alpha: &[u16], absorbing_ok: bool) -> Mapping {
  let flen = match rng.below(10) { 0..=3 => 1, 4..=7 => 2, _ => 3 };
  let mut from: Vec<u16> = vec![];
  while from.len() < flen {
    let k = *rng.pick(alpha);
    if !from.contains(&k) { from.push(k); }
  }
  // triggers usually end in an ordinary key
  if rng.chance(7, 10) {
    if let Some(pos) = from.iter().position(|k| !is_mod(*k)) { let l = from.len() - 1; from.swap(pos, l); }
  }
  let tlen = match rng.below(10) { 0 => 0, 1..=4 => 1, 5..=8 => 2, _ => 3 };
  let mut to: Vec<u16> = vec![];
  while to.len() < tlen {
    let k = *rng.pick(alpha);
    if !to.contains(&k) { to.push(k); }
  }
  // outputs usually end in an ordinary key (key-producing mapping)
  if tlen > 0 && rng.chance(6, 10) {
    if let Some(pos) = to.iter().position(|k| !is_mod(*k)) { let l = to.len() - 1; to.swap(pos, l); }
  }
  let kind = match rng.below(10) { 0..=5 => 0, 6..=7 => 1, _ => 2 };
  let mut abs = vec![];
  if absorbing_ok && from.len() > 1 {
    for k in &from[..from.len() - 1] { if rng.chance(1, 2) { abs.push(*k); } }
  }
  mk(&from, &to, repeat_of(kind, rng), &abs)
}

// Family B: seeded sample of layouts with 2..4 mappings over a 6-key alphabet
pub fn family_multi(rng: &mut Rng, count: usize) -> Vec<NamedLayout> {
  let alpha = [A, B, C, LEFTSHIFT, LEFTCTRL, CAPSLOCK];
  let mut res = vec![];
  for i in 0..count {
    let n = 2 + rng.below(3);
    // strata: every third layout has no absorbing mapping at all
    let absorbing_ok = i % 3 != 0;
    // restrict the alphabet so mappings overlap often
    let mut sub: Vec<u16> = alpha.to_vec();
    rng.shuffle(&mut sub);
    let keep = 3 + rng.below(4);
    sub.truncate(keep);
    if !sub.iter().any(|k| !is_mod(*k)) { sub.push(A); }
    let mut ms = vec![];
    for _ in 0..n { ms.push(random_mapping(rng, &sub, absorbing_ok)); }
    res.push(NamedLayout { tag: format!("multi/{}", i), mappings: ms });
  }
  res
}

pub fn load_corpus_layouts(dir: &str) -> Vec<NamedLayout> {
  let mut res = vec![];
  let mut names: Vec<std::path::PathBuf> = match std::fs::read_dir(dir) {
    Ok(rd) => rd.filter_map(|e| e.ok()).map(|e| e.path()).filter(|p| p.extension().map(|x| x == "layout").unwrap_or(false)).collect(),
    Err(_) => vec![],
  };
  names.sort();
  for p in names {
    let text = std::fs::read_to_string(&p).expect("read corpus layout");
    let ms: Vec<Mapping> = text.lines().filter(|l| l.starts_with("M ")).map(parse_mapping_line).collect();
    res.push(NamedLayout { tag: format!("corpus/{}", p.file_stem().unwrap().to_string_lossy()), mappings: ms });
  }
  res
}

fn rep_str(r: &ResultingRepeat) -> String {
  match r {
    ResultingRepeat::Disabled => "D".to_string(),
    ResultingRepeat::NoChange => "N".to_string(),
    ResultingRepeat::Repeating { keys, delay_ms, interval_ms } => {
      let mut s = format!("S {}", keys.len());
      for k in keys { s += &format!(" {}", code(k)); }
      s += &format!(" {} {}", delay_ms, interval_ms);
      s
    }
  }
}

// the eight standard modifiers (what the PROPERTIES mean by "modifier"; not read from the code)
pub const STANDARD_MODS: [u16; 8] = [42, 54, 29, 97, 56, 100, 125, 126];

pub fn alphabet_of(ms: &[Mapping]) -> Vec<u16> {
  let mut alpha: Vec<u16> = vec![];
  for m in ms {
    for k in m.from.iter().chain(m.to.iter()).chain(m.absorbing.iter()) {
      let c = code(k);
      if !alpha.contains(&c) { alpha.push(c); }
    }
  }
  alpha.sort();
  if !alpha.contains(&FOREIGN_KEY) { alpha.push(FOREIGN_KEY); }
  // one foreign modifier, rotating over the standard modifiers from layout to layout (so that every one of
  // them is exercised as an uninvolved key somewhere in the family)
  let start = alpha.iter().map(|c| *c as usize).sum::<usize>() + ms.len();
  for i in 0..8 {
    let f = STANDARD_MODS[(start + i) % 8];
    if !alpha.contains(&f) { alpha.push(f); break; }
  }
  alpha
}

// alphabet of a layout of the family: its own keys, the foreign keys, and any extra codes named in the tag
// after '+' (tag "alias/96+352+608": also press/release 352 and 608)
pub fn alphabet_for(nl: &NamedLayout) -> Vec<u16> {
  let mut alpha = alphabet_of(&nl.mappings);
  for part in nl.tag.split('+').skip(1) {
    if let Ok(c) = part.parse::<u16>() { if !alpha.contains(&c) { alpha.push(c); } }
  }
  alpha
}

// Family X: keys whose codes differ from a trigger/output key by a power of two (64 .. 512) are pressed as
// foreign keys next to it: an index or hash that confuses key codes "modulo something" shows up here
pub fn family_alias() -> Vec<NamedLayout> {
  let mut res = vec![];
  for k in [A, 96u16, 57, 42, 28] {
    let mut extra: Vec<u16> = vec![];
    for d in [64u16, 128, 256, 512] {
      let c = k + d;
      let valid: Option<crate::key_codes::KeyCode> = num_traits::FromPrimitive::from_u16(c);
      if valid.is_some() { extra.push(c); }
    }
    if extra.is_empty() { continue; }
    let tag = format!("alias/{}{}", k, extra.iter().map(|c| format!("+{}", c)).collect::<String>());
    res.push(NamedLayout { tag, mappings: vec![
      mk(&[k], &[45], Repeat::Normal, &[]),
      mk(&[k, B], &[21], Repeat::Normal, &[]),
    ] });
  }
  res
}

// Family M: for every standard modifier M, a key-producing mapping with M in its output, a plain mapping and
// a no-repeat mapping (stale modifiers, no-repeat release) and M as a trigger modifier
pub fn family_modifiers() -> Vec<NamedLayout> {
  let mut res = vec![];
  for m in STANDARD_MODS {
    res.push(NamedLayout { tag: format!("modifier/{}", m), mappings: vec![
      mk(&[A], &[m, 45], Repeat::Normal, &[]),
      mk(&[B], &[21], Repeat::Normal, &[]),
      mk(&[46], &[46], Repeat::Disabled, &[]),
      mk(&[m, 47], &[33], Repeat::Normal, &[]),
    ] });
  }
  res
}

struct Node {
  snap: VerifSnapshot,
  phys: Vec<u16>,
}

pub struct GraphStats {
  pub nodes: usize,
  pub edges: usize,
  pub truncated: bool,
  pub panics: usize,
  pub fired_edges: usize,
}

// BFS over (mapper state, physically held set); writes the table to `out`
pub fn explore(nl: &NamedLayout, id: usize, max_held: usize, node_cap: usize, out: &mut dyn Write) -> GraphStats {
  let mut stats = GraphStats { nodes: 0, edges: 0, truncated: false, panics: 0, fired_edges: 0 };
  writeln!(out, "LAYOUT {} {}", id, nl.tag).unwrap();
  for m in &nl.mappings { writeln!(out, "{}", mapping_line(m)).unwrap(); }
  let alpha = alphabet_for(nl);
  let astr: Vec<String> = alpha.iter().map(|k| k.to_string()).collect();
  writeln!(out, "ALPHA {}", astr.join(" ")).unwrap();
  writeln!(out, "MAXHELD {}", max_held).unwrap();
  let layout = Layout { mappings: nl.mappings.clone() };
  let made = catch_unwind(AssertUnwindSafe(|| Mapper::for_layout(&layout)));
  let mut mapper = match made {
    Ok(m) => m,
    Err(_) => { writeln!(out, "FORLAYOUT-PANIC").unwrap(); writeln!(out, "END 0 0").unwrap(); stats.panics += 1; return stats; }
  };
  let mut ids: HashMap<String, usize> = HashMap::new();
  let mut nodes: Vec<Node> = vec![];
  let key0 = format!("{}|", mapper.verif_fingerprint());
  ids.insert(key0, 0);
  nodes.push(Node { snap: mapper.verif_snapshot(), phys: vec![] });
  let mut next = 0usize;
  while next < nodes.len() {
    let src = next;
    next += 1;
    let phys = nodes[src].phys.clone();
    // labels: P k / R k for every k of the alphabet (ill-formed ones included), and release-all
    let mut labels: Vec<(char, u16)> = vec![];
    for k in &alpha {
      if phys.contains(k) || phys.len() < max_held { labels.push(('P', *k)); }
      labels.push(('R', *k));
    }
    labels.push(('A', 0));
    for (kind, k) in labels {
      mapper.verif_restore(&nodes[src].snap);
      let label = if kind == 'A' { "A".to_string() } else { format!("{}{}", kind, k) };
      let res: Result<(Vec<Event>, String), _> = catch_unwind(AssertUnwindSafe(|| {
        match kind {
          'P' => { let r = mapper.step(Event::Pressed(key(k))); (r.events, rep_str(&r.repeat)) },
          'R' => { let r = mapper.step(Event::Released(key(k))); (r.events, rep_str(&r.repeat)) },
          _ => { let evs = mapper.release_all(); (evs, "-".to_string()) }
        }
      }));
      match res {
        Err(_) => {
          writeln!(out, "X {} {}", src, label).unwrap();
          stats.panics += 1;
        },
        Ok((evs, rep)) => {
          let mut nphys = phys.clone();
          match kind {
            'P' => { if !nphys.contains(&k) { nphys.push(k); nphys.sort(); } },
            'R' => { nphys.retain(|x| *x != k); },
            _ => { nphys.clear(); }
          }
          let pstr: Vec<String> = nphys.iter().map(|k| k.to_string()).collect();
          let nkey = format!("{}|{}", mapper.verif_fingerprint(), pstr.join(","));
          let dst: i64 = match ids.get(&nkey) {
            Some(d) => *d as i64,
            None => {
              if nodes.len() >= node_cap { stats.truncated = true; -1 }
              else {
                let d = nodes.len();
                ids.insert(nkey, d);
                nodes.push(Node { snap: mapper.verif_snapshot(), phys: nphys });
                d as i64
              }
            }
          };
          if !evs.is_empty() { stats.fired_edges += 1; }
          stats.edges += 1;
          if evs.is_empty() {
            writeln!(out, "E {} {} {} {} 0", src, label, dst, rep).unwrap();
          } else {
            writeln!(out, "E {} {} {} {} {} {}", src, label, dst, rep, evs.len(), evs_str(&evs)).unwrap();
          }
        }
      }
    }
  }
  stats.nodes = nodes.len();
  writeln!(out, "END {} {}", nodes.len(), if stats.truncated { 1 } else { 0 }).unwrap();
  stats
}

// A seeded random walk on a (big) layout, written as a linear table.
pub fn walk(nl: &NamedLayout, id: usize, steps: usize, rng: &mut Rng, out: &mut dyn Write) -> GraphStats {
  let mut stats = GraphStats { nodes: 0, edges: 0, truncated: false, panics: 0, fired_edges: 0 };
  writeln!(out, "LAYOUT {} {}", id, nl.tag).unwrap();
  for m in &nl.mappings { writeln!(out, "{}", mapping_line(m)).unwrap(); }
  let alpha = alphabet_for(nl);
  writeln!(out, "ALPHA").unwrap();
  writeln!(out, "MAXHELD 0").unwrap();
  let layout = Layout { mappings: nl.mappings.clone() };
  let made = catch_unwind(AssertUnwindSafe(|| Mapper::for_layout(&layout)));
  let mut mapper = match made {
    Ok(m) => m,
    Err(_) => { writeln!(out, "FORLAYOUT-PANIC").unwrap(); writeln!(out, "END 0 0").unwrap(); stats.panics += 1; return stats; }
  };
  // keys that occur as triggers are preferred, chords are built up and torn down
  let mut trig: Vec<u16> = vec![];
  for m in &nl.mappings { for k in &m.from { let c = code(k); if !trig.contains(&c) { trig.push(c); } } }
  let mut phys: Vec<u16> = vec![];
  let mut node = 0usize;
  for _ in 0..steps {
    let r = rng.below(100);
    let (kind, k): (char, u16) =
      if r < 1 { ('A', 0) }
      else if r < 4 && !phys.is_empty() { ('P', *rng.pick(&phys)) }           // duplicate press
      else if r < 7 { ('R', *rng.pick(&alpha)) }                                // possibly ill-formed release
      else if (r < 50 || phys.len() >= 5) && !phys.is_empty() { ('R', *rng.pick(&phys)) }
      else {
        // press: mostly trigger keys of mappings whose other triggers are held
        let mut cands: Vec<u16> = vec![];
        for m in &nl.mappings {
          let f: Vec<u16> = m.from.iter().map(code).collect();
          let (last, rest) = f.split_last().unwrap();
          if rest.iter().all(|x| phys.contains(x)) && !phys.contains(last) { cands.push(*last); }
          for x in rest { if !phys.contains(x) && rng.chance(1, 3) { cands.push(*x); } }
        }
        if cands.is_empty() || rng.chance(1, 6) { ('P', *rng.pick(&alpha)) } else { ('P', *rng.pick(&cands)) }
      };
    let label = if kind == 'A' { "A".to_string() } else { format!("{}{}", kind, k) };
    let res: Result<(Vec<Event>, String), _> = catch_unwind(AssertUnwindSafe(|| {
      match kind {
        'P' => { let r = mapper.step(Event::Pressed(key(k))); (r.events, rep_str(&r.repeat)) },
        'R' => { let r = mapper.step(Event::Released(key(k))); (r.events, rep_str(&r.repeat)) },
        _ => { let evs = mapper.release_all(); (evs, "-".to_string()) }
      }
    }));
    match res {
      Err(_) => { writeln!(out, "X {} {}", node, label).unwrap(); stats.panics += 1; break; },
      Ok((evs, rep)) => {
        match kind {
          'P' => { if !phys.contains(&k) { phys.push(k); } },
          'R' => { phys.retain(|x| *x != k); },
          _ => { phys.clear(); }
        }
        if !evs.is_empty() { stats.fired_edges += 1; }
        stats.edges += 1;
        if evs.is_empty() {
          writeln!(out, "E {} {} {} {} 0", node, label, node + 1, rep).unwrap();
        } else {
          writeln!(out, "E {} {} {} {} {} {}", node, label, node + 1, rep, evs.len(), evs_str(&evs)).unwrap();
        }
        node += 1;
      }
    }
  }
  stats.nodes = node + 1;
  writeln!(out, "END {} 0", node + 1).unwrap();
  stats
}

pub fn builtin_layouts() -> Vec<NamedLayout> {
  let mut res = vec![];
  let names = ["caps-for-movement", "easy-symbols", "caps-q-for-esc", "easy-symbols-tab-for-movement", "super-dvorak"];
  let _ = names;
  let mut all: Vec<(&String, &&'static str)> = crate::default_fancy_layouts::DEFAULT_LAYOUTS.iter().collect();
  all.sort();
  for (name, json) in all {
    let parsed = serde_json::from_str::<serde_json::Value>(json).map_err(|e| e.to_string())
      .and_then(|v| crate::layout_parsing_formatting::parse_layout_from_json(&v))
      .and_then(|f| crate::fancy_layout_interpreting::convert(&f));
    match parsed {
      Ok(l) => res.push(NamedLayout { tag: format!("builtin/{}", name), mappings: l.mappings }),
      Err(e) => eprintln!("harness: builtin layout {} does not load: {}", name, e),
    }
  }
  res
}

// tm-harness mapper-graph --out DIR --seed N --tier quick|thorough --corpus DIR --shards K
pub fn main(args: &[String]) -> i32 {
  let a = args_map(args);
  let out_dir = a.get("out").expect("--out").clone();
  let seed: u64 = a.get("seed").map(|s| s.parse().unwrap()).unwrap_or(1);
  let tier = a.get("tier").cloned().unwrap_or("quick".to_string());
  let corpus = a.get("corpus").cloned().unwrap_or("".to_string());
  let shards: usize = a.get("shards").map(|s| s.parse().unwrap()).unwrap_or(16);
  let thorough = tier == "thorough";
  let max_held: usize = a.get("max-held").map(|s| s.parse().unwrap()).unwrap_or(if thorough { 5 } else { 4 });
  let node_cap: usize = a.get("node-cap").map(|s| s.parse().unwrap()).unwrap_or(if thorough { 60000 } else { 4000 });
  let n_single: usize = a.get("single").map(|s| s.parse().unwrap()).unwrap_or(if thorough { 100000 } else { 120 });
  let n_multi: usize = a.get("multi").map(|s| s.parse().unwrap()).unwrap_or(if thorough { 3000 } else { 260 });
  let walk_steps: usize = a.get("walk-steps").map(|s| s.parse().unwrap()).unwrap_or(if thorough { 20000 } else { 3000 });
  std::fs::create_dir_all(&out_dir).unwrap();

  let mut rng = Rng::new(seed);
  let mut layouts: Vec<(NamedLayout, bool)> = vec![];   // (layout, walk?)
  for l in load_corpus_layouts(&corpus) { layouts.push((l, false)); }
  let mut singles = family_single(&mut rng);
  if singles.len() > n_single { rng.shuffle(&mut singles); singles.truncate(n_single); }
  for l in singles { layouts.push((l, false)); }
  for l in family_multi(&mut rng, n_multi) { layouts.push((l, false)); }
  for l in family_modifiers() { layouts.push((l, false)); }
  for l in family_alias() { layouts.push((l, false)); }
  for l in builtin_layouts() { layouts.push((l, true)); }

  let total = layouts.len();
  let layouts = std::sync::Arc::new(layouts);
  let mut handles = vec![];
  for sh in 0..shards {
    let layouts = layouts.clone();
    let out_dir = out_dir.clone();
    handles.push(std::thread::spawn(move || {
      let path = format!("{}/shard_{:02}.tbl", out_dir, sh);
      let f = std::fs::File::create(&path).unwrap();
      let mut w = std::io::BufWriter::new(f);
      let mut agg = (0usize, 0usize, 0usize, 0usize, 0usize, 0usize); // layouts nodes edges truncated panics fired
      for (i, (nl, is_walk)) in layouts.iter().enumerate() {
        if i % shards != sh { continue; }
        let st = if *is_walk {
          let mut r = Rng::new(seed ^ ((i as u64) << 20) ^ 0xabcdef);
          walk(nl, i, walk_steps, &mut r, &mut w)
        } else {
          explore(nl, i, max_held, node_cap, &mut w)
        };
        agg.0 += 1; agg.1 += st.nodes; agg.2 += st.edges; agg.3 += st.truncated as usize; agg.4 += st.panics; agg.5 += st.fired_edges;
      }
      w.flush().unwrap();
      agg
    }));
  }
  let mut agg = (0usize, 0usize, 0usize, 0usize, 0usize, 0usize);
  for h in handles {
    let a = h.join().unwrap();
    agg.0 += a.0; agg.1 += a.1; agg.2 += a.2; agg.3 += a.3; agg.4 += a.4; agg.5 += a.5;
  }
  println!("mapper-graph: layouts={} nodes={} edges={} truncated={} panics={} nonempty_edges={} max_held={} node_cap={}",
    total, agg.1, agg.2, agg.3, agg.4, agg.5, max_held, node_cap);
  0
}

// tm-harness mapper-replay --layout FILE --history "P30 R30 A ..."
// prints the real mapper's answer to each event (used by ./check --replay)
pub fn replay_main(args: &[String]) -> i32 {
  let a = args_map(args);
  let text = std::fs::read_to_string(a.get("layout").expect("--layout")).expect("read layout");
  let ms: Vec<Mapping> = text.lines().filter(|l| l.starts_with("M ")).map(parse_mapping_line).collect();
  let hist = a.get("history").cloned().unwrap_or_default();
  let layout = Layout { mappings: ms };
  let mut mapper = match catch_unwind(AssertUnwindSafe(|| Mapper::for_layout(&layout))) {
    Ok(m) => m,
    Err(_) => { println!("FORLAYOUT-PANIC"); return 0; }
  };
  for tok in hist.split_whitespace() {
    let res: Result<(Vec<Event>, String), _> = catch_unwind(AssertUnwindSafe(|| {
      if tok == "A" { (mapper.release_all(), "-".to_string()) }
      else { let r = mapper.step(parse_ev(tok)); (r.events, rep_str(&r.repeat)) }
    }));
    match res {
      Err(_) => { println!("{} => PANIC", tok); break; },
      Ok((evs, rep)) => println!("{} => [{}] {}", tok, evs_str(&evs), rep),
    }
  }
  0
}
