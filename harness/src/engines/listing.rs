// listing: keyboard selection (property C16).
//
//   listing-gen    --out DIR --seed N --tier quick|thorough --repo /repo [--texts K] [--scenarios K]
//       writes DIR/cases.txt: seeded /proc/bus/input/devices texts assembled from a
//       library of realistic entries, with the REAL results of the two extractors
//       (through the cfg(ellbur_totalmapper_verif) hooks) on the whole text, on its
//       preamble and on every entry alone; exclusion cases (real flag_excluded* vs
//       each other and vs WildMatch itself); and DIR/ns/*.spec scenarios for
//       listing-ns.
//   listing-ns     --dir DIR --out FILE [--real-bin PATH]
//       MUST run inside `unshare -m`: for every scenario mounts a fabricated
//       /proc/bus/input/devices, /sys/devices and /dev/input, then records what the
//       real list_keyboards / list_input_devices / do_remapping_loop_all_devices /
//       do_remapping_loop_multiple_devices (and, with --real-bin, the real binary)
//       select.  PRIMARY observation of a selection run: which fabricated nodes of
//       /dev/input the child process OPENS (inotify IN_OPEN on the directory; lines
//       SAO/SDO/RAO/RDO/RUO) - the loop opens the selected nodes in order and stops
//       at the first failure (a fabricated node is a plain file: the evdev ioctl
//       fails), the auto mode opens every selected node.  SECONDARY: what the
//       verbose log says (lines SA/SD/RA/RD/RU), used by the checker only where it
//       has the expected shape and agrees with the opens.  A scenario with a line
//       `OPT auto` also gets a run of `--auto-all-keyboards` of the real binary
//       (never returns: killed once it sleeps after its first round, 3 s at most).
//   listing-probe  ...   (child of listing-ns: one selection call, stderr captured by the parent)
//   listing-replay --hex TEXT
//       prints the real extractors' answers on one text and on its entries.
//
// ocaml/listing_check.ml compares everything with the extracted Coq model and
// applies the extracted checkers to the real outputs.
use crate::util::*;
use crate::keyboard_listing::{ExtractedKeyboard, ExtractedInputDevice};
use crate::keyboard_listing::verif::{extract_keyboards, extract_input_devices};
use crate::remapping_loop::verif::{flag_excluded_names, flag_excluded_input_device_names};
use crate::keys::Layout;
use std::collections::{BTreeMap, BTreeSet, HashMap};
use std::io::Write;
use std::panic::{catch_unwind, AssertUnwindSafe};
use std::path::{Path, PathBuf};
use std::process::Command;
use wildmatch::WildMatch;

// ------------------------------------------------------------------ encoding

fn hx(b: &[u8]) -> String {
  if b.is_empty() { return "-".to_string(); }
  let mut s = String::with_capacity(b.len() * 2);
  for x in b { s += &format!("{:02x}", x); }
  s
}

fn unhx(s: &str) -> Vec<u8> {
  if s == "-" { return vec![]; }
  (0..s.len() / 2).map(|i| u8::from_str_radix(&s[2 * i..2 * i + 2], 16).expect("bad hex")).collect()
}

fn real_kbd(text: &str) -> String {
  match catch_unwind(AssertUnwindSafe(|| extract_keyboards(text))) {
    Err(_) => "P".to_string(),
    Ok(v) => {
      let mut s = format!("O {}", v.len());
      for (p, n) in &v { s += &format!(" {} {}", hx(p.as_bytes()), hx(n.as_bytes())); }
      s
    }
  }
}

fn real_dev(text: &str) -> String {
  match catch_unwind(AssertUnwindSafe(|| extract_input_devices(text))) {
    Err(_) => "P".to_string(),
    Ok(v) => {
      let mut s = format!("O {}", v.len());
      for (p, n, k) in &v { s += &format!(" {} {} {}", hx(p.as_bytes()), hx(n.as_bytes()), if *k { 1 } else { 0 }); }
      s
    }
  }
}

// the harness's own entry splitter (validated against the model's split_entries
// by the OCaml side): lines before the first "I:" line, then blocks starting at "I:" lines
fn split_entries(text: &str) -> (Vec<&str>, Vec<Vec<&str>>) {
  let mut pre = vec![];
  let mut es: Vec<Vec<&str>> = vec![];
  for line in text.split('\n') {
    if line.starts_with("I:") { es.push(vec![line]); }
    else if let Some(last) = es.last_mut() { last.push(line); }
    else { pre.push(line); }
  }
  (pre, es)
}

// same text -> same shard, so that the checker's count of DISTINCT texts is global
fn shard_of(text: &str, shards: usize) -> usize {
  let mut h: u64 = 0xcbf29ce484222325;
  for b in text.as_bytes() { h ^= *b as u64; h = h.wrapping_mul(0x100000001b3); }
  (h % (shards as u64)) as usize
}

fn emit_text_case(out: &mut impl Write, id: usize, family: &str, text: &str) -> usize {
  writeln!(out, "T {} {} {}", id, family, hx(text.as_bytes())).unwrap();
  writeln!(out, "K {} {}", id, real_kbd(text)).unwrap();
  writeln!(out, "D {} {}", id, real_dev(text)).unwrap();
  let (pre, es) = split_entries(text);
  if pre.is_empty() {
    writeln!(out, "E {} 0 ~", id).unwrap();
    writeln!(out, "EK {} 0 O 0", id).unwrap();
    writeln!(out, "ED {} 0 O 0", id).unwrap();
  } else {
    let t = pre.join("\n");
    writeln!(out, "E {} 0 {}", id, hx(t.as_bytes())).unwrap();
    writeln!(out, "EK {} 0 {}", id, real_kbd(&t)).unwrap();
    writeln!(out, "ED {} 0 {}", id, real_dev(&t)).unwrap();
  }
  for (i, e) in es.iter().enumerate() {
    let t = e.join("\n");
    writeln!(out, "E {} {} {}", id, i + 1, hx(t.as_bytes())).unwrap();
    writeln!(out, "EK {} {} {}", id, i + 1, real_kbd(&t)).unwrap();
    writeln!(out, "ED {} {} {}", id, i + 1, real_dev(&t)).unwrap();
  }
  writeln!(out, "END {}", id).unwrap();
  es.len()
}

// ------------------------------------------------------------------ library of entries

#[derive(Clone)]
struct Ent { cat: &'static str, lines: Vec<String> }

const KBD_AT: &str = "402000000 3803078f800d001 feffffdfffefffff fffffffffffffffe";
const KBD_USB: &str = "1000000000007 ff9f207ac14057ff febeffdfffefffff fffffffffffffffe";
const KBD_LAPTOP: &str = "1100f02902000 8380307cf910f001 feffffdfffefffff fffffffffffffffe";
const CONSUMER: &str = "3f000301ff 0 0 483ffff17aff32d bfd4444600000000 1 130ff38b17c000 677bfad9415fed 19ed68000004400 10000002";
const SYSCTL: &str = "c000 10000000000000 0";
const MOUSE_BTN: &str = "ffff0000 0 0 0 0";
const MOUSE_KBD: &str = "1f 0 0 0 0 0 0 0 4000000000000 1000000000007 ff9f207ac14057ff febeffdfffefffff fffffffffffffffe";
const ALL_KEYS: &str = "7fffffffffffffff ffffffffffffffff ffffffffffffffff ffffffffffffffff ffffffffffffffff ffffffffffffffff ffffffffffffffff ffffffffffffffff ffffffffffffffff ffffffffffffffff ffffffffffffffff fffffffffffffffe";

fn ent(cat: &'static str, bus: &str, name: &str, phys: &str, sysfs: &str, handlers: &str, ev: &str, key: Option<&str>, more: &[&str]) -> Ent {
  let mut l = vec![
    format!("I: Bus={} Vendor=046d Product=c31c Version=0110", bus),
    format!("N: Name=\"{}\"", name),
    format!("P: Phys={}", phys),
    format!("S: Sysfs={}", sysfs),
    "U: Uniq=".to_string(),
    format!("H: Handlers={} ", handlers),
    "B: PROP=0".to_string(),
    format!("B: EV={}", ev),
  ];
  if let Some(k) = key { l.push(format!("B: KEY={}", k)); }
  for m in more { l.push(m.to_string()); }
  Ent { cat, lines: l }
}

fn library(repo: &str) -> Vec<Ent> {
  let mut lib = vec![];
  // the repository's captured list, parsed out of the source constant at run time
  let src = std::fs::read_to_string(format!("{}/src/example_hardware.rs", repo)).unwrap_or_default();
  if let (Some(a), Some(b)) = (src.find("r#\""), src.rfind("\"#")) {
    let body = &src[a + 3..b];
    for block in body.split("\n\n") {
      let lines: Vec<String> = block.split('\n').filter(|l| !l.is_empty()).map(|l| l.to_string()).collect();
      if lines.iter().any(|l| l.starts_with("I:")) { lib.push(Ent { cat: "captured", lines }); }
    }
  }
  let usb = "/devices/pci0000:00/0000:00:14.0/usb1/1-3";
  lib.push(ent("at", "0011", "AT Translated Set 2 keyboard", "isa0060/serio0/input0", "/devices/platform/i8042/serio0/input/input3", "sysrq kbd event3 leds", "120013", Some(KBD_AT), &["B: MSC=10", "B: LED=7"]));
  lib.push(ent("at", "0011", "AT Raw Set 2 keyboard", "isa0060/serio0/input0", "/devices/platform/i8042/serio0/input/input4", "sysrq kbd event4 leds", "120013", Some(KBD_LAPTOP), &["B: MSC=10", "B: LED=7"]));
  lib.push(ent("usbkbd", "0003", "Logitech USB Keyboard", "usb-0000:00:14.0-3/input0", &format!("{}/1-3:1.0/0003:046D:C31C.0001/input/input10", usb), "sysrq kbd event10 leds", "120013", Some(KBD_USB), &["B: MSC=10", "B: LED=1f"]));
  lib.push(ent("usbkbd", "0003", "Logitech USB Keyboard Consumer Control", "usb-0000:00:14.0-3/input1", &format!("{}/1-3:1.1/0003:046D:C31C.0002/input/input11", usb), "kbd event11", "1f", Some(CONSUMER), &["B: REL=1040", "B: ABS=100000000", "B: MSC=10"]));
  lib.push(ent("usbkbd", "0003", "Logitech USB Keyboard System Control", "usb-0000:00:14.0-3/input1", &format!("{}/1-3:1.1/0003:046D:C31C.0002/input/input12", usb), "kbd event12", "13", Some(SYSCTL), &["B: MSC=10"]));
  lib.push(ent("usbkbd", "0003", "Keychron K2 Keyboard", "usb-0000:00:14.0-4/input0", "/devices/pci0000:00/0000:00:14.0/usb1/1-4/1-4:1.0/0003:05AC:024F.0005/input/input13", "sysrq kbd event13 leds", "120013", Some(KBD_USB), &["B: LED=1f"]));
  lib.push(ent("usbkbd", "0003", "ZSA Technology Labs Moonlander Mark I", "usb-0000:00:14.0-5/input0", "/devices/pci0000:00/0000:00:14.0/usb1/1-5/1-5:1.0/0003:3297:1969.0006/input/input14", "sysrq kbd event14 leds", "120013", Some(KBD_USB), &["B: LED=1f"]));
  lib.push(ent("mouse", "0003", "Logitech G502 HERO Gaming Mouse", "usb-0000:00:14.0-6/input0", "/devices/pci0000:00/0000:00:14.0/usb1/1-6/1-6:1.0/0003:046D:C08B.0007/input/input15", "mouse0 event15", "17", Some(MOUSE_BTN), &["B: REL=1943", "B: MSC=10"]));
  // names with a comma (an option parser that splits values at ',' breaks --exclude for these)
  lib.push(ent("usbkbd", "0003", "Apple, Inc Apple Keyboard", "usb-0000:00:14.0-7/input0", "/devices/pci0000:00/0000:00:14.0/usb1/1-7/1-7:1.0/0003:05AC:0221.000D/input/input50", "sysrq kbd event50 leds", "120013", Some(KBD_USB), &["B: MSC=10", "B: LED=1f"]));
  lib.push(ent("usbkbd", "0003", "Chicony Electronics Co., Ltd. USB Keyboard", "usb-0000:00:14.0-8/input0", "/devices/pci0000:00/0000:00:14.0/usb1/1-8/1-8:1.0/0003:04F2:0111.000E/input/input51", "sysrq kbd event51 leds", "120013", Some(KBD_USB), &["B: MSC=10", "B: LED=7"]));
  lib.push(ent("mousekbd", "0003", "Logitech G502 HERO Gaming Mouse Keyboard", "usb-0000:00:14.0-6/input1", "/devices/pci0000:00/0000:00:14.0/usb1/1-6/1-6:1.1/0003:046D:C08B.0008/input/input16", "sysrq kbd event16 leds", "120013", Some(KBD_USB), &["B: MSC=10", "B: LED=1f"]));
  lib.push(ent("mousekbd", "0003", "Razer Razer DeathAdder Elite", "usb-0000:00:14.0-7/input1", "/devices/pci0000:00/0000:00:14.0/usb1/1-7/1-7:1.1/0003:1532:005C.0009/input/input17", "sysrq kbd event17", "100013", Some(MOUSE_KBD), &["B: MSC=10"]));
  lib.push(ent("mousekbd", "0003", "SteelSeries Rival 600 Mouse", "usb-0000:00:14.0-8/input2", "/devices/pci0000:00/0000:00:14.0/usb1/1-8/1-8:1.2/0003:1038:1724.000A/input/input18", "sysrq kbd mouse1 event18 leds", "120017", Some(MOUSE_KBD), &["B: REL=903", "B: MSC=10", "B: LED=1f"]));
  lib.push(ent("mousekbd", "0003", "Corsair Gaming mouse keyboard", "usb-0000:00:14.0-9/input1", "/devices/pci0000:00/0000:00:14.0/usb1/1-9/1-9:1.1/0003:1B1C:1B2E.000B/input/input19", "sysrq kbd event19", "100013", Some(KBD_USB), &["B: MSC=10"]));
  lib.push(ent("button", "0019", "Power Button", "LNXPWRBN/button/input0", "/devices/LNXSYSTM:00/LNXPWRBN:00/input/input20", "kbd event20", "3", Some("10000000000000 0"), &[]));
  lib.push(ent("button", "0019", "Sleep Button", "PNP0C0E/button/input0", "/devices/LNXSYSTM:00/LNXSYBUS:00/PNP0C0E:00/input/input21", "kbd event21", "3", Some("4000 0 0"), &[]));
  lib.push(ent("button", "0019", "Intel Virtual Buttons", "", "/devices/pci0000:00/0000:00:1f.0/PNP0C09:00/INT33D6:00/input/input22", "kbd event22", "13", Some("2000000000000 0 0 0 0 1000000000000 0 201c000000000000 0"), &["B: MSC=10"]));
  lib.push(ent("switch", "0019", "Lid Switch", "PNP0C0D/button/input0", "/devices/LNXSYSTM:00/LNXSYBUS:00/PNP0C0D:00/input/input23", "event23", "21", None, &["B: SW=1"]));
  lib.push(ent("switch", "0019", "Intel HID switches", "", "/devices/platform/INT33D5:00/input/input24", "event24", "21", None, &["B: SW=2"]));
  lib.push(ent("switch", "0019", "Asus WMI hotkeys", "asus-nb-wmi/input0", "/devices/platform/asus-nb-wmi/input/input25", "kbd event25 rfkill", "100033", Some("1000000080000 800000c00 1040000 0 0 e1000000000 10008000300000 1080800000000000 0"), &["B: MSC=10", "B: SW=2"]));
  lib.push(ent("virtual", "0003", "totalmapper", "", "/devices/virtual/input/input40", "sysrq kbd event40", "13", Some(ALL_KEYS), &["B: MSC=10"]));
  lib.push(ent("virtual", "0006", "ydotoold virtual device", "", "/devices/virtual/input/input41", "sysrq kbd mouse2 event41", "7", Some(ALL_KEYS), &["B: REL=1943"]));
  lib.push(ent("virtual", "0003", "py-evdev-uinput keyboard", "py-evdev-uinput", "/devices/virtual/input/input42", "sysrq kbd event42 leds", "120013", Some(KBD_USB), &["B: MSC=10", "B: LED=7"]));
  lib.push(ent("virtual", "0000", "Virtual misc keyboard", "", "/devices/virtual/misc/uhid/0005:046D:B342.000C/input/input43", "sysrq kbd event43 leds", "120013", Some(KBD_USB), &["B: LED=1f"]));
  lib.push(ent("cros", "0006", "cros_ec", "i2c-cros-ec-keyb/input0", "/devices/platform/GOOG0004:00/i2c-cros-ec-keyb/input/input44", "sysrq kbd event44", "100013", Some(KBD_LAPTOP), &["B: MSC=10"]));
  lib.push(ent("cros", "0006", "cros_ec_buttons", "gpio-keys/input0", "/devices/platform/GOOG0007:00/input/input45", "kbd event45", "100023", Some("1c000000000000 0"), &["B: SW=3"]));
  lib.push(ent("nonascii", "0005", "Клавиатура Logitech K380", "a0:b1:c2:d3:e4:f5", "/devices/pci0000:00/0000:00:14.0/usb1/1-10/1-10:1.0/bluetooth/hci0/hci0:256/0005:046D:B342.000D/input/input46", "sysrq kbd event46 leds", "12001f", Some(KBD_USB), &["B: LED=1f"]));
  lib.push(ent("nonascii", "0005", "Tastatur für Büro – Keyboard K380", "a0:b1:c2:d3:e4:f6", "/devices/virtual/misc/uhid/0005:046D:B343.000E/input/input47", "sysrq kbd event47 leds", "12001f", Some(KBD_USB), &["B: LED=1f"]));
  lib.push(ent("nonascii", "0003", "キーボード HHKB Mouse", "usb-0000:00:14.0-11/input0", "/devices/pci0000:00/0000:00:14.0/usb1/1-11/1-11:1.0/0003:04FE:0021.000F/input/input48", "sysrq kbd event48", "100013", Some(KBD_USB), &[]));
  lib.push(ent("nonascii", "0003", "\u{212A}EYBOARD Mouse Combo", "usb-0000:00:14.0-12/input0", "/devices/pci0000:00/0000:00:14.0/usb1/1-12/1-12:1.0/0003:04FE:0022.0010/input/input49", "sysrq kbd event49", "100013", Some(MOUSE_KBD), &[]));
  lib.push(ent("nonascii", "0003", "İKEYBOARD Mouse é", "usb-0000:00:14.0-13/input0", "/devices/pci0000:00/0000:00:14.0/usb1/1-13/1-13:1.0/0003:04FE:0023.0011/input/input50", "sysrq kbd event50", "100013", Some(MOUSE_KBD), &[]));
  lib
}

// ------------------------------------------------------------------ mutations

fn mask_from_codes(codes: &[u32]) -> String {
  let maxc = codes.iter().cloned().max().unwrap_or(0);
  let nw = (maxc / 64 + 1) as usize;
  let mut w = vec![0u64; nw];
  for c in codes { w[(*c / 64) as usize] |= 1u64 << (*c % 64); }
  let toks: Vec<String> = w.iter().rev().map(|x| format!("{:x}", x)).collect();
  toks.join(" ")
}

const NORMAL: [u32; 10] = [30, 48, 46, 57, 42, 54, 14, 28, 1, 119];

// a mask with exactly `total` bits, `n_normal` of them from the heuristic's ten keys
fn borderline_mask(rng: &mut Rng, total: usize, n_normal: usize, scroll: bool) -> String {
  let mut set: BTreeSet<u32> = BTreeSet::new();
  let mut normal = NORMAL.to_vec();
  rng.shuffle(&mut normal);
  for c in normal.iter().take(n_normal.min(10)) { set.insert(*c); }
  if scroll { set.insert(178); }
  let mut guard = 0;
  while set.len() < total && guard < 10000 {
    guard += 1;
    let c = 2 + rng.below(250) as u32;
    if NORMAL.contains(&c) || c == 178 || c % 64 == 63 { continue; }
    set.insert(c);
  }
  let v: Vec<u32> = set.into_iter().collect();
  mask_from_codes(&v)
}

// a key count at the threshold that includes keys in bit 63 of a mask word (F5 = 63, COMPOSE = 127, F21 = 191): the
// heuristic counts the set bits of the hex digits, while parse_mask_hex never reads bit 63 of a word
fn borderline63_mask(rng: &mut Rng, total: usize, n_normal: usize) -> String {
  let mut set: BTreeSet<u32> = BTreeSet::new();
  let mut normal = NORMAL.to_vec();
  rng.shuffle(&mut normal);
  for c in normal.iter().take(n_normal.min(10)) { set.insert(*c); }
  let hi = [63u32, 127, 191];
  let k = 1 + rng.below(3);
  for c in hi.iter().take(k) { set.insert(*c); }
  let mut guard = 0;
  while set.len() < total && guard < 10000 {
    guard += 1;
    let c = 2 + rng.below(250) as u32;
    if NORMAL.contains(&c) || c == 178 || c % 64 == 63 { continue; }
    set.insert(c);
  }
  let v: Vec<u32> = set.into_iter().collect();
  mask_from_codes(&v)
}

fn mutate_mask(rng: &mut Rng, mask: &str, stats: &mut BTreeMap<String, u64>) -> String {
  let mut toks: Vec<String> = mask.split(' ').map(|s| s.to_string()).collect();
  let which = rng.below(22);
  let tag;
  let res = match which {
    0 => { tag = "upper_all"; mask.to_uppercase() }
    1 => { tag = "upper_one"; let i = rng.below(toks.len()); toks[i] = toks[i].to_uppercase(); toks.join(" ") }
    2 => { tag = "double_space"; let i = rng.below(toks.len()); toks[i] = format!("{} ", toks[i]); toks.join(" ") }
    3 => { tag = "leading_space"; format!(" {}", mask) }
    4 => { tag = "trailing_space"; format!("{} ", mask) }
    5 => { tag = "plus"; let i = rng.below(toks.len()); toks[i] = format!("+{}", toks[i]); toks.join(" ") }
    6 => { tag = "minus"; let i = rng.below(toks.len()); toks[i] = format!("-{}", toks[i]); toks.join(" ") }
    7 => { tag = "0x"; let i = rng.below(toks.len()); toks[i] = format!("0x{}", toks[i]); toks.join(" ") }
    8 => { tag = "overflow17"; let i = rng.below(toks.len()); toks[i] = format!("1{:0>16}", toks[i]); toks.join(" ") }
    9 => { tag = "leading_zeros"; let i = rng.below(toks.len()); toks[i] = format!("0000{:0>16}", toks[i]); toks.join(" ") }
    10 => { tag = "nonhex"; let i = rng.below(toks.len()); toks[i] = format!("{}g", toks[i]); toks.join(" ") }
    11 => { tag = "empty"; String::new() }
    12 => { tag = "bit63"; let i = rng.below(toks.len()); toks[i] = "8000000000000000".to_string(); toks.join(" ") }
    13 => { tag = "tab"; mask.replacen(' ', "\t", 1) }
    14 => { tag = "lone_plus"; let i = rng.below(toks.len()); toks[i] = "+".to_string(); toks.join(" ") }
    15 => { tag = "borderline"; let t = 17 + rng.below(7); let nn = 2 + rng.below(4); let sc = rng.chance(1, 4); borderline_mask(rng, t, nn, sc) }
    16 => { tag = "borderline20"; let nn = 3 + rng.below(3); borderline_mask(rng, 20, nn, false) }
    17 => { tag = "drop_token"; if toks.len() > 1 { let i = rng.below(toks.len()); toks.remove(i); } toks.join(" ") }
    18 => { tag = "mixed_case_digit"; mask.replacen('f', "F", 1 + rng.below(3)) }
    19 | 20 => { tag = "borderline63"; let t = 19 + rng.below(4); let nn = 3 + rng.below(3); borderline63_mask(rng, t, nn) }
    _ => { tag = "nonascii"; let i = rng.below(toks.len()); toks[i] = format!("{}é", toks[i]); toks.join(" ") }
  };
  *stats.entry(format!("mask_{}", tag)).or_insert(0) += 1;
  res
}

const KB_VARIANTS: [&str; 10] = ["keyboard", "Keyboard", "KEYBOARD", "KeyBoard", "keyb0ard", "\u{212A}eyboard", "\u{212A}EYBOARD", "keybo\u{430}rd", "Key board", "keyboarD"];
const MOUSE_VARIANTS: [&str; 5] = ["Mouse", "mouse", "MOUSE", "M\u{43e}use", "Mouse Mouse"];
const SUFFIXES: [&str; 18] = [" ", "  ", "\t", "\u{a0}", "\u{2003}", "\u{3000}", "\u{85}", "\r", "\"", "\"\"", " \"", "é", "ß", "\u{200b}", "\u{180e}", "\u{feff}", "\u{1680}", "\u{202f}\u{205f}"];
const CLOSINGS: [&str; 9] = ["\"", "", "\" ", "\"\"", "\"\r", "\" \u{a0}", "\"x", "\"\u{2028}", " "];

fn replace_ci(hay: &str, needle_lc: &str, with: &str) -> String {
  let lower = hay.to_ascii_lowercase();
  match lower.find(needle_lc) {
    Some(i) if hay.is_char_boundary(i) && hay.is_char_boundary(i + needle_lc.len()) => format!("{}{}{}", &hay[..i], with, &hay[i + needle_lc.len()..]),
    _ => hay.to_string(),
  }
}

fn mutate_name_line(rng: &mut Rng, line: &str, stats: &mut BTreeMap<String, u64>) -> String {
  // line = N: Name="...": take the inner name
  let inner0 = line.strip_prefix("N: Name=\"").unwrap_or(line);
  let inner = inner0.strip_suffix('"').unwrap_or(inner0).to_string();
  let mut name = inner.clone();
  let which = rng.below(12);
  let tag;
  match which {
    0 => { tag = "kb_variant"; let v = *rng.pick(&KB_VARIANTS); name = if name.to_ascii_lowercase().contains("keyboard") { replace_ci(&name, "keyboard", v) } else { format!("{} {}", name, v) }; }
    1 => { tag = "mouse_variant"; let v = *rng.pick(&MOUSE_VARIANTS); name = if name.to_ascii_lowercase().contains("mouse") { replace_ci(&name, "mouse", v) } else { format!("{} {}", name, v) }; }
    2 => { tag = "both"; name = format!("{} {} {}", name, rng.pick(&MOUSE_VARIANTS), rng.pick(&KB_VARIANTS)); }
    3 => { tag = "suffix"; name = format!("{}{}", name, rng.pick(&SUFFIXES)); }
    4 => { tag = "empty_name"; name = String::new(); }
    5 => { tag = "cros_ec"; name = (*rng.pick(&["cros_ec", "cros_ec ", "cros_ec\"", "Cros_ec", "cros_ec2"])).to_string(); }
    6 => { tag = "closing"; let c = *rng.pick(&CLOSINGS); *stats.entry("name_closing".to_string()).or_insert(0) += 1; return format!("N: Name=\"{}{}", name, c); }
    7 => { tag = "no_open_quote"; *stats.entry("name_no_open_quote".to_string()).or_insert(0) += 1; return format!("N: Name={}", name); }
    8 => { tag = "suffix_closing"; let s = *rng.pick(&SUFFIXES); let c = *rng.pick(&CLOSINGS); *stats.entry("name_suffix_closing".to_string()).or_insert(0) += 1; return format!("N: Name=\"{}{}{}", name, s, c); }
    9 => { tag = "only_quote"; *stats.entry("name_only_quote".to_string()).or_insert(0) += 1; return (*rng.pick(&["N: Name=\"", "N: Name=\"\"", "N: Name=\"\"\"", "N: Name=\" \"", "N: Name=\"\u{a0}"])).to_string(); }
    10 => { tag = "inner_quote"; name = format!("{}\" \"{}", name, rng.pick(&KB_VARIANTS)); }
    _ => { tag = "leading_nonascii"; name = format!("{}{}", rng.pick(&["é", "\u{212A}", "\u{3000}", "\u{a0}", "ʞ"]), name); }
  }
  *stats.entry(format!("name_{}", tag)).or_insert(0) += 1;
  format!("N: Name=\"{}\"", name)
}

const EVS: [&str; 14] = ["120013", "100013", "13", "3", "1f", "120013 ", "20013", "20000", "120013\t", "12001F", "+120013", " 120013", "", "1 120013"];
const SYSFS_VARIANTS: [&str; 10] = [
  "/devices/virtual/input/input60", "/devices/virtual/input/", "/devices/virtual/input", "/devices/virtual/inputX/input61",
  "/devices/virtual/misc/uhid/input62", " /devices/virtual/input/input63", "/devices/platform/kbd/input/input64 ", "",
  "/devices/VIRTUAL/input/input65", "//devices/virtual/input/input66"];

fn mutate_entry(rng: &mut Rng, e: &Ent, stats: &mut BTreeMap<String, u64>) -> Vec<String> {
  let mut lines = e.lines.clone();
  let n_mut = match rng.below(10) { 0..=2 => 0, 3..=6 => 1, 7..=8 => 2, _ => 3 };
  for _ in 0..n_mut {
    let which = rng.below(16);
    match which {
      0 | 1 => { // drop a field line
        let prefixes = ["N:", "S:", "B: EV=", "B: KEY=", "H:", "P:", "U:", "I:"];
        let p = prefixes[if rng.chance(1, 12) { 7 } else { rng.below(7) }];
        if let Some(i) = lines.iter().position(|l| l.starts_with(p)) { lines.remove(i); *stats.entry(format!("drop_{}", p.chars().filter(|c| c.is_ascii_alphanumeric()).collect::<String>())).or_insert(0) += 1; }
      }
      2 => { // duplicate a field line somewhere later
        if !lines.is_empty() { let i = rng.below(lines.len()); let l = lines[i].clone(); let j = i + rng.below(lines.len() - i + 1); lines.insert(j.min(lines.len()), l); *stats.entry("dup_line".to_string()).or_insert(0) += 1; }
      }
      3 | 4 => { // reorder the field lines after the first line
        if lines.len() > 2 { let mut rest: Vec<String> = lines.split_off(1); rng.shuffle(&mut rest); lines.extend(rest); *stats.entry("shuffle_fields".to_string()).or_insert(0) += 1; }
      }
      5 | 6 | 7 => {
        if let Some(i) = lines.iter().position(|l| l.starts_with("N: Name=")) { let l = mutate_name_line(rng, &lines[i].clone(), stats); lines[i] = l; }
      }
      8 | 9 | 10 => {
        if let Some(i) = lines.iter().position(|l| l.starts_with("B: KEY=")) { let m = mutate_mask(rng, &lines[i][7..].to_string(), stats); lines[i] = format!("B: KEY={}", m); }
      }
      11 | 12 => {
        if let Some(i) = lines.iter().position(|l| l.starts_with("B: EV=")) { lines[i] = format!("B: EV={}", rng.pick(&EVS)); *stats.entry("ev_variant".to_string()).or_insert(0) += 1; }
      }
      13 => {
        if let Some(i) = lines.iter().position(|l| l.starts_with("S: Sysfs=")) { lines[i] = format!("S: Sysfs={}", rng.pick(&SYSFS_VARIANTS)); *stats.entry("sysfs_variant".to_string()).or_insert(0) += 1; }
      }
      14 => { // a second KEY line (the classification runs once per KEY line)
        let m = if rng.chance(1, 2) { MOUSE_BTN.to_string() } else { KBD_USB.to_string() };
        let j = rng.below(lines.len() + 1); lines.insert(j, format!("B: KEY={}", m)); *stats.entry("second_key_line".to_string()).or_insert(0) += 1;
      }
      _ => { // indent a line so that its prefix no longer matches
        if !lines.is_empty() { let i = rng.below(lines.len()); lines[i] = format!(" {}", lines[i]); *stats.entry("indent_line".to_string()).or_insert(0) += 1; }
      }
    }
  }
  lines
}

fn assemble(rng: &mut Rng, blocks: &[Vec<String>], stats: &mut BTreeMap<String, u64>) -> String {
  let eol = if rng.chance(1, 25) { *stats.entry("crlf".to_string()).or_insert(0) += 1; "\r\n" } else { "\n" };
  let mut s = String::new();
  if rng.chance(1, 10) {
    // a preamble without I: line
    *stats.entry("preamble".to_string()).or_insert(0) += 1;
    let pre = ["N: Name=\"ghost keyboard\"", "S: Sysfs=/devices/ghost/input/input99", "B: EV=120013", &format!("B: KEY={}", KBD_USB), "", "garbage"];
    let k = 1 + rng.below(pre.len());
    for l in pre.iter().take(k) { s += l; s += eol; }
  }
  for (i, b) in blocks.iter().enumerate() {
    for l in b { s += l; s += eol; }
    let last = i + 1 == blocks.len();
    if !rng.chance(1, 12) { s += eol; } else { *stats.entry("no_blank_separator".to_string()).or_insert(0) += 1; }
    if last && rng.chance(1, 5) {
      // missing final newline(s)
      *stats.entry("no_final_newline".to_string()).or_insert(0) += 1;
      while s.ends_with('\n') || s.ends_with('\r') { s.pop(); }
    }
  }
  s
}

fn pick_entry<'a>(rng: &mut Rng, lib: &'a [Ent]) -> &'a Ent {
  // half of the picks from the hand-written categories so that every category is frequent
  if rng.chance(1, 3) {
    let cap: Vec<&Ent> = lib.iter().filter(|e| e.cat == "captured").collect();
    if !cap.is_empty() { return cap[rng.below(cap.len())]; }
  }
  let other: Vec<&Ent> = lib.iter().filter(|e| e.cat != "captured").collect();
  other[rng.below(other.len())]
}

fn utf8(c: char) -> String { c.to_string() }

// ------------------------------------------------------------------ gen

pub fn main(args: &[String]) -> i32 {
  let a = args_map(args);
  let out_dir = a.get("out").expect("--out").clone();
  let seed: u64 = a.get("seed").map(|s| s.parse().unwrap()).unwrap_or(1);
  let tier = a.get("tier").cloned().unwrap_or("quick".to_string());
  let repo = a.get("repo").cloned().unwrap_or("/repo".to_string());
  let thorough = tier == "thorough";
  let n_texts: usize = a.get("texts").map(|s| s.parse().unwrap()).unwrap_or(if thorough { 60000 } else { 6000 });
  let n_scen: usize = a.get("scenarios").map(|s| s.parse().unwrap()).unwrap_or(if thorough { 300 } else { 40 });
  let n_excl: usize = a.get("excl").map(|s| s.parse().unwrap()).unwrap_or(if thorough { 3000 } else { 300 });
  let sweep_hi: u32 = a.get("sweep-hi").map(|s| s.parse().unwrap()).unwrap_or(0x3100);
  std::fs::create_dir_all(&out_dir).unwrap();
  let lib = library(&repo);
  let n_captured = lib.iter().filter(|e| e.cat == "captured").count();
  let mut rng = Rng::new(seed ^ 0x16);
  let mut stats: BTreeMap<String, u64> = BTreeMap::new();
  let shards: usize = a.get("shards").map(|s| s.parse().unwrap()).unwrap_or(16);
  let mut outs: Vec<std::io::BufWriter<std::fs::File>> = (0..shards).map(|i| std::io::BufWriter::new(std::fs::File::create(format!("{}/cases_{:02}.txt", out_dir, i)).unwrap())).collect();
  let mut id = 0usize;
  let mut n_entries = 0usize;
  let mut fam_count: BTreeMap<String, u64> = BTreeMap::new();

  // ---- family captured: the repository's list verbatim, and permutations of it
  let cap: Vec<Vec<String>> = lib.iter().filter(|e| e.cat == "captured").map(|e| e.lines.clone()).collect();
  if !cap.is_empty() {
    let mut s = String::new();
    for b in &cap { for l in b { s += l; s += "\n"; } s += "\n"; }
    n_entries += emit_text_case(&mut outs[shard_of(&s, shards)], id, "captured", &s); id += 1;
    *fam_count.entry("captured".to_string()).or_insert(0) += 1;
    for _ in 0..(if thorough { 200 } else { 20 }) {
      let mut c = cap.clone();
      rng.shuffle(&mut c);
      let k = 1 + rng.below(c.len());
      c.truncate(k);
      let mut s = String::new();
      for b in &c { for l in b { s += l; s += "\n"; } s += "\n"; }
      n_entries += emit_text_case(&mut outs[shard_of(&s, shards)], id, "captured", &s); id += 1;
      *fam_count.entry("captured".to_string()).or_insert(0) += 1;
    }
  }
  // ---- every library entry alone, unmutated
  for e in &lib {
    let mut s = String::new();
    for l in &e.lines { s += l; s += "\n"; }
    s += "\n";
    n_entries += emit_text_case(&mut outs[shard_of(&s, shards)], id, "single", &s); id += 1;
    *fam_count.entry("single".to_string()).or_insert(0) += 1;
  }
  // ---- family assembled: random entries, random order, mutated field lines
  for _ in 0..n_texts {
    let k = match rng.below(10) { 0 => 1, 1..=3 => 2, 4..=6 => 3 + rng.below(3), _ => 6 + rng.below(if thorough { 20 } else { 6 }) };
    let mut blocks = vec![];
    for _ in 0..k {
      let e = pick_entry(&mut rng, &lib);
      *stats.entry(format!("cat_{}", e.cat)).or_insert(0) += 1;
      blocks.push(mutate_entry(&mut rng, e, &mut stats));
    }
    let s = assemble(&mut rng, &blocks, &mut stats);
    n_entries += emit_text_case(&mut outs[shard_of(&s, shards)], id, "assembled", &s); id += 1;
    *fam_count.entry("assembled".to_string()).or_insert(0) += 1;
  }
  // ---- family leak: a full entry followed by an entry that lacks fields
  // (name / EV mask / sysfs of the neighbour must not be used)
  let kb_like: Vec<&Ent> = lib.iter().filter(|e| e.lines.iter().any(|l| l.starts_with("B: KEY="))).collect();
  for _ in 0..(n_texts / 4).max(50) {
    let a1 = kb_like[rng.below(kb_like.len())];
    let b1 = kb_like[rng.below(kb_like.len())];
    let mut second = b1.lines.clone();
    let drops: &[&str] = match rng.below(7) { 0 => &["N:"], 1 => &["B: EV="], 2 => &["S:"], 3 => &["N:", "B: EV="], 4 => &["N:", "S:"], 5 => &["B: EV=", "S:"], _ => &["N:", "B: EV=", "S:"] };
    second.retain(|l| !drops.iter().any(|p| l.starts_with(p)));
    if rng.chance(1, 4) {
      // the KEY line before the fields that follow it in the kernel's order
      if let Some(i) = second.iter().position(|l| l.starts_with("B: KEY=")) { let l = second.remove(i); second.insert(1.min(second.len()), l); }
    }
    let mut blocks = vec![a1.lines.clone(), second];
    if rng.chance(1, 3) { blocks.push(pick_entry(&mut rng, &lib).lines.clone()); }
    if rng.chance(1, 6) { blocks[1].remove(0); *stats.entry("leak_no_I_line".to_string()).or_insert(0) += 1; }
    let s = assemble(&mut rng, &blocks, &mut stats);
    n_entries += emit_text_case(&mut outs[shard_of(&s, shards)], id, "leak", &s); id += 1;
    *fam_count.entry("leak".to_string()).or_insert(0) += 1;
  }
  // ---- family scalar: one text per Unicode scalar (trim_end / to_lowercase tables).
  // All scalars below sweep_hi, plus every scalar anywhere that the REAL
  // char::is_whitespace / char::to_lowercase treat specially (exhaustive scan).
  let letters = ['k', 'e', 'y', 'b', 'o', 'a', 'r', 'd'];
  let mut special: BTreeSet<u32> = BTreeSet::new();
  let mut scanned = 0u64;
  let mut n_ws = 0u64;
  let mut n_lower = 0u64;
  for u in 0u32..=0x10FFFF {
    if let Some(c) = char::from_u32(u) {
      scanned += 1;
      let ws = c.is_whitespace();
      let lo = c.to_lowercase().any(|x| letters.contains(&x));
      if ws { n_ws += 1; }
      if lo { n_lower += 1; }
      if ws || lo || c.to_lowercase().any(|x| x.is_ascii()) != c.is_ascii() { special.insert(u); }
    }
  }
  // thorough: every scalar below sweep_hi; quick: ASCII..Latin/IPA, the blocks that
  // contain White_Space scalars or U+212A, the neighbours of every scalar the real
  // tables treat specially, and a seeded sample of the rest
  let mut sweep_set: BTreeSet<u32> = BTreeSet::new();
  if thorough { for u in 0..sweep_hi { sweep_set.insert(u); } }
  else {
    for (lo, hi) in [(0u32, 0x250u32), (0x1670, 0x1690), (0x1800, 0x1810), (0x2000, 0x2070), (0x2120, 0x2130), (0x2ff8, 0x3008), (0xfef8, 0xff00)].iter() {
      for u in *lo..*hi { sweep_set.insert(u); }
    }
    for _ in 0..400 { sweep_set.insert(rng.below(0x110000) as u32); }
  }
  for u in &special { for d in 0..5u32 { sweep_set.insert((*u + d).saturating_sub(2)); } }
  let sweep: Vec<u32> = sweep_set.into_iter().filter(|u| char::from_u32(*u).is_some()).collect();
  let word = "keyboard";
  for u in &sweep {
    let c = char::from_u32(*u).unwrap();
    if c == '\n' { continue; }
    let cs = utf8(c);
    let mut s = String::new();
    // trim_end: scalar at the very end, after the closing quote, and before it
    s += &format!("I: a\nN: Name=\"USB Kbd{}\nS: Sysfs=/devices/a\nB: EV=120013\nB: KEY={}\n\n", cs, KBD_USB);
    s += &format!("I: b\nN: Name=\"USB Kbd\"{}\nS: Sysfs=/devices/b\nB: EV=120013\nB: KEY={}\n\n", cs, KBD_USB);
    s += &format!("I: c\nN: Name=\"USB Kbd{}\"\nS: Sysfs=/devices/c\nB: EV=120013\nB: KEY={}\n\n", cs, KBD_USB);
    // to_lowercase: the scalar in the place of one letter of KEYBOARD in a mousey device
    let positions: Vec<usize> = if *u < 0x250 || special.contains(u) { (0..8).collect() } else { vec![0] };
    for p in positions {
      let nm: String = word.chars().enumerate().map(|(i, ch)| if i == p { cs.clone() } else { ch.to_ascii_uppercase().to_string() }).collect();
      s += &format!("I: d{}\nN: Name=\"{} Mouse\"\nS: Sysfs=/devices/d{}\nB: EV=100013\nB: KEY={}\n\n", p, nm, p, KBD_USB);
    }
    // the scalar right after the prefixes that are sliced by byte offset
    s += &format!("I: e\nN: Name=\"{}\"\nS: Sysfs={}\nB: EV={}\nB: KEY={}{}\n", cs, cs, cs, cs, KBD_USB);
    n_entries += emit_text_case(&mut outs[shard_of(&s, shards)], id, "scalar", &s); id += 1;
    *fam_count.entry("scalar".to_string()).or_insert(0) += 1;
  }

  // ---- exclusion cases: the two real flag_excluded* functions on the same names
  // and patterns, and WildMatch itself (the oracle) on every (pattern, name) pair
  let mut names_pool: Vec<String> = vec![];
  for e in &lib {
    for l in &e.lines {
      if let Some(x) = l.strip_prefix("N: Name=\"") { names_pool.push(x.trim_end_matches('"').to_string()); }
    }
  }
  names_pool.push(String::new());
  names_pool.push("*".to_string());
  names_pool.push("a?b".to_string());
  let fixed_pats = ["*", "", "?", "**", "*keyboard", "*Keyboard*", "AT*", "*Mouse*", "?ogitech*", "totalmapper", "total*", "*mapper", "cros_ec", "cros_ec*",
                    "[Ll]ogitech*", "Logitech USB Keyboard", "logitech usb keyboard", "*é", "*ü*", "Клав*", "*\u{212A}*", "* *", "*  *", "????????????", "*\\**", "a?b", "AT Translated Set 2 keyboard?", "*Set ? keyboard", "Apple, Inc*", "*Co., Ltd*", "*,*", "Apple, Inc Apple Keyboard"];
  let mut n_excl_cases = 0u64;
  for _ in 0..n_excl {
    let nn = 1 + rng.below(6);
    let names: Vec<String> = (0..nn).map(|_| {
      let n = rng.pick(&names_pool).clone();
      if rng.chance(1, 5) { format!("{}{}", n, rng.pick(&SUFFIXES)) } else { n }
    }).collect();
    let np = rng.below(4);
    let pats: Vec<String> = (0..np).map(|_| {
      match rng.below(5) {
        0 => rng.pick(&names_pool).clone(),
        1 => { let n = rng.pick(&names_pool).clone(); let cs: Vec<char> = n.chars().collect(); if cs.is_empty() { "*".to_string() } else { let i = rng.below(cs.len()); let j = i + rng.below(cs.len() - i); format!("{}*{}", cs[..i].iter().collect::<String>(), cs[j..].iter().collect::<String>()) } }
        2 => { let n = rng.pick(&names_pool).clone(); let mut cs: Vec<char> = n.chars().collect(); if !cs.is_empty() { let i = rng.below(cs.len()); cs[i] = '?'; } cs.into_iter().collect() }
        _ => rng.pick(&fixed_pats).to_string(),
      }
    }).collect();
    let pat_refs: Vec<&str> = pats.iter().map(|s| s.as_str()).collect();
    let enc = |r: std::thread::Result<Vec<(String, bool)>>| -> String {
      match r {
        Err(_) => "P".to_string(),
        Ok(v) => { let mut s = format!("O {}", v.len()); for (n, x) in &v { s += &format!(" {} {}", hx(n.as_bytes()), if *x { 1 } else { 0 }); } s }
      }
    };
    let ra = catch_unwind(AssertUnwindSafe(|| {
      let devs: Vec<ExtractedKeyboard> = names.iter().enumerate().map(|(i, n)| ExtractedKeyboard { dev_path: PathBuf::from(format!("/dev/input/event{}", i)), name: n.clone() }).collect();
      flag_excluded_names(devs, &pat_refs)
    }));
    let rb = catch_unwind(AssertUnwindSafe(|| {
      let devs: Vec<ExtractedInputDevice> = names.iter().enumerate().map(|(i, n)| ExtractedInputDevice { dev_path: PathBuf::from(format!("/dev/input/event{}", i)), name: n.clone(), is_keyboard: i % 2 == 0 }).collect();
      flag_excluded_input_device_names(devs, &pat_refs)
    }));
    let mut m = String::new();
    for n in &names { for p in &pats {
      let r = catch_unwind(AssertUnwindSafe(|| WildMatch::new(p).matches(n)));
      m += match r { Ok(true) => "1", Ok(false) => "0", Err(_) => "p" };
    } }
    if m.is_empty() { m = "-".to_string(); }
    let mut line = format!("X {} {}", id, names.len());
    for n in &names { line += &format!(" {}", hx(n.as_bytes())); }
    line += &format!(" {}", pats.len());
    for p in &pats { line += &format!(" {}", hx(p.as_bytes())); }
    let out = &mut outs[id % shards];
    writeln!(out, "{}", line).unwrap();
    writeln!(out, "XA {} {}", id, enc(ra)).unwrap();
    writeln!(out, "XB {} {}", id, enc(rb)).unwrap();
    writeln!(out, "XM {} {}", id, m).unwrap();
    id += 1;
    n_excl_cases += 1;
  }
  for o in outs.iter_mut() { o.flush().unwrap(); }

  // ---- namespace scenarios
  let ns_dir = format!("{}/ns", out_dir);
  std::fs::create_dir_all(&ns_dir).unwrap();
  for i in 0..n_scen { gen_scenario(&mut rng, &lib, &format!("{}/{:04}.spec", ns_dir, i)); }

  let mut dist = String::new();
  for (k, v) in &fam_count { dist += &format!(" family_{}={}", k, v); }
  for (k, v) in &stats { dist += &format!(" {}={}", k, v); }
  println!("GEN texts={} entries={} excl_cases={} scenarios={} library_entries={} captured_entries={} scalars_scanned={} whitespace_scalars={} lowercase_relevant_scalars={} swept_scalars={}{}",
    id as u64 - n_excl_cases, n_entries, n_excl_cases, n_scen, lib.len(), n_captured, scanned, n_ws, n_lower, sweep.len(), dist);
  0
}

// ------------------------------------------------------------------ namespace scenarios

// clean variant of a library entry for the fabricated /sys: sysfs path made unique
fn gen_scenario(rng: &mut Rng, lib: &[Ent], path: &str) {
  let mut f = std::fs::File::create(path).unwrap();
  let k = 2 + rng.below(7);
  let mut text = String::new();
  let mut nodes: Vec<String> = vec![];       // /dev paths of the devices that have one
  let mut stats: BTreeMap<String, u64> = BTreeMap::new();
  let mut sys_lines: Vec<String> = vec![];
  let mut used_sysfs: BTreeSet<String> = BTreeSet::new();
  let mut names: Vec<String> = vec![];
  for j in 0..k {
    let e = pick_entry(rng, lib);
    let mut lines = e.lines.clone();
    // light mutations only: name / mask / EV / dropped fields, never the sysfs syntax
    if rng.chance(1, 3) { if let Some(i) = lines.iter().position(|l| l.starts_with("N: Name=")) { let l = mutate_name_line(rng, &lines[i].clone(), &mut stats); lines[i] = l; } }
    if rng.chance(1, 5) { if let Some(i) = lines.iter().position(|l| l.starts_with("B: KEY=")) { let m = mutate_mask(rng, &lines[i][7..].to_string(), &mut stats); lines[i] = format!("B: KEY={}", m); } }
    if rng.chance(1, 10) { if let Some(i) = lines.iter().position(|l| l.starts_with("B: EV=")) { lines.remove(i); } }
    if rng.chance(1, 12) { if let Some(i) = lines.iter().position(|l| l.starts_with("N:")) { lines.remove(i); } }
    // unique sysfs path per entry (sometimes deliberately shared with the previous one)
    let mut sysfs: Option<String> = None;
    if let Some(i) = lines.iter().position(|l| l.starts_with("S: Sysfs=")) {
      let base = lines[i][9..].to_string();
      let dir = match base.rfind('/') { Some(p) => base[..p].to_string(), None => base.clone() };
      let p = if rng.chance(1, 15) && !used_sysfs.is_empty() { used_sysfs.iter().next().unwrap().clone() } else { format!("{}/input{}", dir, 100 + j) };
      lines[i] = format!("S: Sysfs={}", p);
      sysfs = Some(p);
    }
    for l in &lines { if let Some(x) = l.strip_prefix("N: Name=\"") { names.push(x.trim_end().trim_end_matches('"').to_string()); } }
    for l in &lines { text += l; text += "\n"; }
    text += "\n";
    if let Some(p) = sysfs {
      if used_sysfs.insert(p.clone()) {
        let ev = format!("event{}", 100 + j);
        let kind = rng.below(20);
        match kind {
          0 => sys_lines.push(format!("SYS {} empty", hx(p.as_bytes()))),
          1 => sys_lines.push(format!("SYS {} nodevname {}", hx(p.as_bytes()), ev)),
          2 => { if rng.chance(1, 2) { sys_lines.push(format!("SYS {} missing", hx(p.as_bytes()))) } else { sys_lines.push(format!("SYS {} nouevent {}", hx(p.as_bytes()), ev)) } }
          _ => {
            let devname = format!("input/{}", ev);
            sys_lines.push(format!("SYS {} node {} {}", hx(p.as_bytes()), ev, hx(devname.as_bytes())));
            nodes.push(format!("/dev/{}", devname));
          }
        }
      }
    }
  }
  writeln!(f, "TEXT {}", hx(text.as_bytes())).unwrap();
  for l in &sys_lines { writeln!(f, "{}", l).unwrap(); }
  // /dev/input: one regular file per node (a few missing), symlinks by-id
  let mut args: Vec<String> = vec![];
  let mut links = 0;
  for (i, n) in nodes.iter().enumerate() {
    if rng.chance(1, 15) { continue; } // node named by /sys but absent from /dev
    writeln!(f, "DEV {} file", hx(n.as_bytes())).unwrap();
    match rng.below(6) {
      0 => {}
      1 => { let l = format!("/dev/input/by-id/usb-dev{}-event-kbd", i); writeln!(f, "DEV {} link {}", hx(l.as_bytes()), hx(format!("../{}", &n[11..]).as_bytes())).unwrap(); args.push(l); links += 1; }
      2 => args.push(n.replace("/dev/input/", "/dev/input//")),
      3 => args.push(n.replace("/dev/input/", "/dev/input/../input/")),
      4 => { args.push(n.clone()); let l = format!("/dev/input/by-path/pci-dev{}", i); writeln!(f, "DEV {} link {}", hx(l.as_bytes()), hx(n.as_bytes())).unwrap(); args.push(l); links += 1; }
      _ => args.push(n.clone()),
    }
  }
  if rng.chance(1, 3) { args.push("/dev/input/event999".to_string()); }
  if rng.chance(1, 6) { let l = "/dev/input/by-id/dangling".to_string(); writeln!(f, "DEV {} link {}", hx(l.as_bytes()), hx(b"../event998")).unwrap(); args.push(l); }
  rng.shuffle(&mut args);
  let _ = links;
  for a in &args { writeln!(f, "ARG {}", hx(a.as_bytes())).unwrap(); }
  // excludes: patterns built from the scenario's own names
  let ne = rng.below(3);
  for _ in 0..ne {
    let p = match rng.below(5) {
      0 if !names.is_empty() => rng.pick(&names).clone(),
      1 if !names.is_empty() => { let n = rng.pick(&names).clone(); let cs: Vec<char> = n.chars().collect(); let i = rng.below(cs.len() + 1); format!("{}*", cs[..i].iter().collect::<String>()) }
      2 => "*Mouse*".to_string(),
      3 => "*eyboard*".to_string(),
      _ => (*rng.pick(&["AT*", "Logitech*", "*Consumer Control", "total*", "*"])).to_string(),
    };
    if p.is_empty() || p.starts_with('-') || p.contains('\n') || p.contains('\r') || p.contains('\0') { continue; }
    writeln!(f, "EXC {}", hx(p.as_bytes())).unwrap();
  }
}

struct Scenario {
  opts: Vec<String>,
  text: Vec<u8>,
  sys: Vec<(String, String, String, String)>, // sysfs, kind, event dir, devname
  dev: Vec<(String, String, String)>,         // path, kind, target
  args: Vec<String>,
  excl: Vec<String>,
}

fn read_scenario(path: &str) -> Scenario {
  let s = std::fs::read_to_string(path).expect("read spec");
  let mut sc = Scenario { opts: vec![], text: vec![], sys: vec![], dev: vec![], args: vec![], excl: vec![] };
  let st = |b: Vec<u8>| String::from_utf8(b).expect("utf8 in spec");
  for line in s.lines() {
    let t: Vec<&str> = line.split(' ').collect();
    match t[0] {
      "TEXT" => sc.text = unhx(t[1]),
      "SYS" => sc.sys.push((st(unhx(t[1])), t[2].to_string(), t.get(3).map(|x| x.to_string()).unwrap_or_default(), t.get(4).map(|x| st(unhx(x))).unwrap_or_default())),
      "DEV" => sc.dev.push((st(unhx(t[1])), t[2].to_string(), t.get(3).map(|x| st(unhx(x))).unwrap_or_default())),
      "ARG" => sc.args.push(st(unhx(t[1]))),
      "EXC" => sc.excl.push(st(unhx(t[1]))),
      "OPT" => { if t.len() > 1 { sc.opts.push(t[1].to_string()); } },
      _ => {}
    }
  }
  sc
}

fn sh_ok(cmd: &str, args: &[&str]) -> bool {
  Command::new(cmd).args(args).status().map(|s| s.success()).unwrap_or(false)
}

// stdout+stderr of a child, with a time limit (the selected "devices" are regular
// files: opening them as evdev fails at once, but never trust that)
fn run_child(exe: &str, args: &[String]) -> (i32, String, String) {
  let mut full: Vec<String> = vec!["20".to_string(), exe.to_string()];
  full.extend(args.iter().cloned());
  match Command::new("timeout").args(&full).output() {
    Err(e) => (-1, String::new(), format!("spawn failed: {}", e)),
    Ok(o) => (o.status.code().unwrap_or(-1), String::from_utf8_lossy(&o.stdout).to_string(), String::from_utf8_lossy(&o.stderr).to_string()),
  }
}

// ---- which nodes of the fabricated /dev/input get opened (inotify on the directory)
struct OpenWatch { ino: inotify::Inotify }

impl OpenWatch {
  fn new(dir: &str) -> Option<OpenWatch> {
    let ino = inotify::Inotify::init().ok()?;
    ino.watches().add(dir, inotify::WatchMask::OPEN).ok()?;
    Some(OpenWatch { ino })
  }
  // names (inside the watched directory) opened since the last call, in order
  fn drain(&mut self) -> Vec<String> {
    let mut names = vec![];
    let mut buf = [0u8; 16384];
    loop {
      match self.ino.read_events(&mut buf) {
        Ok(evs) => {
          let mut any = false;
          for e in evs {
            any = true;
            if e.mask.contains(inotify::EventMask::ISDIR) { continue; }
            if let Some(n) = e.name { names.push(n.to_string_lossy().to_string()); }
          }
          if !any { break; }
        },
        Err(_) => break,
      }
    }
    names
  }
}

fn opens_field(o: &Option<Vec<String>>) -> String {
  match o {
    None => "-".to_string(),
    Some(v) => { let mut s = format!("{}", v.len()); for n in v { s += &format!(" {}", hx(n.as_bytes())); } s }
  }
}

// run a child to its end and report what it opened in the watched directory
fn run_child_watched(exe: &str, args: &[String], w: &mut Option<OpenWatch>) -> (i32, String, String, Option<Vec<String>>) {
  if let Some(w) = w.as_mut() { let _ = w.drain(); }
  let (rc, so, se) = run_child(exe, args);
  let o = w.as_mut().map(|w| w.drain());
  (rc, so, se, o)
}

fn proc_state(pid: u32) -> char {
  match std::fs::read_to_string(format!("/proc/{}/stat", pid)) {
    Ok(s) => match s.rfind(')') { Some(i) => s[i + 1..].trim_start().chars().next().unwrap_or('?'), None => '?' },
    Err(_) => '?',
  }
}

// `remap --auto-all-keyboards` never returns: it does one round (list, open every selected device) and then
// blocks reading its own inotify.  Wait until it sleeps and nothing was opened for 0.25 s (at once when the
// kernel names the wait channel as inotify's), 3 s at most, then SIGKILL.  Returns (opens, stderr, seconds, exited by itself)
fn run_auto_watched(exe: &str, args: &[String], errfile: &str, w: &mut Option<OpenWatch>) -> (Option<Vec<String>>, String, f64, bool) {
  if w.is_none() { return (None, String::new(), 0.0, false); }
  let ww = w.as_mut().unwrap();
  let _ = ww.drain();
  let ef = match std::fs::File::create(errfile) { Ok(f) => f, Err(_) => return (None, String::new(), 0.0, false) };
  let mut child = match Command::new(exe).args(args).stdin(std::process::Stdio::null()).stdout(std::process::Stdio::null()).stderr(ef).spawn() {
    Ok(c) => c, Err(_) => return (None, String::new(), 0.0, false) };
  let t0 = std::time::Instant::now();
  let mut last = t0;
  let mut opens: Vec<String> = vec![];
  let mut exited = false;
  loop {
    std::thread::sleep(std::time::Duration::from_millis(15));
    let got = ww.drain();
    if !got.is_empty() { last = std::time::Instant::now(); opens.extend(got); }
    if let Ok(Some(_)) = child.try_wait() { exited = true; break; }
    let el = t0.elapsed().as_secs_f64();
    let quiet = last.elapsed().as_secs_f64();
    let wchan = std::fs::read_to_string(format!("/proc/{}/wchan", child.id())).unwrap_or_default();
    if wchan.contains("inotify") && quiet >= 0.03 { break; }
    if el >= 0.25 && quiet >= 0.25 && proc_state(child.id()) == 'S' { break; }
    if el >= 3.0 { break; }
  }
  let _ = child.kill();
  let _ = child.wait();
  opens.extend(ww.drain());
  let secs = t0.elapsed().as_secs_f64();
  (Some(opens), std::fs::read_to_string(errfile).unwrap_or_default(), secs, exited)
}

// first round of the auto mode's verbose output, in the format of parse_all_kbd (count = number of ' * "path": false' lines)
fn parse_auto(stderr: &str) -> String {
  let mut listed = vec![];
  let mut state = 0;
  let mut malformed = false;
  let mut checked: i64 = -1;
  for l in stderr.lines() {
    if state == 0 && l.starts_with("Got the current list of keyboards:") { state = 1; continue; }
    if state == 1 && l.starts_with("Checking which devices are already running:") { state = 2; checked = 0; continue; }
    if state == 1 {
      match l.strip_prefix(" * \"") {
        Some(r) => match r.find('"') {
          Some(q) => { let tail = &r[q + 1..]; if tail == "" || tail == " (excluded)" { listed.push((r[..q].to_string(), tail == " (excluded)")); } else { malformed = true; } },
          None => malformed = true,
        },
        None => malformed = true,
      }
    }
    if state == 2 {
      if l.starts_with(" * \"") { checked += 1; }
      if l.starts_with("Reaping finished devices") { break; }
    }
  }
  if malformed || checked < 0 { return "-1 0".to_string(); }
  let mut s = format!("{} {}", checked, listed.len());
  for (p, x) in &listed { s += &format!(" {} {}", hx(p.as_bytes()), if *x { 1 } else { 0 }); }
  s
}

// what the verbose output of the two selection paths says
fn parse_all_kbd(stderr: &str) -> String {
  // " * \"/dev/input/event2\" (excluded)" lines between the header and "Remapping".  The log is a secondary
  // observation: "-1 0" (= not in the expected shape, or no list printed) unless the header is there, every line
  // between it and the "Remapping N devices." line is a list line, and that line is there
  let mut listed = vec![];
  let mut in_list = false;
  let mut header = false;
  let mut malformed = false;
  let mut remapping: Option<usize> = None;
  for l in stderr.lines() {
    if l.starts_with("Got the list of keyboards:") { in_list = true; header = true; continue; }
    if let Some(r) = l.strip_prefix("Remapping ") { in_list = false; remapping = r.split(' ').next().and_then(|x| x.parse().ok()); continue; }
    if in_list {
      match l.strip_prefix(" * \"") {
        Some(r) => match r.find('"') {
          Some(q) => { let tail = &r[q + 1..]; if tail == "" || tail == " (excluded)" { listed.push((r[..q].to_string(), tail == " (excluded)")); } else { malformed = true; } },
          None => malformed = true,
        },
        None => malformed = true,
      }
    }
  }
  if !header || malformed || remapping.is_none() { return "-1 0".to_string(); }
  let mut s = format!("{} {}", remapping.map(|x| x as i64).unwrap_or(-1), listed.len());
  for (p, x) in &listed { s += &format!(" {} {}", hx(p.as_bytes()), if *x { 1 } else { 0 }); }
  s
}

fn parse_dev_file(stderr: &str, args: &[String]) -> String {
  let mut remapping: i64 = -1;
  for l in stderr.lines() {
    // the non-verbose-newline `eprint!` of the first loop can glue a line in front
    if let Some(i) = l.find("Remapping ") { if let Some(x) = l[i + 10..].split(' ').next().and_then(|x| x.parse::<i64>().ok()) { remapping = x; } }
  }
  let mut s = format!("{} {}", remapping, args.len());
  for a in args {
    let skipped = stderr.contains(&format!("Skipping {} (", a)) || stderr.contains(&format!("Skipping {} because", a));
    s += &format!(" {} {}", hx(a.as_bytes()), if skipped { 0 } else { 1 });
  }
  s
}

pub fn probe_main(args: &[String]) -> i32 {
  // listing-probe all|devfile [--exclude P]* [--dev D]*  (repeatable flags: parsed by hand)
  let mode = args.get(0).cloned().unwrap_or_default();
  let mut excl: Vec<String> = vec![];
  let mut devs: Vec<String> = vec![];
  let mut i = 1;
  while i + 1 < args.len() {
    if args[i] == "--exclude" { excl.push(args[i + 1].clone()); }
    if args[i] == "--dev" { devs.push(args[i + 1].clone()); }
    i += 2;
  }
  let ex: Vec<&str> = excl.iter().map(|s| s.as_str()).collect();
  let layout = Layout { mappings: vec![] };
  let r = catch_unwind(AssertUnwindSafe(|| {
    if mode == "all" { crate::remapping_loop::do_remapping_loop_all_devices(&layout, &ex, true) }
    else {
      let d: Vec<&str> = devs.iter().map(|s| s.as_str()).collect();
      crate::remapping_loop::do_remapping_loop_multiple_devices(&d, true, &ex, &layout, &None, true)
    }
  }));
  match r {
    Err(_) => { eprintln!("\nPROBE-RESULT panic"); 3 }
    Ok(Ok(())) => { eprintln!("\nPROBE-RESULT ok"); 0 }
    Ok(Err(e)) => { eprintln!("\nPROBE-RESULT err {}", e.replace('\n', " ")); 1 }
  }
}

pub fn ns_main(args: &[String]) -> i32 {
  let a = args_map(args);
  let dir = a.get("dir").expect("--dir").clone();
  let outp = a.get("out").expect("--out").clone();
  let real_bin = a.get("real-bin").cloned();
  let me = std::env::current_exe().unwrap().to_string_lossy().to_string();
  let mut out = std::io::BufWriter::new(std::fs::File::create(&outp).unwrap());
  // refuse to run outside a private mount namespace (`unshare -m`): everything
  // below mounts over /sys/devices, /dev and /proc/bus/input/devices
  let ns_self = std::fs::read_link("/proc/self/ns/mnt").ok();
  let ns_init = std::fs::read_link("/proc/1/ns/mnt").ok();
  if ns_self.is_none() || ns_self == ns_init { writeln!(out, "NSFAIL not in a private mount namespace").unwrap(); return 0; }
  if !sh_ok("mount", &["--make-rprivate", "/"]) { writeln!(out, "NSFAIL make-rprivate").unwrap(); return 0; }
  // a private /dev (tmpfs) that keeps the few nodes child processes need, so that
  // /dev/input can be fabricated without touching the host's /dev
  let stash = format!("{}/devstash", dir);
  std::fs::create_dir_all(&stash).unwrap();
  if !sh_ok("mount", &["--rbind", "/dev", &stash]) { writeln!(out, "NSFAIL rbind /dev").unwrap(); return 0; }
  if !sh_ok("mount", &["-t", "tmpfs", "tmpfs", "/dev"]) { writeln!(out, "NSFAIL tmpfs /dev").unwrap(); return 0; }
  for n in ["null", "zero", "urandom", "random", "tty", "full"].iter() {
    let src = format!("{}/{}", stash, n);
    if Path::new(&src).exists() {
      std::fs::write(format!("/dev/{}", n), b"").ok();
      sh_ok("mount", &["--bind", &src, &format!("/dev/{}", n)]);
    }
  }
  std::fs::create_dir_all("/dev/input").unwrap();
  let mut specs: Vec<String> = std::fs::read_dir(&dir).unwrap().filter_map(|e| e.ok()).map(|e| e.path().to_string_lossy().to_string()).filter(|p| p.ends_with(".spec")).collect();
  specs.sort();
  for (si, sp) in specs.iter().enumerate() {
    let sc = read_scenario(sp);
    let devices_file = format!("{}.devices", sp);
    std::fs::write(&devices_file, &sc.text).unwrap();
    if !sh_ok("mount", &["-t", "tmpfs", "tmpfs", "/sys/devices"]) { writeln!(out, "NSFAIL mount /sys/devices").unwrap(); return 0; }
    if !sh_ok("mount", &["-t", "tmpfs", "tmpfs", "/dev/input"]) { writeln!(out, "NSFAIL mount /dev/input").unwrap(); sh_ok("umount", &["/sys/devices"]); return 0; }
    if !sh_ok("mount", &["--bind", &devices_file, "/proc/bus/input/devices"]) { writeln!(out, "NSFAIL bind /proc/bus/input/devices").unwrap(); sh_ok("umount", &["/dev/input"]); sh_ok("umount", &["/sys/devices"]); return 0; }
    for (sysfs, kind, ev, devname) in &sc.sys {
      let d = format!("/sys{}", sysfs);
      match kind.as_str() {
        "missing" => {}
        "empty" => { std::fs::create_dir_all(format!("{}/id", d)).unwrap(); std::fs::write(format!("{}/uevent", d), "PRODUCT=3/46d/c31c/110\n").unwrap(); }
        "nodevname" => { std::fs::create_dir_all(format!("{}/{}", d, ev)).unwrap(); std::fs::write(format!("{}/{}/uevent", d, ev), "MAJOR=13\nMINOR=70\n").unwrap(); }
        "nouevent" => { std::fs::create_dir_all(format!("{}/{}", d, ev)).unwrap(); }
        _ => {
          std::fs::create_dir_all(format!("{}/{}", d, ev)).unwrap();
          std::fs::create_dir_all(format!("{}/capabilities", d)).unwrap();
          std::fs::write(format!("{}/name", d), "x\n").unwrap();
          std::fs::write(format!("{}/{}/uevent", d, ev), format!("MAJOR=13\nMINOR=70\nDEVNAME={}\n", devname)).unwrap();
        }
      }
    }
    for (p, kind, target) in &sc.dev {
      if let Some(parent) = Path::new(p).parent() { std::fs::create_dir_all(parent).ok(); }
      if kind == "file" { std::fs::write(p, b"").unwrap(); }
      else { std::os::unix::fs::symlink(target, p).unwrap(); }
    }
    writeln!(out, "NS {} {}", si, sp).unwrap();
    // the hooks' answers on the scenario text, and WildMatch's on every
    // (exclude pattern, device name) pair: oracle / base data for the checkers
    let text_s = String::from_utf8_lossy(&sc.text).to_string();
    writeln!(out, "NK {} {}", si, real_kbd(&text_s)).unwrap();
    writeln!(out, "ND {} {}", si, real_dev(&text_s)).unwrap();
    let mut glob_names: BTreeSet<String> = BTreeSet::new();
    if let Ok(v) = catch_unwind(AssertUnwindSafe(|| extract_input_devices(&text_s))) { for (_, n, _) in v { glob_names.insert(n); } }
    if let Ok(v) = catch_unwind(AssertUnwindSafe(|| extract_keyboards(&text_s))) { for (_, n) in v { glob_names.insert(n); } }
    for p in &sc.excl { for n in &glob_names {
      let r = catch_unwind(AssertUnwindSafe(|| WildMatch::new(p).matches(n))).unwrap_or(false);
      writeln!(out, "GLOB {} {} {} {}", si, hx(p.as_bytes()), hx(n.as_bytes()), if r { 1 } else { 0 }).unwrap();
    } }
    // (1) the public listing functions, in process
    let enc_path = |p: &PathBuf| hx(p.to_string_lossy().as_bytes());
    match catch_unwind(AssertUnwindSafe(|| crate::keyboard_listing::list_keyboards(false))) {
      Err(_) => writeln!(out, "LK {} P", si).unwrap(),
      Ok(Err(_)) => writeln!(out, "LK {} E", si).unwrap(),
      Ok(Ok(v)) => { let mut s = format!("LK {} O {}", si, v.len()); for d in &v { s += &format!(" {} {}", enc_path(&d.dev_path), hx(d.name.as_bytes())); } writeln!(out, "{}", s).unwrap(); }
    }
    let mut listed_nodes: Vec<PathBuf> = vec![];
    match catch_unwind(AssertUnwindSafe(|| crate::keyboard_listing::list_input_devices(false))) {
      Err(_) => writeln!(out, "LD {} P", si).unwrap(),
      Ok(Err(_)) => writeln!(out, "LD {} E", si).unwrap(),
      Ok(Ok(v)) => { let mut s = format!("LD {} O {}", si, v.len()); for d in &v { listed_nodes.push(d.dev_path.clone()); s += &format!(" {} {} {}", enc_path(&d.dev_path), hx(d.name.as_bytes()), if d.is_keyboard { 1 } else { 0 }); } writeln!(out, "{}", s).unwrap(); }
    }
    // oracle answers of the OS for canonicalize, for every path the model may ask about
    let mut asked: BTreeSet<String> = BTreeSet::new();
    for a in &sc.args { asked.insert(a.clone()); }
    for (_, kind, _, devname) in &sc.sys { if kind == "node" { asked.insert(format!("/dev/{}", devname)); } }
    for p in &listed_nodes { asked.insert(p.to_string_lossy().to_string()); }
    for p in &asked {
      match std::fs::canonicalize(p) {
        Ok(q) => match q.to_str() { Some(s) => writeln!(out, "CANON {} {} {}", si, hx(p.as_bytes()), hx(s.as_bytes())).unwrap(), None => writeln!(out, "CANON {} {} !", si, hx(p.as_bytes())).unwrap() },
        Err(_) => writeln!(out, "CANON {} {} !", si, hx(p.as_bytes())).unwrap(),
      }
    }
    // (2) the two selection paths through the public remapping entry points (child
    // process of this harness, verbose output parsed)
    let mut ex_args: Vec<String> = vec![];
    for e in &sc.excl { ex_args.push("--exclude".to_string()); ex_args.push(e.clone()); }
    let mut pa = vec!["listing-probe".to_string(), "all".to_string()];
    pa.extend(ex_args.iter().cloned());
    // every node is in place: from here on, an open of a node of /dev/input is the code under test's
    let mut watch = OpenWatch::new("/dev/input");
    let (_, _, err, opened) = run_child_watched(&me, &pa, &mut watch);
    let status = err.lines().filter(|l| l.starts_with("PROBE-RESULT")).last().unwrap_or("PROBE-RESULT none").to_string();
    writeln!(out, "SA {} {} {}", si, hx(status.as_bytes()), parse_all_kbd(&err)).unwrap();
    writeln!(out, "SAO {} {}", si, opens_field(&opened)).unwrap();
    if !sc.args.is_empty() {
      let mut pd = vec!["listing-probe".to_string(), "devfile".to_string()];
      pd.extend(ex_args.iter().cloned());
      for d in &sc.args { pd.push("--dev".to_string()); pd.push(d.clone()); }
      let (_, _, err, opened) = run_child_watched(&me, &pd, &mut watch);
      let status = err.lines().filter(|l| l.starts_with("PROBE-RESULT")).last().unwrap_or("PROBE-RESULT none").to_string();
      writeln!(out, "SD {} {} {}", si, hx(status.as_bytes()), parse_dev_file(&err, &sc.args)).unwrap();
      writeln!(out, "SDO {} {}", si, opens_field(&opened)).unwrap();
    }
    // (3) the real binary (built from /repo without the verification cfg)
    if let Some(rb) = &real_bin {
      let (rc, so, _) = run_child(rb, &["list_keyboards".to_string()]);
      let mut s = format!("RK {} {} ", si, rc);
      let lines: Vec<&str> = so.lines().collect();
      s += &format!("{}", lines.len());
      for l in &lines { s += &format!(" {}", hx(l.as_bytes())); }
      writeln!(out, "{}", s).unwrap();
      let mut ra = vec!["remap".to_string(), "--default-layout".to_string(), "caps-for-movement".to_string(), "--all-keyboards".to_string(), "--verbose".to_string()];
      for e in &sc.excl { ra.push("--exclude".to_string()); ra.push(e.clone()); }
      let (rc, _, err, opened) = run_child_watched(rb, &ra, &mut watch);
      writeln!(out, "RA {} {} {}", si, rc, parse_all_kbd(&err)).unwrap();
      writeln!(out, "RAO {} {}", si, opens_field(&opened)).unwrap();
      if !sc.args.is_empty() {
        let mut rd = vec!["remap".to_string(), "--default-layout".to_string(), "caps-for-movement".to_string(), "--only-if-keyboard".to_string(), "--verbose".to_string()];
        for e in &sc.excl { rd.push("--exclude".to_string()); rd.push(e.clone()); }
        for d in &sc.args { rd.push("--dev-file".to_string()); rd.push(d.clone()); }
        let (rc, _, err, opened) = run_child_watched(rb, &rd, &mut watch);
        writeln!(out, "RD {} {} {}", si, rc, parse_dev_file(&err, &sc.args)).unwrap();
        writeln!(out, "RDO {} {}", si, opens_field(&opened)).unwrap();
      }
      if sc.opts.iter().any(|o| o == "auto") {
        let mut ru = vec!["remap".to_string(), "--default-layout".to_string(), "caps-for-movement".to_string(), "--auto-all-keyboards".to_string(), "--verbose".to_string()];
        for e in &sc.excl { ru.push("--exclude".to_string()); ru.push(e.clone()); }
        let (opened, err, secs, exited) = run_auto_watched(rb, &ru, &format!("{}.auto.stderr", sp), &mut watch);
        writeln!(out, "RU {} {} {}", si, if exited { 1 } else { 0 }, parse_auto(&err)).unwrap();
        writeln!(out, "RUO {} {}", si, opens_field(&opened)).unwrap();
        writeln!(out, "RUT {} {}", si, (secs * 1000.0) as u64).unwrap();
      }
    }
    drop(watch);
    writeln!(out, "NSEND {}", si).unwrap();
    out.flush().unwrap();
    sh_ok("umount", &["/proc/bus/input/devices"]);
    sh_ok("umount", &["/dev/input"]);
    sh_ok("umount", &["/sys/devices"]);
  }
  0
}

pub fn replay_main(args: &[String]) -> i32 {
  let a = args_map(args);
  let bytes = unhx(a.get("hex").expect("--hex"));
  let text = match String::from_utf8(bytes) { Ok(t) => t, Err(_) => { println!("text is not valid UTF-8: the real code cannot receive it"); return 0; } };
  println!("text:\n{}", text);
  println!("--- real extract_keyboards:      {}", pretty(&real_kbd(&text), 2));
  println!("--- real extract_input_devices:  {}", pretty(&real_dev(&text), 3));
  let (pre, es) = split_entries(&text);
  if !pre.is_empty() {
    let t = pre.join("\n");
    println!("preamble alone: kbd {} | dev {}", pretty(&real_kbd(&t), 2), pretty(&real_dev(&t), 3));
  }
  for (i, e) in es.iter().enumerate() {
    let t = e.join("\n");
    println!("entry {} alone ({}): kbd {} | dev {}", i + 1, e[0], pretty(&real_kbd(&t), 2), pretty(&real_dev(&t), 3));
  }
  0
}

fn pretty(enc: &str, arity: usize) -> String {
  let t: Vec<&str> = enc.split(' ').collect();
  if t[0] == "P" { return "PANIC".to_string(); }
  let mut s = String::from("[");
  let mut i = 2;
  while i + arity <= t.len() {
    let sys = String::from_utf8_lossy(&unhx(t[i])).to_string();
    let name = String::from_utf8_lossy(&unhx(t[i + 1])).to_string();
    if arity == 3 { s += &format!("({:?}, {:?}, is_keyboard={}) ", sys, name, t[i + 2]); } else { s += &format!("({:?}, {:?}) ", sys, name); }
    i += arity;
  }
  s + "]"
}
