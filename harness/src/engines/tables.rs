// tables — evaluate the REAL table-like functions of /repo on their whole
// (finite) domain and print them, so that tools/translate.py can regenerate
// coq/gen/*.v from what the code computes rather than from how it is written:
//   KEY  code ident serde-name is_action_key is_modifier     (every KeyCode)
//   CHAR scalar needs-shift key-code                          (CHAR_ACCESS_MAP, sorted)
//   ROW  name code...                                         (US_KEYBOARD_LAYOUT)
//   BUILTIN name json                                         (DEFAULT_LAYOUTS, parsed by serde_json)
use crate::key_codes::KeyCode;
use num_traits::FromPrimitive;

pub fn main(_args: &[String]) -> i32 {
  let r = std::panic::catch_unwind(|| {
    let mut out = String::new();
    for c in 0u32..0x1000 {
      if let Some(k) = KeyCode::from_u32(c) {
        let ident = format!("{:?}", k);
        let serde = match serde_json::to_value(&k) { Ok(serde_json::Value::String(s)) => s, _ => "?".to_string() };
        let ia = crate::key_transforms::verif_is_action_key(&k);
        let im = crate::fancy_layout_interpreting::verif_is_modifier(&k);
        out.push_str(&format!("KEY {} {} {} {} {}\n", c, ident, serde, ia, im));
      }
    }
    let mut chars: Vec<(u32, bool, u32)> = crate::char_production_map::CHAR_ACCESS_MAP.iter()
      .map(|(ch, sk)| (*ch as u32, sk.sh, sk.k as u32)).collect();
    chars.sort();
    for (ch, sh, k) in chars { out.push_str(&format!("CHAR {} {} {}\n", ch, sh, k)); }
    let mut rows: Vec<(String, Vec<u32>)> = crate::physical_keyboard_layouts::US_KEYBOARD_LAYOUT.iter()
      .map(|(r, ks)| (format!("{:?}", r), ks.iter().map(|k| *k as u32).collect())).collect();
    rows.sort();
    for (name, ks) in rows {
      out.push_str(&format!("ROW {} {}\n", name, ks.iter().map(|k| k.to_string()).collect::<Vec<_>>().join(" ")));
    }
    // the built-in layouts as serde_json reads them (canonical text: objects sorted by key)
    let mut names: Vec<&String> = crate::default_fancy_layouts::DEFAULT_LAYOUTS.keys().collect();
    names.sort();
    for n in names {
      let text = crate::default_fancy_layouts::DEFAULT_LAYOUTS.get(n).unwrap();
      match serde_json::from_str::<serde_json::Value>(text) {
        Ok(v) => out.push_str(&format!("BUILTIN {} {}\n", n, serde_json::to_string(&v).unwrap())),
        Err(_) => out.push_str(&format!("BUILTIN-UNPARSABLE {}\n", n)),
      }
    }
    out
  });
  match r {
    Ok(s) => { print!("{}", s); println!("END"); 0 }
    Err(_) => { println!("PANIC while tabulating"); 1 }
  }
}
