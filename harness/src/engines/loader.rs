// loader: runs the REAL layout loader (parse_layout_from_json -> convert), the
// serde save path (serde_json::to_value / to_string_pretty of keys::Layout), the
// reload of the saved form, and Mapper::for_layout + a seeded random history on
// every accepted layout, all under catch_unwind, over generated inputs:
//   valid     grammar-based valid shorthand layouts
//   builtin   the builtin layouts, README and working/syntax-examples JSON blocks
//   malformed structure-aware mutations of valid layouts
//   basic     random basic layouts, serialised with serde and reloaded (C15)
//   keyname   every key name the tool knows, in every position, and near misses
//   SUBST     single-scalar substitutions in row / repeat names (case mapping)
//   text      the JSON text layer (loader_text.rs): the real serde_json printers and readers
// Every input Value is also written as a layout FILE (pretty, compact or re-spaced text) and read by the real
// layout_loading::load_layout_from_file; the answer must be the in-memory one.
// and writes one record per case for ocaml/loader_check.ml (format: see there).
use crate::keys::{KeyCode, Event, Mapping, Repeat, Layout};
use crate::key_transforms::Mapper;
use crate::util::*;
use num_traits::FromPrimitive;
use serde_json::{json, Value, Map};
use std::collections::BTreeMap;
use std::fmt::Write as FmtWrite;
use std::io::Write;
use std::panic::{catch_unwind, AssertUnwindSafe};

#[path = "loader_text.rs"]
pub mod text;

// texts longer than this are saved and reloaded by the real code but not sent to the model's printer/reader
const TEXT_LIMIT: usize = 200_000;

// ---------------------------------------------------------------- encoding

fn enc_str(s: &str, out: &mut String) {
  let n = s.chars().count();
  let _ = write!(out, " {}", n);
  for c in s.chars() { let _ = write!(out, " {}", c as u32); }
}

// prefix encoding of a serde_json::Value; objects in Map (BTreeMap) order
pub fn enc_value(v: &Value, out: &mut String) {
  match v {
    Value::Null => out.push_str(" n"),
    Value::Bool(true) => out.push_str(" t"),
    Value::Bool(false) => out.push_str(" f"),
    Value::Number(n) => match n.as_i64() { Some(i) => { let _ = write!(out, " i {}", i); }, None => out.push_str(" x") },
    Value::String(s) => { out.push_str(" s"); enc_str(s, out); },
    Value::Array(a) => { let _ = write!(out, " a {}", a.len()); for x in a { enc_value(x, out); } },
    Value::Object(m) => {
      let _ = write!(out, " o {}", m.len());
      for (k, x) in m.iter() { enc_str(k, out); enc_value(x, out); }
    }
  }
}

fn all_keys() -> Vec<KeyCode> {
  let mut v = vec![];
  for c in 0..4096i32 { if let Some(k) = <KeyCode as FromPrimitive>::from_i32(c) { v.push(k); } }
  v
}

// ---------------------------------------------------------------- running the real code

pub enum Outcome { Ok(Layout), Err(String), Panic }

pub fn real_load(v: &Value) -> Outcome {
  let r = catch_unwind(AssertUnwindSafe(|| {
    match crate::layout_parsing_formatting::parse_layout_from_json(v) {
      Err(e) => Err(e),
      Ok(f) => crate::fancy_layout_interpreting::convert(&f),
    }
  }));
  match r { Err(_) => Outcome::Panic, Ok(Err(e)) => Outcome::Err(e), Ok(Ok(l)) => Outcome::Ok(l) }
}

const ERR_KINDS: &[(&str, &str)] = &[
  ("is not defined", "alias-undefined"),
  ("Alias used on RHS", "alias-rhs-only"),
  ("is undefined", "alias-undefined-convert"),
  ("uses the same key more than once", "duplicate-key"),
  ("absorbed modifier", "absorbing-not-on-from"),
  ("more letters in its `repeat`", "repeat-letters-too-long"),
  ("Don't know which keycode is at index", "row-too-long"),
  ("Don't know how to produce char", "unknown-char"),
  ("Don't know row", "unknown-row"),
  ("Unknown key code", "unknown-key"),
  ("A real key was expected", "alias-where-key-expected"),
  ("not allowed in this position", "alias-misplaced"),
  ("Alias mapping cannot use alias modifier", "alias-in-alias"),
  ("not allowed for alias mappings", "alias-with-repeat-or-absorbing"),
  ("Can't map from zero keys", "empty-from"),
  ("Cannot map row to an empty array", "row-to-empty"),
  ("Cannot have a repeat-only row", "repeat-only-row"),
  ("Mapping must have", "mapping-fields"),
  ("Each \"mapping\" must be an object", "mapping-not-object"),
  ("must be an array", "mappings-not-array"),
  ("single field \"mappings\"", "root-fields"),
  ("Layout JSON must be an object", "root-not-object"),
  ("Modifier must be a string", "modifier-not-string"),
  ("`from` key must be", "from-key-type"),
  ("Don't understand `from` object", "from-object-keys"),
  ("`row` must be a string", "row-not-string"),
  ("Row must be specified", "row-object-keys"),
  ("`to` object of unrecognized form", "to-object"),
  ("`to` should be", "to-type"),
  ("`letters` must be a string", "letters-not-string"),
  ("A string (keycode) was expected", "keycode-not-string"),
  ("Unrecognized repeat style", "repeat-name"),
  ("Unknown repeat style", "repeat-shape"),
  ("`Special` repeat must", "special-shape"),
  ("Invalid delay_ms", "delay-not-i64"),
  ("Invalid interval_ms", "interval-not-i64"),
  ("delay_ms must be a number", "delay-type"),
  ("interval_ms must be a number", "interval-type"),
  ("`absorbing` must be", "absorbing-type"),
];

fn err_kind(e: &str) -> String {
  // the innermost (last listed first match over the tail) message decides
  let mut best: Option<(usize, &str)> = None;
  for (pat, tag) in ERR_KINDS {
    if let Some(p) = e.rfind(pat) {
      if best.map_or(true, |(bp, _)| p > bp) { best = Some((p, tag)); }
    }
  }
  match best { Some((_, t)) => t.to_string(), None => "other".to_string() }
}

fn layout_keys(l: &Layout) -> Vec<KeyCode> {
  let mut v: Vec<KeyCode> = vec![];
  let mut add = |k: &KeyCode, v: &mut Vec<KeyCode>| { if !v.contains(k) { v.push(*k); } };
  for m in &l.mappings {
    for k in &m.from { add(k, &mut v); }
    for k in &m.to { add(k, &mut v); }
    for k in &m.absorbing { add(k, &mut v); }
    if v.len() > 40 { break; }
  }
  v
}

// Mapper::for_layout + a seeded random history; Some(description) on a panic
fn drive_mapper(l: &Layout, rng: &mut Rng, steps: usize) -> Option<String> {
  let m = catch_unwind(AssertUnwindSafe(|| Mapper::for_layout(l)));
  let mut mapper = match m { Err(_) => return Some("for_layout".to_string()), Ok(m) => m };
  let mut keys = layout_keys(l);
  keys.push(key(57)); keys.push(key(100)); keys.push(key(42));
  let mut hist = String::new();
  let mut held: Vec<KeyCode> = vec![];
  for i in 0..steps {
    let ev = if !held.is_empty() && rng.chance(2, 5) {
      let j = rng.below(held.len()); let k = held.remove(j); Event::Released(k)
    } else if rng.chance(1, 12) {
      Event::Released(*rng.pick(&keys))          // ill-formed: release of a key that may not be down
    } else {
      let k = *rng.pick(&keys); if !held.contains(&k) { held.push(k); } Event::Pressed(k)
    };
    hist += &format!("{}{}", if i > 0 { " " } else { "" }, ev_str(&ev));
    let r = catch_unwind(AssertUnwindSafe(|| mapper.step(ev)));
    if r.is_err() { return Some(format!("step {} history {}", i, hist)); }
  }
  let r = catch_unwind(AssertUnwindSafe(|| mapper.release_all()));
  if r.is_err() { return Some(format!("release_all history {}", hist)); }
  None
}

// ---------------------------------------------------------------- statistics

#[derive(Default)]
struct Stats {
  cases: usize, ok: usize, err: usize, panic: usize,
  by_kind: BTreeMap<String, (usize, usize, usize)>,
  err_kinds: BTreeMap<String, usize>,
  size_hist: BTreeMap<String, usize>,     // number of source mappings
  out_hist: BTreeMap<String, usize>,      // number of basic mappings of accepted layouts
  mapper_steps: usize, reloads: usize, subst: usize, pretty_texts: usize, saved_texts: usize, saved_bytes: usize, input_files: (usize, usize, usize), input_file_formats: (usize, usize, usize), input_file_differs: usize,
  samples: Vec<String>,
}

fn bucket(n: usize) -> String {
  match n { 0 => "0".into(), 1 => "1".into(), 2..=3 => "2-3".into(), 4..=7 => "4-7".into(), 8..=15 => "8-15".into(), 16..=63 => "16-63".into(), _ => "64+".into() }
}

// ---------------------------------------------------------------- writer

struct Sink { files: Vec<std::io::BufWriter<std::fs::File>>, next_id: usize, stats: Stats, steps: usize, tmp: String }

impl Sink {
  fn outcome_lines(o: &Outcome, tag: &str, rec: &mut String) {
    match o {
      Outcome::Panic => { let _ = writeln!(rec, "{} PANIC", tag); },
      Outcome::Err(e) => { let _ = writeln!(rec, "{} ERR {}", tag, err_kind(e)); },
      Outcome::Ok(l) => {
        let _ = writeln!(rec, "{} OK {}", tag, l.mappings.len());
        for m in &l.mappings { let _ = writeln!(rec, "{}", mapping_line(m)); }
      }
    }
  }

  // one case: input value [+ the basic layout it was serialised from]
  fn case(&mut self, kind: &str, v: &Value, basic: Option<&Layout>, rng: &mut Rng) {
    let id = self.next_id; self.next_id += 1;
    let mut rec = String::new();
    let _ = writeln!(rec, "CASE {} {}", id, kind);
    let text = serde_json::to_string(v).unwrap_or_else(|_| "null".to_string());
    let _ = writeln!(rec, "T {}", text);
    let mut j = String::new(); enc_value(v, &mut j);
    let _ = writeln!(rec, "J{}", j);
    // the text serde_json's pretty printer writes for this Value (compared byte for byte with JsonText.print_pretty)
    if let Ok(p) = serde_json::to_string_pretty(v) { if p.len() <= TEXT_LIMIT { let _ = writeln!(rec, "P {}", text::esc_line(&p)); self.stats.pretty_texts += 1; } }
    if let Some(b) = basic {
      let _ = writeln!(rec, "B {}", b.mappings.len());
      for m in &b.mappings { let _ = writeln!(rec, "{}", mapping_line(m)); }
    }
    let o = real_load(v);
    Sink::outcome_lines(&o, "R", &mut rec);
    // the input as a layout FILE: the same Value written as text (pretty / compact / re-spaced, chosen by a hash of
    // the text so that the value stream keeps its sequence) and read by the real load_layout_from_file; the outcome must
    // be the in-memory one (checked by the model side, which also runs JsonText.load_text on the same bytes)
    {
      let mut h: u64 = 1469598103934665603; for b in text.bytes() { h ^= b as u64; h = h.wrapping_mul(1099511628211); }
      let fmt = (h >> 17) % 8;
      let pretty = serde_json::to_string_pretty(v).unwrap_or_else(|_| "null".to_string());
      let (tag, bytes): (String, Vec<u8>) = if pretty.len() > TEXT_LIMIT { ("".to_string(), vec![]) }
        else if fmt < 4 { self.stats.input_file_formats.0 += 1; ("=P".to_string(), pretty.into_bytes()) }
        else if fmt < 7 { self.stats.input_file_formats.1 += 1; ("=T".to_string(), text.clone().into_bytes()) }
        else { self.stats.input_file_formats.2 += 1; let mut r2 = Rng::new(h); let b = text::respace(&mut r2, pretty.as_bytes(), false); (text::esc_line(&String::from_utf8_lossy(&b)), b) };
      if !tag.is_empty() {
        let path = self.tmp.clone();
        if text::put_file(&path, &bytes) {
          let r3 = catch_unwind(AssertUnwindSafe(|| crate::layout_loading::load_layout_from_file(&path)));
          let o3 = match r3 { Err(_) => Outcome::Panic, Ok(Err(e)) => Outcome::Err(e), Ok(Ok(l3)) => Outcome::Ok(l3) };
          let same = match (&o, &o3) {
            (Outcome::Ok(a), Outcome::Ok(b)) => a.mappings == b.mappings,
            (Outcome::Err(_), Outcome::Err(_)) => true,
            (Outcome::Panic, Outcome::Panic) => true,
            _ => false,
          };
          match &o3 { Outcome::Ok(_) => self.stats.input_files.0 += 1, Outcome::Err(_) => self.stats.input_files.1 += 1, Outcome::Panic => self.stats.input_files.2 += 1 }
          let _ = writeln!(rec, "F {}", tag);
          if same { let _ = writeln!(rec, "RF SAME"); } else { self.stats.input_file_differs += 1; Sink::outcome_lines(&o3, "RF", &mut rec); }
        }
      }
    }
    let st = &mut self.stats;
    st.cases += 1;
    let e = st.by_kind.entry(kind.to_string()).or_insert((0, 0, 0));
    match &o { Outcome::Ok(_) => { st.ok += 1; e.0 += 1; }, Outcome::Err(k) => { st.err += 1; e.1 += 1; *st.err_kinds.entry(err_kind(k)).or_insert(0) += 1; }, Outcome::Panic => { st.panic += 1; e.2 += 1; } }
    let nsrc = v.get("mappings").and_then(|m| m.as_array()).map(|a| a.len());
    *st.size_hist.entry(match nsrc { Some(n) => bucket(n), None => "no-mappings-array".into() }).or_insert(0) += 1;
    if let Outcome::Ok(l) = &o {
      *st.out_hist.entry(bucket(l.mappings.len())).or_insert(0) += 1;
      // the save path of add_systemd_service: to_writer_pretty, then the service reads the text back
      let sv = catch_unwind(AssertUnwindSafe(|| serde_json::to_value(l)));
      match sv {
        Ok(Ok(s)) => {
          let mut sj = String::new(); enc_value(&s, &mut sj);
          let _ = writeln!(rec, "S{}", sj);
          let via_text: Option<Value> = serde_json::to_string_pretty(l).ok().and_then(|t| serde_json::from_str(&t).ok());
          if via_text.as_ref() != Some(&s) { let _ = writeln!(rec, "W text-path-differs-from-to_value"); }
          let o2 = real_load(&s);
          Sink::outcome_lines(&o2, "R2", &mut rec);
          // ... and literally as the service does it: the file written with to_writer_pretty (as
          // write_layout_to_global_config does) and read with layout_loading::load_layout_from_file
          {
            let path = self.tmp.clone();
            // (opened without O_TRUNC and cut to length afterwards: see text::put_file)
            let wrote = std::fs::OpenOptions::new().write(true).create(true).open(&path).ok().and_then(|f| {
              use std::io::Seek;
              let mut w = std::io::BufWriter::new(f);
              serde_json::to_writer_pretty(&mut w, l).ok()?;
              let mut f = w.into_inner().ok()?;
              let n = f.stream_position().ok()?;
              f.set_len(n).ok()
            });
            if wrote.is_some() {
              let r3 = catch_unwind(AssertUnwindSafe(|| crate::layout_loading::load_layout_from_file(&path)));
              let o3 = match r3 { Err(_) => Outcome::Panic, Ok(Err(e)) => Outcome::Err(e), Ok(Ok(l3)) => Outcome::Ok(l3) };
              let same = match (&o2, &o3) {
                (Outcome::Ok(a), Outcome::Ok(b)) => a.mappings == b.mappings,
                (Outcome::Err(_), Outcome::Err(_)) => true,
                (Outcome::Panic, Outcome::Panic) => true,
                _ => false,
              };
              if !same { let _ = writeln!(rec, "W load_layout_from_file-on-the-saved-file-differs-from-parse+convert-on-to_value"); }
              // the bytes of the saved file (compared with JsonText.save_text; JsonText.load_text on them is
              // compared with what load_layout_from_file answered)
              if let Ok(bytes) = std::fs::read(&path) {
                if bytes.len() <= TEXT_LIMIT {
                  if let Ok(t) = String::from_utf8(bytes) { let _ = writeln!(rec, "PL {}", text::esc_line(&t)); st.saved_texts += 1; st.saved_bytes += t.len(); }
                  else { let _ = writeln!(rec, "W the-saved-file-is-not-UTF-8"); }
                }
              }
            } else { let _ = writeln!(rec, "W cannot-write-the-saved-layout-file"); }
          }
          st.reloads += 1;
        },
        _ => { let _ = writeln!(rec, "X serde_json::to_value"); }
      }
      if let Some(x) = drive_mapper(l, rng, self.steps) { let _ = writeln!(rec, "X {}", x); }
      st.mapper_steps += self.steps;
    }
    if st.samples.len() < 6 && (id % 997 == 3 || (kind == "builtin" && st.samples.len() < 1)) && text.len() < 600 {
      st.samples.push(format!("[{}] {} => {}", kind, text, match &o { Outcome::Ok(l) => format!("Ok({} mappings)", l.mappings.len()), Outcome::Err(e) => format!("Err({})", err_kind(e)), Outcome::Panic => "PANIC".into() }));
    }
    let _ = writeln!(rec, "END");
    let nf = self.files.len();
    // shard by input text so that equal inputs meet in one file (the checker counts distinct inputs per file)
    let mut h: u64 = 1469598103934665603; for b in text.bytes() { h ^= b as u64; h = h.wrapping_mul(1099511628211); }
    let _ = self.files[(h % nf as u64) as usize].write_all(rec.as_bytes());
  }

  fn raw(&mut self, text: &str) { let _ = self.files[0].write_all(text.as_bytes()); }
}

// ---------------------------------------------------------------- generators: building blocks

const ROW_NAMES: &[&str] = &["`", "1", "Q", "A", "Z", "q", "a", "z"];
const ROW_LENS: &[usize] = &[13, 12, 12, 11, 10, 12, 11, 10];
const ALIAS_NAMES: &[&str] = &["@a", "@shift", "@sym", "@m"];
const MOD_POOL: &[&str] = &["LEFTSHIFT", "RIGHTSHIFT", "LEFTCTRL", "RIGHTCTRL", "LEFTALT", "RIGHTALT", "LEFTMETA", "CAPSLOCK", "TAB", "F13", "KATAKANA", "SPACE"];
const KEY_POOL: &[&str] = &["A", "S", "D", "J", "K", "Q", "X", "1", "2", "0", "K3", "SEMICOLON", "ENTER", "ESC", "F20", "F21", "LEFT", "BACKSPACE", "SPACE", "GRAVE", "KP5"];
const NORMAL_NAMES: &[&str] = &["Normal", "normal", "NORMAL", "nOrMaL"];
const DISABLED_NAMES: &[&str] = &["Disabled", "disabled", "DISABLED", "DisableD"];

fn printable(rng: &mut Rng) -> char { (32u8 + rng.below(95) as u8) as char }

// characters that mean something to a JSON reader; they are ordinary letters of a row
const SYNTAX_CHARS: &[char] = &['\\', '"', ',', '}', ']', '{', '[', ':', '\\', '/'];

fn letters(rng: &mut Rng, maxlen: usize) -> String {
  let n = rng.below(maxlen + 1);
  let mut v: Vec<char> = vec![];
  let syntaxy = rng.chance(1, 3);
  for _ in 0..n {
    if rng.chance(1, 4) { v.push(' '); }
    else if syntaxy && rng.chance(1, 3) { v.push(*rng.pick(SYNTAX_CHARS)); }
    else { v.push(printable(rng)); }
  }
  if syntaxy && n >= 1 {
    // a comma directly before a closing bracket, inside the string
    if n >= 3 && rng.chance(1, 2) { let i = rng.below(n - 1); v[i] = ','; v[i + 1] = *rng.pick(&['}', ']']); }
    // a backslash (or a quote) as the LAST character of the string
    if rng.chance(1, 2) { v[n - 1] = if rng.chance(3, 4) { '\\' } else { '"' }; }
  }
  v.into_iter().collect()
}

struct Ctx { aliases: Vec<String>, alias_defs: Vec<(String, Vec<String>)> }

fn key_name(rng: &mut Rng, names: &[(String, String)]) -> String {
  if rng.chance(1, 6) { let e = rng.pick(names); if rng.chance(1, 2) { e.0.clone() } else { e.1.clone() } }
  else { rng.pick(KEY_POOL).to_string() }
}

fn maybe_wrap(rng: &mut Rng, v: Value) -> Value { if rng.chance(1, 2) { json!([v]) } else { v } }

fn gen_alias_defs(rng: &mut Rng, ctx: &mut Ctx, out: &mut Vec<Value>) {
  let na = rng.below(4);
  let mut names: Vec<&str> = ALIAS_NAMES.to_vec(); rng.shuffle(&mut names);
  for name in names.iter().take(na) {
    let nd = 1 + rng.below(3);
    for _ in 0..nd {
      let nk = 1 + rng.below(2);
      let mut ks: Vec<String> = vec![];
      while ks.len() < nk { let k = rng.pick(MOD_POOL).to_string(); if !ks.contains(&k) { ks.push(k); } }
      let from = if ks.len() == 1 { maybe_wrap(rng, json!(ks[0])) } else { json!(ks) };
      let to = if rng.chance(1, 3) {
        let extra = rng.pick(MOD_POOL).to_string();
        if rng.chance(1, 3) { json!([extra, rng.pick(MOD_POOL).to_string(), name]) } else { json!([extra, name]) }
      } else { maybe_wrap(rng, json!(name)) };
      out.push(json!({"from": from, "to": to}));
      ctx.alias_defs.push((name.to_string(), ks));
    }
    ctx.aliases.push(name.to_string());
  }
}

// 0-3 modifiers: aliases of ctx or plain keys, distinct
fn gen_mods(rng: &mut Rng, ctx: &Ctx) -> Vec<String> {
  let n = rng.below(4);
  let mut v: Vec<String> = vec![];
  let mut tries = 0;
  while v.len() < n && tries < 20 {
    tries += 1;
    let m = if !ctx.aliases.is_empty() && rng.chance(1, 2) { rng.pick(&ctx.aliases).clone() } else { rng.pick(MOD_POOL).to_string() };
    if !v.contains(&m) { v.push(m); }
  }
  v
}

fn gen_single_to(rng: &mut Rng, mods: &[String], names: &[(String, String)]) -> Value {
  match rng.below(6) {
    0 => json!([]),
    1 | 2 => { let k = key_name(rng, names); maybe_wrap(rng, json!(k)) },
    _ => {
      let mut v: Vec<Value> = vec![];
      let n = 1 + rng.below(2);
      for _ in 0..n {
        if !mods.is_empty() && rng.chance(1, 2) { v.push(json!(rng.pick(mods).clone())); } else { v.push(json!(rng.pick(MOD_POOL).to_string())); }
      }
      v.push(json!(key_name(rng, names)));
      Value::Array(v)
    }
  }
}

fn gen_ms(rng: &mut Rng) -> i64 { match rng.below(8) { 0 => 0, 1 => 1, 2 => 2147483647, 3 => -1, 4 => 180, _ => rng.below(1000) as i64 } }

fn gen_single_repeat(rng: &mut Rng, mods: &[String], names: &[(String, String)]) -> Option<Value> {
  match rng.below(6) {
    0 | 1 => None,
    2 => Some(json!(rng.pick(NORMAL_NAMES).to_string())),
    3 => Some(json!(rng.pick(DISABLED_NAMES).to_string())),
    _ => Some(json!({"Special": {"keys": gen_single_to(rng, mods, names), "delay_ms": gen_ms(rng), "interval_ms": gen_ms(rng)}})),
  }
}

fn gen_absorbing(rng: &mut Rng, mods: &[String]) -> Option<Value> {
  if mods.is_empty() || rng.chance(2, 3) { return None; }
  let mut v: Vec<String> = mods.iter().filter(|_| rng.chance(1, 2)).cloned().collect();
  if v.is_empty() { v.push(mods[0].clone()); }
  if v.len() == 1 && rng.chance(1, 2) { Some(json!(v[0])) } else { Some(json!(v)) }
}

fn from_value(rng: &mut Rng, mods: &[String], last: Value) -> Value {
  if mods.is_empty() { maybe_wrap(rng, last) } else { let mut v: Vec<Value> = mods.iter().map(|m| json!(m)).collect(); v.push(last); Value::Array(v) }
}

fn obj(pairs: Vec<(&str, Option<Value>)>) -> Value {
  let mut m = Map::new();
  for (k, v) in pairs { if let Some(v) = v { m.insert(k.to_string(), v); } }
  Value::Object(m)
}

fn gen_single(rng: &mut Rng, ctx: &Ctx, names: &[(String, String)]) -> Value {
  let mods = gen_mods(rng, ctx);
  let k = key_name(rng, names);
  obj(vec![("from", Some(from_value(rng, &mods, json!(k)))), ("to", Some(gen_single_to(rng, &mods, names))),
           ("repeat", gen_single_repeat(rng, &mods, names)), ("absorbing", gen_absorbing(rng, &mods))])
}

fn gen_row(rng: &mut Rng, ctx: &Ctx) -> Value {
  let mods = gen_mods(rng, ctx);
  let ri = rng.below(ROW_NAMES.len());
  let l = letters(rng, ROW_LENS[ri]);
  let lv = json!({"letters": l});
  let to = if rng.chance(1, 3) {
    let mut v: Vec<Value> = vec![];
    if !mods.is_empty() && rng.chance(1, 2) { v.push(json!(rng.pick(&mods).clone())); } else { v.push(json!(rng.pick(MOD_POOL).to_string())); }
    v.push(lv); Value::Array(v)
  } else { maybe_wrap(rng, lv) };
  let repeat = match rng.below(6) {
    0 | 1 => None,
    2 => Some(json!(rng.pick(NORMAL_NAMES).to_string())),
    3 => Some(json!(rng.pick(DISABLED_NAMES).to_string())),
    _ => {
      let rl = letters(rng, l.chars().count());
      let kv = json!({"letters": rl});
      let keys = if rng.chance(1, 3) { json!([if !mods.is_empty() && rng.chance(1, 2) { rng.pick(&mods).clone() } else { rng.pick(MOD_POOL).to_string() }, kv]) } else { kv };
      Some(json!({"Special": {"keys": keys, "delay_ms": gen_ms(rng), "interval_ms": gen_ms(rng)}}))
    }
  };
  obj(vec![("from", Some(from_value(rng, &mods, json!({"row": ROW_NAMES[ri]})))), ("to", Some(to)), ("repeat", repeat), ("absorbing", gen_absorbing(rng, &mods))])
}

fn gen_repeat_only(rng: &mut Rng, ctx: &Ctx, prev: &[Value], names: &[(String, String)]) -> Value {
  // half of the time reuse the trigger of an earlier single mapping, modifiers permuted
  let mut from: Option<Value> = None;
  if !prev.is_empty() && rng.chance(1, 2) {
    let p = rng.pick(prev);
    if let Some(f) = p.get("from") {
      match f {
        Value::Array(a) if a.len() >= 1 && a[a.len() - 1].is_string() => {
          let mut ms: Vec<Value> = a[..a.len() - 1].to_vec(); rng.shuffle(&mut ms); ms.push(a[a.len() - 1].clone());
          from = Some(Value::Array(ms));
        },
        Value::String(_) => from = Some(f.clone()),
        _ => {}
      }
    }
  }
  let mods = gen_mods(rng, ctx);
  let from = from.unwrap_or_else(|| { let k = key_name(rng, names); from_value(rng, &mods, json!(k)) });
  let fm: Vec<String> = match &from { Value::Array(a) => a[..a.len().saturating_sub(1)].iter().filter_map(|x| x.as_str().map(|s| s.to_string())).collect(), _ => vec![] };
  let rep = match rng.below(4) {
    0 => json!(rng.pick(NORMAL_NAMES).to_string()),
    1 => json!(rng.pick(DISABLED_NAMES).to_string()),
    _ => json!({"Special": {"keys": gen_single_to(rng, &fm, names), "delay_ms": gen_ms(rng), "interval_ms": gen_ms(rng)}}),
  };
  json!({"from": from, "repeat": rep})
}

fn gen_valid(rng: &mut Rng, names: &[(String, String)]) -> Value {
  let mut ctx = Ctx { aliases: vec![], alias_defs: vec![] };
  let mut ms: Vec<Value> = vec![];
  gen_alias_defs(rng, &mut ctx, &mut ms);
  let n = 1 + rng.below(5);
  let mut singles: Vec<Value> = vec![];
  for _ in 0..n {
    match rng.below(7) {
      0 | 1 | 2 => { let s = gen_single(rng, &ctx, names); singles.push(s.clone()); ms.push(s); },
      3 | 4 => ms.push(gen_row(rng, &ctx)),
      _ => { let r = gen_repeat_only(rng, &ctx, &singles, names); ms.push(r); },
    }
  }
  // alias definitions need not come first
  if rng.chance(1, 4) { rng.shuffle(&mut ms); }
  json!({"mappings": ms})
}

// ---------------------------------------------------------------- malformed stream

fn special_strings() -> Vec<String> {
  let mut v: Vec<String> = vec!["".into(), "@".into(), "@undefined".into(), "@@".into(), "a".into(), "leftshift".into(), " A".into(), "A ".into(),
    "K1".into(), "11".into(), "01".into(), "-1".into(), "Normal".into(), "Special".into(), "\u{0}".into(), "\n".into(), "é".into(), "\u{212A}".into(),
    "\u{130}".into(), "\u{17F}".into(), "\u{131}".into(), "ß".into(), "\u{FB01}".into(), "\u{1F600}".into(), "\u{10FFFF}".into(), "\u{FEFF}A".into(),
    "ＡＢ".into(), "Ａ".into(), "ǅ".into(), "ǆ".into(), "\u{1E9E}".into(), "ŉ".into(), "Σ".into(), "ς".into()];
  for s in ["normal", "disabled"] {
    for (i, _) in s.char_indices() {
      for r in ["\u{212A}", "\u{130}", "\u{17F}", "\u{131}", "İ"] {
        let mut t: Vec<char> = s.chars().collect(); t[i] = r.chars().next().unwrap(); v.push(t.into_iter().collect());
      }
    }
  }
  v
}

fn junk(rng: &mut Rng, depth: usize, strs: &[String]) -> Value {
  match rng.below(if depth > 2 { 12 } else { 16 }) {
    0 => Value::Null,
    1 => json!(true),
    2 => json!(false),
    3 => json!(rng.below(300) as i64 - 5),
    4 => { let c: &[i64] = &[2147483647, 2147483648, -2147483648, -2147483649, 4294967296, 4294967295, 9223372036854775807, -9223372036854775808, 4294967296 + 180, -4294967296 + 7]; json!(*rng.pick(c)) },
    5 => { let c: &[u64] = &[9223372036854775808, 18446744073709551615]; json!(*rng.pick(c)) },
    6 => { let c: &[f64] = &[1.5, 0.0, -0.0, 1e300, 180.0, 2147483648.5, 1e-9]; json!(*rng.pick(c)) },
    7 | 8 => json!(rng.pick(strs).clone()),
    9 => json!(rng.pick(KEY_POOL).to_string()),
    10 => json!(rng.pick(ALIAS_NAMES).to_string()),
    11 => json!(rng.pick(MOD_POOL).to_string()),
    12 => json!([]),
    13 => json!({}),
    14 => { let n = rng.below(3); Value::Array((0..n).map(|_| junk(rng, depth + 1, strs)).collect()) },
    _ => {
      let ks = ["from", "to", "repeat", "absorbing", "row", "letters", "Special", "keys", "delay_ms", "interval_ms", "mappings", "x", ""];
      let n = rng.below(3); let mut m = Map::new();
      for _ in 0..n { m.insert(rng.pick(&ks).to_string(), junk(rng, depth + 1, strs)); }
      Value::Object(m)
    }
  }
}

fn count_nodes(v: &Value) -> usize {
  1 + match v { Value::Array(a) => a.iter().map(count_nodes).sum(), Value::Object(m) => m.values().map(count_nodes).sum(), _ => 0 }
}

// apply f to the n-th node (pre-order); returns true when done
fn mutate_at(v: &mut Value, n: &mut usize, f: &mut dyn FnMut(&mut Value)) -> bool {
  if *n == 0 { f(v); return true; }
  *n -= 1;
  match v {
    Value::Array(a) => { for x in a.iter_mut() { if mutate_at(x, n, f) { return true; } } false },
    Value::Object(m) => { for (_, x) in m.iter_mut() { if mutate_at(x, n, f) { return true; } } false },
    _ => false
  }
}

fn nest(v: Value, depth: usize, arr: bool) -> Value {
  let mut x = v;
  for _ in 0..depth { x = if arr { json!([x]) } else { json!({"from": x}) }; }
  x
}

fn mutate_once(rng: &mut Rng, v: &mut Value, strs: &[String]) {
  let total = count_nodes(v);
  let mut n = rng.below(total);
  let choice = rng.below(14);
  let r1 = rng.next(); let r2 = rng.next();
  let j = junk(rng, 0, strs);
  let s = rng.pick(strs).clone();
  let mut f = |x: &mut Value| {
    match choice {
      0 | 1 | 2 => *x = j.clone(),                                  // wrong type / junk
      3 => match x {                                                // remove a field / an element
        Value::Object(m) => { let ks: Vec<String> = m.keys().cloned().collect(); if !ks.is_empty() { m.remove(&ks[(r1 % ks.len() as u64) as usize]); } },
        Value::Array(a) => { if !a.is_empty() { let i = (r1 % a.len() as u64) as usize; a.remove(i); } },
        _ => *x = Value::Null },
      4 => match x {                                                // extra field / element
        Value::Object(m) => { let ks = ["from", "to", "repeat", "absorbing", "row", "letters", "extra", "Special", "keys", "delay_ms"]; m.insert(ks[(r1 % ks.len() as u64) as usize].to_string(), j.clone()); },
        Value::Array(a) => { let i = (r1 % (a.len() as u64 + 1)) as usize; a.insert(i, j.clone()); },
        _ => *x = json!([x.clone()]) },
      5 => match x {                                                // repeat an element (duplicate keys in from / to)
        Value::Array(a) => { if !a.is_empty() { let i = (r1 % a.len() as u64) as usize; let e = a[i].clone(); let p = (r2 % (a.len() as u64 + 1)) as usize; a.insert(p, e); } },
        Value::String(t) => { let t2 = t.clone(); *x = json!([t2.clone(), t2]); },
        _ => *x = json!([]) },
      6 => match x { Value::Array(a) => a.clear(), Value::Object(m) => m.clear(), Value::String(t) => t.clear(), _ => *x = json!([]) },   // empty
      7 => match x { Value::String(_) => *x = json!(s.clone()), _ => *x = json!(s.clone()) },                                                  // odd string
      8 => match x {                                                // over-long / unknown characters
        Value::String(t) => { for _ in 0..(1 + r1 % 14) { t.push(if r2 % 3 == 0 { 'é' } else if r2 % 3 == 1 { 'x' } else { ' ' }); } },
        _ => *x = json!("@a") },
      9 => match x { Value::String(t) => { let u = if r1 % 2 == 0 { t.to_lowercase() } else { format!("@{}", t) }; *x = json!(u); }, _ => *x = json!(1) },
      10 => match x {                                               // numbers at the limits
        Value::Number(_) => { let c: &[i64] = &[2147483647, 2147483648, -2147483648, -2147483649, 4294967296 + 5, 9223372036854775807, -9223372036854775808]; *x = json!(c[(r1 % c.len() as u64) as usize]); },
        _ => *x = json!(18446744073709551615u64) },
      11 => { let d = 1 + (r1 % 40) as usize; let old = x.clone(); *x = nest(old, d, r2 % 2 == 0); },            // deep nesting
      12 => match x { Value::Array(a) => { a.reverse(); }, _ => *x = json!({"row": "A"}) },
      _ => match x { Value::String(_) => *x = json!("@a"), _ => *x = json!({"letters": "ab"}) },
    }
  };
  mutate_at(v, &mut n, &mut f);
}

// hand-written families around the known weak spots
fn targeted(names: &[(String, String)]) -> Vec<Value> {
  let mut v = vec![
    json!({"mappings": [{"from": ["A", "A"], "to": "B"}]}),
    json!({"mappings": [{"from": "A", "to": ["B", "B"]}]}),
    json!({"mappings": [{"from": "LEFTSHIFT", "to": "@shift"}, {"from": ["@shift", "LEFTSHIFT", "A"], "to": "B"}]}),
    json!({"mappings": [{"from": "LEFTSHIFT", "to": "@s"}, {"from": "RIGHTSHIFT", "to": "@s"}, {"from": ["@s", "@s", "A"], "to": ["@s", "B"]}]}),
    json!({"mappings": [{"from": "CAPSLOCK", "to": "@s"}, {"from": ["@s", "A"], "to": ["@s", "@s", "B"]}]}),
    json!({"mappings": [{"from": "CAPSLOCK", "to": "@s"}, {"from": ["A"], "to": ["@s", "B"]}]}),
    json!({"mappings": [{"from": ["@nope", "A"], "to": "B"}]}),
    json!({"mappings": [{"from": "CAPSLOCK", "to": "@s"}, {"from": ["@s", "A"], "to": "B", "absorbing": "@t"}]}),
    json!({"mappings": [{"from": "CAPSLOCK", "to": "@s"}, {"from": "@s", "to": "B"}]}),
    json!({"mappings": [{"from": ["A", "@s"], "to": "B"}]}),
    json!({"mappings": [{"from": "CAPSLOCK", "to": "@s"}, {"from": ["@s", "B"], "to": "@t"}]}),
    json!({"mappings": [{"from": "CAPSLOCK", "to": ["@s", "@s"]}]}),
    json!({"mappings": [{"from": "CAPSLOCK", "to": ["@s", "A"]}]}),
    json!({"mappings": [{"from": "CAPSLOCK", "to": "@s", "repeat": "Normal"}]}),
    json!({"mappings": [{"from": "CAPSLOCK", "to": "@s", "absorbing": []}]}),
    json!({"mappings": [{"from": {"row": "A"}, "to": {"letters": "abcdefghijkl"}}]}),
    json!({"mappings": [{"from": {"row": "A"}, "to": {"letters": "abcdefghijk "}}]}),
    json!({"mappings": [{"from": {"row": "A"}, "to": {"letters": "            "}}]}),
    json!({"mappings": [{"from": {"row": "Z"}, "to": {"letters": "abcdefghij"}}]}),
    json!({"mappings": [{"from": {"row": "A"}, "to": {"letters": ""}}]}),
    json!({"mappings": [{"from": {"row": "A"}, "to": {"letters": "ab"}, "repeat": {"Special": {"keys": {"letters": "abc"}, "delay_ms": 1, "interval_ms": 1}}}]}),
    json!({"mappings": [{"from": {"row": "A"}, "to": {"letters": "a b"}, "repeat": {"Special": {"keys": {"letters": " xy"}, "delay_ms": 1, "interval_ms": 1}}}]}),
    json!({"mappings": [{"from": {"row": "A"}, "to": {"letters": "aé"}}]}),
    json!({"mappings": [{"from": {"row": "A"}, "to": {"letters": "a\u{0}"}}]}),
    json!({"mappings": [{"from": {"row": "A"}, "to": []}]}),
    json!({"mappings": [{"from": {"row": "A"}, "repeat": "Normal"}]}),
    json!({"mappings": [{"from": {"row": "A", "x": 1}, "to": {"letters": "a"}}]}),
    json!({"mappings": [{"from": ["RIGHTSHIFT", {"row": "A"}], "to": {"letters": "Aa+"}}]}),
    json!({"mappings": [{"from": ["LEFTSHIFT", {"row": "A"}], "to": {"letters": "Aa+"}}]}),
    json!({"mappings": [{"from": ["A", "A", {"row": "A"}], "to": {"letters": "   "}}]}),
    json!({"mappings": [{"from": "A", "to": "B", "repeat": {"Special": {"keys": [], "delay_ms": 4294967476i64, "interval_ms": -4294967295i64}}}]}),
    json!({"mappings": [{"from": "A", "to": "B", "repeat": {"Special": {"keys": ["F20", "F20"], "delay_ms": 2147483648i64, "interval_ms": -2147483649i64}}}]}),
    json!({"mappings": [{"from": "A", "to": "B", "repeat": {"Special": {"keys": "F20", "delay_ms": 1.0, "interval_ms": 1}}}]}),
    json!({"mappings": [{"from": "A", "to": "B", "repeat": {"Special": {"keys": "F20", "delay_ms": 18446744073709551615u64, "interval_ms": 1}}}]}),
    json!({"mappings": [{"from": "A", "to": "B", "repeat": {"Special": {"keys": "F20", "delay_ms": 1}}}]}),
    json!({"mappings": [{"from": "A", "to": "B", "repeat": {"Special": {"keys": "F20", "delay_ms": 1, "interval_ms": 1, "x": 1}}}]}),
    json!({"mappings": [{"from": "A", "to": "B", "repeat": {"special": {"keys": "F20", "delay_ms": 1, "interval_ms": 1}}}]}),
    json!({"mappings": [{"from": "A", "repeat": "Disabled"}, {"from": "A", "repeat": "Normal"}]}),
    json!({"mappings": [{"from": "A", "repeat": "Disabled", "to": "B"}]}),
    json!({"mappings": [{"from": "A", "repeat": "Disabled", "absorbing": []}]}),
    json!({"mappings": [{"from": ["LEFTSHIFT", "LEFTCTRL", "A"], "to": "B"}, {"from": ["LEFTCTRL", "LEFTSHIFT", "A"], "to": "C"}, {"from": ["LEFTCTRL", "LEFTSHIFT", "A"], "repeat": "Disabled"}]}),
    json!({"mappings": [{"from": ["LEFTSHIFT", "A"], "to": "B", "absorbing": "LEFTCTRL"}]}),
    json!({"mappings": [{"from": ["LEFTSHIFT", "A"], "to": "B", "absorbing": ["LEFTSHIFT", "LEFTSHIFT"]}]}),
    json!({"mappings": [{"from": "A", "to": "B", "extra": 1}]}),
    json!({"mappings": [], "extra": 1}),
    json!({"mappings": []}),
    json!({}),
    json!([]),
    json!(null),
    json!("mappings"),
    json!({"mappings": {}}),
    json!({"mappings": [[]]}),
    json!({"mappings": [{"from": [], "to": []}]}),
    json!({"mappings": [{"from": [[]], "to": []}]}),
    json!({"mappings": [{"from": "A", "to": [[]]}]}),
    json!({"mappings": [{"from": "A", "to": {}}]}),
    json!({"mappings": [{"from": "A", "to": {"letters": "a"}}]}),
    json!({"mappings": [{"from": "A", "to": [{"letters": "a"}]}]}),
    json!({"mappings": [{"from": ["A", {"row": "A"}, "B"], "to": "C"}]}),
    json!({"mappings": [{"from": [{"row": "A"}, "B"], "to": "C"}]}),
  ];
  // every alias-definition key count and the "just one modifier" rule for each modifier
  for k in ["LEFTSHIFT", "RIGHTSHIFT", "LEFTALT", "RIGHTALT", "LEFTCTRL", "RIGHTCTRL", "LEFTMETA", "RIGHTMETA", "CAPSLOCK", "COMPOSE", "FN"] {
    v.push(json!({"mappings": [{"from": k, "to": "@x"}, {"from": ["@x", "A"], "to": ["@x", "B"]}]}));
    v.push(json!({"mappings": [{"from": [k, "A"], "to": ["TAB", "@x"]}, {"from": ["@x", "J"], "to": ["@x", "B"], "absorbing": "@x"}]}));
  }
  let _ = names;
  v
}

// ---------------------------------------------------------------- basic layouts (C15)

fn gen_basic(rng: &mut Rng, keys: &[KeyCode]) -> Layout {
  let n = 1 + rng.below(5);
  let mut ms = vec![];
  let pick_distinct = |rng: &mut Rng, n: usize| -> Vec<KeyCode> {
    let mut v: Vec<KeyCode> = vec![];
    while v.len() < n { let k = *rng.pick(keys); if !v.contains(&k) { v.push(k); } }
    v
  };
  for _ in 0..n {
    let nf = 1 + rng.below(4); let nt = rng.below(4);
    let from = pick_distinct(rng, nf);
    let to = pick_distinct(rng, nt);
    let repeat = match rng.below(4) {
      0 => Repeat::Normal,
      1 => Repeat::Disabled,
      _ => {
        let nk = rng.below(4);
        let mut ks: Vec<KeyCode> = vec![]; for _ in 0..nk { ks.push(*rng.pick(keys)); }   // chord may repeat a key
        let c: &[i32] = &[0, 1, -1, 180, 30, i32::MAX, i32::MIN, -5, 65536];
        Repeat::Special { keys: ks, delay_ms: *rng.pick(c), interval_ms: *rng.pick(c) }
      }
    };
    let mods = &from[..from.len() - 1];
    let mut absorbing: Vec<KeyCode> = mods.iter().filter(|_| rng.chance(1, 3)).cloned().collect();
    if !absorbing.is_empty() && rng.chance(1, 5) { let a = absorbing[0]; absorbing.push(a); }     // listed twice
    if rng.chance(1, 2) { absorbing.reverse(); }
    ms.push(Mapping { from, to, repeat, absorbing });
  }
  Layout { mappings: ms }
}

// ---------------------------------------------------------------- corpus (builtin layouts, README, syntax examples)

fn code_blocks(text: &str) -> Vec<String> {
  let mut res = vec![]; let mut cur: Option<String> = None;
  for line in text.lines() {
    let t = line.trim_start();
    if t.starts_with("```") {
      match cur.take() { Some(b) => res.push(b), None => { if t.trim() == "```json" { cur = Some(String::new()); } else { cur = Some("\u{1}skip".to_string()); } } }
    } else if let Some(b) = cur.as_mut() { b.push_str(line); b.push('\n'); }
  }
  res.into_iter().filter(|b| !b.starts_with('\u{1}')).collect()
}

fn corpus(repo: &str) -> Vec<(String, Value)> {
  let mut res: Vec<(String, Value)> = vec![];
  let mut names: Vec<&String> = crate::default_fancy_layouts::DEFAULT_LAYOUTS.keys().collect();
  names.sort();
  for n in names {
    let text = crate::default_fancy_layouts::DEFAULT_LAYOUTS.get(n).unwrap();
    if let Ok(v) = serde_json::from_str::<Value>(text) { res.push((format!("builtin:{}", n), v)); }
  }
  if let Ok(readme) = std::fs::read_to_string(format!("{}/README.md", repo)) {
    for (i, b) in code_blocks(&readme).iter().enumerate() {
      let v: Option<Value> = serde_json::from_str(b).ok().or_else(|| serde_json::from_str(&format!("[{}]", b)).ok());
      if let Some(v) = v {
        let wrapped = match &v {
          Value::Object(m) if m.contains_key("mappings") => v.clone(),
          Value::Object(m) if m.contains_key("from") => json!({"mappings": [v.clone()]}),
          Value::Array(_) => json!({"mappings": v.clone()}),
          _ => v.clone()
        };
        res.push((format!("readme:{}", i), wrapped));
      }
    }
  }
  if let Ok(rd) = std::fs::read_dir(format!("{}/working/syntax-examples", repo)) {
    let mut ps: Vec<std::path::PathBuf> = rd.filter_map(|e| e.ok().map(|e| e.path())).collect();
    ps.sort();
    for p in ps {
      if let Ok(t) = std::fs::read_to_string(&p) {
        if let Ok(v) = serde_json::from_str::<Value>(&t) { res.push((format!("example:{}", p.file_name().unwrap().to_string_lossy()), v)); }
      }
    }
  }
  res
}

// ---------------------------------------------------------------- case-mapping substitutions

fn subst_value(kind: &str, pos: usize, c: char) -> Value {
  let name = |base: &str| -> String { let mut t: Vec<char> = base.chars().collect(); t[pos] = c; t.into_iter().collect() };
  match kind {
    "row" => json!({"mappings": [{"from": {"row": c.to_string()}, "to": {"letters": "a"}}]}),
    "normal" => json!({"mappings": [{"from": "A", "to": "B", "repeat": name("normal")}]}),
    _ => json!({"mappings": [{"from": "A", "to": "B", "repeat": name("disabled")}]}),
  }
}

fn subst_blocks(sink: &mut Sink, rng: &mut Rng, thorough: bool) {
  // scalars under test: every scalar with a non-trivial case mapping, everything below U+0250, a random sample
  let mut scalars: Vec<u32> = vec![];
  for c in 0u32..=0x10FFFF {
    if let Some(ch) = std::char::from_u32(c) {
      let cased = { let mut u = ch.to_uppercase(); let mut l = ch.to_lowercase(); !(u.next() == Some(ch) && u.next().is_none() && l.next() == Some(ch) && l.next().is_none()) };
      if c < 0x250 || cased { scalars.push(c); }
    }
  }
  for _ in 0..300 { let c = rng.below(0x110000) as u32; if std::char::from_u32(c).is_some() && !scalars.contains(&c) { scalars.push(c); } }
  let kinds: Vec<(&str, usize)> = vec![("row", 1), ("normal", 6), ("disabled", 8)];
  for (kind, len) in kinds {
    for pos in 0..len {
      let full = thorough && (kind == "row" || pos == 0 || pos == 2);
      let mut text = String::new();
      let _ = write!(text, "SUBST {} {}\n", kind, pos);
      let list: Vec<u32> = if full { (0u32..=0x10FFFF).filter(|c| std::char::from_u32(*c).is_some()).collect() } else { scalars.clone() };
      if full { text.push_str("RANGE 0 1114111\n"); } else { text.push_str("SCALARS"); for c in &list { let _ = write!(text, " {}", c); } text.push('\n'); }
      text.push_str("ACCEPTED");
      for c in &list {
        let ch = std::char::from_u32(*c).unwrap();
        let v = subst_value(kind, pos, ch);
        match real_load(&v) {
          Outcome::Ok(l) if l.mappings.len() == 1 => {
            let m = &l.mappings[0];
            let rk = match m.repeat { Repeat::Normal => 0, Repeat::Disabled => 1, _ => 2 };
            let _ = write!(text, " {}:{}:{}", c, code(&m.from[m.from.len() - 1]), rk);
          },
          Outcome::Ok(_) => { let _ = write!(text, " {}:0:9", c); },
          Outcome::Panic => { let _ = write!(text, " {}:0:8", c); },
          Outcome::Err(_) => {}
        }
        sink.stats.subst += 1;
      }
      text.push_str("\nENDSUBST\n");
      sink.raw(&text);
    }
  }
}

// ---------------------------------------------------------------- main

pub fn main(args: &[String]) -> i32 {
  let a = args_map(args);
  let out = a.get("out").cloned().unwrap_or_else(|| "/verif/build/work/loader".to_string());
  let seed: u64 = a.get("seed").and_then(|s| s.parse().ok()).unwrap_or(1);
  let tier = a.get("tier").cloned().unwrap_or_else(|| "quick".to_string());
  let repo = a.get("repo").cloned().unwrap_or_else(|| "/repo".to_string());
  let thorough = tier == "thorough";
  let scale: usize = a.get("scale").and_then(|s| s.parse().ok()).unwrap_or(if thorough { 12 } else { 1 });
  let nfiles: usize = a.get("files").and_then(|s| s.parse().ok()).unwrap_or(16);
  let steps: usize = a.get("steps").and_then(|s| s.parse().ok()).unwrap_or(40);
  std::fs::create_dir_all(&out).ok();
  let mut files = vec![];
  for i in 0..nfiles { files.push(std::io::BufWriter::new(std::fs::File::create(format!("{}/cases-{:02}.txt", out, i)).expect("cannot create case file"))); }
  let mut sink = Sink { files, next_id: 0, stats: Stats::default(), steps, tmp: format!("{}/saved-layout.json", out) };
  let mut rng = Rng::new(seed);
  let keys = all_keys();
  // (ident, serde name) of every key, from the real Display / Serialize impls
  let names: Vec<(String, String)> = keys.iter().map(|k| (format!("{}", k), serde_json::to_value(k).ok().and_then(|v| v.as_str().map(|s| s.to_string())).unwrap_or_default())).collect();
  let strs = special_strings();

  // --only-text: the text stream alone (used to stress the JSON text layer with a large --scale)
  let only_text = a.contains_key("only-text");
  if !only_text {
  // (b) corpus
  for (tag, v) in corpus(&repo) { let _ = tag; sink.case("builtin", &v, None, &mut rng); }
  // targeted families
  for v in targeted(&names) { sink.case("targeted", &v, None, &mut rng); }
  // (a) valid layouts, (c) mutations of them
  let nvalid = 2500 * scale;
  for _ in 0..nvalid {
    let v = gen_valid(&mut rng, &names);
    sink.case("valid", &v, None, &mut rng);
    for _ in 0..2 {
      let mut m = v.clone();
      let k = 1 + rng.below(3);
      for _ in 0..k { mutate_once(&mut rng, &mut m, &strs); }
      sink.case("malformed", &m, None, &mut rng);
    }
  }
  // mutations of the corpus
  let corp = corpus(&repo);
  for _ in 0..(300 * scale) {
    let (_, v) = rng.pick(&corp);
    if count_nodes(v) > 400 { continue; }
    let mut m = v.clone();
    mutate_once(&mut rng, &mut m, &strs);
    sink.case("malformed", &m, None, &mut rng);
  }
  // arbitrary JSON
  for _ in 0..(300 * scale) { let v = junk(&mut rng, 0, &strs); sink.case("junk", &v, None, &mut rng); }
  // (d) basic layouts through serde
  for k in &keys {
    // every key code once, in every position of a mapping
    let other = if code(k) == 30 { key(48) } else { key(30) };
    let l = Layout { mappings: vec![Mapping { from: vec![*k, other], to: vec![other, *k], repeat: Repeat::Special { keys: vec![*k], delay_ms: -5, interval_ms: i32::MAX }, absorbing: vec![*k] },
                                    Mapping { from: vec![other, *k], to: vec![], repeat: Repeat::Disabled, absorbing: vec![] }] };
    let v = serde_json::to_value(&l).unwrap_or(Value::Null);
    sink.case("basic", &v, Some(&l), &mut rng);
  }
  for _ in 0..(1500 * scale) {
    let l = gen_basic(&mut rng, &keys);
    let v = serde_json::to_value(&l).unwrap_or(Value::Null);
    sink.case("basic", &v, Some(&l), &mut rng);
  }
  // one very large saved layout (several hundred kB of JSON): the save path, the file and the reload must cope
  // with sizes far beyond the built-in layouts
  {
    let mut ms: Vec<Mapping> = vec![];
    'outer: for a in &keys {
      for b in &keys {
        if a == b { continue; }
        ms.push(Mapping { from: vec![*a, *b], to: vec![*b], repeat: if ms.len() % 3 == 0 { Repeat::Disabled } else { Repeat::Normal }, absorbing: vec![] });
        if ms.len() >= 2600 * scale.max(1).min(3) { break 'outer; }
      }
    }
    let l = Layout { mappings: ms };
    let v = serde_json::to_value(&l).unwrap_or(Value::Null);
    sink.case("basic", &v, Some(&l), &mut rng);
  }
  // key names: every ident and serde name as trigger, modifier, output, chord and absorbing key; near misses
  for (ident, serde) in &names {
    for n in [ident, serde] {
      sink.case("keyname", &json!({"mappings": [{"from": [n, "A"], "to": ["B", n], "repeat": {"Special": {"keys": n, "delay_ms": 1, "interval_ms": 2}}, "absorbing": n}]}), None, &mut rng);
    }
    if rng.chance(1, 4) || thorough {
      let mut miss = ident.clone();
      match rng.below(4) { 0 => miss = miss.to_lowercase(), 1 => miss.push('X'), 2 => { miss.pop(); }, _ => miss = format!("K{}", miss) };
      sink.case("keyname", &json!({"mappings": [{"from": miss, "to": []}]}), None, &mut rng);
    }
  }
  // (e) single-scalar substitutions in row and repeat names
  subst_blocks(&mut sink, &mut rng, thorough);
  }
  // (f) the JSON text layer: generated texts through the real serde_json readers (and layout files through
  // load_layout_from_file); a random stream of its own, derived from the same seed
  let tstats = {
    let mut lrng = Rng::new(Rng::new(seed ^ 0x6c61_796f_7574).next());
    let layouts: Vec<Layout> = (0..64).map(|_| gen_basic(&mut lrng, &keys)).collect();
    // texts of shorthand layouts (pretty and compact) as the raw material of the malformed-file stream
    let mut bases: Vec<Vec<u8>> = vec![];
    for i in 0..160 {
      let v = gen_valid(&mut lrng, &names);
      let t = if i % 2 == 0 { serde_json::to_string_pretty(&v) } else { serde_json::to_string(&v) };
      if let Ok(t) = t { bases.push(t.into_bytes()); }
    }
    let nf = sink.files.len();
    let tmp = format!("{}/text-layout.json", out);
    let files = &mut sink.files;
    let mut write = |bytes: &[u8], rec: &str| {
      let mut h: u64 = 1469598103934665603; for b in bytes { h ^= *b as u64; h = h.wrapping_mul(1099511628211); }
      let _ = files[(h % nf as u64) as usize].write_all(rec.as_bytes());
    };
    let mut ts = text::TextSink { next_id: 1_000_000, stats: text::TextStats::new(), tmp, write: &mut write };
    text::run(&mut ts, seed, scale, &layouts, &bases);
    ts.stats
  };

  for f in sink.files.iter_mut() { let _ = f.flush(); }
  let st = &sink.stats;
  let mut dist = Map::new();
  dist.insert("cases".into(), json!(st.cases));
  dist.insert("ok".into(), json!(st.ok)); dist.insert("err".into(), json!(st.err)); dist.insert("panic".into(), json!(st.panic));
  dist.insert("by_kind_ok_err_panic".into(), json!(st.by_kind.iter().map(|(k, v)| (k.clone(), json!([v.0, v.1, v.2]))).collect::<Map<String, Value>>()));
  dist.insert("error_kinds".into(), json!(st.err_kinds));
  dist.insert("source_mappings_per_case".into(), json!(st.size_hist));
  dist.insert("basic_mappings_per_accepted_layout".into(), json!(st.out_hist));
  dist.insert("reloads".into(), json!(st.reloads));
  dist.insert("mapper_steps".into(), json!(st.mapper_steps));
  dist.insert("substitution_cases".into(), json!(st.subst));
  dist.insert("key_codes".into(), json!(keys.len()));
  dist.insert("pretty_texts_of_input_values".into(), json!(st.pretty_texts));
  dist.insert("input_layout_files_loaded_ok_err_panic".into(), json!([st.input_files.0, st.input_files.1, st.input_files.2]));
  dist.insert("input_layout_files_pretty_compact_respaced".into(), json!([st.input_file_formats.0, st.input_file_formats.1, st.input_file_formats.2]));
  dist.insert("input_layout_files_differing_from_in_memory_load".into(), json!(st.input_file_differs));
  dist.insert("saved_layout_files".into(), json!(st.saved_texts));
  dist.insert("saved_layout_file_bytes".into(), json!(st.saved_bytes));
  dist.insert("text_cases_by_kind_ok_err".into(), json!(tstats.by_kind.iter().map(|(k, v)| (k.clone(), json!([v.0, v.1]))).collect::<Map<String, Value>>()));
  dist.insert("text_cases".into(), json!(tstats.by_kind.values().map(|v| v.0 + v.1).sum::<usize>()));
  dist.insert("text_cases_ok".into(), json!(tstats.by_kind.values().map(|v| v.0).sum::<usize>()));
  dist.insert("text_cases_err".into(), json!(tstats.by_kind.values().map(|v| v.1).sum::<usize>()));
  dist.insert("text_bytes".into(), json!(tstats.bytes));
  dist.insert("text_real_readers_disagree".into(), json!(tstats.readers_disagree));
  dist.insert("layout_text_files_loaded_ok_err_panic".into(), json!([tstats.layout_loads.0, tstats.layout_loads.1, tstats.layout_loads.2]));
  println!("DIST {}", Value::Object(dist));
  for s in &st.samples { println!("SAMPLE {}", s); }
  println!("loader: cases={} ok={} err={} panic={} reloads={} subst={} keys={}", st.cases, st.ok, st.err, st.panic, st.reloads, st.subst, keys.len());
  0
}

// loader-replay --json FILE : what the real code answers on one JSON text
pub fn replay_main(args: &[String]) -> i32 {
  let a = args_map(args);
  let path = match a.get("json") { Some(p) => p.clone(), None => { eprintln!("usage: loader-replay --json FILE"); return 2; } };
  // the file itself, as the service would read it
  {
    let r = catch_unwind(AssertUnwindSafe(|| crate::layout_loading::load_layout_from_file(&path)));
    match r {
      Err(_) => println!("load_layout_from_file(this file): PANIC"),
      Ok(Err(e)) => println!("load_layout_from_file(this file): Err({})", e),
      Ok(Ok(l)) => { println!("load_layout_from_file(this file): Ok, {} mappings", l.mappings.len()); for m in l.mappings.iter().take(12) { println!("  {}", mapping_line(m)); } }
    }
  }
  let text = match std::fs::read(&path) { Ok(b) => String::from_utf8_lossy(&b).to_string(), Err(e) => { println!("cannot read the file: {}", e); return 0; } };
  let v: Value = match serde_json::from_str(&text) { Ok(v) => v, Err(e) => { println!("serde_json::from_str: {}", e); return 0; } };
  // the same Value as a pretty and as a compact file
  for (name, t) in [("pretty", serde_json::to_string_pretty(&v).unwrap_or_default()), ("compact", serde_json::to_string(&v).unwrap_or_default())] {
    let p2 = format!("{}.{}.tmp", path, name);
    if text::put_file(&p2, t.as_bytes()) {
      let r = catch_unwind(AssertUnwindSafe(|| crate::layout_loading::load_layout_from_file(&p2)));
      let mem = real_load(&v);
      let verdict = match (r, &mem) {
        (Err(_), _) => "PANIC".to_string(),
        (Ok(Err(e)), Outcome::Err(_)) => format!("Err({}) as in memory", e),
        (Ok(Err(e)), _) => format!("Err({}), DIFFERENT from the in-memory load", e),
        (Ok(Ok(l)), Outcome::Ok(m)) => if l.mappings == m.mappings { format!("Ok, {} mappings, identical to the in-memory load", l.mappings.len()) } else { format!("Ok, {} mappings, DIFFERENT from the in-memory load", l.mappings.len()) },
        (Ok(Ok(l)), _) => format!("Ok, {} mappings, DIFFERENT from the in-memory load", l.mappings.len()),
      };
      println!("load_layout_from_file({} text of this value): {}", name, verdict);
      let _ = std::fs::remove_file(&p2);
    }
  }
  let mut rng = Rng::new(1);
  let o = real_load(&v);
  match &o {
    Outcome::Panic => println!("load: PANIC"),
    Outcome::Err(e) => println!("load: Err({})", e),
    Outcome::Ok(l) => {
      println!("load: Ok, {} mappings", l.mappings.len());
      for m in l.mappings.iter().take(12) { println!("  {}", mapping_line(m)); }
      match serde_json::to_value(l) {
        Ok(s) => {
          println!("saved form: {}", { let t = s.to_string(); if t.len() > 600 { format!("{}...", &t[..600]) } else { t } });
          match real_load(&s) {
            Outcome::Panic => println!("reload: PANIC"),
            Outcome::Err(e) => println!("reload: Err({})", e),
            Outcome::Ok(l2) => println!("reload: Ok, {} mappings, {}", l2.mappings.len(), if l2.mappings == l.mappings { "identical" } else { "DIFFERENT from the original" }),
          }
        },
        Err(e) => println!("serde_json::to_value: {}", e),
      }
      match drive_mapper(l, &mut rng, 200) { Some(x) => println!("mapper: PANIC in {}", x), None => println!("mapper: for_layout and 200 random steps without panic") }
    }
  }
  0
}
