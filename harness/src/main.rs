// tm-harness — drives the REAL totalmapper code (the files of /repo's working
// tree, included by #[path] with the verification cfg on) for the
// correspondence checks and implementation-side searches of /verif.
#![allow(dead_code, unused_imports, unused_variables, unused_mut, non_snake_case)]

#[macro_use]
extern crate enum_display_derive;

include!("repo_mods.rs");

mod util;
mod engines;

fn main() {
  let args: Vec<String> = std::env::args().collect();
  if args.len() < 2 {
    eprintln!("usage: tm-harness <engine> [args]");
    std::process::exit(2);
  }
  // silence panic messages of the code under test (they are outcomes, caught)
  std::panic::set_hook(Box::new(|_| {}));
  let rest: Vec<String> = args[2..].to_vec();
  let code = match args[1].as_str() {
    "mapper-graph" => engines::mapper_graph::main(&rest),
    "mapper-replay" => engines::mapper_graph::replay_main(&rest),
    "wire" => engines::wire::main(&rest),
    "wire-replay" => engines::wire::replay_main(&rest),
    "listing-gen" => engines::listing::main(&rest),
    "listing-ns" => engines::listing::ns_main(&rest),
    "listing-probe" => engines::listing::probe_main(&rest),
    "listing-replay" => engines::listing::replay_main(&rest),
    "loader" => engines::loader::main(&rest),
    "loader-replay" => engines::loader::replay_main(&rest),
    "escape" => engines::escape::main(&rest),
    "loop" => engines::loop_script::main(&rest),
    "loop-replay" => engines::loop_script::replay_main(&rest),
    "tables" => engines::tables::main(&rest),
    "realloop" => engines::realloop::main(&rest),
    "realloop-replay" => engines::realloop::replay_main(&rest),
    "realloop-child" => engines::realloop::child_main(&rest),
    "cli-load" => engines::cli::load_main(&rest),
    other => {
      eprintln!("unknown engine {}", other);
      2
    }
  };
  std::process::exit(code);
}
