(* Extract_wire.v — extraction of the wire codec model (TM.Wire), of the tablet-mode
   switch reader model and specification (TM.TabletWire) and of the
   specification-side checkers (TM.WireSpec) to OCaml for ocaml/wire_check.ml.
   Directives: ExtrOcamlBasic and ExtrOcamlString only; N, Z, positive, nat stay
   the extracted inductive types; no Extract Constant / Extract Inductive of ours. *)
From Coq Require Import ExtrOcamlBasic ExtrOcamlString.
From TM Require Import Base Mapper Wire WireSpec TabletWire.
From TMGen Require KeyTable.

(* the model *)
Definition x_encode_batch := encode_batch.
Definition x_decode_run := decode_run.
(* the specification: checkers for the real code's outputs, raw records *)
Definition x_check_write := check_write.
Definition x_check_roundtrip := check_roundtrip.
Definition x_check_reader := check_reader.
Definition x_mk_raw := mk_raw.
Definition x_raw_stream := raw_stream.
Definition x_raw_events := raw_events.
Definition x_raw_wf := raw_wf.
(* the key table against the pinned kernel numbering *)
Definition x_unmatched_idents := unmatched_idents.
Definition x_matched_count := matched_count.
Definition x_table_ok := codes_fit_u16 && codes_match_kernel && codes_distinct.
Definition x_key_codes := key_codes.
Definition x_key_table := TMGen.KeyTable.key_table.
Definition x_kernel_code_of_ident (id : String.string) := kernel_code (kernel_name id).

(* the tablet-mode switch reader (property C12): model, specification, checker for the real reader's answers *)
Definition x_decode_tablet_run := decode_tablet_run.
Definition x_tablet_events_of := tablet_events_of.
Definition x_check_switch_reader := check_switch_reader.

Extraction "model.ml" x_encode_batch x_decode_run x_check_write x_check_roundtrip x_check_reader
  x_mk_raw x_raw_stream x_raw_events x_raw_wf x_unmatched_idents x_matched_count x_table_ok x_key_codes x_key_table x_kernel_code_of_ident
  x_decode_tablet_run x_tablet_events_of x_check_switch_reader.
