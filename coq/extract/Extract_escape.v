(* Extract_escape.v — extraction of the escaper model, the systemd reading and
   the C17 checker to OCaml.  Directives: ExtrOcamlBasic and ExtrOcamlString
   only; N, positive, nat stay the extracted inductive types; there is no
   Extract Constant / Extract Inductive of ours.  Nothing here depends on a
   proof file. *)
From Coq Require Import ExtrOcamlBasic ExtrOcamlString.
From TM Require Import Escape Systemd EscapeSpec.

Definition x_build_service_text := build_service_text.
Definition x_utf8 := utf8.
Definition x_decode := decode.
Definition x_read_back := read_back.
Definition x_expected_argv := expected_argv.
Definition x_c17_check := c17_check.
Definition x_scalar_okb := scalar_okb.

Extraction "model.ml" x_build_service_text x_utf8 x_decode x_read_back x_expected_argv x_c17_check x_scalar_okb.
