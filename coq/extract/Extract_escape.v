(* Extract_escape.v — extraction of the escaper model, the systemd reading and
   the C17 checker to OCaml.  Directives: ExtrOcamlBasic and ExtrOcamlString
   only; N, positive, nat stay the extracted inductive types; there is no
   Extract Constant / Extract Inductive of ours.  Nothing here depends on a
   proof file. *)
From Coq Require Import ExtrOcamlBasic ExtrOcamlString.
From TM Require Import Escape Systemd EscapeSpec.

Definition x_build_service_text := build_service_text.
Definition x_utf8 := utf8.
Definition x_decode := decode.
Definition x_exec_line := exec_line.
Definition x_service_exec_starts := service_exec_starts.
Definition x_read_unit := read_unit.
Definition x_required_suffix := required_suffix.
Definition x_prefix_ok := prefix_ok.
Definition x_c17_check := c17_check.
Definition x_text_class_ok := text_class_ok.
Definition x_scalar_okb := scalar_okb.

Extraction "model.ml" x_build_service_text x_utf8 x_decode x_exec_line x_service_exec_starts x_read_unit
  x_required_suffix x_prefix_ok x_c17_check x_text_class_ok x_scalar_okb.
