(* Extract_realloop.v — what the bytes on the virtual-keyboard descriptor must be,
   as a function of the bytes written to the keyboard descriptor, for the
   `realloop` engine (the real per-device loop with the real mio/epoll driver,
   DevInputReader, TabletModeSwitchReader and DevInputWriter over pipes).

   The expected bytes are `Pipeline.device_bytes_out` - the function that
   TMProps.C10.C10_bytes_out_depend_only_on_events_read proves to be what the event
   loop writes whatever the chunking, and TMProps.C18.C18_virtual_keyboard_sees_mapper_outputs
   proves to read back as the mapper's event sequence - followed, when a
   tablet-switch On is written after the key history, by
   `Pipeline.device_bytes_tablet_on` (Pipeline.pipeline_bytes_then_tablet_event).
   `x_sends` (the right-hand side of C10_sends_are_mapper_outputs, MapperInv.mrun
   over the inputs, LoopSpec.non_nil) is kept for the statistics and for
   encoding what the in-process real Mapper announces.  No new model: only
   compositions of definitions the theorems are about.
   Directives: ExtrOcamlBasic and ExtrOcamlString only; N, Z, positive, nat stay
   the extracted inductive types; no Extract Constant / Extract Inductive of ours. *)
From Coq Require Import ExtrOcamlBasic ExtrOcamlString.
From TM Require Import Base Mapper Monitors MapperInv LoopSpec Wire Pipeline.
From TMGen Require Import Modifiers.

Definition x_is_action : key -> bool := Modifiers.is_action_key.
Definition x_for_layout_ok := for_layout_ok.

(* the key history the real reader must deliver for these input bytes *)
Definition x_history (in_bytes : list N) : list event := decode_stream in_bytes.

(* the sends of the loop: one per mapper step with a non-empty output, in order;
   phase 1 = the key history, phase 2 = one tablet-switch On (release-all) if asked for *)
Definition x_sends (L : layout) (h : list event) (tablet_on : bool) : list (list event) * list (list event) :=
  let r1 := mrun x_is_action L init (map IEv h) in
  let r2 := mrun x_is_action L (snd r1) (if tablet_on then [IReleaseAll] else []) in
  (filter non_nil (fst r1), filter non_nil (fst r2)).

(* the bytes of a sequence of sends *)
Definition x_bytes_of_sends (sends : list (list event)) : list N := concat (map encode_batch sends).

Definition x_encode_batch := encode_batch.

(* bytes in -> bytes out: the object of the pipeline theorems *)
Definition x_device_bytes_out (L : layout) (in_bytes : list N) : list N :=
  Pipeline.device_bytes_out x_is_action L in_bytes.
Definition x_device_bytes_tablet_on (L : layout) (in_bytes : list N) : list N :=
  Pipeline.device_bytes_tablet_on x_is_action L in_bytes.

Extraction "model.ml" x_is_action x_for_layout_ok x_history x_sends x_bytes_of_sends x_encode_batch
           x_device_bytes_out x_device_bytes_tablet_on.
