(* Extract.v — extraction of the executable models to OCaml.
   Directives used: ExtrOcamlBasic (bool, option, list, prod, unit, sumbool to
   the OCaml types) and ExtrOcamlString (ascii/string to char / char list).
   N, Z, positive, nat stay the extracted inductive types; there is no
   Extract Constant / Extract Inductive of ours. *)
From Coq Require Import ExtrOcamlBasic ExtrOcamlString.
From TM Require Import Base Mapper Monitors MapperRepeat Absorb SpecTables.
From TMGen Require Import Modifiers.

Definition x_is_action : key -> bool := Modifiers.is_action_key.
Definition x_mstep := mstep x_is_action.
(* the checkers classify keys as the PROPERTIES do (the eight standard modifiers of SpecTables); the model
   step uses the code's own classification (regenerated).  ModifierSpec.is_action_key_is_spec proves the two
   equal on the unchanged tree. *)
Definition x_spec_is_action (k : key) : bool := negb (spec_is_modifier k).
Definition x_check_step := check_step x_spec_is_action.
Definition x_for_layout_ok := for_layout_ok.
Definition x_init := init.
Definition x_apply_evs := apply_evs.
Definition x_phys_after := phys_after.
Definition x_expected_repeat := expected_repeat.
Definition x_c08_check := c08_check x_spec_is_action.
Definition x_ag_step := ag_step.
Definition x_ag_init := ag_init.
Definition x_K1 := K1 x_spec_is_action.
Definition x_K2 := K2 x_spec_is_action.

Extraction "model.ml" x_is_action x_spec_is_action x_mstep x_check_step x_for_layout_ok x_init x_apply_evs x_phys_after x_expected_repeat x_c08_check x_ag_step x_ag_init x_K1 x_K2.
