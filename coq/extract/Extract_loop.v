(* Extract_loop.v — extraction of the loop model and the transcript checkers.
   Directives: ExtrOcamlBasic and ExtrOcamlString only; N, Z, positive, nat stay
   the extracted inductive types. *)
From Coq Require Import ExtrOcamlBasic ExtrOcamlString.
From TM Require Import Base Mapper Monitors Loop LoopMonitors LoopDevice.
From TMGen Require Import Modifiers.

Definition x_is_action : key -> bool := Modifiers.is_action_key.
Definition x_run := Loop.run x_is_action.
Definition x_resume := Loop.resume x_is_action.
Definition x_pending := Loop.pending.
Definition x_linit := Loop.linit.
Definition x_check_transcript := check_transcript x_is_action.
Definition x_check_outcome := check_outcome.
(* the device-level monitor (C01.device / C02.device / C19.device): TMProps.C01.C01_loop_device_monitor_never_fires *)
Definition x_device_check := LoopDevice.device_check x_is_action.
Definition x_annotate := annotate.
Definition x_for_layout_ok := for_layout_ok.
Definition x_step := step x_is_action.
Definition x_init := init.
Definition x_zadd := Z.add.
Definition x_zsub := Z.sub.
Definition x_zmul := Z.mul.
Definition x_zleb := Z.leb.
Definition x_zltb := Z.ltb.
Definition x_zdiv_eucl := Z.div_eucl.

Extraction "model.ml" x_is_action x_run x_resume x_pending x_linit x_check_transcript x_check_outcome x_device_check x_annotate x_for_layout_ok
  x_step x_init x_zadd x_zsub x_zmul x_zleb x_zltb x_zdiv_eucl.
