(* Extract_loader.v — extraction of the loader model and its checkers to OCaml.
   Directives: ExtrOcamlBasic and ExtrOcamlString only; N, Z, positive, nat stay
   the extracted inductive types; no Extract Constant / Extract Inductive of
   ours. *)
From Coq Require Import ExtrOcamlBasic ExtrOcamlString.
From TM Require Import Base Json RustOps Fancy Mapper Parser Convert ConvertSpec Serde LoaderCheck JsonText.

Definition x_load := load.
Definition x_parse_layout := parse_layout.
Definition x_convert := convert.
Definition x_expand := expand.
Definition x_spec_load := spec_load.
Definition x_block_lengths := block_lengths.
Definition x_to_json := to_json.
Definition x_outcome_eqb := outcome_eqb.
Definition x_layout_eqb := layout_eqb.
Definition x_json_eqb := json_eqb.
Definition x_wf_basic := wf_basic.
Definition x_check_roundtrip := check_roundtrip.
Definition x_check_accepted_wf := check_accepted_wf.
Definition x_check_expand := check_expand.
Definition x_parse_row := parse_row.
Definition x_model_expand_agrees := model_expand_agrees.
Definition x_expand_core := expand_core.
Definition x_convert_core := convert_core.
Definition x_keys_sorted := keys_sorted.
(* the JSON text layer (JsonText.v) *)
Definition x_print_pretty := print_pretty.
Definition x_print_compact := print_compact.
Definition x_parse_text := parse_text.
Definition x_printable := printable.
Definition x_depth := depth.
Definition x_canon := canon.
Definition x_save_text := save_text.
Definition x_load_text := load_text.

Extraction "model.ml" x_block_lengths x_load x_parse_layout x_convert x_expand x_spec_load x_to_json x_outcome_eqb
  x_layout_eqb x_json_eqb x_wf_basic x_check_roundtrip x_check_accepted_wf x_check_expand x_parse_row x_keys_sorted x_model_expand_agrees x_expand_core x_convert_core
  x_print_pretty x_print_compact x_parse_text x_printable x_depth x_canon x_save_text x_load_text.
