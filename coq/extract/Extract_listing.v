(* Extract_listing.v — extraction of the keyboard-selection model (C16) to OCaml.
   Directives used: ExtrOcamlBasic (bool, option, list, prod, unit, sumbool to
   the OCaml types) and ExtrOcamlString (ascii/string to char / char list).
   N, Z, positive, nat stay the extracted inductive types; there is no
   Extract Constant / Extract Inductive of ours. *)
From Coq Require Import ExtrOcamlBasic ExtrOcamlString.
From TM Require Import Listing.

Extraction "model.ml"
  extract_keyboards extract_input_devices
  split_lines join_lines split_entries
  beq_bytes beq_kdev beq_idev beq_res beq_list
  local_ok agree_ok exclude_agree_ok no_virtual_listed
  list_keyboards list_input_devices flag_excluded flag_excluded_input_devices
  select_all_keyboards filter_devices
  spec_all spec_dev_file canon_distinct_b lookups_ok_b canon_clean_b.
