(* LoopEnv.v — the environment of the per-device loop (definitions only):
   a keyboard and a tablet switch behind EDGE-TRIGGERED readiness, and a clock.

   Each device has the events that will still arrive (`d_future`), the events
   that have arrived and are unread (`d_queue`), a pending readiness edge
   (`d_ready`: set whenever something arrives, cleared when a poll reports the
   device) and may disappear once its future is exhausted (`d_ends`/`d_gone`).
   Events arrive in arbitrary batches at arbitrary moments (`arrive`, any
   number of times before every call).  The answers:

   * poll: `DeviceEvent ds` for any list ds (any order, repeats, spurious
     members, even empty) that contains every device with a pending edge; the
     edges are cleared — a device with unread data and no pending edge is NOT
     reported again until something new arrives (this is what makes early exit
     from the read loop lose events).  `TimedOut` only when no edge is pending
     (also with time-out None: spurious); the clock then is at least the last
     reading plus the requested time-out.  `Interrupted` at any time.
   * next_keyboard / next_tablet: End once the device is gone, else the head of
     the queue, else Busy.
   * Instant::now(): any reading not before the previous one.
   * every Driver call may fail instead (C20).

   A transcript (list of call/answer pairs, clock readings and sleeps included)
   is ADMISSIBLE from e if it is a path of this system (`epath`). *)
From TM Require Export Loop.

Record dev (A : Type) := mkDev {
  d_future : list A;
  d_queue : list A;
  d_ready : bool;
  d_ends : bool;
  d_gone : bool
}.
Arguments mkDev {A}.
Arguments d_future {A}.
Arguments d_queue {A}.
Arguments d_ready {A}.
Arguments d_ends {A}.
Arguments d_gone {A}.

Record env := mkEnv { e_kbd : dev event; e_tab : dev bool; e_clock : Z }.

Definition dev0 {A} (future : list A) (ends : bool) : dev A := mkDev future [] false ends false.

Definition env0 (h : list event) (kends : bool) (tb : list bool) (tends : bool) (t0 : Z) : env :=
  mkEnv (dev0 h kends) (dev0 tb tends) t0.

(* something happens to one device *)
Inductive dev_arrive {A} : dev A -> dev A -> Prop :=
| DA_data : forall d a f,
    d_gone d = false -> d_future d = a ++ f -> a <> [] ->
    dev_arrive d (mkDev f (d_queue d ++ a) true (d_ends d) false)
| DA_gone : forall d,
    d_gone d = false -> d_future d = [] -> d_ends d = true ->
    dev_arrive d (mkDev [] (d_queue d) true true true).

Inductive arrive : env -> env -> Prop :=
| A_none : forall e, arrive e e
| A_kbd : forall e k' e', dev_arrive (e_kbd e) k' -> arrive (mkEnv k' (e_tab e) (e_clock e)) e' -> arrive e e'
| A_tab : forall e t' e', dev_arrive (e_tab e) t' -> arrive (mkEnv (e_kbd e) t' (e_clock e)) e' -> arrive e e'.

Definition read {A} (d : dev A) : next A * dev A :=
  if d_gone d then (NEnd, d)
  else match d_queue d with
       | x :: q => (NOne x, mkDev (d_future d) q (d_ready d) (d_ends d) (d_gone d))
       | [] => (NBusy, d)
       end.

Definition clear_ready {A} (d : dev A) : dev A :=
  mkDev (d_future d) (d_queue d) false (d_ends d) (d_gone d).

Definition ready_of (e : env) (d : device) : bool :=
  match d with DKbd => d_ready (e_kbd e) | DTab => d_ready (e_tab e) end.

(* d has something to read that no coming poll will announce *)
Definition stale (e : env) (d : device) : Prop :=
  ready_of e d = false /\
  match d with
  | DKbd => d_queue (e_kbd e) <> [] \/ d_gone (e_kbd e) = true
  | DTab => d_queue (e_tab e) <> [] \/ d_gone (e_tab e) = true
  end.

Definition is_driver_call (c : call) : bool :=
  match c with CNow | CSleep _ => false | _ => true end.

(* the answer to one call *)
Inductive answer : env -> call -> resp -> env -> Prop :=
| An_err : forall e c m, is_driver_call c = true -> answer e c (RErr m) e
| An_register : forall e, answer e CRegister RUnit e
| An_now : forall e t, (e_clock e <= t)%Z -> answer e CNow (RNow t) (mkEnv (e_kbd e) (e_tab e) t)
| An_sleep : forall e ms,
    answer e (CSleep ms) RUnit (mkEnv (e_kbd e) (e_tab e) (e_clock e + ms * ns_per_ms))
| An_send : forall e evs, answer e (CSend evs) RUnit e
| An_poll_devs : forall e to ds,
    (forall d, ready_of e d = true -> In d ds) ->
    answer e (CPoll to) (RPoll (PDeviceEvent ds))
           (mkEnv (clear_ready (e_kbd e)) (clear_ready (e_tab e)) (e_clock e))
| An_poll_timeout : forall e to,
    (forall d, ready_of e d = false) ->
    answer e (CPoll to) (RPoll PTimedOut)
           (mkEnv (e_kbd e) (e_tab e) (match to with Some d => e_clock e + d | None => e_clock e end)%Z)
| An_poll_intr : forall e to, answer e (CPoll to) (RPoll PInterrupted) e
| An_kbd : forall e,
    answer e CNextKbd (RKbd (fst (read (e_kbd e)))) (mkEnv (snd (read (e_kbd e))) (e_tab e) (e_clock e))
| An_tab : forall e,
    answer e CNextTab (RTab (fst (read (e_tab e)))) (mkEnv (e_kbd e) (snd (read (e_tab e))) (e_clock e)).

(* admissible transcripts: paths of arrivals and answers *)
Inductive epath : env -> list (call * resp) -> env -> Prop :=
| EP_nil : forall e, epath e [] e
| EP_cons : forall e e1 e2 e3 c r tr,
    arrive e e1 -> answer e1 c r e2 -> epath e2 tr e3 -> epath e ((c, r) :: tr) e3.

(* the key events and tablet events read in a transcript, in order *)
Fixpoint kbd_reads (tr : list (call * resp)) : list event :=
  match tr with
  | [] => []
  | (CNextKbd, RKbd (NOne e)) :: tr' => e :: kbd_reads tr'
  | _ :: tr' => kbd_reads tr'
  end.

Fixpoint tab_reads (tr : list (call * resp)) : list bool :=
  match tr with
  | [] => []
  | (CNextTab, RTab (NOne b)) :: tr' => b :: tab_reads tr'
  | _ :: tr' => tab_reads tr'
  end.

(* the raw transcript of a run: every answered call with its answer *)
Definition raw_transcript (cs : list call) (rs : list resp) : list (call * resp) := combine cs rs.
