(* LoadedWf.v — what the loader guarantees about the layouts it accepts
   (C14_accepted_is_wf, and the guard of C15_roundtrip): every trigger is
   non-empty, no key occurs twice in one trigger or output, every key is a key
   code of the tool's table, delays and intervals are i32 values, and absorbing
   keys are among the trigger's modifiers.

   Two halves: the parser only returns fancy layouts satisfying [fm_ok]
   (keys come from parse_key_code, numbers from `as i32`, absorbing modifiers
   are checked against the trigger's, an alias definition has at least its
   final key), and the expansion of such a layout satisfies [wf_basic]. *)
From TM Require Import Base Json RustOps Fancy Mapper Parser Convert SpecTables ConvertSpec Serde LoaderCheck
  RustOpsLemmas StrLemmas ParserLemmas KeyNames LoaderTables ConvertLemmas ExpandLemmas RoundtripLemmas.
From TMGen Require Import KeyTable CharTable.
From Coq Require Import Lia Arith.

(* ---------- inversion of the loop combinators ---------- *)

Lemma map_res_Ok_Forall2 : forall {A B} (f : A -> res B) l r, map_res f l = Ok r -> Forall2 (fun x y => f x = Ok y) l r.
Proof.
  induction l as [|x l IH]; intros r H; cbn [map_res] in H.
  - inversion H. constructor.
  - apply bind_Ok_inv in H. destruct H as [y [Hy H]]. apply bind_Ok_inv in H. destruct H as [ys [Hys H]].
    inversion H; subst. constructor; [exact Hy|apply IH; exact Hys].
Qed.

Lemma map_res_Ok_In : forall {A B} (f : A -> res B) l r y, map_res f l = Ok r -> In y r -> exists x, In x l /\ f x = Ok y.
Proof.
  intros A B f l r y H Hin. apply map_res_Ok_Forall2 in H. induction H as [|x y' l r Hxy H IH]; [destruct Hin|].
  destruct Hin as [Hin|Hin].
  - subst. exists x. split; [left; reflexivity|exact Hxy].
  - destruct (IH Hin) as [x' [H1 H2]]. exists x'. split; [right; exact H1|exact H2].
Qed.

Lemma map_res_Ok_Forall : forall {A B} (f : A -> res B) (P : B -> Prop) l r,
  map_res f l = Ok r -> (forall x y, In x l -> f x = Ok y -> P y) -> Forall P r.
Proof.
  intros A B f P l r H HP. apply Forall_forall. intros y Hy.
  destruct (map_res_Ok_In f l r y H Hy) as [x [H1 H2]]. eapply HP; eassumption.
Qed.

Ltac inv_bind H :=
  let a := fresh "a" in let Ha := fresh "Ha" in
  apply bind_Ok_inv in H; destruct H as [a [Ha H]].

(* ---------- known keys ---------- *)

Lemma kn_app : forall a b, kn (a ++ b) <-> kn a /\ kn b.
Proof. intros a b. unfold kn. rewrite forallb_app, andb_true_iff. reflexivity. Qed.

Lemma kn_nil : kn [].
Proof. reflexivity. Qed.

Lemma kn_one : forall k, known_key k = true -> kn [k].
Proof. intros k H. unfold kn. cbn. rewrite H. reflexivity. Qed.

Lemma kn_forall : forall ks, (forall k, In k ks -> known_key k = true) -> kn ks.
Proof. intros ks H. unfold kn. apply forallb_forall. exact H. Qed.

Lemma serde_name_in_some : forall tbl e, In e tbl -> serde_name_in tbl (code_of e) <> None.
Proof.
  induction tbl as [|[[i c] s] tbl IH]; intros e Hin; [destruct Hin|]. cbn [serde_name_in].
  destruct (N.eqb c (code_of e)) eqn:E; [discriminate|].
  destruct Hin as [Hin|Hin]; [subst e; unfold code_of in E; cbn in E; rewrite N.eqb_refl in E; discriminate|].
  apply IH. exact Hin.
Qed.

Lemma assoc_str_map_In : forall {A B} (g : A -> str * B) t (tbl : list A) v,
  assoc_str t (map g tbl) = Some v -> exists e, In e tbl /\ snd (g e) = v.
Proof.
  induction tbl as [|e tbl IH]; intros v H; cbn [map assoc_str] in H; [discriminate|].
  destruct (g e) as [s' v'] eqn:E. destruct (str_eqb s' t).
  - inversion H; subst. exists e. split; [left; reflexivity|]. rewrite E. reflexivity.
  - destruct (IH v H) as [e' [H1 H2]]. exists e'. split; [right; exact H1|exact H2].
Qed.

Lemma key_from_str_known : forall t k, key_from_str t = Some k -> known_key k = true.
Proof.
  intros t k H. unfold key_from_str, key_names in H. apply assoc_str_map_In in H. destruct H as [e [Hin Hk]].
  cbn [snd] in Hk. unfold known_key, serde_name.
  pose proof (serde_name_in_some key_table e Hin) as Hs. unfold code_of in Hs. rewrite Hk in Hs.
  destruct (serde_name_in key_table k); [reflexivity|contradiction].
Qed.

Lemma parse_key_code_known : forall t k, parse_key_code t = Ok k -> known_key k = true.
Proof.
  intros t k H. unfold parse_key_code in H. destruct (starts_with_at t); [discriminate|].
  destruct (assoc_str t digit_arms) as [ident|].
  - destruct (key_from_str ident) eqn:E; cbn in H; [|discriminate]. inversion H; subst. eapply key_from_str_known; exact E.
  - destruct (key_from_str t) eqn:E; cbn in H; [|discriminate]. inversion H; subst. eapply key_from_str_known; exact E.
Qed.

(* ---------- what the parser guarantees ---------- *)

Definition mod_kn (m : modifier) : Prop := forall k, m = MKey k -> known_key k = true.
Definition mods_kn (mods : list modifier) : Prop := Forall mod_kn mods.

Definition st_kn (t : single_to) : Prop :=
  mods_kn (st_initial t) /\ (forall k, st_terminal t = TPhysical k -> known_key k = true).

Definition srep_okP (rep : single_repeat) : Prop :=
  match rep with SRSpecial keys d i => st_kn keys /\ is_i32 d = true /\ is_i32 i = true | _ => True end.

Definition wrep_okP (rep : row_repeat) : Prop :=
  match rep with WRSpecial keys d i => mods_kn (rt_initial keys) /\ is_i32 d = true /\ is_i32 i = true | _ => True end.

Definition alias_okP (d : alias_mapping) : Prop := am_keys d <> [] /\ kn (am_keys d) /\ kn (am_initial d).

Definition fm_ok (m : fmapping) : Prop :=
  match m with
  | FSingle from to rep ab =>
    mods_kn (sf_mods from) /\ known_key (sf_key from) = true /\ st_kn to /\ srep_okP rep
    /\ absorbing_on_from ab (sf_mods from) = true
  | FAlias a => alias_okP a
  | FRow from to rep ab =>
    mods_kn (rf_mods from) /\ mods_kn (rt_initial to) /\ wrep_okP rep /\ absorbing_on_from ab (rf_mods from) = true
  | FRepeatOnly from rep => mods_kn (sf_mods from) /\ known_key (sf_key from) = true /\ srep_okP rep
  end.

Lemma modifier_text_kn : forall t m,
  (if starts_with_at t then Ok (MAlias t) else k <- parse_key_code t ;; Ok (MKey k)) = Ok m -> mod_kn m.
Proof.
  intros t m H. destruct (starts_with_at t).
  - inversion H; subst. intros k Hk. discriminate.
  - inv_bind H. inversion H; subst. intros k Hk. inversion Hk; subst. eapply parse_key_code_known; exact Ha.
Qed.

Lemma parse_from_modifier_kn : forall v m, parse_from_modifier v = Ok m -> mod_kn m.
Proof. intros v m H. unfold parse_from_modifier in H. destruct v; try discriminate. eapply modifier_text_kn; exact H. Qed.

Lemma parse_to_initial_elem_kn : forall v m, parse_to_initial_elem v = Ok m -> mod_kn m.
Proof. intros v m H. unfold parse_to_initial_elem in H. destruct v; try discriminate. eapply modifier_text_kn; exact H. Qed.

Lemma parse_from_modifiers_kn : forall vs ms, parse_from_modifiers vs = Ok ms -> mods_kn ms.
Proof.
  intros vs ms H. unfold parse_from_modifiers in H. eapply map_res_Ok_Forall; [exact H|].
  intros x y _ Hy. eapply parse_from_modifier_kn; exact Hy.
Qed.

Lemma parse_to_initial_kn : forall vs ms, parse_to_initial vs = Ok ms -> mods_kn ms.
Proof.
  intros vs ms H. unfold parse_to_initial in H. eapply map_res_Ok_Forall; [exact H|].
  intros x y _ Hy. eapply parse_to_initial_elem_kn; exact Hy.
Qed.

Lemma parse_from_key_kn : forall v k, parse_from_key v = Ok (FKSingle k) -> known_key k = true.
Proof.
  intros v k H. unfold parse_from_key in H. destruct v; try discriminate.
  - unfold parse_from_key_text in H. inv_bind H. inversion H; subst. eapply parse_key_code_known; exact Ha.
  - unfold parse_from_key_obj in H. destruct (has_exactly_keys kvs [k_row]); [|discriminate].
    unfold parse_from_row in H. destruct (has_exactly_keys kvs [k_row]); [|discriminate].
    inv_bind H. destruct a; try discriminate. inv_bind H. discriminate.
Qed.

Definition from_keys_kn (fk : from_keys) : Prop :=
  match fk with
  | FromSingle fr => mods_kn (sf_mods fr) /\ known_key (sf_key fr) = true
  | FromRow fr => mods_kn (rf_mods fr)
  end.

Lemma parse_from_kn : forall v fk, parse_from v = Ok fk -> from_keys_kn fk.
Proof.
  intros v fk H. unfold parse_from in H.
  assert (forall v', (key <- parse_from_key v' ;;
                      match key with
                      | FKSingle k => Ok (FromSingle (mkSingleFrom [] k))
                      | FKRow r => Ok (FromRow (mkRowFrom [] r))
                      end) = Ok fk -> from_keys_kn fk) as Hplain.
  { intros v' H'. inv_bind H'. destruct a as [k|r]; inversion H'; subst; cbn.
    - split; [constructor|eapply parse_from_key_kn; exact Ha].
    - constructor. }
  destruct v as [| b | z | s | elems | kvs]; try (apply (Hplain _ H)).
  destruct (Nat.eqb (length elems) 0); [discriminate|].
  inv_bind H. inv_bind H. inv_bind H. inv_bind H. inv_bind H.
  apply parse_from_modifiers_kn in Ha1.
  destruct a3 as [k|r]; inversion H; subst; cbn.
  - split; [exact Ha1|eapply parse_from_key_kn; exact Ha3].
  - exact Ha1.
Qed.

Lemma parse_single_to_terminal_kn : forall v t k, parse_single_to_terminal v = Ok t -> t = TPhysical k -> known_key k = true.
Proof.
  intros v t k H Ht. unfold parse_single_to_terminal in H. destruct v; try discriminate.
  unfold parse_single_to_text in H. destruct (starts_with_at s); [discriminate|]. inv_bind H. inversion H; subst.
  inversion H1; subst. eapply parse_key_code_known; exact Ha.
Qed.

Lemma parse_single_to_kn : forall v to, parse_single_to v = Ok to -> st_kn to.
Proof.
  intros v to H. unfold parse_single_to in H.
  assert (forall v', (t <- parse_single_to_terminal v' ;; Ok (mkSingleTo [] t)) = Ok to -> st_kn to) as Hplain.
  { intros v' H'. inv_bind H'. inversion H'; subst. split; [constructor|]. cbn. intros k Hk.
    eapply parse_single_to_terminal_kn; eassumption. }
  destruct v as [| b | z | s | elems | kvs]; try (apply (Hplain _ H)).
  unfold parse_single_to_array in H. destruct (Nat.eqb (length elems) 0).
  - inversion H; subst. split; [constructor|]. cbn. intros k Hk. discriminate.
  - inv_bind H. inv_bind H. inv_bind H. inv_bind H. inv_bind H. inversion H; subst. split; cbn.
    + eapply parse_to_initial_kn; exact Ha1.
    + intros k Hk. eapply parse_single_to_terminal_kn; eassumption.
Qed.

Lemma parse_soa_terminal_kn : forall v t k, parse_single_or_alias_to_terminal v = Ok (SoaSingle t) -> t = TPhysical k -> known_key k = true.
Proof.
  intros v t k H Ht. unfold parse_single_or_alias_to_terminal in H. destruct v; try discriminate.
  unfold parse_single_or_alias_to_text in H. destruct (starts_with_at s); [discriminate|]. inv_bind H. inversion H; subst.
  inversion H1; subst. eapply parse_key_code_known; exact Ha.
Qed.

Lemma parse_alias_to_initial_kn : forall vs ks, parse_alias_to_initial vs = Ok ks -> kn ks.
Proof.
  intros vs ks H. unfold parse_alias_to_initial in H. unfold kn. apply forallb_forall. apply Forall_forall.
  eapply map_res_Ok_Forall; [exact H|]. intros x y _ Hy. unfold parse_key_code_j in Hy. destruct x; try discriminate.
  eapply parse_key_code_known; exact Hy.
Qed.

Definition soa_to_kn (t : soa_to) : Prop :=
  match t with SoaToSingle to => st_kn to | SoaToAlias initial _ => kn initial end.

Lemma parse_single_or_alias_to_kn : forall v t, parse_single_or_alias_to v = Ok t -> soa_to_kn t.
Proof.
  intros v t H. unfold parse_single_or_alias_to in H.
  assert (forall v', (terminal <- parse_single_or_alias_to_terminal v' ;;
                      match terminal with
                      | SoaSingle t => Ok (SoaToSingle (mkSingleTo [] t))
                      | SoaAlias name => Ok (SoaToAlias [] name)
                      end) = Ok t -> soa_to_kn t) as Hplain.
  { intros v' H'. inv_bind H'. destruct a as [t0|name]; inversion H'; subst; cbn.
    - split; [constructor|]. cbn. intros k Hk. eapply parse_soa_terminal_kn; eassumption.
    - apply kn_nil. }
  destruct v as [| b | z | s | elems | kvs]; try (apply (Hplain _ H)).
  unfold parse_single_or_alias_to_array in H. destruct (Nat.eqb (length elems) 0).
  - inversion H; subst. cbn. split; [constructor|]. cbn. intros k Hk. discriminate.
  - inv_bind H. inv_bind H. inv_bind H. destruct a1 as [t0|name].
    + inv_bind H. inv_bind H. inversion H; subst. cbn. split; cbn.
      * eapply parse_to_initial_kn; exact Ha3.
      * intros k Hk. eapply parse_soa_terminal_kn; eassumption.
    + inv_bind H. inv_bind H. inversion H; subst. cbn. eapply parse_alias_to_initial_kn; exact Ha3.
Qed.

Lemma parse_row_to_kn : forall v to, parse_row_to v = Ok to -> mods_kn (rt_initial to).
Proof.
  intros v to H. unfold parse_row_to in H.
  assert (forall v', (t <- parse_row_to_terminal v' ;; Ok (mkRowTo [] t)) = Ok to -> mods_kn (rt_initial to)) as Hplain.
  { intros v' H'. inv_bind H'. inversion H'; subst. constructor. }
  destruct v as [| b | z | s | elems | kvs]; try (apply (Hplain _ H)).
  unfold parse_row_to_array in H. destruct (Nat.eqb (length elems) 0); [discriminate|].
  inv_bind H. inv_bind H. inv_bind H. inv_bind H. inv_bind H. inversion H; subst. cbn.
  eapply parse_to_initial_kn; exact Ha1.
Qed.

Lemma wrap_i32_is_i32 : forall z, is_i32 (wrap_i32 z) = true.
Proof.
  intro z. unfold is_i32, wrap_i32. pose proof (Z.mod_pos_bound (z + 2147483648) 4294967296 ltac:(lia)) as H.
  apply andb_true_iff. split; apply Z.leb_le; lia.
Qed.

Lemma parse_repeat_ms_i32 : forall v z, parse_repeat_ms v = Ok z -> is_i32 z = true.
Proof.
  intros v z H. unfold parse_repeat_ms in H. destruct v as [| | [z'|] | | |]; try discriminate.
  inversion H; subst. apply wrap_i32_is_i32.
Qed.

Lemma parse_repeat_special_inv : forall {K} (pk : json -> res K) params ks d i,
  parse_repeat_special pk params = Ok (ks, d, i) -> (exists v, pk v = Ok ks) /\ is_i32 d = true /\ is_i32 i = true.
Proof.
  intros K pk params ks d i H. unfold parse_repeat_special in H.
  destruct (has_exactly_keys params [k_Special]); [|discriminate]. inv_bind H. destruct a; try discriminate.
  destruct (has_exactly_keys kvs [k_keys; k_delay_ms; k_interval_ms]); [|discriminate].
  inv_bind H. inv_bind H. inv_bind H. inv_bind H. inv_bind H. inv_bind H. inversion H; subst.
  split; [eexists; exact Ha3|]. split; eapply parse_repeat_ms_i32; eassumption.
Qed.

Lemma parse_single_repeat_ok : forall ov rep, parse_single_repeat ov = Ok rep -> srep_okP rep.
Proof.
  intros ov rep H. unfold parse_single_repeat in H. destruct ov as [v|]; [|inversion H; exact I].
  destruct v; try discriminate.
  - destruct (str_eqb (to_lowercase s) name_normal); [inversion H; exact I|].
    destruct (str_eqb (to_lowercase s) name_disabled); [inversion H; exact I|discriminate].
  - inv_bind H. destruct a as [[ks d] i]. inversion H; subst.
    apply parse_repeat_special_inv in Ha. destruct Ha as [[v Hv] [Hd Hi]]. cbn. split; [|split; assumption].
    eapply parse_single_to_kn. exact Hv.
Qed.

Lemma parse_row_repeat_ok : forall ov rep, parse_row_repeat ov = Ok rep -> wrep_okP rep.
Proof.
  intros ov rep H. unfold parse_row_repeat in H. destruct ov as [v|]; [|inversion H; exact I].
  destruct v; try discriminate.
  - destruct (str_eqb (to_lowercase s) name_normal); [inversion H; exact I|].
    destruct (str_eqb (to_lowercase s) name_disabled); [inversion H; exact I|discriminate].
  - inv_bind H. destruct a as [[ks d] i]. inversion H; subst.
    apply parse_repeat_special_inv in Ha. destruct Ha as [[v Hv] [Hd Hi]]. cbn. split; [|split; assumption].
    eapply parse_row_to_kn. exact Hv.
Qed.

Lemma single_to_alias_from_ok : forall fr ks, single_to_alias_from fr = Ok ks ->
  mods_kn (sf_mods fr) -> known_key (sf_key fr) = true -> ks <> [] /\ kn ks.
Proof.
  intros fr ks H Hm Hk. unfold single_to_alias_from in H. inv_bind H. inversion H; subst.
  split; [destruct a; discriminate|]. apply kn_app. split; [|apply kn_one; exact Hk].
  apply kn_forall. intros k Hin.
  destruct (map_res_Ok_In _ _ _ _ Ha Hin) as [m [Hm1 Hm2]]. destruct m as [k'|a']; [|discriminate].
  inversion Hm2; subst. unfold mods_kn in Hm. rewrite Forall_forall in Hm. apply (Hm _ Hm1). reflexivity.
Qed.

Lemma parse_mapping_from_json_ok : forall v m, parse_mapping_from_json v = Ok m -> fm_ok m.
Proof.
  intros v m H. unfold parse_mapping_from_json in H. destruct v as [| | | | |mv]; try discriminate.
  destruct (has_at_least_keys mv [k_from; k_to]).
  - inv_bind H. inv_bind H. apply parse_from_kn in Ha0. destruct a0 as [fr|fr]; cbn in Ha0.
    + destruct Ha0 as [Hm Hk]. apply bind_Ok_inv in H. destruct H as [tv [Htv H]].
      apply bind_Ok_inv in H. destruct H as [soa [Hsoa H]]. apply parse_single_or_alias_to_kn in Hsoa.
      destruct soa as [to|initial name]; cbn in Hsoa.
      * apply bind_Ok_inv in H. destruct H as [rep [Hrep H]]. apply bind_Ok_inv in H. destruct H as [ab [Hab H]].
        apply parse_single_repeat_ok in Hrep.
        destruct (absorbing_on_from ab (sf_mods fr)) eqn:E; [|discriminate]. inversion H; subst. cbn.
        repeat split; try assumption; apply Hsoa.
      * destruct (obj_has mv k_repeat); [discriminate|]. destruct (obj_has mv k_absorbing); [discriminate|].
        apply bind_Ok_inv in H. destruct H as [ks [Hks H]].
        inversion H; subst. cbn. destruct (single_to_alias_from_ok _ _ Hks Hm Hk) as [H1 H2].
        split; [exact H1|]. split; [exact H2|exact Hsoa].
    + apply bind_Ok_inv in H. destruct H as [tv [Htv H]]. apply bind_Ok_inv in H. destruct H as [to [Hto H]].
      apply bind_Ok_inv in H. destruct H as [rep [Hrep H]].
      apply parse_row_to_kn in Hto. apply parse_row_repeat_ok in Hrep.
      match type of H with (if ?c then _ else _) = _ => destruct c end; [discriminate|].
      apply bind_Ok_inv in H. destruct H as [ab [Hab H]].
      destruct (absorbing_on_from ab (rf_mods fr)) eqn:E; [|discriminate]. inversion H; subst. cbn.
      repeat split; assumption.
  - destruct (has_exactly_keys mv [k_from; k_repeat]); [|discriminate].
    inv_bind H. inv_bind H. apply parse_from_kn in Ha0. destruct a0 as [fr|fr]; [|discriminate]. cbn in Ha0.
    apply bind_Ok_inv in H. destruct H as [rep [Hrep H]].
    inversion H; subst. cbn. apply parse_single_repeat_ok in Hrep. destruct Ha0. repeat split; assumption.
Qed.

Lemma parse_layout_ok : forall j f, parse_layout j = Ok f -> Forall fm_ok f.
Proof.
  intros j f H. unfold parse_layout in H. destruct j; try discriminate.
  destruct (has_exactly_keys kvs [k_mappings]); [|discriminate]. inv_bind H. destruct a; try discriminate.
  inv_bind H. inv_bind H. inversion H; subst.
  eapply map_res_Ok_Forall; [exact Ha0|]. intros x y _ Hy. eapply parse_mapping_from_json_ok; exact Hy.
Qed.

(* ---------- the choices of a combination are alias definitions of the layout ---------- *)

Lemma defs_In : forall f a d, In d (defs f a) -> In (FAlias d) f.
Proof.
  intros f a d H. unfold defs in H. apply in_flat_map in H. destruct H as [m [Hm Hd]].
  destruct m as [| a' | |]; try destruct Hd. destruct (str_eqb (am_name a') a); [|destruct Hd].
  destruct Hd as [Hd|[]]. subst. exact Hm.
Qed.

Lemma choices_In : forall {A} (cands : list (list A)) ch, In ch (choices cands) -> Forall2 (fun d c => In d c) ch cands.
Proof.
  induction cands as [|c cands IH]; intros ch H; cbn [choices] in H.
  - destruct H as [H|[]]. subst. constructor.
  - apply in_flat_map in H. destruct H as [tl [Htl H]]. apply in_map_iff in H. destruct H as [x [Hx Hin]].
    subst. constructor; [exact Hin|apply IH; exact Htl].
Qed.

Lemma choice_of_layout : forall f mods cands ch, Forall fm_ok f -> candidates f mods = Ok cands -> In ch (choices cands) ->
  Forall alias_okP ch.
Proof.
  intros f mods cands ch Hf Hc Hin. apply choices_In in Hin. unfold candidates in Hc. apply map_res_Ok_Forall2 in Hc.
  revert ch Hin. induction Hc as [|a c slots cands Hac Hc IH]; intros ch Hin; inversion Hin; subst; constructor.
  - assert (c = defs f a) as E by (destruct (defs f a); [discriminate|inversion Hac; reflexivity]). subst c.
    match goal with H : In _ (defs f a) |- _ => apply defs_In in H; rewrite Forall_forall in Hf; exact (Hf _ H) end.
  - apply IH. assumption.
Qed.

(* ---------- known keys through the substitution functions ---------- *)

Lemma mods_kn_In : forall mods k, mods_kn mods -> In (MKey k) mods -> known_key k = true.
Proof. intros mods k H Hin. unfold mods_kn in H. rewrite Forall_forall in H. apply (H _ Hin). reflexivity. Qed.

Lemma kn_subst_trigger : forall mods ch, mods_kn mods -> Forall alias_okP ch -> kn (subst_trigger mods ch).
Proof.
  induction mods as [|m mods IH]; intros ch Hm Hch; cbn [subst_trigger]; [apply kn_nil|].
  inversion Hm as [|m' mods' Hm1 Hm2]; subst. destruct m as [k|a].
  - change (k :: subst_trigger mods ch) with ([k] ++ subst_trigger mods ch). apply kn_app.
    split; [apply kn_one; apply Hm1; reflexivity|apply IH; assumption].
  - destruct ch as [|d ch]; [apply IH; assumption|]. inversion Hch; subst. apply kn_app. split; [|apply IH; assumption].
    match goal with H : alias_okP d |- _ => apply H end.
Qed.

Lemma chosen_In : forall slots ch a d, chosen slots ch a = Some d -> In d ch.
Proof.
  induction slots as [|s slots IH]; intros ch a d H; [destruct ch; discriminate|].
  destruct ch as [|d0 ch]; [discriminate|]. cbn [chosen] in H.
  destruct (chosen slots ch a) as [d'|] eqn:E.
  - inversion H; subst. right. eapply IH; exact E.
  - destruct (str_eqb s a); [|discriminate]. inversion H; subst. left. reflexivity.
Qed.

Lemma kn_concat : forall kss, Forall kn kss -> kn (concat kss).
Proof.
  induction kss as [|ks kss IH]; intro H; [apply kn_nil|]. inversion H; subst. cbn [concat]. apply kn_app.
  split; [assumption|apply IH; assumption].
Qed.

Lemma kn_subst_output : forall slots ch mods ks, subst_output slots ch mods = Ok ks ->
  mods_kn mods -> Forall alias_okP ch -> kn ks.
Proof.
  intros slots ch mods ks H Hm Hch. unfold subst_output in H. inv_bind H. inversion H; subst. apply kn_concat.
  eapply map_res_Ok_Forall; [exact Ha|]. intros m ks Hin Hks. destruct m as [k|a'].
  - inversion Hks; subst. apply kn_one. eapply mods_kn_In; eassumption.
  - destruct (chosen slots ch a') as [d|] eqn:E; [|discriminate]. inversion Hks; subst.
    apply chosen_In in E. rewrite Forall_forall in Hch. apply (Hch _ E).
Qed.

(* ---------- absorbing keys are trigger modifiers ---------- *)

Lemma mem_In : forall k l, mem k l = true <-> In k l.
Proof.
  intros k l. unfold mem. rewrite existsb_exists. split.
  - intros [x [Hx E]]. apply N.eqb_eq in E. subst. exact Hx.
  - intro H. exists k. split; [exact H|apply N.eqb_refl].
Qed.

Lemma subset_incl : forall a b, subset a b = true <-> incl a b.
Proof.
  intros a b. unfold subset. rewrite forallb_forall. split; intros H k Hk; apply mem_In; [apply H; exact Hk|].
  apply mem_In. apply mem_In. apply H. exact Hk.
Qed.

Lemma modifier_eqb_eq : forall a b, modifier_eqb a b = true -> a = b.
Proof.
  intros [x|x] [y|y] H; cbn in H; try discriminate.
  - apply N.eqb_eq in H. subst. reflexivity.
  - apply str_eqb_eq in H. subst. reflexivity.
Qed.

Lemma key_in_subst_trigger : forall mods ch k, In (MKey k) mods -> In k (subst_trigger mods ch).
Proof.
  induction mods as [|m mods IH]; intros ch k H; [destruct H|]. cbn [subst_trigger].
  destruct H as [H|H].
  - subst m. left. reflexivity.
  - destruct m as [k'|a]; [right; apply IH; exact H|].
    destruct ch as [|d ch]; [apply IH; exact H|]. apply in_or_app. right. apply IH. exact H.
Qed.

Lemma chosen_in_subst_trigger : forall mods ch a d, chosen (alias_slots mods) ch a = Some d ->
  incl (am_keys d) (subst_trigger mods ch).
Proof.
  induction mods as [|m mods IH]; intros ch a d H; [destruct ch; discriminate|].
  destruct m as [k|s].
  - cbn [subst_trigger]. intros x Hx. right. eapply IH; eassumption.
  - cbn [alias_slots flat_map app] in H. fold (alias_slots mods) in H.
    destruct ch as [|d0 ch]; [discriminate|]. cbn [chosen subst_trigger] in *.
    destruct (chosen (alias_slots mods) ch a) as [d'|] eqn:E.
    + inversion H; subst. intros x Hx. apply in_or_app. right. eapply IH; eassumption.
    + destruct (str_eqb s a); [|discriminate]. inversion H; subst. intros x Hx. apply in_or_app. left. exact Hx.
Qed.

Lemma subset_subst_output : forall mods ch ab ks, subst_output (alias_slots mods) ch ab = Ok ks ->
  absorbing_on_from ab mods = true -> subset ks (subst_trigger mods ch) = true.
Proof.
  intros mods ch ab ks H Hab. apply subset_incl. unfold subst_output in H. inv_bind H. inversion H; subst.
  intros x Hx. apply in_concat in Hx. destruct Hx as [l [Hl Hx]].
  destruct (map_res_Ok_In _ _ _ _ Ha Hl) as [m [Hm Hml]].
  unfold absorbing_on_from in Hab. rewrite forallb_forall in Hab. specialize (Hab m Hm).
  apply existsb_exists in Hab. destruct Hab as [m' [Hm' E]]. apply modifier_eqb_eq in E. subst m'.
  destruct m as [k|a'].
  - inversion Hml; subst. destruct Hx as [Hx|[]]. subst. apply key_in_subst_trigger. exact Hm'.
  - destruct (chosen (alias_slots mods) ch a') as [d|] eqn:Ec; [|discriminate]. inversion Hml; subst.
    eapply chosen_in_subst_trigger; eassumption.
Qed.

(* ---------- the keyboard tables only contain known keys ---------- *)

Lemma spec_tables_known :
  forallb (fun e => known_key (snd e)) us_qwerty = true
  /\ forallb known_key (spec_row RowGrave) = true /\ forallb known_key (spec_row Row1) = true
  /\ forallb known_key (spec_row RowQ) = true /\ forallb known_key (spec_row RowA) = true
  /\ forallb known_key (spec_row RowZ) = true
  /\ known_key KEY_LEFTSHIFT = true /\ known_key KEY_RIGHTSHIFT = true.
Proof. vm_compute. repeat split; reflexivity. Qed.

Lemma kn_spec_row : forall r, kn (spec_row r).
Proof. destruct spec_tables_known as [_ [H1 [H2 [H3 [H4 [H5 _]]]]]]. intros []; assumption. Qed.

Lemma spec_char_in_keyboard : forall kb ch b k, spec_char_in kb ch = Some (b, k) ->
  In (ch, b, k) (flat_map (fun k => match k with (code, plain, shifted) => [(plain, false, code); (shifted, true, code)] end) kb).
Proof.
  induction kb as [|[[code plain] shifted] kb IH]; intros ch b k H; cbn [spec_char_in] in H; [discriminate|].
  cbn [flat_map app]. destruct (N.eqb ch plain) eqn:E1.
  - apply N.eqb_eq in E1. inversion H; subst. left. reflexivity.
  - destruct (N.eqb ch shifted) eqn:E2.
    + apply N.eqb_eq in E2. inversion H; subst. right. left. reflexivity.
    + right. right. apply IH. exact H.
Qed.

Lemma spec_char_known : forall ch b k, spec_char ch = Some (b, k) -> known_key k = true.
Proof.
  intros ch b k H. apply spec_char_in_keyboard in H. fold us_qwerty in H.
  destruct spec_tables_known as [H1 _]. rewrite forallb_forall in H1. apply (H1 _ H).
Qed.

Lemma kn_type_letter : forall rs mods letters n ks, type_letter rs mods letters n = Ok (Some ks) -> kn mods -> kn ks.
Proof.
  intros rs mods letters n ks H Hm. unfold type_letter in H. destruct (nth_error letters n) as [ch|]; [|discriminate].
  destruct (N.eqb ch 32); [discriminate|]. destruct (spec_char ch) as [[b k]|] eqn:E; [|discriminate].
  apply spec_char_known in E. destruct spec_tables_known as [_ [_ [_ [_ [_ [_ [HL HR]]]]]]].
  destruct b; inversion H; subst.
  - apply kn_app. split; [exact Hm|].
    change (kn ([if rs then KEY_RIGHTSHIFT else KEY_LEFTSHIFT] ++ [k])). apply kn_app. split; [|apply kn_one; exact E].
    apply kn_one. destruct rs; assumption.
  - apply kn_app. split; [exact Hm|apply kn_one; exact E].
Qed.

(* ---------- the expansion of one source mapping ---------- *)

(* the part of wf_basic_mapping that does not speak of duplicates *)
Definition wf0 (m : mapping) : Prop :=
  m_from m <> [] /\ kn (m_from m) /\ kn (m_to m) /\ repeat_okb (m_repeat m) = true
  /\ subset (m_abs m) (removelast (m_from m)) = true.

Lemma repeat_okb_special : forall ks d i, kn ks -> is_i32 d = true -> is_i32 i = true -> repeat_okb (RSpecial ks d i) = true.
Proof. intros ks d i H1 H2 H3. cbn [repeat_okb]. unfold kn in H1. rewrite H1, H2, H3. reflexivity. Qed.

Lemma kn_spec_single_to : forall slots ch to ks, spec_single_to slots ch to = Ok ks -> st_kn to -> Forall alias_okP ch -> kn ks.
Proof.
  intros slots ch to ks H [Hi Ht] Hch. unfold spec_single_to in H. destruct (st_terminal to) as [k|] eqn:E.
  - inv_bind H. inversion H; subst. apply kn_app. split; [eapply kn_subst_output; eassumption|].
    apply kn_one. apply Ht. reflexivity.
  - inversion H; subst. apply kn_nil.
Qed.

Lemma spec_single_repeat_okb : forall slots ch rep r, spec_single_repeat slots ch rep = Ok r ->
  srep_okP rep -> Forall alias_okP ch -> repeat_okb r = true.
Proof.
  intros slots ch [| |keys d i] r H Hr Hch; cbn [spec_single_repeat] in H.
  - inversion H; reflexivity.
  - inversion H; reflexivity.
  - inv_bind H. inversion H; subst. destruct Hr as [Hk [Hd Hi]].
    apply repeat_okb_special; [eapply kn_spec_single_to; eassumption|assumption|assumption].
Qed.

Lemma expand_single_wf0 : forall f from to rep ab ms, Forall fm_ok f -> fm_ok (FSingle from to rep ab) ->
  expand_single f from to rep ab = Ok ms -> Forall wf0 ms.
Proof.
  intros f from to rep ab ms Hf [Hm [Hk [Hto [Hrep Hab]]]] H. unfold expand_single in H.
  apply bind_Ok_inv in H. destruct H as [cands [Hc H]].
  eapply map_res_Ok_Forall; [exact H|]. intros ch m Hch Hm'.
  pose proof (choice_of_layout f _ cands ch Hf Hc Hch) as Hok.
  apply bind_Ok_inv in Hm'. destruct Hm' as [to' [Hto' Hm']]. apply bind_Ok_inv in Hm'. destruct Hm' as [rep' [Hrep' Hm']].
  apply bind_Ok_inv in Hm'. destruct Hm' as [ab' [Hab' Hm']]. inversion Hm'; subst. unfold wf0. cbn [m_from m_to m_repeat m_abs].
  split; [destruct (subst_trigger (sf_mods from) ch); discriminate|].
  split; [apply kn_app; split; [apply kn_subst_trigger; assumption|apply kn_one; exact Hk]|].
  split; [eapply kn_spec_single_to; eassumption|].
  split; [eapply spec_single_repeat_okb; eassumption|].
  rewrite removelast_last. eapply subset_subst_output; eassumption.
Qed.

Lemma row_choice_wf0 : forall from to rep ab ch ms, mods_kn (rf_mods from) -> mods_kn (rt_initial to) -> wrep_okP rep ->
  absorbing_on_from ab (rf_mods from) = true -> Forall alias_okP ch ->
  row_choice from to rep ab ch = Ok ms -> Forall wf0 ms.
Proof.
  intros from to rep ab ch ms Hm Hti Hrep Hab Hch H. unfold row_choice in H.
  apply bind_Ok_inv in H. destruct H as [to_mods [Hto_mods H]].
  apply bind_Ok_inv in H. destruct H as [rep_of [Hrep_of H]].
  destruct (length (spec_row (rf_row from)) <? length (rt_letters to))%nat; [discriminate|].
  apply bind_Ok_inv in H. destruct H as [per [Hper H]]. inversion H; subst.
  assert (forall n r, rep_of n = Ok r -> repeat_okb r = true) as Hrep_ok.
  { destruct rep as [| |keys d i].
    - inversion Hrep_of; subst. intros n r Hr. inversion Hr; reflexivity.
    - inversion Hrep_of; subst. intros n r Hr. inversion Hr; reflexivity.
    - destruct (length (rt_letters to) <? length (rt_letters keys))%nat; [discriminate|].
      apply bind_Ok_inv in Hrep_of. destruct Hrep_of as [rmods [Hrmods Hrep_of]]. inversion Hrep_of; subst.
      destruct Hrep as [Hki [Hd Hi]]. intros n r Hr. apply bind_Ok_inv in Hr. destruct Hr as [o [Ho Hr]].
      inversion Hr; subst. destruct o as [ks|]; [|reflexivity].
      apply repeat_okb_special; [|assumption|assumption].
      eapply kn_type_letter; [exact Ho|]. eapply kn_subst_output; eassumption. }
  apply Forall_forall. intros m Hin. apply in_concat in Hin. destruct Hin as [l [Hl Hin]].
  destruct (map_res_Ok_In _ _ _ _ Hper Hl) as [n [_ Hn]].
  apply bind_Ok_inv in Hn. destruct Hn as [to' [Hto' Hn]].
  destruct to' as [to''|]; [|inversion Hn; subst; destruct Hin].
  destruct (nth_error (spec_row (rf_row from)) n) as [pk|] eqn:Epk; [|inversion Hn; subst; destruct Hin].
  apply bind_Ok_inv in Hn. destruct Hn as [rep' [Hrep' Hn]]. apply bind_Ok_inv in Hn. destruct Hn as [ab' [Hab' Hn]].
  inversion Hn; subst. destruct Hin as [Hin|[]]. subst m. unfold wf0. cbn [m_from m_to m_repeat m_abs].
  split; [destruct (subst_trigger (rf_mods from) ch); discriminate|].
  split.
  { apply kn_app. split; [apply kn_subst_trigger; assumption|]. apply kn_one.
    eapply kn_In; [apply (kn_spec_row (rf_row from))|]. eapply nth_error_In; exact Epk. }
  split; [eapply kn_type_letter; [exact Hto'|]; eapply kn_subst_output; eassumption|].
  split; [eapply Hrep_ok; exact Hrep'|].
  rewrite removelast_last. eapply subset_subst_output; eassumption.
Qed.

Lemma expand_row_wf0 : forall f from to rep ab ms, Forall fm_ok f -> fm_ok (FRow from to rep ab) ->
  expand_row f from to rep ab = Ok ms -> Forall wf0 ms.
Proof.
  intros f from to rep ab ms Hf [Hm [Hti [Hrep Hab]]] H. rewrite expand_row_unfold in H.
  apply bind_Ok_inv in H. destruct H as [cands [Hc H]]. apply bind_Ok_inv in H. destruct H as [per [Hper H]].
  inversion H; subst. apply Forall_forall. intros m Hin. apply in_concat in Hin. destruct Hin as [l [Hl Hin]].
  destruct (map_res_Ok_In _ _ _ _ Hper Hl) as [ch [Hch Hrc]].
  pose proof (choice_of_layout f _ cands ch Hf Hc Hch) as Hok.
  pose proof (row_choice_wf0 from to rep ab ch l Hm Hti Hrep Hab Hok Hrc) as Hall.
  rewrite Forall_forall in Hall. apply Hall. exact Hin.
Qed.

Lemma subset_nil : forall b, subset [] b = true.
Proof. reflexivity. Qed.

Lemma expand_alias_wf0 : forall a, alias_okP a -> Forall wf0 (expand_alias a).
Proof.
  intros a [H1 [H2 H3]].
  assert (wf0 (mkMapping (am_keys a) (am_initial a) RNormal [])) as Hw.
  { unfold wf0. cbn [m_from m_to m_repeat m_abs]. repeat split; try assumption. }
  unfold expand_alias. destruct (am_keys a) as [|k [|k2 ks]]; try (constructor; [exact Hw|constructor]).
  destruct (spec_is_modifier k); [constructor|constructor; [exact Hw|constructor]].
Qed.

Lemma expand_mapping_wf0 : forall f m ms, Forall fm_ok f -> fm_ok m -> expand_mapping f m = Ok ms -> Forall wf0 ms.
Proof.
  intros f [from to rep ab|a|from to rep ab|from rep] ms Hf Hm H; cbn [expand_mapping] in H.
  - eapply expand_single_wf0; eassumption.
  - inversion H; subst. apply expand_alias_wf0. exact Hm.
  - eapply expand_row_wf0; eassumption.
  - inversion H; subst. constructor.
Qed.

(* ---------- repeat-only entries ---------- *)

Definition req_ok (e : list key * Mapper.repeat) : Prop := fst e <> [] /\ kn (fst e) /\ repeat_okb (snd e) = true.

Lemma repeat_requests_ok : forall f m reqs, Forall fm_ok f -> fm_ok m -> repeat_requests f m = Ok reqs -> Forall req_ok reqs.
Proof.
  intros f [from to rep ab|a|from to rep ab|from rep] reqs Hf Hm H; cbn [repeat_requests] in H;
    try (inversion H; subst; constructor).
  destruct Hm as [Hm [Hk Hrep]]. apply bind_Ok_inv in H. destruct H as [cands [Hc H]].
  eapply map_res_Ok_Forall; [exact H|]. intros ch e Hch He.
  pose proof (choice_of_layout f _ cands ch Hf Hc Hch) as Hok.
  apply bind_Ok_inv in He. destruct He as [rep' [Hrep' He]]. inversion He; subst. unfold req_ok. cbn [fst snd].
  split; [destruct (subst_trigger (sf_mods from) ch); discriminate|].
  split; [apply kn_app; split; [apply kn_subst_trigger; assumption|apply kn_one; exact Hk]|].
  eapply spec_single_repeat_okb; eassumption.
Qed.

Lemma apply_repeat_only_wf0 : forall base acc e, req_ok e -> Forall wf0 acc -> Forall wf0 (apply_repeat_only base acc e).
Proof.
  intros base acc [trigger rep] [H1 [H2 H3]] Hacc. cbn [fst snd] in *. unfold apply_repeat_only.
  destruct (existsb (fun m => same_trigger (m_from m) trigger) base).
  - apply Forall_forall. intros m Hm. apply in_map_iff in Hm. destruct Hm as [m0 [E Hm0]].
    rewrite Forall_forall in Hacc. specialize (Hacc m0 Hm0). destruct (same_trigger (m_from m0) trigger); subst m; [|exact Hacc].
    destruct Hacc as [A [B [C [D E]]]]. unfold wf0, set_repeat_of. cbn [m_from m_to m_repeat m_abs]. repeat split; assumption.
  - apply Forall_app. split; [exact Hacc|]. constructor; [|constructor].
    unfold wf0. cbn [m_from m_to m_repeat m_abs]. repeat split; assumption.
Qed.

(* ---------- the whole layout ---------- *)

Lemma Forall_concat : forall {A} (P : A -> Prop) (ll : list (list A)), Forall (Forall P) ll -> Forall P (concat ll).
Proof.
  intros A P ll H. induction H as [|l ll Hl H IH]; [constructor|]. cbn [concat]. apply Forall_app. split; assumption.
Qed.

Lemma fold_apply_wf0 : forall base reqs acc, Forall req_ok reqs -> Forall wf0 acc ->
  Forall wf0 (fold_left (apply_repeat_only base) reqs acc).
Proof.
  intros base reqs acc Hreqs. revert acc.
  induction Hreqs as [|e reqs He Hreqs IH]; intros acc Hacc; cbn [fold_left]; [exact Hacc|].
  apply IH. apply apply_repeat_only_wf0; assumption.
Qed.

Lemma expand_core_wf0 : forall f L, Forall fm_ok f -> expand_core f = Ok L -> Forall wf0 L.
Proof.
  intros f L Hf H. unfold expand_core in H.
  apply bind_Ok_inv in H. destruct H as [per [Hper H]]. apply bind_Ok_inv in H. destruct H as [ents [Hents H]].
  inversion H; subst. clear H.
  assert (Forall wf0 (concat per)) as Hbase.
  { apply Forall_concat. eapply map_res_Ok_Forall; [exact Hper|]. intros m ms Hm Hms.
    rewrite Forall_forall in Hf. eapply expand_mapping_wf0; [apply Forall_forall; exact Hf|apply Hf; exact Hm|exact Hms]. }
  assert (Forall req_ok (concat ents)) as Hreqs.
  { apply Forall_concat. eapply map_res_Ok_Forall; [exact Hents|]. intros m rs Hm Hrs.
    rewrite Forall_forall in Hf. eapply repeat_requests_ok; [apply Forall_forall; exact Hf|apply Hf; exact Hm|exact Hrs]. }
  apply fold_apply_wf0; assumption.
Qed.

Lemma wf0_basic : forall m, wf0 m -> nodupb (m_from m) = true -> nodupb (m_to m) = true -> wf_basic_mapping m = true.
Proof.
  intros m [H1 [H2 [H3 [H4 H5]]]] N1 N2. unfold wf_basic_mapping.
  assert (kn (m_abs m)) as H6.
  { apply kn_forall. intros k Hk. apply subset_incl in H5. eapply kn_In; [apply kn_removelast; exact H2|]. apply H5. exact Hk. }
  unfold kn in *. rewrite N1, N2, H2, H3, H4, H5, H6. destruct (m_from m); [contradiction|reflexivity].
Qed.

Lemma expand_wf_basic : forall f L, Forall fm_ok f -> expand f = Ok L -> wf_basic L = true.
Proof.
  intros f L Hf H. unfold expand in H. apply bind_Ok_inv in H. destruct H as [r [Hr H]].
  destruct (existsb repeats_a_key r) eqn:E; [discriminate|]. inversion H; subst.
  pose proof (expand_core_wf0 f L Hf Hr) as Hall. unfold wf_basic. apply forallb_forall. intros m Hm.
  rewrite Forall_forall in Hall.
  assert (repeats_a_key m = false) as Hd.
  { destruct (repeats_a_key m) eqn:Ed; [|reflexivity].
    assert (existsb repeats_a_key L = true) by (apply existsb_exists; exists m; split; assumption). congruence. }
  unfold repeats_a_key in Hd. apply orb_false_iff in Hd. destruct Hd as [D1 D2].
  apply negb_false_iff in D1. apply negb_false_iff in D2. apply wf0_basic; [apply Hall; exact Hm|exact D1|exact D2].
Qed.

(* every layout the loader accepts is a well-formed basic layout ... *)
Theorem loaded_is_wf_basic : forall j L, load j = Ok L -> wf_basic L = true.
Proof.
  intros j L H. unfold load in H. apply bind_Ok_inv in H. destruct H as [f [Hf H]].
  rewrite convert_refines_spec in H. eapply expand_wf_basic; [eapply parse_layout_ok; exact Hf|exact H].
Qed.

Lemma wf_basic_for_layout_ok : forall L, wf_basic L = true -> for_layout_ok L = true.
Proof.
  intros L H. unfold wf_basic, for_layout_ok in *. rewrite forallb_forall in *. intros m Hm. specialize (H m Hm).
  destruct (wf_basic_mapping_parts m H) as [Hne [N1 [N2 _]]]. unfold mapping_ok. rewrite N1, N2.
  destruct (m_from m); [contradiction|reflexivity].
Qed.

(* ... in particular it satisfies what Mapper::for_layout needs *)
Theorem accepted_is_wf : forall j L, load j = Ok L -> for_layout_ok L = true.
Proof. intros j L H. apply wf_basic_for_layout_ok. eapply loaded_is_wf_basic. exact H. Qed.

(* a layout obtained from any layout file, saved with serde and reloaded, is unchanged *)
Theorem saved_layout_reloads : forall j L, load j = Ok L -> load (to_json L) = Ok L.
Proof. intros j L H. apply roundtrip. eapply loaded_is_wf_basic. exact H. Qed.
