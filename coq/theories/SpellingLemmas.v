(* SpellingLemmas.v — C13: equivalent spellings parse to the same fancy layout.
   A bare value and the one-element array holding it are read alike in `from`,
   `to`, `absorbing` and the `keys` of a Special repeat; row names are read
   through their upper-case form and repeat names through their lower-case
   form.  [unwrap_layout] rewrites every one-element array in those places to
   the bare value; parsing is invariant under it. *)
From TM Require Import Base Json RustOps Fancy Mapper Parser Convert RustOpsLemmas StrLemmas ParserLemmas.
From Coq Require Import Lia Arith.

(* ---------- bare value vs one-element array ---------- *)

Definition is_arr (v : json) : bool := match v with JArr _ => true | _ => false end.

(* [x] ~> x unless x is itself an array *)
Definition unwrap1 (v : json) : json :=
  match v with
  | JArr [x] => if is_arr x then v else x
  | _ => v
  end.

Lemma parse_from_singleton : forall v, is_arr v = false -> parse_from (JArr [v]) = parse_from v.
Proof.
  intros v H. unfold parse_from at 1. cbn [length Nat.eqb usub Nat.leb Nat.sub bind slice andb skipn firstn
    parse_from_modifiers map_res idx nth_error].
  destruct v; try discriminate; reflexivity.
Qed.

Lemma parse_single_or_alias_to_singleton : forall v, is_arr v = false ->
  parse_single_or_alias_to (JArr [v]) = parse_single_or_alias_to v.
Proof.
  intros v H. unfold parse_single_or_alias_to at 1, parse_single_or_alias_to_array.
  cbn [length Nat.eqb usub Nat.leb Nat.sub bind idx nth_error].
  assert (parse_single_or_alias_to v =
          (terminal <- parse_single_or_alias_to_terminal v ;;
           match terminal with
           | SoaSingle t => Ok (SoaToSingle (mkSingleTo [] t))
           | SoaAlias name => Ok (SoaToAlias [] name)
           end)) as E by (destruct v; try discriminate; reflexivity).
  rewrite E. apply bind_ext. intros [t|name] _; reflexivity.
Qed.

Lemma parse_single_to_singleton : forall v, is_arr v = false -> parse_single_to (JArr [v]) = parse_single_to v.
Proof.
  intros v H. unfold parse_single_to at 1, parse_single_to_array.
  cbn [length Nat.eqb usub Nat.leb Nat.sub bind slice andb skipn firstn parse_to_initial map_res idx nth_error].
  destruct v; try discriminate; reflexivity.
Qed.

Lemma parse_row_to_singleton : forall v, is_arr v = false -> parse_row_to (JArr [v]) = parse_row_to v.
Proof.
  intros v H. unfold parse_row_to at 1, parse_row_to_array.
  cbn [length Nat.eqb usub Nat.leb Nat.sub bind slice andb skipn firstn parse_to_initial map_res idx nth_error].
  destruct v; try discriminate; reflexivity.
Qed.

Lemma parse_absorbing_singleton : forall v, is_arr v = false ->
  parse_absorbing (Some (JArr [v])) = parse_absorbing (Some v).
Proof.
  intros v H. unfold parse_absorbing. cbn [map_res]. destruct v; try discriminate; reflexivity.
Qed.

Lemma unwrap1_cases : forall v, unwrap1 v = v \/ exists x, v = JArr [x] /\ is_arr x = false /\ unwrap1 v = x.
Proof.
  intro v. destruct v as [| | | |l|]; try (left; reflexivity). destruct l as [|x [|y l]]; try (left; reflexivity).
  cbn [unwrap1]. destruct (is_arr x) eqn:E; [left; reflexivity|]. right. exists x. repeat split. exact E.
Qed.

Lemma parse_from_unwrap1 : forall v, parse_from (unwrap1 v) = parse_from v.
Proof.
  intro v. destruct (unwrap1_cases v) as [E|[x [E1 [E2 E3]]]]; [rewrite E; reflexivity|].
  rewrite E3, E1. symmetry. apply parse_from_singleton. exact E2.
Qed.

Lemma parse_single_or_alias_to_unwrap1 : forall v, parse_single_or_alias_to (unwrap1 v) = parse_single_or_alias_to v.
Proof.
  intro v. destruct (unwrap1_cases v) as [E|[x [E1 [E2 E3]]]]; [rewrite E; reflexivity|].
  rewrite E3, E1. symmetry. apply parse_single_or_alias_to_singleton. exact E2.
Qed.

Lemma parse_single_to_unwrap1 : forall v, parse_single_to (unwrap1 v) = parse_single_to v.
Proof.
  intro v. destruct (unwrap1_cases v) as [E|[x [E1 [E2 E3]]]]; [rewrite E; reflexivity|].
  rewrite E3, E1. symmetry. apply parse_single_to_singleton. exact E2.
Qed.

Lemma parse_row_to_unwrap1 : forall v, parse_row_to (unwrap1 v) = parse_row_to v.
Proof.
  intro v. destruct (unwrap1_cases v) as [E|[x [E1 [E2 E3]]]]; [rewrite E; reflexivity|].
  rewrite E3, E1. symmetry. apply parse_row_to_singleton. exact E2.
Qed.

Lemma parse_absorbing_unwrap1 : forall ov, parse_absorbing (option_map unwrap1 ov) = parse_absorbing ov.
Proof.
  intros [v|]; [|reflexivity]. cbn [option_map].
  destruct (unwrap1_cases v) as [E|[x [E1 [E2 E3]]]]; [rewrite E; reflexivity|].
  rewrite E3, E1. symmetry. apply parse_absorbing_singleton. exact E2.
Qed.

(* ---------- names in either case ---------- *)

Lemma parse_row_case : forall t t', to_uppercase t = to_uppercase t' -> parse_row t = parse_row t'.
Proof. intros t t' H. unfold parse_row. rewrite H. reflexivity. Qed.

Lemma parse_repeat_name_case : forall t t', to_lowercase t = to_lowercase t' ->
  parse_single_repeat (Some (JStr t)) = parse_single_repeat (Some (JStr t'))
  /\ parse_row_repeat (Some (JStr t)) = parse_row_repeat (Some (JStr t')).
Proof. intros t t' H. unfold parse_single_repeat, parse_row_repeat. rewrite H. split; reflexivity. Qed.

(* every row name, and its lower-case spelling, names its row; the repeat names
   in the usual capitalisations *)
Lemma names_either_case :
  forallb (fun e => match parse_row (fst e), parse_row (to_lowercase (fst e)), parse_row (to_uppercase (fst e)) with
                    | Ok r1, Ok r2, Ok r3 =>
                      match r1, r2, r3, snd e with
                      | RowGrave, RowGrave, RowGrave, RowGrave | Row1, Row1, Row1, Row1 | RowQ, RowQ, RowQ, RowQ
                      | RowA, RowA, RowA, RowA | RowZ, RowZ, RowZ, RowZ => true
                      | _, _, _, _ => false
                      end
                    | _, _, _ => false
                    end) row_names = true
  /\ map (fun s => parse_single_repeat (Some (JStr (lit s)))) ["normal"; "Normal"; "NORMAL"; "disabled"; "Disabled"; "DISABLED"]%string
     = [Ok SRNormal; Ok SRNormal; Ok SRNormal; Ok SRDisabled; Ok SRDisabled; Ok SRDisabled]
  /\ map (fun s => parse_row_repeat (Some (JStr (lit s)))) ["normal"; "Normal"; "NORMAL"; "disabled"; "Disabled"; "DISABLED"]%string
     = [Ok WRNormal; Ok WRNormal; Ok WRNormal; Ok WRDisabled; Ok WRDisabled; Ok WRDisabled].
Proof. vm_compute. repeat split; reflexivity. Qed.

(* ---------- rewriting the values of an object ---------- *)

Definition map_vals (g : str -> json -> json) (kvs : list (str * json)) : list (str * json) :=
  map (fun kv => (fst kv, g (fst kv) (snd kv))) kvs.

Lemma obj_keys_map_vals : forall g kvs, obj_keys (map_vals g kvs) = obj_keys kvs.
Proof. intros g kvs. unfold obj_keys, map_vals. rewrite map_map. reflexivity. Qed.

Lemma obj_get_map_vals : forall g kvs k, obj_get (map_vals g kvs) k = option_map (g k) (obj_get kvs k).
Proof.
  intros g kvs k. induction kvs as [|[k' v] kvs IH]; [reflexivity|]. cbn [map_vals map fst snd obj_get].
  destruct (str_eqb k' k) eqn:E.
  - apply str_eqb_eq in E. subst. reflexivity.
  - exact IH.
Qed.

Lemma has_exactly_keys_map_vals : forall g kvs check, has_exactly_keys (map_vals g kvs) check = has_exactly_keys kvs check.
Proof.
  intros. unfold has_exactly_keys. rewrite obj_keys_map_vals. unfold map_vals. rewrite map_length. reflexivity.
Qed.

Lemma obj_has_map_vals : forall g kvs k, obj_has (map_vals g kvs) k = obj_has kvs k.
Proof. intros. unfold obj_has. rewrite obj_get_map_vals. destruct (obj_get kvs k); reflexivity. Qed.

Lemma has_at_least_keys_map_vals : forall g kvs check, has_at_least_keys (map_vals g kvs) check = has_at_least_keys kvs check.
Proof.
  intros. unfold has_at_least_keys. induction check as [|k check IH]; [reflexivity|].
  cbn [forallb]. rewrite obj_has_map_vals, IH. reflexivity.
Qed.

(* ---------- the canonical spelling ---------- *)

Definition unwrap_special_field (k : str) (v : json) : json := if str_eqb k k_keys then unwrap1 v else v.

Definition unwrap_repeat_field (k : str) (v : json) : json :=
  if str_eqb k k_Special then match v with JObj sp => JObj (map_vals unwrap_special_field sp) | _ => v end else v.

Definition unwrap_repeat (v : json) : json :=
  match v with JObj params => JObj (map_vals unwrap_repeat_field params) | _ => v end.

Definition unwrap_mapping_field (k : str) (v : json) : json :=
  if str_eqb k k_from || str_eqb k k_to || str_eqb k k_absorbing then unwrap1 v
  else if str_eqb k k_repeat then unwrap_repeat v else v.

Definition unwrap_mapping (v : json) : json :=
  match v with JObj mv => JObj (map_vals unwrap_mapping_field mv) | _ => v end.

Definition unwrap_layout_field (k : str) (v : json) : json :=
  if str_eqb k k_mappings then match v with JArr mvs => JArr (map unwrap_mapping mvs) | _ => v end else v.

Definition unwrap_layout (j : json) : json :=
  match j with JObj rv => JObj (map_vals unwrap_layout_field rv) | _ => j end.

Lemma parse_repeat_special_unwrap : forall {K} (pk : json -> res K) params,
  (forall v, pk (unwrap1 v) = pk v) ->
  parse_repeat_special pk (map_vals unwrap_repeat_field params) = parse_repeat_special pk params.
Proof.
  intros K pk params Hpk. unfold parse_repeat_special. rewrite has_exactly_keys_map_vals, obj_get_map_vals.
  destruct (has_exactly_keys params [k_Special]); [|reflexivity].
  destruct (obj_get params k_Special) as [v|]; [|reflexivity]. cbn [option_map unwrap bind].
  change (unwrap_repeat_field k_Special v) with (match v with JObj sp => JObj (map_vals unwrap_special_field sp) | _ => v end).
  destruct v as [| | | | |sp]; try reflexivity.
  rewrite has_exactly_keys_map_vals, !obj_get_map_vals.
  destruct (has_exactly_keys sp [k_keys; k_delay_ms; k_interval_ms]); [|reflexivity].
  destruct (obj_get sp k_keys) as [kv|]; [|reflexivity].
  destruct (obj_get sp k_delay_ms) as [dv|]; [|reflexivity].
  destruct (obj_get sp k_interval_ms) as [iv|]; [|reflexivity].
  cbn [option_map unwrap bind].
  change (unwrap_special_field k_keys kv) with (unwrap1 kv).
  change (unwrap_special_field k_delay_ms dv) with dv.
  change (unwrap_special_field k_interval_ms iv) with iv.
  rewrite Hpk. reflexivity.
Qed.

Lemma parse_single_repeat_unwrap : forall ov, parse_single_repeat (option_map unwrap_repeat ov) = parse_single_repeat ov.
Proof.
  intros [v|]; [|reflexivity]. cbn [option_map]. destruct v; try reflexivity. cbn [unwrap_repeat parse_single_repeat].
  unfold parse_single_repeat_keys. rewrite (parse_repeat_special_unwrap parse_single_to) by exact parse_single_to_unwrap1.
  reflexivity.
Qed.

Lemma parse_row_repeat_unwrap : forall ov, parse_row_repeat (option_map unwrap_repeat ov) = parse_row_repeat ov.
Proof.
  intros [v|]; [|reflexivity]. cbn [option_map]. destruct v; try reflexivity. cbn [unwrap_repeat parse_row_repeat].
  unfold parse_row_repeat_keys. rewrite (parse_repeat_special_unwrap parse_row_to) by exact parse_row_to_unwrap1.
  reflexivity.
Qed.

Lemma unwrap_mapping_field_literals :
  (forall v, unwrap_mapping_field k_from v = unwrap1 v) /\ (forall v, unwrap_mapping_field k_to v = unwrap1 v)
  /\ (forall v, unwrap_mapping_field k_absorbing v = unwrap1 v) /\ (forall v, unwrap_mapping_field k_repeat v = unwrap_repeat v).
Proof. repeat split; reflexivity. Qed.

Lemma parse_mapping_unwrap : forall v, parse_mapping_from_json (unwrap_mapping v) = parse_mapping_from_json v.
Proof.
  intro v. destruct v as [| | | | |mv]; try reflexivity. cbn [unwrap_mapping]. unfold parse_mapping_from_json.
  destruct unwrap_mapping_field_literals as [Lf [Lt [La Lr]]].
  rewrite has_at_least_keys_map_vals, has_exactly_keys_map_vals, !obj_get_map_vals, !obj_has_map_vals.
  assert (forall site, unwrap site (option_map (unwrap_mapping_field k_from) (obj_get mv k_from))
                       = (x <- unwrap site (obj_get mv k_from) ;; Ok (unwrap1 x))) as Efrom.
  { intro site. destruct (obj_get mv k_from); [cbn [option_map unwrap bind]; rewrite Lf; reflexivity|reflexivity]. }
  assert (forall site, unwrap site (option_map (unwrap_mapping_field k_to) (obj_get mv k_to))
                       = (x <- unwrap site (obj_get mv k_to) ;; Ok (unwrap1 x))) as Eto.
  { intro site. destruct (obj_get mv k_to); [cbn [option_map unwrap bind]; rewrite Lt; reflexivity|reflexivity]. }
  assert (option_map (unwrap_mapping_field k_repeat) (obj_get mv k_repeat) = option_map unwrap_repeat (obj_get mv k_repeat)) as Erep.
  { destruct (obj_get mv k_repeat); [cbn [option_map unwrap bind]; rewrite Lr; reflexivity|reflexivity]. }
  assert (option_map (unwrap_mapping_field k_absorbing) (obj_get mv k_absorbing) = option_map unwrap1 (obj_get mv k_absorbing)) as Eabs.
  { destruct (obj_get mv k_absorbing); [cbn [option_map unwrap bind]; rewrite La; reflexivity|reflexivity]. }
  rewrite !Efrom, !Eto, Erep, Eabs. rewrite parse_single_repeat_unwrap, parse_row_repeat_unwrap, parse_absorbing_unwrap1.
  destruct (has_at_least_keys mv [k_from; k_to]).
  - rewrite !bind_assoc. apply bind_ext. intros fv _. cbn [bind]. rewrite parse_from_unwrap1.
    apply bind_ext. intros [fr|fr] _.
    + rewrite !bind_assoc. apply bind_ext. intros tv _. cbn [bind]. rewrite parse_single_or_alias_to_unwrap1. reflexivity.
    + rewrite !bind_assoc. apply bind_ext. intros tv _. cbn [bind]. rewrite parse_row_to_unwrap1. reflexivity.
  - destruct (has_exactly_keys mv [k_from; k_repeat]); [|reflexivity].
    rewrite !bind_assoc. apply bind_ext. intros fv _. cbn [bind]. rewrite parse_from_unwrap1. reflexivity.
Qed.

Theorem parse_layout_unwrap : forall j, parse_layout (unwrap_layout j) = parse_layout j.
Proof.
  intro j. destruct j as [| | | | |rv]; try reflexivity. cbn [unwrap_layout]. unfold parse_layout.
  rewrite has_exactly_keys_map_vals, obj_get_map_vals.
  destruct (has_exactly_keys rv [k_mappings]); [|reflexivity].
  destruct (obj_get rv k_mappings) as [v|]; [|reflexivity]. cbn [option_map unwrap bind].
  change (unwrap_layout_field k_mappings v) with (match v with JArr mvs => JArr (map unwrap_mapping mvs) | _ => v end).
  destruct v as [| | | |mvs|]; try reflexivity.
  rewrite map_res_map. rewrite (map_res_ext _ parse_mapping_from_json) by (intros; apply parse_mapping_unwrap). reflexivity.
Qed.

Theorem load_unwrap : forall j, load (unwrap_layout j) = load j.
Proof. intro j. unfold load. rewrite parse_layout_unwrap. reflexivity. Qed.

Lemma names_either_case_full :
  (forall t t', to_uppercase t = to_uppercase t' -> parse_row t = parse_row t')
  /\ (forall t t', to_lowercase t = to_lowercase t' ->
        parse_single_repeat (Some (JStr t)) = parse_single_repeat (Some (JStr t'))
        /\ parse_row_repeat (Some (JStr t)) = parse_row_repeat (Some (JStr t')))
  /\ map (fun s => parse_row (lit s)) ["`"; "1"; "q"; "Q"; "a"; "A"; "z"; "Z"]%string
     = [Ok RowGrave; Ok Row1; Ok RowQ; Ok RowQ; Ok RowA; Ok RowA; Ok RowZ; Ok RowZ]
  /\ map (fun s => parse_single_repeat (Some (JStr (lit s)))) ["normal"; "Normal"; "NORMAL"; "disabled"; "Disabled"; "DISABLED"]%string
     = [Ok SRNormal; Ok SRNormal; Ok SRNormal; Ok SRDisabled; Ok SRDisabled; Ok SRDisabled]
  /\ map (fun s => parse_row_repeat (Some (JStr (lit s)))) ["normal"; "Normal"; "NORMAL"; "disabled"; "Disabled"; "DISABLED"]%string
     = [Ok WRNormal; Ok WRNormal; Ok WRNormal; Ok WRDisabled; Ok WRDisabled; Ok WRDisabled].
Proof.
  split; [exact parse_row_case|]. split; [exact parse_repeat_name_case|]. vm_compute. repeat split; reflexivity.
Qed.
