(* WireSpec.v — the SPECIFICATION side of C18 (definitions only): what a kernel
   `struct input_event` record looks like byte by byte, what a reader has to
   deliver for a sequence of records, the checkers that judge the REAL bytes /
   REAL reader output (extracted next to the model; they do not use the model's
   encoder or decoder), and the comparison of the regenerated key table with the
   pinned kernel numbering.

   Layout (Linux, 64-bit time): bytes 0..15 struct timeval, 16..17 __u16 type,
   18..19 __u16 code, 20..23 __s32 value, all little-endian. *)
From TM Require Export Base Mapper.
From TM Require Import SpecKernelKeys.
From TMGen Require Import KeyTable.
From Coq Require Import String Ascii.

Definition spec_key (e : event) : key := match e with Pressed k => k | Released k => k end.
Definition spec_value (e : event) : Z := match e with Pressed _ => 1%Z | Released _ => 0%Z end.

(* ---------- the records the writer must produce ---------- *)

(* EV_KEY record of an event whose code fits 16 bits: zero time, type 1,
   code (low byte, high byte), value 1/0 as 4 bytes *)
Definition spec_record (e : event) : list N :=
  List.repeat 0%N 16
  ++ [1; 0]%N
  ++ [spec_key e mod 256; spec_key e / 256]%N
  ++ [Z.to_N (spec_value e); 0; 0; 0]%N.

(* EV_SYN / SYN_REPORT / 0 *)
Definition syn_record : list N := List.repeat 0%N 24.

Definition spec_batch (evs : list event) : list N := List.concat (map spec_record evs) ++ syn_record.

(* the tool's key universe *)
Definition known_code (c : N) : bool := existsb (N.eqb c) (map (fun e => snd (fst e)) key_table).
Definition known_batch (evs : list event) : bool := forallb (fun e => known_code (spec_key e)) evs.
Definition fits_u16 (evs : list event) : bool := forallb (fun e => (spec_key e <? 65536)%N) evs.

(* ---------- checker for REAL written bytes ---------- *)

Definition is_byte (b : N) : bool := (b <? 256)%N.

(* value of a little-endian field *)
Fixpoint le_value (bs : list N) : N :=
  match bs with
  | [] => 0%N
  | b :: t => (b + 256 * le_value t)%N
  end.
Definition field (r : list N) (off len : nat) : N := le_value (firstn len (skipn off r)).
Definition signed32 (u : N) : Z :=
  if (u <? 2147483648)%N then Z.of_N u else (Z.of_N u - 4294967296)%Z.

(* the time field is not constrained: the kernel ignores it on uinput writes *)
Definition record_ok (e : event) (r : list N) : bool :=
  (List.length r =? 24)%nat && forallb is_byte r
  && (field r 16 2 =? 1)%N
  && (field r 18 2 =? spec_key e)%N
  && (signed32 (field r 20 4) =? spec_value e)%Z.

Definition syn_ok (r : list N) : bool :=
  (List.length r =? 24)%nat && forallb is_byte r
  && (field r 16 2 =? 0)%N && (field r 18 2 =? 0)%N && (field r 20 4 =? 0)%N.

Inductive wclause :=
| K_length        (* total length is not 24 * (number of events + 1) *)
| K_record        (* the i-th record is not the EV_KEY record of the i-th event *)
| K_syn           (* what follows the event records is not exactly one SYN_REPORT record *)
| K_roundtrip     (* the tool's reader does not return the batch from the writer's bytes *)
| K_reader.       (* the reader does not return exactly the key events of a record stream *)

Fixpoint check_records (evs : list event) (bytes : list N) : list wclause :=
  match evs with
  | [] => if syn_ok bytes then [] else [K_syn]
  | e :: t =>
    if record_ok e (firstn 24 bytes) then check_records t (skipn 24 bytes) else [K_record]
  end.

Definition check_write (evs : list event) (bytes : list N) : list wclause :=
  (if (List.length bytes =? 24 * S (List.length evs))%nat then [] else [K_length])
  ++ check_records evs bytes.

Definition check_bytes (evs : list event) (bytes : list N) : bool :=
  match check_write evs bytes with [] => true | _ => false end.

(* ---------- arbitrary records on the read side ---------- *)

Record raw := mkRaw { r_time : list N; r_type : N; r_code : N; r_value : Z }.

Definition raw_wf (r : raw) : bool :=
  (List.length (r_time r) =? 16)%nat && forallb is_byte (r_time r)
  && (r_type r <? 65536)%N && (r_code r <? 65536)%N
  && (-2147483648 <=? r_value r)%Z && (r_value r <? 2147483648)%Z.

(* the bytes of the record, field by field *)
Definition value_bits (v : Z) : N := Z.to_N (v mod 4294967296).
Definition raw_bytes (r : raw) : list N :=
  r_time r
  ++ [r_type r mod 256; r_type r / 256]%N
  ++ [r_code r mod 256; r_code r / 256]%N
  ++ [value_bits (r_value r) mod 256; value_bits (r_value r) / 256 mod 256;
      value_bits (r_value r) / 65536 mod 256; value_bits (r_value r) / 16777216]%N.

(* what a reader has to deliver for one record: a key event iff it is EV_KEY
   with value 1 (press) or 0 (release) and a code the tool knows; auto-repeat
   (value 2), other values, other types and unknown codes are skipped *)
Definition raw_event (r : raw) : option event :=
  if (r_type r =? 1)%N && known_code (r_code r) then
    if (r_value r =? 1)%Z then Some (Pressed (r_code r))
    else if (r_value r =? 0)%Z then Some (Released (r_code r))
    else None
  else None.

Definition is_foreign (r : raw) : bool := match raw_event r with None => true | Some _ => false end.

Definition opt_list {A} (o : option A) : list A := match o with Some a => [a] | None => [] end.

Definition raw_stream (rs : list raw) : list N := List.concat (map raw_bytes rs).
Definition raw_events (rs : list raw) : list event := flat_map (fun r => opt_list (raw_event r)) rs.

(* a record with a struct timeval { tv_sec; tv_usec } of two signed 64-bit numbers *)
Fixpoint le_n (n : nat) (x : N) : list N :=
  match n with O => [] | S m => (x mod 256)%N :: le_n m (x / 256)%N end.
Definition time_bytes (sec usec : Z) : list N :=
  le_n 8 (Z.to_N (sec mod 18446744073709551616)) ++ le_n 8 (Z.to_N (usec mod 18446744073709551616)).
Definition mk_raw (sec usec : Z) (type_ code : N) (value : Z) : raw :=
  mkRaw (time_bytes sec usec) type_ code value.

(* the writer's own records interleaved with foreign ones, every interleaving:
   inl r = a foreign record, inr e = the writer's record for e *)
Definition item := (raw + event)%type.
Definition item_bytes (i : item) : list N :=
  match i with inl r => raw_bytes r | inr e => spec_record e end.
Definition item_events (i : item) : list event :=
  match i with inl _ => [] | inr e => [e] end.
Definition items_stream (l : list item) : list N := List.concat (map item_bytes l).
Definition items_events (l : list item) : list event := flat_map item_events l.
Definition item_ok (i : item) : bool :=
  match i with
  | inl r => raw_wf r && is_foreign r
  | inr e => known_code (spec_key e)
  end.

(* checkers for the REAL reader's answers *)
Definition event_eqb (a b : event) : bool :=
  match a, b with
  | Pressed x, Pressed y => (x =? y)%N
  | Released x, Released y => (x =? y)%N
  | _, _ => false
  end.
Fixpoint events_eqb (a b : list event) : bool :=
  match a, b with
  | [], [] => true
  | x :: s, y :: t => event_eqb x y && events_eqb s t
  | _, _ => false
  end.

Definition check_roundtrip (evs returned : list event) : list wclause :=
  if events_eqb evs returned then [] else [K_roundtrip].
Definition check_reader (rs : list raw) (returned : list event) : list wclause :=
  if events_eqb (raw_events rs) returned then [] else [K_reader].

(* ---------- the key table against the kernel's numbering ---------- *)

Definition is_digit (c : ascii) : bool := (48 <=? nat_of_ascii c)%nat && (nat_of_ascii c <=? 57)%nat.

(* Rust ident -> header name: KEY_<ident>; a leading K before a digit was only
   added to make an identifier (K0..K9, K102ND, K10CHANNELSUP) *)
Definition kernel_name (ident : string) : string :=
  match ident with
  | String "K"%char (String d rest) =>
    if is_digit d then ("KEY_" ++ String d rest)%string else ("KEY_" ++ ident)%string
  | _ => ("KEY_" ++ ident)%string
  end.

Definition kernel_code (name : string) : option N :=
  match find (fun p => String.eqb (fst p) name) kernel_keys with
  | Some p => Some (snd p)
  | None => None
  end.

Definition entry_ident (e : string * N * string) : string := fst (fst e).
Definition entry_code (e : string * N * string) : N := snd (fst e).

Definition entry_matches (e : string * N * string) : bool :=
  match kernel_code (kernel_name (entry_ident e)) with
  | Some kc => (kc =? entry_code e)%N
  | None => true
  end.
Definition entry_has_kernel_name (e : string * N * string) : bool :=
  match kernel_code (kernel_name (entry_ident e)) with Some _ => true | None => false end.

(* reported, not failed on *)
Definition unmatched_idents : list string :=
  map entry_ident (filter (fun e => negb (entry_has_kernel_name e)) key_table).
Definition matched_count : nat := List.length (filter entry_has_kernel_name key_table).

Definition codes_fit_u16 : bool := forallb (fun e => (entry_code e <? 65536)%N) key_table.
Definition codes_match_kernel : bool := forallb entry_matches key_table.
Definition codes_distinct : bool := nodupb (map entry_code key_table).
