(* JsonText.v — the JSON *text* layer between the saved file and
   serde_json::Value: serde_json 1.0.x's printer (to_writer_pretty /
   to_string_pretty with PrettyFormatter, to_string with CompactFormatter) and
   its reader (from_str / from_slice / from_reader into Value).  Definitions
   only, all computable; the proofs are in JsonTextLemmas.v.

   Text is a list of bytes (N, each < 256).  Strings of the json type are lists
   of Unicode scalar values; the text carries their UTF-8 encoding.

   Reader, function by function after serde_json/src/de.rs and read.rs (features
   as in Cargo.lock: std only — no arbitrary_precision, no float_roundtrip, no
   preserve_order, no unbounded_depth):
     parse_whitespace        skip_ws
     parse_ident             strip_prefix
     parse_integer           parse_integer / int_digits
     parse_number            parse_number / int_result
     parse_long_integer      long_integer
     parse_decimal(_overflow) parse_decimal / dec_digits
     parse_exponent(_overflow) parse_exponent / exp_digits
     f64_from_parts          f64_finite  (only whether the result is finite matters:
                             an infinite result is Err(NumberOutOfRange), a
                             finite float is a Number that as_i64 does not
                             represent, JNum None)
     parse_str + as_str      parse_str = parse_str_bytes, then utf8_decode
     parse_escape, parse_unicode_escape, decode_hex_escape   inside parse_str_bytes
     deserialize_any + ValueVisitor + SeqAccess + MapAccess + end_seq + end_map
                             parse_value / parse_elems / parse_members
     check_recursion!        the [rem] argument (remaining_depth, starts at 128,
                             decremented on '[' and '{', an error when it reaches 0)
     Deserializer::end       parse_text
   Every error of the reader is None (messages and positions are not modelled).
   BTreeMap::insert is obj_insert (sorted by key, a later duplicate replaces the
   value).

   The recursive reader functions are structural on a fuel list; parse_text
   passes a list one longer than the input, which always suffices (each
   recursive call is made on an input at least one byte shorter). *)
From TM Require Export Base Json RustOps Mapper Convert Serde.
Local Open Scope N_scope.

(* ------------------------------------------------------------------ UTF-8 *)

(* char::encode_utf8 / push_wtf8_codepoint *)
Definition utf8_encode (c : N) : list N :=
  if c <? 128 then [c]
  else if c <? 2048 then [192 + c / 64; 128 + c mod 64]
  else if c <? 65536 then [224 + c / 4096; 128 + (c / 64) mod 64; 128 + c mod 64]
  else [240 + c / 262144; 128 + (c / 4096) mod 64; 128 + (c / 64) mod 64; 128 + c mod 64].

Definition in_range (lo hi b : N) : bool := (lo <=? b) && (b <=? hi).

Definition is_cont (b : N) : bool := in_range 128 191 b.

(* the admissible second byte of a 3-byte sequence (core::str::validations):
   E0 A0..BF | E1..EC 80..BF | ED 80..9F | EE..EF 80..BF *)
Definition second3 (b0 b1 : N) : bool :=
  if b0 =? 224 then in_range 160 191 b1
  else if b0 =? 237 then in_range 128 159 b1
  else is_cont b1.

(* of a 4-byte sequence: F0 90..BF | F1..F3 80..BF | F4 80..8F *)
Definition second4 (b0 b1 : N) : bool :=
  if b0 =? 240 then in_range 144 191 b1
  else if b0 =? 244 then in_range 128 143 b1
  else is_cont b1.

Definition cons_opt {A} (x : A) (r : option (list A)) : option (list A) :=
  match r with Some l => Some (x :: l) | None => None end.

(* str::from_utf8 followed by .chars(): None on any invalid sequence (stray
   continuation byte, C0/C1/F5..FF lead, truncated sequence, overlong form,
   surrogate, above U+10FFFF) *)
Fixpoint utf8_decode (l : list N) : option (list N) :=
  match l with
  | [] => Some []
  | b0 :: t0 =>
    if b0 <? 128 then cons_opt b0 (utf8_decode t0)
    else if in_range 194 223 b0 then
      match t0 with
      | b1 :: t1 =>
        if is_cont b1 then cons_opt ((b0 - 192) * 64 + (b1 - 128)) (utf8_decode t1) else None
      | _ => None
      end
    else if in_range 224 239 b0 then
      match t0 with
      | b1 :: b2 :: t2 =>
        if second3 b0 b1 && is_cont b2
        then cons_opt ((b0 - 224) * 4096 + (b1 - 128) * 64 + (b2 - 128)) (utf8_decode t2) else None
      | _ => None
      end
    else if in_range 240 244 b0 then
      match t0 with
      | b1 :: b2 :: b3 :: t3 =>
        if second4 b0 b1 && is_cont b2 && is_cont b3
        then cons_opt ((b0 - 240) * 262144 + (b1 - 128) * 4096 + (b2 - 128) * 64 + (b3 - 128)) (utf8_decode t3)
        else None
      | _ => None
      end
    else None
  end.

Definition utf8_of_str (s : str) : list N := flat_map utf8_encode s.

(* a Unicode scalar value: what a Rust char can hold *)
Definition valid_scalar (c : N) : bool := (c <? 55296) || ((57343 <? c) && (c <? 1114112)).

(* ------------------------------------------------------------------ printer *)

Definition hex_digit (n : N) : N := if n <? 10 then 48 + n else 87 + n.

(* format_escaped_str_contents with the ESCAPE table: the quote, \ \b \f \n \r \t, the
   other bytes below 0x20 as \u00xx (lower-case hex), everything else as is
   (0x7F and all non-ASCII scalars unescaped, in UTF-8) *)
Definition escape_scalar (c : N) : list N :=
  if c =? 34 then [92; 34]
  else if c =? 92 then [92; 92]
  else if c =? 8 then [92; 98]
  else if c =? 12 then [92; 102]
  else if c =? 10 then [92; 110]
  else if c =? 13 then [92; 114]
  else if c =? 9 then [92; 116]
  else if c <? 32 then [92; 117; 48; 48; hex_digit (c / 16); hex_digit (c mod 16)]
  else utf8_encode c.

Definition print_str (s : str) : list N := 34 :: flat_map escape_scalar s ++ [34].

(* itoa: decimal digits, most significant first; 20 digits cover u64 *)
Fixpoint digits_aux (fuel : nat) (n : N) (acc : list N) : list N :=
  match fuel with
  | O => acc
  | S f =>
    let acc' := (48 + n mod 10) :: acc in
    if n <? 10 then acc' else digits_aux f (n / 10) acc'
  end.

Definition print_nat (n : N) : list N := digits_aux 20 n [].

Definition print_int (z : Z) : list N :=
  match z with
  | Zneg p => 45 :: print_nat (Npos p)
  | _ => print_nat (Z.to_N z)
  end.

Section Printer.
  (* what the formatter writes after '[' '{' ',' (argument: the indent level of
     the items) and before the closing bracket (argument: the level of the
     bracket), and what it writes after ':' *)
  Variable sp : nat -> list N.
  Variable colon : list N.

  Definition print_elems (pr : json -> list N) (ind : nat) : list json -> list N :=
    fix go (l : list json) : list N :=
      match l with
      | [] => sp ind ++ [93]
      | y :: l' => 44 :: sp (S ind) ++ pr y ++ go l'
      end.

  Definition print_member (pr : json -> list N) (kv : str * json) : list N :=
    print_str (fst kv) ++ 58 :: colon ++ pr (snd kv).

  Definition print_members (pr : json -> list N) (ind : nat) : list (str * json) -> list N :=
    fix go (l : list (str * json)) : list N :=
      match l with
      | [] => sp ind ++ [125]
      | kv :: l' => 44 :: sp (S ind) ++ print_member pr kv ++ go l'
      end.

  (* Serializer with a Formatter: begin_array / begin_array_value /
     end_array (nothing between the brackets of an empty array or object).
     JNum None (a float, or an integer above i64::MAX) has no printing in this
     model: see [printable]. *)
  Fixpoint print_at (ind : nat) (v : json) {struct v} : list N :=
    match v with
    | JNull => [110; 117; 108; 108]
    | JBool true => [116; 114; 117; 101]
    | JBool false => [102; 97; 108; 115; 101]
    | JNum (Some z) => print_int z
    | JNum None => []
    | JStr s => print_str s
    | JArr [] => [91; 93]
    | JArr (x :: xs) =>
      91 :: sp (S ind) ++ print_at (S ind) x ++ print_elems (print_at (S ind)) ind xs
    | JObj [] => [123; 125]
    | JObj (kv :: kvs) =>
      123 :: sp (S ind) ++ print_member (print_at (S ind)) kv ++ print_members (print_at (S ind)) ind kvs
    end.
End Printer.

(* PrettyFormatter::new(): indent of two spaces, newline + indent before every item and
   before a closing bracket that follows an item, colon + space after a key *)
Definition pretty_sp (k : nat) : list N := 10 :: List.repeat 32 (2 * k)%nat.
Definition print_pretty (v : json) : list N := print_at pretty_sp [32] 0 v.

(* CompactFormatter: no whitespace at all *)
Definition print_compact (v : json) : list N := print_at (fun _ => []) [] 0 v.

Definition is_i64 (z : Z) : bool := ((-9223372036854775808 <=? z) && (z <=? 9223372036854775807))%Z.

(* the values the printer is modelled for *)
Fixpoint printable (v : json) : bool :=
  match v with
  | JNull | JBool _ => true
  | JNum (Some z) => is_i64 z
  | JNum None => false
  | JStr s => forallb valid_scalar s
  | JArr l => forallb printable l
  | JObj kvs => forallb (fun kv => forallb valid_scalar (fst kv) && printable (snd kv)) kvs
  end.

(* nesting depth: 0 for scalars, 1 for [] and {} *)
Fixpoint depth (v : json) : nat :=
  match v with
  | JArr l => S (fold_right (fun x m => Nat.max (depth x) m) O l)
  | JObj kvs => S (fold_right (fun kv m => Nat.max (depth (snd kv)) m) O kvs)
  | _ => O
  end.

(* ------------------------------------------------------------------ Map (BTreeMap<String, Value>) *)

(* Map::insert: keys kept in increasing order, a present key keeps its place and
   gets the new value *)
Fixpoint obj_insert (k : str) (v : json) (m : list (str * json)) : list (str * json) :=
  match m with
  | [] => [(k, v)]
  | (k', v') :: t =>
    if str_ltb k k' then (k, v) :: m
    else if str_eqb k k' then (k, v) :: t
    else (k', v') :: obj_insert k v t
  end.

(* the members in source order, inserted one after the other *)
Definition build_map (kvs : list (str * json)) : list (str * json) :=
  fold_left (fun m kv => obj_insert (fst kv) (snd kv) m) kvs [].

(* the Value a tree of members stands for: every object sorted by key, of equal
   keys the last one wins *)
Fixpoint canon (v : json) : json :=
  match v with
  | JArr l => JArr (map canon l)
  | JObj kvs => JObj (build_map (map (fun kv => (fst kv, canon (snd kv))) kvs))
  | _ => v
  end.

(* every object's key list strictly increasing *)
Fixpoint canonical (v : json) : bool :=
  match v with
  | JArr l => forallb canonical l
  | JObj kvs => keys_sorted (map fst kvs) && forallb (fun kv => canonical (snd kv)) kvs
  | _ => true
  end.

(* ------------------------------------------------------------------ reader: tokens *)

Definition is_ws (b : N) : bool := (b =? 32) || (b =? 10) || (b =? 9) || (b =? 13).

Fixpoint skip_ws (l : list N) : list N :=
  match l with
  | b :: t => if is_ws b then skip_ws t else l
  | [] => []
  end.

Fixpoint strip_prefix (p l : list N) : option (list N) :=
  match p with
  | [] => Some l
  | x :: p' => match l with
               | y :: l' => if x =? y then strip_prefix p' l' else None
               | [] => None
               end
  end.

Definition is_digit (b : N) : bool := in_range 48 57 b.

Fixpoint skip_digits (l : list N) : list N :=
  match l with
  | b :: t => if is_digit b then skip_digits t else l
  | [] => []
  end.

(* ---------- numbers ---------- *)

Definition u64_max : N := 18446744073709551615.
Definition i64_max : N := 9223372036854775807.
Definition i32_max : Z := 2147483647.

(* u64 as f64, and the literals of the POW10 table: round to nearest, ties to
   even, to 53 significant bits *)
Definition rne53 (n : N) : N :=
  let s := N.size n in
  if s <=? 53 then n
  else
    let sh := s - 53 in
    let q := N.shiftr n sh in
    let r := n - N.shiftl q sh in
    let half := N.shiftl 1 (sh - 1) in
    let q' := if (half <? r) || ((r =? half) && N.odd q) then q + 1 else q in
    N.shiftl q' sh.

(* the smallest real that rounds to infinity: f64::MAX + half an ulp *)
Definition f64_inf_threshold : N := 2 ^ 1024 - 2 ^ 970.

(* f64_from_parts (without float_roundtrip): f = significand as f64; for
   0 <= exponent <= 308 one multiplication by POW10[exponent] and
   Err(NumberOutOfRange) when the product is infinite; above 308 an error unless
   f == 0.0; negative exponents only divide and never fail.  true = Ok *)
Definition f64_finite (significand : N) (exponent : Z) : bool :=
  if (exponent <? 0)%Z then true
  else if (308 <? exponent)%Z then significand =? 0
  else rne53 significand * rne53 (10 ^ Z.to_N exponent) <? f64_inf_threshold.

(* ParserNumber *)
Inductive pnum := PU64 (n : N) | PI64 (z : Z) | PF64.

Definition float_result (significand : N) (exponent : Z) (l : list N) : option (pnum * list N) :=
  if f64_finite significand exponent then Some (PF64, l) else None.

(* the digits of parse_exponent after the first one; [exp] is an i32 *)
Fixpoint exp_digits (significand : N) (starting_exp : Z) (positive_exp : bool) (exp : Z) (l : list N)
  : option (pnum * list N) :=
  let finish :=
    float_result significand (if positive_exp then starting_exp + exp else starting_exp - exp)%Z l in
  match l with
  | c :: t =>
    if is_digit c then
      let digit := Z.of_N (c - 48) in
      if (i32_max <? exp * 10 + digit)%Z then
        (* parse_exponent_overflow: an error unless the result is a zero *)
        if negb (significand =? 0) && positive_exp then None else Some (PF64, skip_digits t)
      else exp_digits significand starting_exp positive_exp (exp * 10 + digit)%Z t
    else finish
  | [] => finish
  end.

(* parse_exponent: [l] starts with the 'e' / 'E' that was peeked *)
Definition parse_exponent (significand : N) (starting_exp : Z) (l : list N) : option (pnum * list N) :=
  match l with
  | _ :: t =>
    let '(positive_exp, t1) :=
      match t with
      | c :: t' => if c =? 43 then (true, t') else if c =? 45 then (false, t') else (true, t)
      | [] => (true, t)
      end in
    match t1 with
    | c :: t2 => if is_digit c then exp_digits significand starting_exp positive_exp (Z.of_N (c - 48)) t2 else None
    | [] => None
    end
  | [] => None
  end.

(* what follows the digits of a float *)
Definition after_fraction (significand : N) (exponent : Z) (l : list N) : option (pnum * list N) :=
  match l with
  | c :: _ => if (c =? 101) || (c =? 69) then parse_exponent significand exponent l
              else float_result significand exponent l
  | [] => float_result significand exponent l
  end.

(* the digit loop of parse_decimal; [exp_after] = minus the number of digits
   taken so far *)
Fixpoint dec_digits (significand : N) (exp_before exp_after : Z) (l : list N) : option (pnum * list N) :=
  let finish :=
    if (exp_after =? 0)%Z then None      (* at least one digit after the point *)
    else after_fraction significand (exp_before + exp_after)%Z l in
  match l with
  | c :: t =>
    if is_digit c then
      if u64_max <? significand * 10 + (c - 48)
      then (* parse_decimal_overflow: all further digits are ignored *)
        after_fraction significand (exp_before + exp_after)%Z (skip_digits t)
      else dec_digits (significand * 10 + (c - 48)) exp_before (exp_after - 1)%Z t
    else finish
  | [] => finish
  end.

(* parse_decimal: [l] starts with the '.' that was peeked *)
Definition parse_decimal (significand : N) (exp_before : Z) (l : list N) : option (pnum * list N) :=
  match l with
  | _ :: t => dec_digits significand exp_before 0 t
  | [] => None
  end.

(* parse_long_integer: the significand no longer fits u64; further integer
   digits only raise the exponent *)
Fixpoint long_integer (significand : N) (exponent : Z) (l : list N) : option (pnum * list N) :=
  match l with
  | c :: t =>
    if is_digit c then long_integer significand (exponent + 1)%Z t
    else if c =? 46 then parse_decimal significand exponent l
    else if (c =? 101) || (c =? 69) then parse_exponent significand exponent l
    else float_result significand exponent l
  | [] => float_result significand exponent l
  end.

(* an integer without fraction and exponent: u64 when positive; when negative
   (significand as i64).wrapping_neg() if that is negative, else the float
   -(significand as f64) — so -0 and everything below i64::MIN are floats *)
Definition int_result (positive : bool) (significand : N) : pnum :=
  if positive then PU64 significand
  else if (0 <? significand) && (significand <=? 9223372036854775808)
       then PI64 (- Z.of_N significand) else PF64.

Definition parse_number (positive : bool) (significand : N) (l : list N) : option (pnum * list N) :=
  match l with
  | c :: _ =>
    if c =? 46 then parse_decimal significand 0 l
    else if (c =? 101) || (c =? 69) then parse_exponent significand 0 l
    else Some (int_result positive significand, l)
  | [] => Some (int_result positive significand, l)
  end.

Fixpoint int_digits (positive : bool) (significand : N) (l : list N) : option (pnum * list N) :=
  match l with
  | c :: t =>
    if is_digit c then
      if u64_max <? significand * 10 + (c - 48) then long_integer significand 0 l
      else int_digits positive (significand * 10 + (c - 48)) t
    else parse_number positive significand l
  | [] => parse_number positive significand l
  end.

(* parse_integer: [l] starts at the first digit (a '-' has been eaten) *)
Definition parse_integer (positive : bool) (l : list N) : option (pnum * list N) :=
  match l with
  | [] => None
  | c :: t =>
    if c =? 48 then
      match t with
      | c' :: _ => if is_digit c' then None else parse_number positive 0 t    (* only one leading 0 *)
      | [] => parse_number positive 0 t
      end
    else if in_range 49 57 c then int_digits positive (c - 48) t
    else None
  end.

(* ParserNumber::visit with ValueVisitor, seen through Number::as_i64 *)
Definition json_of_pnum (p : pnum) : json :=
  match p with
  | PU64 n => JNum (if n <=? i64_max then Some (Z.of_N n) else None)
  | PI64 z => JNum (Some z)
  | PF64 => JNum None
  end.

(* ---------- strings ---------- *)

Definition hex_val (c : N) : option N :=
  if is_digit c then Some (c - 48)
  else if in_range 65 70 c then Some (c - 55)
  else if in_range 97 102 c then Some (c - 87)
  else None.

(* decode_four_hex_digits *)
Definition hex4 (a b c d : N) : option N :=
  match hex_val a, hex_val b, hex_val c, hex_val d with
  | Some x, Some y, Some z, Some w => Some (((x * 16 + y) * 16 + z) * 16 + w)
  | _, _, _, _ => None
  end.

Definition simple_escape (e : N) : option N :=
  if e =? 34 then Some 34
  else if e =? 92 then Some 92
  else if e =? 47 then Some 47
  else if e =? 98 then Some 8
  else if e =? 102 then Some 12
  else if e =? 110 then Some 10
  else if e =? 114 then Some 13
  else if e =? 116 then Some 9
  else None.

Definition prepend (p : list N) (r : option (list N * list N)) : option (list N * list N) :=
  match r with Some (bs, rest) => Some (p ++ bs, rest) | None => None end.

Definition is_lead_surrogate (n : N) : bool := in_range 55296 56319 n.
Definition is_trail_surrogate (n : N) : bool := in_range 56320 57343 n.

(* parse_str_bytes with validate = true: [l] follows the opening quote; the
   result is the scratch buffer (raw bytes and the UTF-8 of the escapes) and the
   input after the closing quote.  \u escapes: a trailing surrogate first, or a
   leading one not followed by \u + trailing surrogate, is an error. *)
Fixpoint parse_str_bytes (l : list N) : option (list N * list N) :=
  match l with
  | [] => None
  | c :: t =>
    if c =? 34 then Some ([], t)
    else if c =? 92 then
      match t with
      | [] => None
      | e :: t1 =>
        if e =? 117 then
          match t1 with
          | a :: b :: c1 :: d :: t2 =>
            match hex4 a b c1 d with
            | None => None
            | Some n =>
              if is_trail_surrogate n then None
              else if is_lead_surrogate n then
                match t2 with
                | bs :: u :: a2 :: b2 :: c2 :: d2 :: t3 =>
                  if (bs =? 92) && (u =? 117) then
                    match hex4 a2 b2 c2 d2 with
                    | Some n2 =>
                      if is_trail_surrogate n2
                      then prepend (utf8_encode (65536 + (n - 55296) * 1024 + (n2 - 56320))) (parse_str_bytes t3)
                      else None
                    | None => None
                    end
                  else None
                | _ => None
                end
              else prepend (utf8_encode n) (parse_str_bytes t2)
            end
          | _ => None
          end
        else
          match simple_escape e with
          | Some b => prepend [b] (parse_str_bytes t1)
          | None => None
          end
      end
    else if c <? 32 then None          (* ControlCharacterWhileParsingString *)
    else prepend [c] (parse_str_bytes t)
  end.

Definition parse_str (l : list N) : option (str * list N) :=
  match parse_str_bytes l with
  | Some (bs, rest) =>
    match utf8_decode bs with
    | Some s => Some (s, rest)
    | None => None                     (* InvalidUnicodeCodePoint *)
    end
  | None => None
  end.

(* ------------------------------------------------------------------ reader: values *)

(* one member after the opening quote of its key: key, ':', value *)
Definition parse_member (pv : list N -> option (json * list N)) (l : list N)
  : option ((str * json) * list N) :=
  match parse_str l with
  | Some (k, r0) =>
    match skip_ws r0 with
    | c :: t =>
      if c =? 58 then
        match pv t with
        | Some (v, r) => Some ((k, v), r)
        | None => None
        end
      else None
    | [] => None
    end
  | None => None
  end.

Definition num_value (r : option (pnum * list N)) : option (json * list N) :=
  match r with Some (p, rest) => Some (json_of_pnum p, rest) | None => None end.

Definition lit_value (v : json) (r : option (list N)) : option (json * list N) :=
  match r with Some rest => Some (v, rest) | None => None end.

Fixpoint parse_value (fuel : list N) (rem : nat) (l : list N) {struct fuel} : option (json * list N) :=
  match fuel with
  | [] => None
  | _ :: f =>
    match skip_ws l with
    | [] => None
    | c :: t =>
      if c =? 110 then lit_value JNull (strip_prefix [117; 108; 108] t)
      else if c =? 116 then lit_value (JBool true) (strip_prefix [114; 117; 101] t)
      else if c =? 102 then lit_value (JBool false) (strip_prefix [97; 108; 115; 101] t)
      else if c =? 45 then num_value (parse_integer false t)
      else if is_digit c then num_value (parse_integer true (c :: t))
      else if c =? 34 then
        match parse_str t with
        | Some (s, r) => Some (JStr s, r)
        | None => None
        end
      else if c =? 91 then
        match rem with
        | S (S rem') =>
          match skip_ws t with
          | [] => None
          | c1 :: t1 =>
            if c1 =? 93 then Some (JArr [], t1)
            else
              match parse_value f (S rem') (c1 :: t1) with
              | Some (v, r) =>
                match parse_elems f (S rem') r with
                | Some (vs, r') => Some (JArr (v :: vs), r')
                | None => None
                end
              | None => None
              end
          end
        | _ => None                    (* RecursionLimitExceeded *)
        end
      else if c =? 123 then
        match rem with
        | S (S rem') =>
          match skip_ws t with
          | [] => None
          | c1 :: t1 =>
            if c1 =? 125 then Some (JObj [], t1)
            else if c1 =? 34 then
              match parse_member (parse_value f (S rem')) t1 with
              | Some (kv, r) =>
                match parse_members f (S rem') r with
                | Some (kvs, r') => Some (JObj (build_map (kv :: kvs)), r')
                | None => None
                end
              | None => None
              end
            else None                  (* KeyMustBeAString *)
          end
        | _ => None
        end
      else None                        (* ExpectedSomeValue *)
    end
  end

(* after an element: ']' ends the array, ',' must be followed by an element *)
with parse_elems (fuel : list N) (rem : nat) (l : list N) {struct fuel} : option (list json * list N) :=
  match fuel with
  | [] => None
  | _ :: f =>
    match skip_ws l with
    | [] => None
    | c :: t =>
      if c =? 93 then Some ([], t)
      else if c =? 44 then
        match skip_ws t with
        | [] => None
        | c1 :: t1 =>
          if c1 =? 93 then None        (* TrailingComma *)
          else
            match parse_value f rem (c1 :: t1) with
            | Some (v, r) =>
              match parse_elems f rem r with
              | Some (vs, r') => Some (v :: vs, r')
              | None => None
              end
            | None => None
            end
        end
      else None
    end
  end

(* after a member: '}' ends the object, ',' must be followed by a key *)
with parse_members (fuel : list N) (rem : nat) (l : list N) {struct fuel}
  : option (list (str * json) * list N) :=
  match fuel with
  | [] => None
  | _ :: f =>
    match skip_ws l with
    | [] => None
    | c :: t =>
      if c =? 125 then Some ([], t)
      else if c =? 44 then
        match skip_ws t with
        | [] => None
        | c1 :: t1 =>
          if c1 =? 34 then
            match parse_member (parse_value f rem) t1 with
            | Some (kv, r) =>
              match parse_members f rem r with
              | Some (kvs, r') => Some (kv :: kvs, r')
              | None => None
              end
            | None => None
            end
          else None                    (* TrailingComma / KeyMustBeAString *)
        end
      else None
    end
  end.

(* serde_json's default recursion limit: remaining_depth starts at 128 *)
Definition recursion_limit : nat := 128.

(* from_str::<Value> / from_slice / from_reader: one value, then only
   whitespace up to the end of the input *)
Definition parse_text (t : list N) : option json :=
  match parse_value (0 :: t) recursion_limit t with
  | Some (v, rest) =>
    match skip_ws rest with
    | [] => Some v
    | _ :: _ => None                   (* TrailingCharacters *)
    end
  | None => None
  end.

(* ------------------------------------------------------------------ the saved layout file *)

(* what derive(Serialize) feeds the serializer for a keys::Layout: struct
   fields in declaration order (Mapping: from, to, repeat, absorbing; the
   struct variant Special: keys, delay_ms, interval_ms).  Its canonical form is
   Serde.to_json (JsonTextLemmas.canon_ser_layout). *)
Definition ser_repeat (r : repeat) : json :=
  match r with
  | RNormal => JStr (lit "Normal")
  | RDisabled => JStr (lit "Disabled")
  | RSpecial ks d i =>
    JObj [ (lit "Special",
            JObj [ (lit "keys", keys_json ks);
                   (lit "delay_ms", JNum (Some d));
                   (lit "interval_ms", JNum (Some i)) ]) ]
  end.

Definition ser_mapping (m : mapping) : json :=
  JObj [ (lit "from", keys_json (m_from m));
         (lit "to", keys_json (m_to m));
         (lit "repeat", ser_repeat (m_repeat m));
         (lit "absorbing", keys_json (m_abs m)) ].

Definition ser_layout (L : layout) : json :=
  JObj [ (lit "mappings", JArr (map ser_mapping L)) ].

(* write_layout_to_global_config: serde_json::to_writer_pretty(file, &layout) *)
Definition save_text (L : layout) : list N := print_pretty (ser_layout L).

(* load_layout_from_file: serde_json::from_reader, then parse_layout_from_json,
   then convert; a JSON error is an Err like any other *)
Definition load_text (t : list N) : res layout :=
  match parse_text t with
  | Some j => load j
  | None => Err
  end.
