(* MapperChoice.v — C03: in a layout without absorbing mappings the mapping a
   press fires is the declarative choice over the PHYSICALLY held keys. *)
From TM Require Import Base ListFacts Mapper Monitors Trace TraceLemmas MapperInv MapperProps MapperFire MapperNoAbs.

Lemma rev_filter {A} (f : A -> bool) (l : list A) : rev (filter f l) = filter f (rev l).
Proof.
  induction l as [|x t IH]; [reflexivity|]. cbn [filter rev].
  rewrite filter_app. cbn [filter]. destruct (f x); cbn [rev]; rewrite IH; [reflexivity | rewrite app_nil_r; reflexivity].
Qed.

Lemma find_filter {A} (p f : A -> bool) (l : list A) :
  find p (filter f l) = find (fun x => f x && p x) l.
Proof.
  induction l as [|x t IH]; [reflexivity|]. cbn [filter find].
  destruct (f x); cbn [andb find]; [rewrite IH; reflexivity | exact IH].
Qed.

Lemma find_ext_in {A} (p q : A -> bool) (l : list A) :
  (forall x, In x l -> p x = q x) -> find p l = find q l.
Proof.
  induction l as [|x t IH]; intros H; [reflexivity|]. cbn [find].
  rewrite (H x (or_introl eq_refl)). destruct (q x); [reflexivity|]. apply IH. intros y Hy. apply H. right. exact Hy.
Qed.

Lemma forallb_ext_in {A} (p q : A -> bool) (l : list A) :
  (forall x, In x l -> p x = q x) -> forallb p l = forallb q l.
Proof.
  induction l as [|x t IH]; intros H; [reflexivity|]. cbn [forallb].
  rewrite (H x (or_introl eq_refl)). f_equal. apply IH. intros y Hy. apply H. right. exact Hy.
Qed.

Section S.
Variable is_action : key -> bool.

Lemma supported_is_choice (m : mapping) (k : key) (inp0 phys : list key) :
  wf_mapping m -> has_final k m = true -> seteq inp0 phys ->
  is_supported (m_from m) inp0 [] k = subset (removelast (m_from m)) phys.
Proof.
  intros [_ [Hnd _]] Hfin Hse. unfold has_final in Hfin.
  destruct (last_opt (m_from m)) as [l|] eqn:El; [|discriminate]. apply N.eqb_eq in Hfin. subst l.
  pose proof (last_opt_removelast _ _ El) as Hsplit.
  unfold is_supported, subset. rewrite Hsplit at 1. rewrite forallb_app. cbn [forallb].
  rewrite N.eqb_refl, orb_true_r, andb_true_r.
  apply forallb_ext_in. intros f Hf. cbn [mem existsb negb]. rewrite andb_true_r.
  assert (Hne : N.eqb f k = false).
  { apply N.eqb_neq. intro E. subst f. rewrite Hsplit in Hnd.
    apply (NoDup_app_disj _ _ k Hnd Hf). left. reflexivity. }
  rewrite Hne, orb_false_r. apply mem_seteq. exact Hse.
Qed.

Lemma fired_eq_choice L s k phys :
  wf_layout L -> clean s -> seteq (inp s) phys -> mem k phys = false ->
  fired L s k = spec_choice L phys k.
Proof.
  intros Hwf [C1 C2] Hse Hk.
  assert (Hki : mem k (inp s) = false) by (rewrite (mem_seteq _ _ k Hse); exact Hk).
  rewrite (fired_spec L s k Hki). unfold spec_choice, group_of, pre_press. sf.
  rewrite C1. cbn [remove_all filter].
  replace (if should_absorb _ k then [] else []) with (@nil key) by (destruct (should_absorb _ k); reflexivity).
  rewrite rev_filter, find_filter. apply find_ext_in. intros m Hm.
  apply in_rev in Hm. destruct (has_final k m) eqn:Hf; cbn [andb]; [|reflexivity].
  apply supported_is_choice; [apply Hwf; exact Hm | exact Hf | exact Hse].
Qed.

Lemma press_none_events L s k :
  Inv L s -> mem k (inp s) = false -> fired L s k = None ->
  let evs := fst (fst (step is_action L s (Pressed k))) in
  if existsb (mentions k) (act s) then evs = [] else last_opt evs = Some (Pressed k).
Proof.
  intros I Hk Hf. cbn [step]. rewrite Hk. rewrite (fired_spec L s k Hk) in Hf.
  unfold newly_press. cbn zeta. fold (pre_press s k). rewrite Hf.
  change (act (pre_press s k)) with (act s). change (pass (pre_press s k)) with (pass s).
  destruct (existsb (mentions k) (act s)); [reflexivity|].
  assert (Hp : mem k (pass s) = false).
  { apply mem_false. intro H. apply mem_false in Hk. apply Hk. apply (i_pass_inp _ _ I). exact H. }
  rewrite Hp.
  destruct (if is_action k then _ else _) as [e1 s2]. cbn [fst]. apply last_opt_app.
Qed.

(* C03 *)
Lemma choice_fires L h k :
  wf_layout L -> noabs L -> mem k (phys_of h) = false ->
  let s := state_of is_action L h in
  let r := step is_action L s (Pressed k) in
  let held' := held_all is_action L (h ++ [IEv (Pressed k)]) in
  match spec_choice L (phys_of h) k with
  | Some m =>
    (exists A, act (snd r) = A ++ [m] /\ forall m', In m' A -> In m' (act s))
    /\ (forall t, In t (m_to m) -> is_action t = true -> In (Pressed t) (fst (fst r)))
    /\ (forall t, In t (m_to m) -> is_action t = false -> In t held')
    /\ (m_repeat m = RNormal -> forall t, In t (m_to m) -> In t held')
  | None =>
    if existsb (mentions k) (act s) then fst (fst r) = [] else last_opt (fst (fst r)) = Some (Pressed k)
  end.
Proof.
  intros Hwf Hna Hk. cbn zeta.
  destruct (run_facts is_action L h Hwf) as [I _].
  destruct (noabs_state is_action L h Hwf Hna) as [Hc Hse].
  assert (Hki : mem k (inp (state_of is_action L h)) = false) by (rewrite (mem_seteq _ _ k Hse); exact Hk).
  rewrite <- (fired_eq_choice L _ k _ Hwf Hc Hse Hk).
  destruct (fired L (state_of is_action L h) k) as [m|] eqn:Ef.
  - pose proof (fire_facts is_action L _ k m Hwf I Hki Ef) as R. cbn zeta in R.
    destruct R as [H1 [H2 [H3 [_ H5]]]].
    assert (Hheld : forall t, In t (held_of (snd (step is_action L (state_of is_action L h) (Pressed k)))) ->
                     In t (held_all is_action L (h ++ [IEv (Pressed k)]))).
    { intros t Ht. apply (held_all_seteq is_action L _ Hwf). rewrite state_of_snoc. cbn [mstep].
      destruct (step is_action L (state_of is_action L h) (Pressed k)) as [[evs rep] s']. exact Ht. }
    split; [exact H5|]. split; [exact H1|]. split.
    + intros t Ht Ha. apply Hheld. apply H2; assumption.
    + intros Hn t Ht. apply Hheld. apply H3; assumption.
  - apply (press_none_events L _ k I Hki Ef).
Qed.

End S.
