(* Base.v — list utilities shared by the models.  Definitions only. *)
From Coq Require Export List NArith ZArith Bool.
Export ListNotations.

Definition key := N.

(* Vec::contains on keys *)
Definition mem (k : key) (l : list key) : bool := existsb (N.eqb k) l.

(* last element, None on the empty list (Rust: v[v.len()-1] panics there) *)
Fixpoint last_opt {A} (l : list A) : option A :=
  match l with
  | [] => None
  | [x] => Some x
  | _ :: t => last_opt t
  end.

(* Vec::remove(i) *)
Fixpoint remove_nth {A} (i : nat) (l : list A) : list A :=
  match l, i with
  | [], _ => []
  | _ :: t, O => t
  | x :: t, S j => x :: remove_nth j t
  end.

(* remove the LAST occurrence of k (reverse index loop with break) *)
Fixpoint remove_last (k : key) (l : list key) : list key :=
  match l with
  | [] => []
  | x :: t => if mem k t then x :: remove_last k t
              else if N.eqb x k then t else x :: t
  end.

(* retain(|x| x != k) *)
Definition remove_all (k : key) (l : list key) : list key :=
  filter (fun x => negb (N.eqb x k)) l.

(* push unless already contained, over a list: keeps first occurrences *)
Definition push_new (acc : list key) (k : key) : list key :=
  if mem k acc then acc else acc ++ [k].

Definition dedup (l : list key) : list key := fold_left push_new l [].

Definition subset (a b : list key) : bool := forallb (fun k => mem k b) a.

Fixpoint nodupb (l : list key) : bool :=
  match l with
  | [] => true
  | x :: t => negb (mem x t) && nodupb t
  end.
