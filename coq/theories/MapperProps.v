(* MapperProps.v — history-level consequences of the invariant:
   C19 (no redundant events), C01 (no stuck keys), C02 (held keys justified). *)
From TM Require Import Base ListFacts Mapper Monitors Trace TraceLemmas MapperInv.

Section S.
Variable is_action : key -> bool.

(* everything written to the output by a history, in order *)
Definition out_all (L : layout) (h : list input) : list event :=
  concat (fst (mrun is_action L init h)).

(* the mapper state after a history *)
Definition state_of (L : layout) (h : list input) : state := snd (mrun is_action L init h).

(* keys held on the output device after a history: fold of all output events *)
Definition held_all (L : layout) (h : list input) : list key := apply_evs [] (out_all L h).

(* keys physically held after a history (release-all forgets keys the mapper
   will not see released: they count as not held for the mapper) *)
Definition phys_of (h : list input) : list key := phys_all [] h.

Lemma run_facts L h :
  wf_layout L ->
  Inv L (state_of L h)
  /\ tr_ok [] (out_all L h) (held_of (state_of L h))
  /\ incl (inp (state_of L h)) (phys_of h).
Proof.
  intros Hwf. pose proof (mrun_inv is_action L h init [] Hwf (Inv_init L) (fun x H => H)) as R.
  cbn zeta in R. exact R.
Qed.

Lemma held_all_seteq L h : wf_layout L -> seteq (held_all L h) (held_of (state_of L h)).
Proof. intros Hwf. destruct (run_facts L h Hwf) as [_ [[_ S] _]]. exact S. Qed.

(* C19 *)
Lemma no_redundant L h : wf_layout L -> redundant [] (out_all L h) = false.
Proof. intros Hwf. destruct (run_facts L h Hwf) as [_ [[R _] _]]. exact R. Qed.

Lemma seteq_nil_l a : seteq a [] -> a = [].
Proof. intros H. destruct a as [|x t]; [reflexivity|]. exfalso. apply (H x). left. reflexivity. Qed.

(* C01 *)
Lemma no_stuck_keys L h : wf_layout L -> phys_of h = [] -> held_all L h = [].
Proof.
  intros Hwf Hp. destruct (run_facts L h Hwf) as [I [_ Hinp]].
  assert (Hi : inp (state_of L h) = []).
  { destruct (inp (state_of L h)) as [|x t] eqn:E; [reflexivity|]. exfalso.
    specialize (Hinp x (or_introl eq_refl)). rewrite Hp in Hinp. contradiction. }
  destruct (Inv_inp_nil L _ Hwf I Hi) as [_ [Hpa Hmo]].
  apply seteq_nil_l. pose proof (held_all_seteq L h Hwf) as S.
  unfold held_of in S. rewrite Hpa, Hmo in S. exact S.
Qed.

(* C02, clause 1 *)
Lemma held_justified L h k :
  wf_layout L -> In k (held_all L h) -> justified L (phys_of h) k = true.
Proof.
  intros Hwf Hk. destruct (run_facts L h Hwf) as [I [_ Hinp]].
  apply (held_all_seteq L h Hwf) in Hk. unfold held_of in Hk. apply in_app_or in Hk.
  unfold justified. apply orb_true_iff. destruct Hk as [Hk|Hk].
  - left. apply mem_In. apply Hinp. apply (i_pass_inp _ _ I). exact Hk.
  - right. destruct (i_mout _ _ I k Hk) as [m [Hm Hkm]]. destruct (i_act _ _ I m Hm) as [HL Hincl].
    apply existsb_exists. exists m. split; [exact HL|]. apply andb_true_iff. split; [apply mem_In; exact Hkm|].
    apply subset_incl. intros f Hf. apply Hinp. apply Hincl. exact Hf.
Qed.

(* C02, clause 2 *)
Lemma silenced_never_held L h k :
  wf_layout L -> silenced L k = true -> ~ In k (held_all L h).
Proof.
  intros Hwf Hs Hk. destruct (run_facts L h Hwf) as [I _].
  apply (held_all_seteq L h Hwf) in Hk. unfold held_of in Hk. apply in_app_or in Hk. destruct Hk as [Hk|Hk].
  - rewrite (i_silenced _ _ I k Hk) in Hs. discriminate.
  - assert (silenced L k = false).
    { eapply silenced_not_out; [|apply (i_mout _ _ I); exact Hk]. intros m Hm. apply (i_act _ _ I). exact Hm. }
    congruence.
Qed.

(* C02, clause 3: from ANY state, a release input (or release-all) only releases *)
Lemma release_never_presses L s i :
  match i with IEv (Pressed _) => True
             | _ => forallb (fun e => negb (is_pressed e)) (fst (fst (mstep is_action L s i))) = true end.
Proof.
  destruct i as [[k|k]|]; [exact I | |].
  - cbn [mstep]. pose proof (step_released_only is_action L s k) as H.
    destruct (step is_action L s (Released k)) as [[e r] s']. exact H.
  - cbn [mstep]. unfold release_all.
    assert (forall ks evs s0, all_released evs ->
              all_released (fst (fold_left (release_all_one is_action L) ks (evs, s0)))) as Hf.
    { induction ks as [|k t IH]; intros evs s0 He; cbn [fold_left]; [exact He|].
      rewrite release_all_one_eq. apply IH. apply all_released_app_intro; [exact He | apply step_released_only]. }
    specialize (Hf (inp s) [] s eq_refl).
    destruct (fold_left (release_all_one is_action L) (inp s) ([], s)) as [e s']. exact Hf.
Qed.

(* C02, clause 4: a trigger key of a mapping in effect (= in the active list) is
   held on the output only if a mapping in effect outputs it *)
Lemma trigger_consumed L h m f :
  wf_layout L -> In m (act (state_of L h)) -> In f (m_from m) -> In f (held_all L h) ->
  still_used (act (state_of L h)) f = true.
Proof.
  intros Hwf Hm Hf Hh. destruct (run_facts L h Hwf) as [I _].
  apply (held_all_seteq L h Hwf) in Hh. unfold held_of in Hh. apply in_app_or in Hh. destruct Hh as [Hh|Hh].
  - exfalso. exact (i_from_pass _ _ I m f Hm Hf Hh).
  - apply still_used_out_of. apply (i_mout _ _ I). exact Hh.
Qed.

End S.

(* ---------- extending a history by one input ---------- *)
Section Snoc.
Variable is_action : key -> bool.

Lemma mrun_app L : forall h1 h2 s,
  mrun is_action L s (h1 ++ h2) =
  (fst (mrun is_action L s h1) ++ fst (mrun is_action L (snd (mrun is_action L s h1)) h2),
   snd (mrun is_action L (snd (mrun is_action L s h1)) h2)).
Proof.
  induction h1 as [|i h1 IH]; intros h2 s; cbn [app mrun].
  - cbn [fst snd app]. destruct (mrun is_action L s h2); reflexivity.
  - destruct (mstep is_action L s i) as [[evs rep] s1]. rewrite IH.
    destruct (mrun is_action L s1 h1) as [o1 s2]. cbn [fst snd].
    destruct (mrun is_action L s2 h2) as [o2 s3]. reflexivity.
Qed.

Lemma state_of_snoc L h i :
  state_of is_action L (h ++ [i]) = snd (mstep is_action L (state_of is_action L h) i).
Proof.
  unfold state_of. rewrite mrun_app. cbn [snd mrun].
  destruct (mstep is_action L _ i) as [[evs rep] s1]. reflexivity.
Qed.

Lemma out_all_snoc L h i :
  out_all is_action L (h ++ [i]) =
  out_all is_action L h ++ fst (fst (mstep is_action L (state_of is_action L h) i)).
Proof.
  unfold out_all, state_of. rewrite mrun_app. cbn [fst mrun].
  destruct (mstep is_action L _ i) as [[evs rep] s1]. cbn [fst snd].
  rewrite concat_app. cbn [concat]. rewrite app_nil_r. reflexivity.
Qed.

Lemma phys_of_snoc h i : phys_of (h ++ [i]) = phys_after (phys_of h) i.
Proof. unfold phys_of, phys_all. rewrite fold_left_app. reflexivity. Qed.

End Snoc.
