(* Parser.v — executable model of src/layout_parsing_formatting.rs
   (parse_layout_from_json and its helpers).  Definitions only; one Gallina
   function per Rust function, same order of checks.  Err = the Rust function
   returns Err(_); Panic = it would panic (see RustOps.v). *)
From TM Require Export Base Json RustOps Fancy.
From TMGen Require Import KeyTable.

(* ---------- field names ---------- *)
Definition k_mappings := lit "mappings".
Definition k_from := lit "from".
Definition k_to := lit "to".
Definition k_repeat := lit "repeat".
Definition k_absorbing := lit "absorbing".
Definition k_row := lit "row".
Definition k_letters := lit "letters".
Definition k_Special := lit "Special".
Definition k_keys := lit "keys".
Definition k_delay_ms := lit "delay_ms".
Definition k_interval_ms := lit "interval_ms".

(* fn has_exactly_keys: both key lists are sorted and compared.  [check] is a
   duplicate-free literal at every call site, so "same length and every
   expected key present" is the same test (pigeonhole), for any object. *)
Definition has_exactly_keys (kvs : list (str * json)) (check : list str) : bool :=
  Nat.eqb (length kvs) (length check) && forallb (fun c => existsb (str_eqb c) (obj_keys kvs)) check.

(* fn has_at_least_keys *)
Definition has_at_least_keys (kvs : list (str * json)) (check : list str) : bool :=
  forallb (obj_has kvs) check.

(* ---------- strings ---------- *)

(* str::starts_with("@") *)
Definition starts_with_at (t : str) : bool :=
  match t with c :: _ => N.eqb c 64 | [] => false end.

(* char::to_uppercase / to_lowercase.  The results are only ever compared with
   ASCII strings ("`" "1" "Q" "A" "Z", "normal", "disabled"), so the mapping is
   exact on ASCII and on every non-ASCII scalar whose image contains an ASCII
   scalar (enumerated from rustc's tables: 17 for upper, 2 for lower; the only
   context-sensitive rule of str::to_lowercase, final sigma, stays non-ASCII)
   and the identity elsewhere.  The correspondence substitutes every cased
   scalar (thorough tier: every scalar) at every position of the names. *)
Definition upper_special : list (N * str) :=
  [ (223, [83; 83]); (305, [73]); (329, [700; 78]); (383, [83]); (496, [74; 780]);
    (7830, [72; 817]); (7831, [84; 776]); (7832, [87; 778]); (7833, [89; 778]); (7834, [65; 702]);
    (64256, [70; 70]); (64257, [70; 73]); (64258, [70; 76]); (64259, [70; 70; 73]);
    (64260, [70; 70; 76]); (64261, [83; 84]); (64262, [83; 84]) ]%N.

Definition lower_special : list (N * str) := [ (304, [105; 775]); (8490, [107]) ]%N.

Fixpoint assoc_N {A} (c : N) (l : list (N * A)) : option A :=
  match l with
  | [] => None
  | (c', v) :: t => if N.eqb c c' then Some v else assoc_N c t
  end.

Definition char_upper (c : N) : str :=
  if (97 <=? c)%N && (c <=? 122)%N then [(c - 32)%N]
  else match assoc_N c upper_special with Some s => s | None => [c] end.

Definition char_lower (c : N) : str :=
  if (65 <=? c)%N && (c <=? 90)%N then [(c + 32)%N]
  else match assoc_N c lower_special with Some s => s | None => [c] end.

Definition to_uppercase (s : str) : str := flat_map char_upper s.
Definition to_lowercase (s : str) : str := flat_map char_lower s.

(* ---------- key names ---------- *)

(* enum_utils' derived FromStr: exact, case-sensitive match on the variant name *)
Definition key_names : list (str * key) := map (fun e => (lit (fst (fst e)), snd (fst e))) key_table.

Definition key_from_str (t : str) : option key := assoc_str t key_names.

(* the ten literal arms of parse_key_code: "0" => KeyCode::K0 ... *)
Definition digit_arms : list (str * str) :=
  [ (lit "0", lit "K0"); (lit "1", lit "K1"); (lit "2", lit "K2"); (lit "3", lit "K3"); (lit "4", lit "K4");
    (lit "5", lit "K5"); (lit "6", lit "K6"); (lit "7", lit "K7"); (lit "8", lit "K8"); (lit "9", lit "K9") ].

Definition opt_res {A} (o : option A) : res A := match o with Some a => Ok a | None => Err end.

(* fn parse_key_code *)
Definition parse_key_code (t : str) : res key :=
  if starts_with_at t then Err
  else match assoc_str t digit_arms with
       | Some ident => opt_res (key_from_str ident)   (* the variant exists or the crate does not compile *)
       | None => opt_res (key_from_str t)
       end.

(* fn parse_key_code_j *)
Definition parse_key_code_j (v : json) : res key :=
  match v with JStr t => parse_key_code t | _ => Err end.

(* fn parse_modifier *)
Definition parse_modifier (t : str) : res modifier :=
  if starts_with_at t then Ok (MAlias t) else k <- parse_key_code t ;; Ok (MKey k).

(* fn parse_from_modifier *)
Definition parse_from_modifier (v : json) : res modifier :=
  match v with
  | JStr t => if starts_with_at t then Ok (MAlias t) else k <- parse_key_code t ;; Ok (MKey k)
  | _ => Err
  end.

(* fn parse_from_modifiers *)
Definition parse_from_modifiers (vs : list json) : res (list modifier) := map_res parse_from_modifier vs.

(* ---------- from ---------- *)

Inductive from_key := FKSingle (k : key) | FKRow (r : row).
Inductive from_keys := FromSingle (f : single_from) | FromRow (f : row_from).

(* ROW_NAMES *)
Definition row_names : list (str * row) :=
  [ (lit "`", RowGrave); (lit "1", Row1); (lit "Q", RowQ); (lit "A", RowA); (lit "Z", RowZ) ].

(* fn parse_row *)
Definition parse_row (t : str) : res row := opt_res (assoc_str (to_uppercase t) row_names).

(* fn parse_from_row *)
Definition parse_from_row (elems : list (str * json)) : res from_key :=
  if has_exactly_keys elems [k_row] then
    row_obj <- unwrap "parse_from_row:get(row).unwrap" (obj_get elems k_row) ;;
    match row_obj with
    | JStr t => r <- parse_row t ;; Ok (FKRow r)
    | _ => Err
    end
  else Err.

(* fn parse_from_key_text *)
Definition parse_from_key_text (t : str) : res from_key := k <- parse_key_code t ;; Ok (FKSingle k).

(* fn parse_from_key_obj *)
Definition parse_from_key_obj (obj : list (str * json)) : res from_key :=
  if has_exactly_keys obj [k_row] then parse_from_row obj else Err.

(* fn parse_from_key *)
Definition parse_from_key (v : json) : res from_key :=
  match v with
  | JStr t => parse_from_key_text t
  | JObj obj => parse_from_key_obj obj
  | _ => Err
  end.

(* fn parse_from *)
Definition parse_from (v : json) : res from_keys :=
  match v with
  | JArr elems =>
    if Nat.eqb (length elems) 0 then Err
    else
      n1 <- usub "parse_from:len-1" (length elems) 1 ;;
      sl <- slice "parse_from:from_elems[0..len-1]" elems 0 n1 ;;
      modifiers <- parse_from_modifiers sl ;;
      lastv <- idx "parse_from:from_elems[len-1]" elems n1 ;;
      key <- parse_from_key lastv ;;
      match key with
      | FKSingle k => Ok (FromSingle (mkSingleFrom modifiers k))
      | FKRow r => Ok (FromRow (mkRowFrom modifiers r))
      end
  | _ =>
    key <- parse_from_key v ;;
    match key with
    | FKSingle k => Ok (FromSingle (mkSingleFrom [] k))
    | FKRow r => Ok (FromRow (mkRowFrom [] r))
    end
  end.

(* fn single_to_alias_from *)
Definition single_to_alias_from (f : single_from) : res (list key) :=
  ks <- map_res (fun m => match m with MKey k => Ok k | MAlias _ => Err end) (sf_mods f) ;;
  Ok (ks ++ [sf_key f]).

(* ---------- to ---------- *)

Inductive soa_terminal := SoaSingle (t : terminal) | SoaAlias (name : str).
Inductive soa_to := SoaToSingle (t : single_to) | SoaToAlias (initial : list key) (name : str).

(* fn parse_to_initial_elem *)
Definition parse_to_initial_elem (v : json) : res modifier :=
  match v with
  | JStr t => if starts_with_at t then Ok (MAlias t) else k <- parse_key_code t ;; Ok (MKey k)
  | _ => Err
  end.

(* fn parse_to_initial *)
Definition parse_to_initial (vs : list json) : res (list modifier) := map_res parse_to_initial_elem vs.

(* fn parse_alias_to_initial *)
Definition parse_alias_to_initial (vs : list json) : res (list key) := map_res parse_key_code_j vs.

(* fn parse_single_or_alias_to_text *)
Definition parse_single_or_alias_to_text (t : str) : res soa_terminal :=
  if starts_with_at t then Ok (SoaAlias t)
  else k <- parse_key_code t ;; Ok (SoaSingle (TPhysical k)).

(* fn parse_single_to_text *)
Definition parse_single_to_text (t : str) : res terminal :=
  if starts_with_at t then Err else k <- parse_key_code t ;; Ok (TPhysical k).

(* fn parse_single_or_alias_to_terminal *)
Definition parse_single_or_alias_to_terminal (v : json) : res soa_terminal :=
  match v with
  | JStr t => parse_single_or_alias_to_text t
  | _ => Err
  end.

(* fn parse_single_to_terminal *)
Definition parse_single_to_terminal (v : json) : res terminal :=
  match v with
  | JStr t => parse_single_to_text t
  | _ => Err
  end.

(* fn parse_row_to_obj *)
Definition parse_row_to_obj (attrs : list (str * json)) : res str :=
  if has_exactly_keys attrs [k_letters] then
    letters <- unwrap "parse_row_to_obj:get(letters).unwrap" (obj_get attrs k_letters) ;;
    match letters with
    | JStr t => Ok t
    | _ => Err
    end
  else Err.

(* fn parse_row_to_terminal *)
Definition parse_row_to_terminal (v : json) : res str :=
  match v with
  | JObj attrs => parse_row_to_obj attrs
  | _ => Err
  end.

(* fn parse_single_or_alias_to_array *)
Definition parse_single_or_alias_to_array (elems : list json) : res soa_to :=
  if Nat.eqb (length elems) 0 then Ok (SoaToSingle (mkSingleTo [] TNull))
  else
    n1 <- usub "parse_single_or_alias_to_array:len-1" (length elems) 1 ;;
    lastv <- idx "parse_single_or_alias_to_array:to_elems[len-1]" elems n1 ;;
    terminal <- parse_single_or_alias_to_terminal lastv ;;
    match terminal with
    | SoaSingle t =>
      sl <- slice "parse_single_or_alias_to_array:to_elems[0..len-1]" elems 0 n1 ;;
      initial <- parse_to_initial sl ;;
      Ok (SoaToSingle (mkSingleTo initial t))
    | SoaAlias name =>
      sl <- slice "parse_single_or_alias_to_array:to_elems[0..len-1]" elems 0 n1 ;;
      initial <- parse_alias_to_initial sl ;;
      Ok (SoaToAlias initial name)
    end.

(* fn parse_single_to_array *)
Definition parse_single_to_array (elems : list json) : res single_to :=
  if Nat.eqb (length elems) 0 then Ok (mkSingleTo [] TNull)
  else
    n1 <- usub "parse_single_to_array:len-1" (length elems) 1 ;;
    sl <- slice "parse_single_to_array:to_elems[0..len-1]" elems 0 n1 ;;
    initial <- parse_to_initial sl ;;
    lastv <- idx "parse_single_to_array:to_elems[len-1]" elems n1 ;;
    terminal <- parse_single_to_terminal lastv ;;
    Ok (mkSingleTo initial terminal).

(* fn parse_row_to_array *)
Definition parse_row_to_array (elems : list json) : res row_to :=
  if Nat.eqb (length elems) 0 then Err
  else
    n1 <- usub "parse_row_to_array:len-1" (length elems) 1 ;;
    sl <- slice "parse_row_to_array:to_elems[0..len-1]" elems 0 n1 ;;
    initial <- parse_to_initial sl ;;
    lastv <- idx "parse_row_to_array:to_elems[len-1]" elems n1 ;;
    terminal <- parse_row_to_terminal lastv ;;
    Ok (mkRowTo initial terminal).

(* fn parse_single_or_alias_to *)
Definition parse_single_or_alias_to (v : json) : res soa_to :=
  match v with
  | JArr elems => parse_single_or_alias_to_array elems
  | _ =>
    terminal <- parse_single_or_alias_to_terminal v ;;
    match terminal with
    | SoaSingle t => Ok (SoaToSingle (mkSingleTo [] t))
    | SoaAlias name => Ok (SoaToAlias [] name)
    end
  end.

(* fn parse_single_to *)
Definition parse_single_to (v : json) : res single_to :=
  match v with
  | JArr elems => parse_single_to_array elems
  | _ => t <- parse_single_to_terminal v ;; Ok (mkSingleTo [] t)
  end.

(* fn parse_row_to *)
Definition parse_row_to (v : json) : res row_to :=
  match v with
  | JArr elems => parse_row_to_array elems
  | _ => t <- parse_row_to_terminal v ;; Ok (mkRowTo [] t)
  end.

(* ---------- repeat, absorbing ---------- *)

(* fn parse_repeat_delay_ms / parse_repeat_interval_ms: n.as_i64()? as i32 *)
Definition parse_repeat_ms (v : json) : res Z :=
  match v with
  | JNum (Some z) => Ok (wrap_i32 z)
  | JNum None => Err
  | _ => Err
  end.
Definition parse_repeat_delay_ms := parse_repeat_ms.
Definition parse_repeat_interval_ms := parse_repeat_ms.

(* fn parse_single_repeat_keys / parse_row_repeat_keys *)
Definition parse_single_repeat_keys := parse_single_to.
Definition parse_row_repeat_keys := parse_row_to.

Definition name_normal := lit "normal".
Definition name_disabled := lit "disabled".

(* the common skeleton of parse_single_repeat and parse_row_repeat: [pk] parses
   the `keys` attribute *)
Definition parse_repeat_special {K} (pk : json -> res K) (params : list (str * json)) : res (K * Z * Z) :=
  if has_exactly_keys params [k_Special] then
    special <- unwrap "parse_repeat:get(Special).unwrap" (obj_get params k_Special) ;;
    match special with
    | JObj sp =>
      if has_exactly_keys sp [k_keys; k_delay_ms; k_interval_ms] then
        keys <- unwrap "parse_repeat:get(keys).unwrap" (obj_get sp k_keys) ;;
        delay_ms <- unwrap "parse_repeat:get(delay_ms).unwrap" (obj_get sp k_delay_ms) ;;
        interval_ms <- unwrap "parse_repeat:get(interval_ms).unwrap" (obj_get sp k_interval_ms) ;;
        ks <- pk keys ;;
        d <- parse_repeat_delay_ms delay_ms ;;
        i <- parse_repeat_interval_ms interval_ms ;;
        Ok (ks, d, i)
      else Err
    | _ => Err
    end
  else Err.

(* fn parse_single_repeat *)
Definition parse_single_repeat (ov : option json) : res single_repeat :=
  match ov with
  | None => Ok SRNormal
  | Some (JStr t) =>
    if str_eqb (to_lowercase t) name_normal then Ok SRNormal
    else if str_eqb (to_lowercase t) name_disabled then Ok SRDisabled
    else Err
  | Some (JObj params) =>
    '(ks, d, i) <- parse_repeat_special parse_single_repeat_keys params ;; Ok (SRSpecial ks d i)
  | Some _ => Err
  end.

(* fn parse_row_repeat *)
Definition parse_row_repeat (ov : option json) : res row_repeat :=
  match ov with
  | None => Ok WRNormal
  | Some (JStr t) =>
    if str_eqb (to_lowercase t) name_normal then Ok WRNormal
    else if str_eqb (to_lowercase t) name_disabled then Ok WRDisabled
    else Err
  | Some (JObj params) =>
    '(ks, d, i) <- parse_repeat_special parse_row_repeat_keys params ;; Ok (WRSpecial ks d i)
  | Some _ => Err
  end.

(* fn parse_absorbing *)
Definition parse_absorbing (ov : option json) : res (list modifier) :=
  match ov with
  | None => Ok []
  | Some (JArr elems) =>
    map_res (fun e => match e with JStr t => parse_modifier t | _ => Err end) elems
  | Some (JStr t) => m <- parse_modifier t ;; Ok [m]
  | Some _ => Err
  end.

(* `for m in &absorbing { if !from.modifiers.contains(m) { return Err } }` *)
Definition absorbing_on_from (absorbing mods : list modifier) : bool :=
  forallb (fun m => existsb (modifier_eqb m) mods) absorbing.

(* ---------- one mapping ---------- *)

(* fn parse_mapping_from_json *)
Definition parse_mapping_from_json (v : json) : res fmapping :=
  match v with
  | JObj mv =>
    if has_at_least_keys mv [k_from; k_to] then
      from_v <- unwrap "parse_mapping_from_json:get(from).unwrap" (obj_get mv k_from) ;;
      from <- parse_from from_v ;;
      match from with
      | FromSingle from =>
        to_v <- unwrap "parse_mapping_from_json:get(to).unwrap" (obj_get mv k_to) ;;
        to <- parse_single_or_alias_to to_v ;;
        match to with
        | SoaToSingle to =>
          repeat <- parse_single_repeat (obj_get mv k_repeat) ;;
          absorbing <- parse_absorbing (obj_get mv k_absorbing) ;;
          if absorbing_on_from absorbing (sf_mods from) then Ok (FSingle from to repeat absorbing)
          else Err
        | SoaToAlias initial name =>
          if obj_has mv k_repeat then Err
          else if obj_has mv k_absorbing then Err
          else ks <- single_to_alias_from from ;; Ok (FAlias (mkAlias ks initial name))
        end
      | FromRow from =>
        to_v <- unwrap "parse_mapping_from_json:get(to).unwrap" (obj_get mv k_to) ;;
        to <- parse_row_to to_v ;;
        repeat <- parse_row_repeat (obj_get mv k_repeat) ;;
        if match repeat with
           | WRSpecial keys _ _ => (length (rt_letters to) <? length (rt_letters keys))%nat
           | _ => false
           end
        then Err
        else
          absorbing <- parse_absorbing (obj_get mv k_absorbing) ;;
          if absorbing_on_from absorbing (rf_mods from) then Ok (FRow from to repeat absorbing)
          else Err
      end
    else if has_exactly_keys mv [k_from; k_repeat] then
      from_v <- unwrap "parse_mapping_from_json:get(from).unwrap" (obj_get mv k_from) ;;
      from <- parse_from from_v ;;
      match from with
      | FromSingle from =>
        repeat <- parse_single_repeat (obj_get mv k_repeat) ;;
        Ok (FRepeatOnly from repeat)
      | FromRow _ => Err
      end
    else Err
  | _ => Err
  end.

(* ---------- alias definitions and uses ---------- *)

(* fn just_mods *)
Definition just_mods (m : modifier) : option str :=
  match m with MAlias name => Some name | MKey _ => None end.

Fixpoint filter_map {A B} (f : A -> option B) (l : list A) : list B :=
  match l with
  | [] => []
  | x :: t => match f x with Some y => y :: filter_map f t | None => filter_map f t end
  end.

(* fn mapping_all_used_aliases *)
Definition mapping_all_used_aliases (m : fmapping) : list str :=
  match m with
  | FAlias _ => []
  | FSingle from to rep absorbing =>
    filter_map just_mods (sf_mods from) ++ filter_map just_mods (st_initial to)
    ++ filter_map just_mods (match rep with SRSpecial keys _ _ => st_initial keys | _ => [] end)
    ++ filter_map just_mods absorbing
  | FRow from to rep absorbing =>
    filter_map just_mods (rf_mods from) ++ filter_map just_mods (rt_initial to)
    ++ filter_map just_mods (match rep with WRSpecial keys _ _ => rt_initial keys | _ => [] end)
    ++ filter_map just_mods absorbing
  | FRepeatOnly from rep =>
    filter_map just_mods (sf_mods from)
    ++ filter_map just_mods (match rep with SRSpecial keys _ _ => st_initial keys | _ => [] end)
  end.

(* the defined_alias_names HashSet (membership only) *)
Definition defined_alias_names (ms : list fmapping) : list str :=
  filter_map (fun m => match m with FAlias a => Some (am_name a) | _ => None end) ms.

(* fn format_mapping is called to build the "alias is not defined" message.  Its
   only partial operation is `elems.remove(0)` under `if elems.len() == 1`
   (format_single_from, format_single_to, format_row_from, format_row_to,
   format_alias_from, format_alias_to, format_absorbing). *)
Definition fmt_collapse (site : string) (n : nat) : res unit :=
  if Nat.eqb n 1 then (if (0 <? n)%nat then Ok tt else Panic site) else Ok tt.

Definition fmt_single_to (t : single_to) : res unit :=
  fmt_collapse "format_single_to:remove(0)"
    (match st_terminal t with TNull => 0 | TPhysical _ => length (st_initial t) + 1 end)%nat.

Definition fmt_absorbing (a : list modifier) : res unit :=
  match a with [] => Ok tt | _ => fmt_collapse "format_absorbing:remove(0)" (length a) end.

Definition format_mapping (m : fmapping) : res unit :=
  match m with
  | FSingle from to rep absorbing =>
    _ <- fmt_collapse "format_single_from:remove(0)" (length (sf_mods from) + 1) ;;
    _ <- fmt_single_to to ;;
    _ <- match rep with SRSpecial keys _ _ => fmt_single_to keys | _ => Ok tt end ;;
    fmt_absorbing absorbing
  | FAlias a =>
    _ <- fmt_collapse "format_alias_from:remove(0)" (length (am_keys a)) ;;
    fmt_collapse "format_alias_to:remove(0)" (length (am_initial a) + 1)
  | FRow from to rep absorbing =>
    _ <- fmt_collapse "format_row_from:remove(0)" (length (rf_mods from) + 1) ;;
    _ <- fmt_collapse "format_row_to:remove(0)" (length (rt_initial to) + 1) ;;
    _ <- match rep with
         | WRSpecial keys _ _ => fmt_collapse "format_row_to:remove(0)" (length (rt_initial keys) + 1)
         | _ => Ok tt
         end ;;
    fmt_absorbing absorbing
  | FRepeatOnly from rep =>
    _ <- fmt_collapse "format_single_from:remove(0)" (length (sf_mods from) + 1) ;;
    match rep with SRSpecial keys _ _ => fmt_single_to keys | _ => Ok tt end
  end.

(* the second loop of parse_layout_from_json *)
Definition check_aliases_defined (defined : list str) (m : fmapping) : res unit :=
  iter_res (fun a => if existsb (str_eqb a) defined then Ok tt
                     else (_ <- format_mapping m ;; Err))
           (mapping_all_used_aliases m).

(* fn parse_layout_from_json *)
Definition parse_layout (root : json) : res fancy_layout :=
  match root with
  | JObj rv =>
    if has_exactly_keys rv [k_mappings] then
      mappings_v <- unwrap "parse_layout_from_json:get(mappings).unwrap" (obj_get rv k_mappings) ;;
      match mappings_v with
      | JArr mvs =>
        mappings <- map_res parse_mapping_from_json mvs ;;
        _ <- iter_res (check_aliases_defined (defined_alias_names mappings)) mappings ;;
        Ok mappings
      | _ => Err
      end
    else Err
  | _ => Err
  end.
