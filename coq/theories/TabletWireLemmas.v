(* TabletWireLemmas.v — proofs about the tablet-mode switch reader model
   (TabletWire.v) against its specification (tablet_events_of).  Property
   statements: Properties/C12.v (the C12_switch_reader theorems). *)
From TM Require Import Wire WireSpec WireLemmas TabletWire.
From Coq Require Import Lia.

Local Notation len := List.length.

(* ------------------------------------------------------------------ *)
(* the reader on one record                                            *)
(* ------------------------------------------------------------------ *)

Definition tab_buf_of_opt (o : option bool) : tab_buf_result :=
  match o with Some b => TBEvent b | None => TBSkip end.

Lemma tab_decode_buf_fields (tm : list N) (b16 b17 b18 b19 b20 b21 b22 b23 : N) :
  len tm = 16%nat ->
  tab_decode_buf (fill_buf (tm ++ [b16; b17] ++ [b18; b19] ++ [b20; b21; b22; b23])) =
    let type_ := u16_from_le b16 b17 in
    let code := u16_from_le b18 b19 in
    let value := i32_from_le b20 b21 b22 b23 in
    if (type_ =? 5)%N && (code =? 1)%N && (value =? 1)%Z then TBEvent true
    else if (type_ =? 5)%N && (code =? 1)%N && (value =? 0)%Z then TBEvent false
    else TBSkip.
Proof.
  intros Hl.
  do 16 (destruct tm as [|? tm]; [discriminate Hl|]).
  destruct tm as [|? tm]; [|discriminate Hl].
  reflexivity.
Qed.

Lemma tab_decode_raw (r : raw) :
  raw_wf r = true -> tab_decode_buf (fill_buf (raw_bytes r)) = tab_buf_of_opt (tablet_event r).
Proof.
  intros Hwf. apply raw_wf_parts in Hwf.
  destruct Hwf as [Hl [Ht [Hc Hv]]].
  unfold raw_bytes. rewrite tab_decode_buf_fields by exact Hl.
  cbv zeta.
  rewrite !u16_from_le_split, i32_from_le_value_bits by exact Hv.
  unfold tablet_event.
  destruct (r_type r =? 5)%N; destruct (r_code r =? 1)%N;
    destruct (r_value r =? 1)%Z; destruct (r_value r =? 0)%Z; reflexivity.
Qed.

(* ------------------------------------------------------------------ *)
(* repeated next() = one pass over the reads                           *)
(* ------------------------------------------------------------------ *)

Fixpoint tab_flat_run (reads : list (list N)) : list bool * run_end :=
  match reads with
  | [] => ([], Drained)
  | got :: rest =>
    match tab_decode_buf (fill_buf got) with
    | TBPanic => ([], Panicked)
    | TBEvent b => let (evs, o) := tab_flat_run rest in (b :: evs, o)
    | TBSkip => tab_flat_run rest
    end
  end.

Lemma tab_next_n_flat (reads : list (list N)) : forall calls,
  (len reads < calls)%nat -> tab_next_n calls reads = tab_flat_run reads.
Proof.
  induction reads as [|got rest IH]; intros calls Hc.
  - destruct calls as [|c]; [lia|]. reflexivity.
  - destruct calls as [|c]; [lia|].
    cbn [len] in Hc.
    cbn [tab_next_n tab_next tab_flat_run].
    destruct (tab_decode_buf (fill_buf got)) as [| |b] eqn:E.
    + reflexivity.
    + rewrite <- (IH (S c)) by lia. reflexivity.
    + rewrite (IH c) by lia. reflexivity.
Qed.

Lemma decode_tablet_run_flat (s : list N) : decode_tablet_run s = tab_flat_run (reads_of s).
Proof. unfold decode_tablet_run. apply tab_next_n_flat. lia. Qed.

Lemma tab_flat_run_raw (rs : list raw) :
  (forall r, In r rs -> raw_wf r = true) ->
  tab_flat_run (map raw_bytes rs) = (tablet_events_of rs, Drained).
Proof.
  induction rs as [|r rs IH]; intros Hall.
  - reflexivity.
  - cbn [map tab_flat_run]. rewrite tab_decode_raw by (apply Hall; left; reflexivity).
    rewrite IH by (intros r' Hin; apply Hall; right; exact Hin).
    unfold tablet_events_of. cbn [flat_map].
    destruct (tablet_event r) as [b|]; reflexivity.
Qed.

(* For EVERY list of well-formed records (any timestamps, any type / code u16,
   any value i32): exactly the tablet-mode switch events, in order. *)
Lemma decode_tablet_run_raw (rs : list raw) :
  (forall r, In r rs -> raw_wf r = true) ->
  decode_tablet_run (raw_stream rs) = (tablet_events_of rs, Drained).
Proof.
  intros Hall. rewrite decode_tablet_run_flat. unfold raw_stream.
  rewrite reads_of_concat.
  - apply tab_flat_run_raw. exact Hall.
  - intros b Hin. apply in_map_iff in Hin. destruct Hin as [r [Eb Hr]]. subst b.
    apply raw_bytes_length. apply Hall. exact Hr.
Qed.

(* ------------------------------------------------------------------ *)
(* the reader never panics, whatever the bytes                         *)
(* ------------------------------------------------------------------ *)

Lemma tab_decode_buf_no_panic (buf : list N) : (24 <= len buf)%nat -> tab_decode_buf buf <> TBPanic.
Proof.
  intros Hl. unfold tab_decode_buf.
  destruct (nth_error buf 16) as [b16|] eqn:E16; [|apply nth_error_None in E16; lia].
  destruct (nth_error buf 17) as [b17|] eqn:E17; [|apply nth_error_None in E17; lia].
  destruct (nth_error buf 18) as [b18|] eqn:E18; [|apply nth_error_None in E18; lia].
  destruct (nth_error buf 19) as [b19|] eqn:E19; [|apply nth_error_None in E19; lia].
  destruct (nth_error buf 20) as [b20|] eqn:E20; [|apply nth_error_None in E20; lia].
  destruct (nth_error buf 21) as [b21|] eqn:E21; [|apply nth_error_None in E21; lia].
  destruct (nth_error buf 22) as [b22|] eqn:E22; [|apply nth_error_None in E22; lia].
  destruct (nth_error buf 23) as [b23|] eqn:E23; [|apply nth_error_None in E23; lia].
  cbv zeta.
  destruct (_ && (_ =? 1)%Z); [discriminate|].
  destruct (_ && (_ =? 0)%Z); discriminate.
Qed.

Lemma tab_flat_run_no_panic (reads : list (list N)) : snd (tab_flat_run reads) = Drained.
Proof.
  induction reads as [|got rest IH].
  - reflexivity.
  - cbn [tab_flat_run].
    destruct (tab_decode_buf (fill_buf got)) as [| |b] eqn:E.
    + exfalso. apply (tab_decode_buf_no_panic (fill_buf got)); [apply fill_buf_length | exact E].
    + exact IH.
    + destruct (tab_flat_run rest) as [evs o]. exact IH.
Qed.

(* For EVERY byte stream (garbage, truncated): no call of next() panics. *)
Lemma decode_tablet_run_no_panic (s : list N) : snd (decode_tablet_run s) = Drained.
Proof. rewrite decode_tablet_run_flat. apply tab_flat_run_no_panic. Qed.

(* ------------------------------------------------------------------ *)
(* the extracted checker accepts the model's answer                    *)
(* ------------------------------------------------------------------ *)

Lemma bools_eqb_refl (l : list bool) : bools_eqb l l = true.
Proof.
  induction l as [|b l IH].
  - reflexivity.
  - cbn [bools_eqb]. rewrite Bool.eqb_reflx, IH. reflexivity.
Qed.

Lemma bools_eqb_eq (a b : list bool) : bools_eqb a b = true <-> a = b.
Proof.
  split.
  - revert b. induction a as [|x a IH]; intros b H; destruct b as [|y b]; try discriminate H.
    + reflexivity.
    + cbn [bools_eqb] in H. apply andb_true_iff in H. destruct H as [Hx Ht].
      apply Bool.eqb_prop in Hx. subst y. rewrite (IH b Ht). reflexivity.
  - intros E. subst b. apply bools_eqb_refl.
Qed.

Lemma check_switch_reader_model (rs : list raw) :
  (forall r, In r rs -> raw_wf r = true) ->
  check_switch_reader rs (fst (decode_tablet_run (raw_stream rs))) = true.
Proof.
  intros Hall. rewrite decode_tablet_run_raw by exact Hall.
  unfold check_switch_reader. cbn [fst]. apply bools_eqb_refl.
Qed.

(* the checker fires exactly when the answer is not the specified list *)
Lemma check_switch_reader_iff (rs : list raw) (returned : list bool) :
  check_switch_reader rs returned = true <-> returned = tablet_events_of rs.
Proof.
  unfold check_switch_reader. rewrite bools_eqb_eq. split; intros E; symmetry; exact E.
Qed.

(* what the specification says, spelled out record by record *)
Lemma tablet_event_iff (r : raw) (b : bool) :
  tablet_event r = Some b <->
  (r_type r = 5%N /\ r_code r = 1%N /\ r_value r = (if b then 1 else 0)%Z).
Proof.
  unfold tablet_event. split.
  - intros H.
    destruct (N.eqb_spec (r_type r) 5) as [Et | Et]; [|discriminate H].
    destruct (N.eqb_spec (r_code r) 1) as [Ec | Ec]; [|discriminate H].
    cbn [andb] in H.
    destruct (Z.eqb_spec (r_value r) 1) as [E1 | E1].
    + injection H as Hb. subst b. repeat split; assumption.
    + destruct (Z.eqb_spec (r_value r) 0) as [E0 | E0]; [|discriminate H].
      injection H as Hb. subst b. repeat split; assumption.
  - intros [Et [Ec Ev]]. rewrite Et, Ec, Ev. destruct b; reflexivity.
Qed.

Lemma tablet_events_of_spec :
  (forall (r : raw) (rs : list raw),
      tablet_events_of (r :: rs) =
      match tablet_event r with Some on => on :: tablet_events_of rs | None => tablet_events_of rs end)
  /\ tablet_events_of [] = []
  /\ (forall (r : raw) (on : bool),
        tablet_event r = Some on <->
        (r_type r = 5%N /\ r_code r = 1%N /\ r_value r = (if on then 1 else 0)%Z)).
Proof.
  split; [|split; [reflexivity | exact tablet_event_iff]].
  intros r rs. unfold tablet_events_of. cbn [flat_map]. destruct (tablet_event r); reflexivity.
Qed.

Lemma switch_checker_full :
  (forall (rs : list raw) (returned : list bool),
      check_switch_reader rs returned = true <-> returned = tablet_events_of rs)
  /\ (forall rs : list raw,
        (forall r, In r rs -> raw_wf r = true) ->
        check_switch_reader rs (fst (decode_tablet_run (raw_stream rs))) = true).
Proof. split; [exact check_switch_reader_iff | exact check_switch_reader_model]. Qed.
