(* ListingNoPanic.v — the extractors of the keyboard-selection model do not
   panic on well-formed UTF-8 text with lines shorter than 32 MiB (C16). *)
From Coq Require Import List NArith Bool Lia Arith.
From TM Require Import Listing ListingLemmas.
Import ListNotations.
Open Scope N_scope.

(* ------------------------------------------------------------------ slicing *)

Lemma starts_with_app : forall p l, starts_with p l = true -> exists rest, l = p ++ rest.
Proof.
  induction p as [|a p IH]; intros l H.
  - exists l. reflexivity.
  - destruct l as [|b l]; [discriminate|]. cbn [starts_with] in H.
    apply andb_true_iff in H. destruct H as [Hab Hr]. apply N.eqb_eq in Hab. subst b.
    destruct (IH l Hr) as [rest E]. exists rest. subst. reflexivity.
Qed.

Lemma ncaa_tail : forall a r, no_cont_after_ascii (a :: r) = true -> no_cont_after_ascii r = true.
Proof.
  intros a [|b r] H; [reflexivity|]. cbn [no_cont_after_ascii] in H.
  apply andb_true_iff in H. destruct H as [_ H]. exact H.
Qed.

Lemma ncaa_boundary : forall p a b r,
  no_cont_after_ascii (p ++ a :: b :: r) = true -> a < 128 -> is_cont b = false.
Proof.
  induction p as [|x p IH]; intros a b r H Ha.
  - cbn [app no_cont_after_ascii] in H. apply andb_true_iff in H. destruct H as [H _].
    apply negb_true_iff in H. apply andb_false_iff in H. destruct H as [H|H]; [|exact H].
    apply N.ltb_ge in H. lia.
  - apply (IH a b r); [|exact Ha]. cbn [app] in H. apply ncaa_tail in H. exact H.
Qed.

Lemma nth_error_app_len : forall A (p r : list A), nth_error (p ++ r) (List.length p) = nth_error r 0.
Proof. induction p as [|x p IH]; intro r; [reflexivity|]. cbn [app List.length nth_error]. apply IH. Qed.

Lemma skipn_app_len : forall A (p r : list A), skipn (List.length p) (p ++ r) = r.
Proof. induction p as [|x p IH]; intro r; [reflexivity|]. cbn [app List.length skipn]. apply IH. Qed.

(* `&line[n..]` right after `line.starts_with(p)` with |p| = n, p ASCII, non-empty *)
Lemma slice_from_prefix_ok : forall p l,
  starts_with p l = true -> p <> [] -> (forall x, In x p -> x < 128) ->
  no_cont_after_ascii l = true ->
  exists rest, l = p ++ rest /\ slice_from (List.length p) l = Ok rest.
Proof.
  intros p l Hs Hne Hascii Hn.
  destruct (starts_with_app p l Hs) as [rest E]. exists rest. split; [exact E|]. subst l.
  unfold slice_from. rewrite app_length.
  replace (Nat.ltb (List.length p + List.length rest) (List.length p)) with false
    by (symmetry; apply Nat.ltb_ge; lia).
  rewrite nth_error_app_len, skipn_app_len.
  destruct rest as [|b rest]; [reflexivity|]. cbn [nth_error].
  destruct (exists_last Hne) as [p' [a Ep]]. subst p.
  rewrite <- app_assoc in Hn. cbn [app] in Hn.
  assert (Ha : a < 128) by (apply Hascii; apply in_or_app; right; left; reflexivity).
  rewrite (ncaa_boundary p' a b rest Hn Ha). reflexivity.
Qed.

Lemma slice_drop_last_ok : forall l, ends_with_quote l = true -> exists r, slice_drop_last l = Ok r.
Proof.
  intros l H. unfold ends_with_quote in H.
  destruct (rev l) as [|c r'] eqn:E; [discriminate|].
  apply N.eqb_eq in H. subst c.
  assert (El : l = rev r' ++ [34]).
  { rewrite <- (rev_involutive l), E. reflexivity. }
  subst l. unfold slice_drop_last. rewrite app_length. cbn [List.length].
  rewrite Nat.add_1_r. rewrite nth_error_app_len. cbn [nth_error].
  change (is_cont 34) with false. cbn [andb]. eexists. reflexivity.
Qed.

(* ------------------------------------------------------------------ masks *)

Lemma split_on_length : forall sep l, (List.length (split_on sep l) <= S (List.length l))%nat.
Proof.
  induction l as [|c r IH]; cbn [split_on List.length]; [lia|].
  destruct (N.eqb c sep); cbn [List.length]; [lia|].
  destruct (split_on sep r) as [|cur rest]; cbn [List.length] in *; lia.
Qed.

Lemma mask_tokens_ok : forall toks idx,
  idx + N.of_nat (List.length toks) <= 33554432 -> exists r, mask_tokens idx toks = Ok r.
Proof.
  induction toks as [|t r IH]; intros idx H.
  - eexists. reflexivity.
  - cbn [mask_tokens]. destruct (parse_u64_hex t) as [v|]; [|eexists; reflexivity].
    cbn [List.length] in H. rewrite Nat2N.inj_succ in H.
    replace (33554432 <=? idx) with false by (symmetry; apply N.leb_gt; lia).
    rewrite andb_false_r.
    replace (idx =? i32_max) with false by (symmetry; apply N.eqb_neq; unfold i32_max; lia).
    destruct (IH (idx + 1)) as [x Hx]; [lia|]. rewrite Hx.
    destruct x as [vs|]; eexists; reflexivity.
Qed.

Lemma parse_mask_hex_ok : forall hex, short hex = true -> exists r, parse_mask_hex hex = Ok r.
Proof.
  intros hex H. unfold short in H. apply N.ltb_lt in H.
  unfold parse_mask_hex, rsplit_space. apply mask_tokens_ok.
  rewrite rev_length. pose proof (split_on_length 32 hex) as Hl. lia.
Qed.

Lemma key_digit_bits_le : forall c, key_digit_bits c <= 4.
Proof.
  intro c. unfold key_digit_bits.
  repeat match goal with |- context [if ?b then _ else _] => destruct b; [lia|] end. lia.
Qed.

Lemma num_keys_le : forall k acc,
  fold_left (fun a c => a + key_digit_bits c) k acc <= acc + 4 * N.of_nat (List.length k).
Proof.
  induction k as [|c r IH]; intro acc; cbn [fold_left List.length]; [lia|].
  rewrite Nat2N.inj_succ. pose proof (IH (acc + key_digit_bits c)) as H.
  pose proof (key_digit_bits_le c) as Hc. lia.
Qed.

Lemma keyboard_like_ok : forall name ev k,
  short k = true -> (forall m, ev = Some m -> short m = true) ->
  exists b, keyboard_like name ev k = Ok b.
Proof.
  intros name ev k Hk Hev. unfold keyboard_like.
  pose proof (num_keys_le k 0) as Hn. unfold short in Hk. pose proof Hk as Hk'. apply N.ltb_lt in Hk'.
  replace (i32_max <? fold_left (fun a c => a + key_digit_bits c) k 0) with false
    by (symmetry; apply N.ltb_ge; unfold i32_max; lia).
  destruct (parse_mask_hex_ok k Hk) as [ks Eks]. rewrite Eks. cbn [bind].
  destruct ev as [m|].
  - destruct (parse_mask_hex_ok m (Hev m eq_refl)) as [es Ees]. rewrite Ees. cbn [bind]. eexists. reflexivity.
  - cbn [bind]. eexists. reflexivity.
Qed.

(* ------------------------------------------------------------------ the loop *)

Definition w_ok (w : working) : Prop := forall m, w_ev w = Some m -> short m = true.

Lemma w_init_ok : w_ok w_init.
Proof. intros m H. discriminate. Qed.

Lemma ascii_prefix : forall p, forallb (fun x => x <? 128) p = true -> forall x, In x p -> x < 128.
Proof. intros p H x Hin. rewrite forallb_forall in H. apply N.ltb_lt. apply H. exact Hin. Qed.

Lemma short_suffix : forall p r, short (p ++ r) = true -> short r = true.
Proof.
  intros p r H. unfold short in *. apply N.ltb_lt in H. apply N.ltb_lt.
  rewrite app_length in H. lia.
Qed.

Lemma dev_line_ok : forall w l,
  line_ok l = true -> w_ok w ->
  exists w1 o, dev_line keyboard_like w l = Ok (w1, o) /\ w_ok w1.
Proof.
  intros w l Hl Hw. unfold line_ok in Hl. apply andb_true_iff in Hl. destruct Hl as [Hn Hs].
  unfold dev_line.
  destruct (starts_with p_I l) eqn:EI.
  { exists w_init, []. split; [reflexivity|apply w_init_ok]. }
  destruct (starts_with p_S l) eqn:ES.
  { destruct (slice_from_prefix_ok p_S l ES) as [rest [_ E]]; [discriminate|apply ascii_prefix; reflexivity|exact Hn|].
    change (List.length p_S) with 9%nat in E. rewrite E. cbn [bind].
    eexists. eexists. split; [reflexivity|exact Hw]. }
  destruct (starts_with p_N l) eqn:EN.
  { unfold parse_name.
    destruct (slice_from_prefix_ok p_N l EN) as [rest [_ E]]; [discriminate|apply ascii_prefix; reflexivity|exact Hn|].
    change (List.length p_N) with 9%nat in E. rewrite E. cbn [bind].
    destruct (ends_with_quote (trim_end rest)) eqn:Eq.
    - destruct (slice_drop_last_ok _ Eq) as [r Er]. rewrite Er. cbn [bind].
      eexists. eexists. split; [reflexivity|exact Hw].
    - cbn [bind]. eexists. eexists. split; [reflexivity|exact Hw]. }
  destruct (starts_with p_EV l) eqn:EE.
  { destruct (slice_from_prefix_ok p_EV l EE) as [rest [El E]]; [discriminate|apply ascii_prefix; reflexivity|exact Hn|].
    change (List.length p_EV) with 6%nat in E. rewrite E. cbn [bind].
    eexists. eexists. split; [reflexivity|].
    intros m Hm. cbn [w_ev] in Hm. inversion Hm; subst m. subst l. apply (short_suffix p_EV rest Hs). }
  destruct (starts_with p_KEY l) eqn:EK.
  { destruct (slice_from_prefix_ok p_KEY l EK) as [rest [El E]]; [discriminate|apply ascii_prefix; reflexivity|exact Hn|].
    change (List.length p_KEY) with 7%nat in E. rewrite E. cbn [bind].
    assert (Hr : short rest = true) by (subst l; apply (short_suffix p_KEY rest Hs)).
    destruct (keyboard_like_ok (working_name w) (w_ev w) rest Hr Hw) as [b Eb]. rewrite Eb. cbn [bind].
    eexists. eexists. split; [reflexivity|exact Hw]. }
  exists w, []. split; [reflexivity|exact Hw].
Qed.

Lemma run_dev_ok : forall ls w,
  Forall (fun l => line_ok l = true) ls -> w_ok w ->
  exists w1 o, run (dev_line keyboard_like) w ls = Ok (w1, o).
Proof.
  induction ls as [|l r IH]; intros w Hall Hw.
  - exists w, []. reflexivity.
  - inversion Hall as [|x y Hl Hr]; subst.
    destruct (dev_line_ok w l Hl Hw) as [w1 [o1 [E1 Hw1]]].
    destruct (IH w1 Hr Hw1) as [w2 [o2 E2]].
    cbn [run]. rewrite E1, E2. eexists. eexists. reflexivity.
Qed.

Theorem no_panic_lines : forall t,
  Forall (fun l => line_ok l = true) (split_lines t) ->
  exists ds, extract_input_devices t = Ok ds /\
             extract_keyboards t = Ok (map forget (filter is_kbd ds)).
Proof.
  intros t H. destruct (run_dev_ok (split_lines t) w_init H w_init_ok) as [w1 [o E]].
  exists o. unfold extract_keyboards. rewrite (agree_text keyboard_like t).
  unfold extract_input_devices, extract_input_devices_with, dev_lines. rewrite E. cbn [outputs].
  split; reflexivity.
Qed.

(* ------------------------------------------------------------------ from the text to its lines *)

Lemma split_on_head : forall sep r cur rest,
  split_on sep r = cur :: rest ->
  cur = [] \/ exists b cur' r', cur = b :: cur' /\ r = b :: r'.
Proof.
  intros sep [|b r'] cur rest H.
  - cbn [split_on] in H. inversion H. left. reflexivity.
  - cbn [split_on] in H. destruct (N.eqb b sep).
    + inversion H. left. reflexivity.
    + destruct (split_on sep r') as [|c2 rest2]; inversion H; right; eexists; eexists; eexists; split; reflexivity.
Qed.

Lemma split_on_ncaa : forall sep t,
  no_cont_after_ascii t = true -> Forall (fun l => no_cont_after_ascii l = true) (split_on sep t).
Proof.
  induction t as [|c r IH]; intro H.
  - cbn [split_on]. constructor; [reflexivity|constructor].
  - pose proof (ncaa_tail c r H) as Hr. specialize (IH Hr).
    cbn [split_on]. destruct (N.eqb c sep).
    + constructor; [reflexivity|exact IH].
    + destruct (split_on sep r) as [|cur rest] eqn:E; [constructor; [reflexivity|constructor]|].
      inversion IH as [|x y Hcur Hrest]; subst. constructor; [|exact Hrest].
      destruct (split_on_head sep r cur rest E) as [Hc|[b [cur' [r' [Hc Hr']]]]].
      * subst cur. reflexivity.
      * subst cur r. cbn [no_cont_after_ascii] in H |- *.
        apply andb_true_iff in H. destruct H as [H1 _].
        rewrite H1. cbn [andb]. exact Hcur.
Qed.

Lemma split_on_len : forall sep t,
  Forall (fun l => (List.length l <= List.length t)%nat) (split_on sep t).
Proof.
  induction t as [|c r IH].
  - cbn [split_on]. constructor; [cbn; lia|constructor].
  - cbn [split_on]. destruct (N.eqb c sep).
    + constructor; [cbn; lia|].
      refine (Forall_impl _ _ IH). intros a Ha. cbn beta in Ha. cbn [List.length]. lia.
    + destruct (split_on sep r) as [|cur rest]; [constructor; [cbn; lia|constructor]|].
      inversion IH as [|x y Hcur Hrest]; subst. cbn beta in Hcur.
      constructor; [cbn [List.length]; lia|].
      refine (Forall_impl _ _ Hrest). intros a Ha. cbn beta in Ha. cbn [List.length]. lia.
Qed.

Lemma text_ok_lines : forall t,
  no_cont_after_ascii t = true -> short t = true ->
  Forall (fun l => line_ok l = true) (split_lines t).
Proof.
  intros t Hn Hs. unfold split_lines.
  pose proof (split_on_ncaa 10 t Hn) as H1. pose proof (split_on_len 10 t) as H2.
  rewrite Forall_forall in *. intros l Hin. unfold line_ok.
  rewrite (H1 l Hin). cbn [andb]. specialize (H2 l Hin).
  unfold short in *. apply N.ltb_lt in Hs. apply N.ltb_lt. lia.
Qed.

(* ------------------------------------------------------------------ UTF-8 *)

(* a superset of well-formed UTF-8 (no overlong / surrogate / range restrictions):
   every Rust &str satisfies it *)
Inductive utf8_loose : bytes -> Prop :=
| u_nil : utf8_loose []
| u_1 : forall a r, a < 128 -> utf8_loose r -> utf8_loose (a :: r)
| u_2 : forall a b r, 192 <= a -> is_cont b = true -> utf8_loose r -> utf8_loose (a :: b :: r)
| u_3 : forall a b c r, 192 <= a -> is_cont b = true -> is_cont c = true -> utf8_loose r ->
                        utf8_loose (a :: b :: c :: r)
| u_4 : forall a b c d r, 192 <= a -> is_cont b = true -> is_cont c = true -> is_cont d = true ->
                          utf8_loose r -> utf8_loose (a :: b :: c :: d :: r).

Lemma is_cont_ge : forall b, is_cont b = true -> 128 <= b.
Proof. intros b H. unfold is_cont in H. apply andb_true_iff in H. destruct H as [H _]. apply N.leb_le in H. exact H. Qed.

Lemma ncaa_cons_high : forall a r, 128 <= a -> no_cont_after_ascii r = true -> no_cont_after_ascii (a :: r) = true.
Proof.
  intros a [|b r] Ha Hr; [reflexivity|]. cbn [no_cont_after_ascii] in *.
  replace (a <? 128) with false by (symmetry; apply N.ltb_ge; exact Ha). cbn [andb negb]. exact Hr.
Qed.

Lemma utf8_loose_ncaa : forall l, utf8_loose l ->
  no_cont_after_ascii l = true /\ (forall b r, l = b :: r -> is_cont b = false).
Proof.
  induction 1 as [|a r Ha Hr [IH1 IH2]|a b r Ha Hb Hr [IH1 IH2]|a b c r Ha Hb Hc Hr [IH1 IH2]|a b c d r Ha Hb Hc Hd Hr [IH1 IH2]].
  - split; [reflexivity|]. intros b r H. discriminate.
  - split.
    + destruct r as [|b r']; [reflexivity|]. cbn [no_cont_after_ascii] in *.
      rewrite (IH2 b r' eq_refl). rewrite andb_false_r. cbn [negb andb]. exact IH1.
    + intros b0 r0 E. inversion E; subst. unfold is_cont.
      replace (128 <=? b0) with false by (symmetry; apply N.leb_gt; exact Ha). reflexivity.
  - split.
    + apply ncaa_cons_high; [lia|]. apply ncaa_cons_high; [apply is_cont_ge; exact Hb|exact IH1].
    + intros b0 r0 E. inversion E; subst. unfold is_cont.
      replace (b0 <? 192) with false by (symmetry; apply N.ltb_ge; exact Ha). apply andb_false_r.
  - split.
    + apply ncaa_cons_high; [lia|]. apply ncaa_cons_high; [apply is_cont_ge; exact Hb|].
      apply ncaa_cons_high; [apply is_cont_ge; exact Hc|exact IH1].
    + intros b0 r0 E. inversion E; subst. unfold is_cont.
      replace (b0 <? 192) with false by (symmetry; apply N.ltb_ge; exact Ha). apply andb_false_r.
  - split.
    + apply ncaa_cons_high; [lia|]. apply ncaa_cons_high; [apply is_cont_ge; exact Hb|].
      apply ncaa_cons_high; [apply is_cont_ge; exact Hc|].
      apply ncaa_cons_high; [apply is_cont_ge; exact Hd|exact IH1].
    + intros b0 r0 E. inversion E; subst. unfold is_cont.
      replace (b0 <? 192) with false by (symmetry; apply N.ltb_ge; exact Ha). apply andb_false_r.
Qed.

Theorem no_panic_text : forall t,
  utf8_loose t -> short t = true ->
  exists ds, extract_input_devices t = Ok ds /\
             extract_keyboards t = Ok (map forget (filter is_kbd ds)).
Proof.
  intros t Hu Hs. apply no_panic_lines. apply text_ok_lines; [|exact Hs].
  apply utf8_loose_ncaa. exact Hu.
Qed.
