(* RustOpsLemmas.v — generic facts about the res monad, the loop combinators and
   the partial operations of RustOps.v. *)
From TM Require Import RustOps.
From Coq Require Import Lia Arith.

(* ---------- bind ---------- *)

Lemma bind_Ok : forall {A B} (a : A) (f : A -> res B), bind (Ok a) f = f a.
Proof. reflexivity. Qed.

Lemma bind_ret : forall {A} (r : res A), bind r (fun a => Ok a) = r.
Proof. intros A [a| |s]; reflexivity. Qed.

Lemma bind_assoc : forall {A B C} (r : res A) (f : A -> res B) (g : B -> res C),
  bind (bind r f) g = bind r (fun a => bind (f a) g).
Proof. intros A B C [a| |s] f g; reflexivity. Qed.

Lemma bind_ext : forall {A B} (r : res A) (f g : A -> res B),
  (forall a, r = Ok a -> f a = g a) -> bind r f = bind r g.
Proof. intros A B [a| |s] f g H; cbn; [apply H|..]; reflexivity. Qed.

Lemma bind_Ok_inv : forall {A B} (r : res A) (f : A -> res B) b,
  bind r f = Ok b -> exists a, r = Ok a /\ f a = Ok b.
Proof. intros A B [a| |s] f b H; cbn in H; try discriminate. exists a. split; [reflexivity|exact H]. Qed.

(* ---------- never panics ---------- *)

Definition np {A} (r : res A) : Prop := forall s, r <> Panic s.

Lemma np_Ok : forall {A} (a : A), np (Ok a).
Proof. intros A a s H. discriminate. Qed.

Lemma np_Err : forall {A}, np (@Err A).
Proof. intros A s H. discriminate. Qed.

Lemma np_bind : forall {A B} (r : res A) (f : A -> res B),
  np r -> (forall a, r = Ok a -> np (f a)) -> np (bind r f).
Proof.
  intros A B [a| |s] f Hr Hf; cbn.
  - apply Hf. reflexivity.
  - apply np_Err.
  - exfalso. apply (Hr s). reflexivity.
Qed.

Lemma np_eq : forall {A} (r r' : res A), r = r' -> np r' -> np r.
Proof. intros. subst. assumption. Qed.

Lemma np_map_res : forall {A B} (f : A -> res B) l, (forall x, In x l -> np (f x)) -> np (map_res f l).
Proof.
  induction l as [|x l IH]; intro H; cbn; [apply np_Ok|].
  apply np_bind; [apply H; left; reflexivity|]. intros y _.
  apply np_bind; [apply IH; intros; apply H; right; assumption|]. intros ys _. apply np_Ok.
Qed.

Lemma np_iter_res : forall {A} (f : A -> res unit) l, (forall x, In x l -> np (f x)) -> np (iter_res f l).
Proof.
  induction l as [|x l IH]; intro H; cbn; [apply np_Ok|].
  apply np_bind; [apply H; left; reflexivity|]. intros _ _. apply IH. intros; apply H; right; assumption.
Qed.

Lemma np_fold_res : forall {A St} (f : St -> A -> res St) l s, (forall s x, In x l -> np (f s x)) -> np (fold_res f l s).
Proof.
  induction l as [|x l IH]; intros s H; cbn; [apply np_Ok|].
  apply np_bind; [apply H; left; reflexivity|]. intros s' _. apply IH. intros; apply H; right; assumption.
Qed.

Lemma np_exists_res : forall {A} (p : A -> res bool) l, (forall x, In x l -> np (p x)) -> np (exists_res p l).
Proof.
  induction l as [|x l IH]; intro H; cbn; [apply np_Ok|].
  apply np_bind; [apply H; left; reflexivity|]. intros b _. destruct b; [apply np_Ok|].
  apply IH. intros; apply H; right; assumption.
Qed.

(* ---------- partial operations ---------- *)

Lemma idx_Ok : forall {A} site (l : list A) i a, nth_error l i = Some a -> idx site l i = Ok a.
Proof. intros. unfold idx. rewrite H. reflexivity. Qed.

Lemma idx_lt : forall {A} site (l : list A) i, (i < length l)%nat -> exists a, idx site l i = Ok a /\ nth_error l i = Some a.
Proof.
  intros A site l i H. unfold idx. destruct (nth_error l i) eqn:E.
  - exists a. split; reflexivity.
  - apply nth_error_None in E. lia.
Qed.

Lemma usub_Ok : forall site a b, (b <= a)%nat -> usub site a b = Ok (a - b)%nat.
Proof. intros. unfold usub. apply Nat.leb_le in H. rewrite H. reflexivity. Qed.

Lemma slice_Ok : forall {A} site (l : list A) lo hi, (lo <= hi)%nat -> (hi <= length l)%nat ->
  slice site l lo hi = Ok (firstn (hi - lo) (skipn lo l)).
Proof.
  intros. unfold slice. apply Nat.leb_le in H. apply Nat.leb_le in H0. rewrite H, H0. reflexivity.
Qed.

Lemma slice_prefix : forall {A} site (l : list A), l <> [] ->
  slice site l 0 (length l - 1) = Ok (removelast l).
Proof.
  intros A site l Hne. rewrite slice_Ok by lia. cbn [skipn]. rewrite Nat.sub_0_r.
  f_equal. rewrite removelast_firstn_len. f_equal. lia.
Qed.

Lemma nth_error_last : forall {A} (l : list A) (d : A), l <> [] -> nth_error l (length l - 1) = Some (last l d).
Proof.
  induction l as [|x l IH]; intros d Hne; [contradiction|].
  destruct l as [|y l]; [reflexivity|].
  replace (length (x :: y :: l) - 1)%nat with (S (length (y :: l) - 1))%nat by (cbn; lia).
  cbn [nth_error]. rewrite (IH d) by discriminate. reflexivity.
Qed.

Lemma set_idx_Ok : forall {A} site (l : list A) i x, (i < length l)%nat -> set_idx site l i x = Ok (set_nth l i x).
Proof. intros. unfold set_idx. apply Nat.ltb_lt in H. rewrite H. reflexivity. Qed.

Lemma set_nth_length : forall {A} (l : list A) i x, length (set_nth l i x) = length l.
Proof. induction l as [|y l IH]; intros [|i] x; cbn; try reflexivity. rewrite IH. reflexivity. Qed.

(* ---------- `for i in 0..v.len() { let m = &v[i]; ... }` is a loop over v ---------- *)

Lemma fold_res_idx_seq_gen : forall {A St} site (f : St -> A -> res St) (pre l : list A) (s : St),
  fold_res (fun acc i => m <- idx site (pre ++ l) i ;; f acc m) (seq (length pre) (length l)) s = fold_res f l s.
Proof.
  intros A St site f pre l. revert pre. induction l as [|x l IH]; intros pre s; cbn; [reflexivity|].
  unfold idx at 1. rewrite nth_error_app2 by lia. rewrite Nat.sub_diag. cbn.
  apply bind_ext. intros s' _.
  specialize (IH (pre ++ [x]) s'). rewrite <- app_assoc in IH. cbn in IH.
  rewrite app_length in IH. cbn in IH. rewrite Nat.add_1_r in IH. exact IH.
Qed.

Lemma fold_res_idx_seq : forall {A St} site (f : St -> A -> res St) (l : list A) (s : St),
  fold_res (fun acc i => m <- idx site l i ;; f acc m) (seq 0 (length l)) s = fold_res f l s.
Proof. intros. apply (fold_res_idx_seq_gen site f [] l s). Qed.

(* ---------- fold_res / map_res algebra ---------- *)

Lemma fold_res_app : forall {A St} (f : St -> A -> res St) l1 l2 s,
  fold_res f (l1 ++ l2) s = (s' <- fold_res f l1 s ;; fold_res f l2 s').
Proof.
  induction l1 as [|x l1 IH]; intros l2 s; cbn; [reflexivity|].
  rewrite bind_assoc. apply bind_ext. intros s' _. apply IH.
Qed.

Lemma fold_res_ext : forall {A St} (f g : St -> A -> res St) l s,
  (forall s x, In x l -> f s x = g s x) -> fold_res f l s = fold_res g l s.
Proof.
  induction l as [|x l IH]; intros s H; cbn; [reflexivity|].
  rewrite H by (left; reflexivity). apply bind_ext. intros s' _. apply IH. intros. apply H. right. assumption.
Qed.

Lemma map_res_ext : forall {A B} (f g : A -> res B) l, (forall x, In x l -> f x = g x) -> map_res f l = map_res g l.
Proof.
  induction l as [|x l IH]; intro H; cbn; [reflexivity|].
  rewrite H by (left; reflexivity). apply bind_ext. intros y _. rewrite IH; [reflexivity|].
  intros. apply H. right. assumption.
Qed.

Lemma map_res_app : forall {A B} (f : A -> res B) l1 l2,
  map_res f (l1 ++ l2) = (a <- map_res f l1 ;; b <- map_res f l2 ;; Ok (a ++ b)).
Proof.
  induction l1 as [|x l1 IH]; intro l2; cbn.
  - symmetry. rewrite bind_ret. reflexivity.
  - rewrite bind_assoc. apply bind_ext. intros y _. rewrite IH. rewrite !bind_assoc.
    apply bind_ext. intros a _. cbn. rewrite bind_assoc. apply bind_ext. intros b _. reflexivity.
Qed.

Lemma map_res_Ok_length : forall {A B} (f : A -> res B) l r, map_res f l = Ok r -> length r = length l.
Proof.
  induction l as [|x l IH]; intros r H; cbn in H.
  - inversion H. reflexivity.
  - apply bind_Ok_inv in H. destruct H as [y [_ H]]. apply bind_Ok_inv in H. destruct H as [ys [Hys H]].
    inversion H; subst. cbn. f_equal. apply IH. exact Hys.
Qed.

Lemma map_res_pure : forall {A B} (f : A -> B) l, map_res (fun x => Ok (f x)) l = Ok (map f l).
Proof. induction l as [|x l IH]; cbn; [reflexivity|]. rewrite IH. reflexivity. Qed.

Lemma map_res_map : forall {A B C} (g : A -> B) (f : B -> res C) l, map_res f (map g l) = map_res (fun x => f (g x)) l.
Proof. induction l as [|x l IH]; cbn; [reflexivity|]. rewrite IH. reflexivity. Qed.

(* a fold that appends what each element contributes = map_res + concat *)
Lemma fold_res_append : forall {A B} (f : A -> res (list B)) l acc,
  fold_res (fun acc x => ys <- f x ;; Ok (acc ++ ys)) l acc = (yss <- map_res f l ;; Ok (acc ++ concat yss)).
Proof.
  induction l as [|x l IH]; intro acc; cbn.
  - rewrite app_nil_r. reflexivity.
  - rewrite !bind_assoc. apply bind_ext. intros ys _. cbn. rewrite IH. rewrite !bind_assoc.
    apply bind_ext. intros yss _. cbn. rewrite app_assoc. reflexivity.
Qed.
