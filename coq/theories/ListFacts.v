(* ListFacts.v — lemmas about the list utilities of Base.v *)
From TM Require Import Base.
From Coq Require Import Lia.

Lemma mem_In k l : mem k l = true <-> In k l.
Proof.
  unfold mem. rewrite existsb_exists. split.
  - intros [x [Hx He]]. apply N.eqb_eq in He. subst. exact Hx.
  - intros H. exists k. split; [exact H | apply N.eqb_refl].
Qed.

Lemma mem_false k l : mem k l = false <-> ~ In k l.
Proof.
  rewrite <- mem_In. destruct (mem k l); split; intros H; congruence.
Qed.

Lemma mem_app k a b : mem k (a ++ b) = mem k a || mem k b.
Proof. unfold mem. apply existsb_app. Qed.

Lemma In_remove_all x k l : In x (remove_all k l) <-> In x l /\ x <> k.
Proof.
  unfold remove_all. rewrite filter_In. split; intros [H1 H2]; split; auto.
  - intro E. subst. rewrite N.eqb_refl in H2. discriminate.
  - apply negb_true_iff. apply N.eqb_neq. exact H2.
Qed.

Lemma NoDup_remove_all k l : NoDup l -> NoDup (remove_all k l).
Proof. intros. apply NoDup_filter. assumption. Qed.

Lemma remove_all_notin k l : ~ In k l -> remove_all k l = l.
Proof.
  induction l as [|x t IH]; intros H; [reflexivity|].
  unfold remove_all in *. cbn [filter].
  destruct (N.eqb x k) eqn:E.
  - apply N.eqb_eq in E. subst. exfalso. apply H. left. reflexivity.
  - cbn [negb]. f_equal. apply IH. intro Hin. apply H. right. exact Hin.
Qed.

(* with no duplicates, removing the last occurrence removes the key *)
Lemma remove_last_NoDup k l : NoDup l -> remove_last k l = remove_all k l.
Proof.
  induction l as [|x t IH]; intros Hnd; [reflexivity|].
  inversion Hnd as [|? ? Hx Ht]; subst.
  cbn [remove_last]. unfold remove_all. cbn [filter].
  destruct (mem k t) eqn:Hm.
  - apply mem_In in Hm. destruct (N.eqb x k) eqn:E.
    + apply N.eqb_eq in E. subst. contradiction.
    + cbn [negb]. f_equal. apply IH. exact Ht.
  - apply mem_false in Hm. destruct (N.eqb x k) eqn:E; cbn [negb].
    + symmetry. apply (remove_all_notin k t Hm).
    + f_equal. symmetry. apply (remove_all_notin k t Hm).
Qed.

Lemma In_remove_nth {A} (x : A) i l : In x (remove_nth i l) -> In x l.
Proof.
  revert i. induction l as [|y t IH]; intros i H; [destruct i; exact H|].
  destruct i; cbn [remove_nth] in H.
  - right. exact H.
  - destruct H as [H|H]; [left; exact H | right; apply (IH i H)].
Qed.

Lemma remove_nth_firstn_skipn {A} i (l : list A) :
  remove_nth i l = firstn i l ++ skipn (S i) l.
Proof.
  revert i. induction l as [|y t IH]; intros i; [destruct i; reflexivity|].
  destruct i; cbn [remove_nth firstn skipn app]; [reflexivity|].
  f_equal. apply IH.
Qed.

Lemma firstn_S_nth {A} i (l : list A) x :
  nth_error l i = Some x -> firstn (S i) l = firstn i l ++ [x].
Proof.
  revert i. induction l as [|y t IH]; intros i H; [destruct i; discriminate|].
  destruct i; cbn in H |- *.
  - inversion H. reflexivity.
  - f_equal. apply IH. exact H.
Qed.

Lemma skipn_nth {A} i (l : list A) x :
  nth_error l i = Some x -> skipn i l = x :: skipn (S i) l.
Proof.
  revert i. induction l as [|y t IH]; intros i H; [destruct i; discriminate|].
  destruct i; cbn in H |- *.
  - inversion H. reflexivity.
  - apply IH. exact H.
Qed.

Lemma NoDup_app_intro {A} (a b : list A) :
  NoDup a -> NoDup b -> (forall x, In x a -> ~ In x b) -> NoDup (a ++ b).
Proof.
  induction a as [|x t IH]; intros Ha Hb Hd; [exact Hb|].
  inversion Ha as [|? ? Hx Ht]; subst. cbn. constructor.
  - rewrite in_app_iff. intros [H|H]; [contradiction|]. apply (Hd x); [left; reflexivity | exact H].
  - apply IH; [exact Ht | exact Hb |]. intros y Hy. apply Hd. right. exact Hy.
Qed.

Lemma NoDup_snoc {A} (a : list A) k : NoDup a -> ~ In k a -> NoDup (a ++ [k]).
Proof.
  intros Ha Hk. apply NoDup_app_intro; [exact Ha | constructor; [intros []|constructor] |].
  intros x Hx [E|[]]. subst. contradiction.
Qed.

Lemma NoDup_app_l {A} (a b : list A) : NoDup (a ++ b) -> NoDup a.
Proof.
  induction a as [|x t IH]; intros H; [constructor|].
  inversion H as [|? ? Hx Ht]; subst. constructor.
  - intro Hin. apply Hx. apply in_or_app. left. exact Hin.
  - apply IH. exact Ht.
Qed.

Lemma NoDup_app_r {A} (a b : list A) : NoDup (a ++ b) -> NoDup b.
Proof.
  induction a as [|x t IH]; intros H; [exact H|].
  inversion H; subst. apply IH. assumption.
Qed.

Lemma NoDup_app_disj {A} (a b : list A) x : NoDup (a ++ b) -> In x a -> In x b -> False.
Proof.
  induction a as [|y t IH]; intros H Ha Hb; [destruct Ha|].
  inversion H as [|? ? Hy Ht]; subst. destruct Ha as [E|Ha].
  - subst. apply Hy. apply in_or_app. right. exact Hb.
  - apply IH; assumption.
Qed.

Lemma In_push_new x acc k : In x (push_new acc k) <-> In x acc \/ x = k.
Proof.
  unfold push_new. destruct (mem k acc) eqn:E.
  - apply mem_In in E. split; [tauto|]. intros [H|H]; subst; assumption.
  - rewrite in_app_iff. cbn. split.
    + intros [H|[H|[]]]; [left; exact H | right; symmetry; exact H].
    + intros [H|H]; [left; exact H | right; left; symmetry; exact H].
Qed.

Lemma NoDup_push_new acc k : NoDup acc -> NoDup (push_new acc k).
Proof.
  intros H. unfold push_new. destruct (mem k acc) eqn:E; [exact H|].
  apply mem_false in E.
  apply NoDup_snoc; assumption.
Qed.

Lemma In_fold_push_new x l acc : In x (fold_left push_new l acc) <-> In x acc \/ In x l.
Proof.
  revert acc. induction l as [|y t IH]; intros acc; cbn [fold_left].
  - cbn. tauto.
  - rewrite IH. rewrite In_push_new. cbn. split; intros H.
    + destruct H as [[H|H]|H]; [left; exact H | right; left; symmetry; exact H | right; right; exact H].
    + destruct H as [H|[H|H]]; [left; left; exact H | left; right; symmetry; exact H | right; exact H].
Qed.

Lemma NoDup_fold_push_new l acc : NoDup acc -> NoDup (fold_left push_new l acc).
Proof.
  revert acc. induction l as [|y t IH]; intros acc H; cbn [fold_left]; [exact H|].
  apply IH. apply NoDup_push_new. exact H.
Qed.

Lemma In_dedup x l : In x (dedup l) <-> In x l.
Proof. unfold dedup. rewrite In_fold_push_new. cbn. tauto. Qed.

Lemma NoDup_dedup l : NoDup (dedup l).
Proof. unfold dedup. apply NoDup_fold_push_new. constructor. Qed.

Lemma NoDup_rev_iff {A} (l : list A) : NoDup l -> NoDup (rev l).
Proof. apply NoDup_rev. Qed.

Lemma nodupb_NoDup l : nodupb l = true <-> NoDup l.
Proof.
  induction l as [|x t IH]; cbn [nodupb].
  - split; [constructor | reflexivity].
  - rewrite andb_true_iff, negb_true_iff, mem_false, IH. split.
    + intros [H1 H2]. constructor; assumption.
    + intros H. inversion H; subst. split; assumption.
Qed.

Lemma subset_incl a b : subset a b = true <-> incl a b.
Proof.
  unfold subset. rewrite forallb_forall. split.
  - intros H x Hx. apply mem_In. apply H. exact Hx.
  - intros H x Hx. apply mem_In. apply H. exact Hx.
Qed.

Lemma last_opt_In {A} (l : list A) x : last_opt l = Some x -> In x l.
Proof.
  induction l as [|y t IH]; [discriminate|].
  destruct t as [|z t']; cbn [last_opt].
  - intros H. inversion H. left. reflexivity.
  - intros H. right. apply IH. exact H.
Qed.

Lemma last_opt_app {A} (l : list A) x : last_opt (l ++ [x]) = Some x.
Proof.
  induction l as [|y t IH]; [reflexivity|].
  cbn [app last_opt]. destruct (t ++ [x]) eqn:E.
  - destruct t; discriminate.
  - exact IH.
Qed.

Lemma last_opt_removelast {A} (l : list A) x : last_opt l = Some x -> l = removelast l ++ [x].
Proof.
  induction l as [|y t IH]; [discriminate|].
  destruct t as [|z t']; cbn [last_opt removelast].
  - intros H. inversion H. reflexivity.
  - intros H. cbn [app]. f_equal. apply IH. exact H.
Qed.
