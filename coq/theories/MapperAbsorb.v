(* MapperAbsorb.v — C08: the ghost of Absorb.v against the mapper model.
   J : invariant tying the ghost to the specification state, proved along every
   history for layouts in K1 (every absorbing mapping is key-producing). *)
From TM Require Import Base ListFacts Mapper Monitors Trace TraceLemmas MapperInv MapperProps MapperFire
                       MapperChoice MapperProv MapperRefire MapperStay MapperRepeat Absorb.
From Coq Require Import Lia.

Section S.
Variable is_action : key -> bool.

(* ---------- the joint run ---------- *)

Lemma gs_of_snoc L h i : gs_of is_action L (h ++ [i]) = gs_step is_action L (gs_of is_action L h) i.
Proof. unfold gs_of. rewrite fold_left_app. reflexivity. Qed.

Lemma gs_of_state L h :
  fst (fst (gs_of is_action L h)) = state_of is_action L h /\ snd (fst (gs_of is_action L h)) = phys_of h.
Proof.
  induction h as [|i h IH] using rev_ind; [split; reflexivity|].
  rewrite gs_of_snoc, state_of_snoc, phys_of_snoc.
  destruct (gs_of is_action L h) as [[s p] g]. cbn [fst snd] in *. destruct IH as [-> ->].
  unfold gs_step. cbn [fst snd]. split; reflexivity.
Qed.

Lemma ghost_of_snoc L h i :
  ghost_of is_action L (h ++ [i]) = ag_step L (state_of is_action L h) (phys_of h) (ghost_of is_action L h) i.
Proof.
  unfold ghost_of. rewrite gs_of_snoc. destruct (gs_of_state L h) as [E1 E2].
  destruct (gs_of is_action L h) as [[s p] g]. cbn [fst snd] in *. subst. reflexivity.
Qed.

(* ---------- the invariant ---------- *)

Record J (L : layout) (s : state) (phys : list key) (g : aghost) : Prop := mkJ {
  j_abs : forall M t, In (M, t) (ag_abs g) -> In M phys ->
            ~ In M (inp s) \/ (In M (absd s) /\ atrig s = Some t);
  j_counts : forall c, In c (ag_counts g) -> In c (inp s) /\ ~ In c (absd s);
  j_last : forall m t P, ag_last g = Some (m, t, P) ->
            atrig s = Some t
            /\ find (fun m' => is_supported (m_from m') (inp s) [] t) (rev (group_of L t)) = Some m
}.

Lemma J_init L : J L init [] ag_init.
Proof. constructor; cbn; intros; try contradiction; discriminate. Qed.

Definition K1P (L : layout) : Prop :=
  forall m, In m L -> m_abs m <> [] -> is_action_mapping is_action m = true.

Lemma K1_K1P L : K1 is_action L = true -> K1P L.
Proof.
  unfold K1, K1P. rewrite forallb_forall. intros H m Hm Hab. specialize (H m Hm).
  destruct (m_abs m); [contradiction | exact H].
Qed.

(* is_supported does not care whether the pressed key itself is in the input list *)
Lemma is_supported_ext tr i1 a1 i2 a2 k :
  (forall f, In f tr -> f <> k -> (mem f i1 && negb (mem f a1)) = (mem f i2 && negb (mem f a2))) ->
  is_supported tr i1 a1 k = is_supported tr i2 a2 k.
Proof.
  intros H. unfold is_supported. apply forallb_ext_in. intros f Hf.
  destruct (N.eqb_spec f k) as [E|E]; [rewrite !orb_true_r; reflexivity|].
  rewrite (H f Hf E). reflexivity.
Qed.

(* what a press does to inp / absd / atrig *)
Lemma press_aux_facts L s k :
  wf_layout L -> Inv L s -> mem k (inp s) = false ->
  let s' := snd (step is_action L s (Pressed k)) in
  let flushed := match fired L s k with
                 | Some m => is_action_mapping is_action m && should_absorb (pre_press s k) k
                 | None => negb (existsb (mentions k) (act s)) && negb (mem k (pass s)) && is_action k
                 end in
  (forall x, In x (inp s') <-> x = k \/ (In x (inp s) /\ (flushed = true -> ~ In x (remove_all k (absd s)))))
  /\ absd s' = fold_left push_new (match fired L s k with Some m => m_abs m | None => [] end)
                         (if flushed then [] else remove_all k (absd s))
  /\ atrig s' = match fired L s k with
                | Some m => match m_abs m with [] => if flushed then None else atrig s | _ => Some k end
                | None => if flushed then None else atrig s
                end.
Proof.
  intros Hwf I Hk. cbn zeta. cbn [step]. rewrite Hk.
  assert (Ipp : Inv L (pre_press s k)) by (apply Inv_pre_press; exact I).
  destruct (fired L s k) as [m|] eqn:Ef.
  - rewrite (newly_press_fired_some is_action L s k m Hk Ef). cbn [snd].
    rewrite anm_unfold. cbn [snd].
    pose proof (flush_for_action_inv is_action L (pre_press s k) k m Ipp) as R. cbn zeta in R.
    destruct R as [I0 [_ [_ [Hinp0 [_ [_ Haux0]]]]]].
    set (f := snd (flush_for_action is_action (pre_press s k) k m)) in *.
    destruct (anm_tail_aux is_action f k m (absd f) (atrig f) (rtrig f)) as [U1 _]. rewrite set_aux_id in U1.
    rewrite U1. cbn [snd inp absd atrig set_inp set_aux].
    rewrite anm_tail_inp.
    assert (Hfl : (is_action_mapping is_action m && should_absorb (pre_press s k) k = true -> absd f = [] /\ atrig f = None)
                  /\ (is_action_mapping is_action m && should_absorb (pre_press s k) k = false ->
                      absd f = remove_all k (absd s) /\ atrig f = atrig s)).
    { subst f. rewrite flush_unfold.
      destruct (is_action_mapping is_action m); cbn [andb].
      - destruct (should_absorb (pre_press s k) k).
        + split; [intros _|discriminate]. cbn [snd].
          pose proof (release_action_mappings_inv is_action L _ Ipp) as R. cbn zeta in R. destruct R as [I1 _].
          apply (release_absorbed_keys_aux is_action L _ I1).
        + split; [discriminate|intros _]. split; reflexivity.
      - split; [discriminate|intros _]. split; reflexivity. }
    destruct (is_action_mapping is_action m && should_absorb (pre_press s k) k) eqn:Efl.
    + destruct (proj1 Hfl eq_refl) as [Ha Ht]. rewrite Ha, Ht.
      split; [|split; [reflexivity | unfold tail_atrig; destruct (m_abs m); reflexivity]].
      intros x. rewrite in_app_iff. cbn [In]. rewrite Hinp0.
      apply andb_true_iff in Efl. destruct Efl as [E1 E2].
      change (inp (pre_press s k)) with (inp s). change (absd (pre_press s k)) with (remove_all k (absd s)).
      split.
      * intros [[H1 H2]|[H|[]]]; [right; split; [exact H1 | intros _; exact (H2 E1 E2)] | left; symmetry; exact H].
      * intros [H|[H1 H2]]; [right; left; symmetry; exact H | left; split; [exact H1 | intros _ _; apply H2; reflexivity]].
    + destruct (proj2 Hfl eq_refl) as [Ha Ht]. rewrite Ha, Ht.
      split; [|split; [reflexivity | unfold tail_atrig; destruct (m_abs m); reflexivity]].
      intros x. rewrite in_app_iff. cbn [In]. rewrite Hinp0.
      change (inp (pre_press s k)) with (inp s).
      split.
      * intros [[H1 H2]|[H|[]]]; [right; split; [exact H1 | discriminate] | left; symmetry; exact H].
      * intros [H|[H1 H2]]; [right; left; symmetry; exact H | left; split; [exact H1|]].
        intros E1 E2. rewrite E1, E2 in Efl. discriminate.
  - rewrite (fired_spec L s k Hk) in Ef. unfold newly_press. cbn zeta. fold (pre_press s k). rewrite Ef.
    change (act (pre_press s k)) with (act s). change (pass (pre_press s k)) with (pass s).
    destruct (existsb (mentions k) (act s)); cbn [negb andb].
    { cbn [snd inp absd atrig set_inp fold_left]. split; [|split; reflexivity].
      intros x. rewrite in_app_iff. cbn [In]. change (inp (pre_press s k)) with (inp s).
      split; [intros [H|[H|[]]]; [right; split; [exact H | discriminate] | left; symmetry; exact H]
             | intros [H|[H _]]; [right; left; symmetry; exact H | left; exact H]]. }
    destruct (mem k (pass s)); cbn [negb andb].
    { cbn [snd inp absd atrig set_inp fold_left]. split; [|split; reflexivity].
      intros x. rewrite in_app_iff. cbn [In]. change (inp (pre_press s k)) with (inp s).
      split; [intros [H|[H|[]]]; [right; split; [exact H | discriminate] | left; symmetry; exact H]
             | intros [H|[H _]]; [right; left; symmetry; exact H | left; exact H]]. }
    destruct (is_action k).
    + pose proof (release_action_mappings_inv is_action L _ Ipp) as R. cbn zeta in R.
      destruct R as [I1 [_ [Hi1 [_ [_ [_ [[Ha1 _] _]]]]]]].
      destruct (release_action_mappings is_action (pre_press s k)) as [ea sa]. cbn [fst snd] in *.
      pose proof (release_absorbed_keys_inv is_action L sa I1) as R. cbn zeta in R.
      destruct R as [_ [_ [_ [Hib [_ [Hab [Hat _]]]]]]].
      destruct (release_absorbed_keys sa) as [eb sb]. cbn [fst snd] in *.
      cbn [inp absd atrig set_inp set_pass fold_left]. rewrite Hab, Hat.
      split; [|split; reflexivity].
      intros x. rewrite in_app_iff. cbn [In]. rewrite Hib, Hi1, Ha1.
      change (inp (pre_press s k)) with (inp s). change (absd (pre_press s k)) with (remove_all k (absd s)).
      split; [intros [[H1 H2]|[H|[]]]; [right; split; [exact H1 | intros _; exact H2] | left; symmetry; exact H]
             | intros [H|[H1 H2]]; [right; left; symmetry; exact H | left; split; [exact H1 | apply H2; reflexivity]]].
    + cbn [snd inp absd atrig set_inp set_pass fold_left]. split; [|split; reflexivity].
      intros x. rewrite in_app_iff. cbn [In]. change (inp (pre_press s k)) with (inp s).
      split; [intros [H|[H|[]]]; [right; split; [exact H | discriminate] | left; symmetry; exact H]
             | intros [H|[H _]]; [right; left; symmetry; exact H | left; exact H]].
Qed.


Lemma release_aux_facts L s k :
  Inv L s ->
  let s' := snd (step is_action L s (Released k)) in
  (forall x, In x (inp s') <-> In x (inp s) /\ x <> k)
  /\ absd s' = absd s /\ atrig s' = atrig s.
Proof.
  intros I. cbn zeta. cbn [step]. destruct (mem k (inp s)) eqn:Hk.
  - rewrite newly_release_core. cbn [snd].
    pose proof (release_core_inv L k s I) as R. cbn zeta in R. destruct R as [_ [_ [Hi [_ [[Ha [Ht _]] _]]]]].
    rewrite Hi, Ha, Ht. split; [|split; reflexivity]. intros x. apply In_remove_all.
  - cbn [snd]. split; [|split; reflexivity]. intros x. split; [|tauto].
    intros H. split; [exact H|]. intros E. subst. apply mem_false in Hk. contradiction.
Qed.

Lemma mem_eq_iff a l1 l2 : (In a l1 <-> In a l2) -> mem a l1 = mem a l2.
Proof.
  intros H. destruct (mem a l2) eqn:E.
  - apply mem_In. apply H. apply mem_In. exact E.
  - apply mem_false. intros H1. apply H in H1. apply mem_false in E. contradiction.
Qed.

Lemma J_step L s phys g i :
  wf_layout L -> K1P L -> Inv L s -> incl (inp s) phys -> J L s phys g ->
  J L (snd (mstep is_action L s i)) (phys_after phys i) (ag_step L s phys g i).
Proof.
  intros Hwf HK1 I Hincl [Jabs Jcnt Jlast].
  destruct i as [[x|x]|].
  - (* press *)
    cbn [mstep phys_after ag_step].
    assert (Est : snd (let '(evs, r, s') := step is_action L s (Pressed x) in (evs, Some r, s')) = snd (step is_action L s (Pressed x))).
    { destruct (step is_action L s (Pressed x)) as [[a b] c]. reflexivity. }
    rewrite Est. clear Est.
    destruct (mem x (inp s)) eqn:Hx.
    + (* ignored *)
      rewrite (step_ignored is_action L s (Pressed x) Hx). cbn [snd].
      assert (Hp : apply_ev phys (Pressed x) = phys).
      { cbn [apply_ev]. assert (M : mem x phys = true) by (apply mem_In; apply Hincl; apply mem_In; exact Hx). rewrite M. reflexivity. }
      rewrite Hp. constructor; assumption.
    + pose proof (press_aux_facts L s x Hwf I Hx) as R. cbn zeta in R.
      set (s' := snd (step is_action L s (Pressed x))) in *.
      set (abs_new := match fired L s x with Some m => m_abs m | None => [] end) in *.
      set (flushed := match fired L s x with
                      | Some m => is_action_mapping is_action m && should_absorb (pre_press s x) x
                      | None => negb (existsb (mentions x) (act s)) && negb (mem x (pass s)) && is_action x
                      end) in *.
      destruct R as [Hinp [Habsd Hatrig]].
      assert (Hbase : forall y, In y (if flushed then [] else remove_all x (absd s)) -> In y (absd s) /\ y <> x).
      { intros y Hy. destruct flushed; [destruct Hy | apply In_remove_all in Hy; exact Hy]. }
      constructor.
      * (* j_abs *)
        intros M t Hin HMp. cbn [ag_abs] in Hin. apply in_app_or in Hin. destruct Hin as [Hin|Hin].
        -- apply filter_In in Hin. destruct Hin as [Hin Hf]. apply andb_true_iff in Hf. cbn [fst] in Hf.
           destruct Hf as [Hf1 Hf2]. apply negb_true_iff in Hf1. apply N.eqb_neq in Hf1.
           apply negb_true_iff, mem_false in Hf2.
           assert (HMphys : In M phys).
           { apply In_apply_ev_press in HMp. destruct HMp as [H|H]; [exact H | contradiction]. }
           destruct (Jabs M t Hin HMphys) as [Hni|[Hab Hat]].
           ++ left. intros H. apply Hinp in H. destruct H as [H|[H _]]; [contradiction | contradiction].
           ++ destruct flushed eqn:Efl.
              ** left. intros H. apply Hinp in H. destruct H as [H|[_ H]]; [contradiction|].
                 apply (H eq_refl). apply In_remove_all. split; assumption.
              ** right. split.
                 --- rewrite Habsd. apply In_fold_push_new. left. apply In_remove_all. split; assumption.
                 --- rewrite Hatrig. subst flushed abs_new. destruct (fired L s x) as [m|] eqn:Ef; [|exact Hat].
                     destruct (m_abs m) as [|a0 ab] eqn:Eab; [exact Hat|].
                     (* m absorbing, hence key-producing (K1), and not flushed: the trigger is the old one *)
                     destruct (fired_some_facts is_action L s x m Hx Ef) as [HmL _].
                     assert (Ham : is_action_mapping is_action m = true) by (apply HK1; [exact HmL | rewrite Eab; discriminate]).
                     rewrite Ham in Efl. cbn [andb] in Efl. unfold should_absorb, pre_press in Efl.
                     cbn [atrig set_rtrig set_absd] in Efl. rewrite Hat in Efl.
                     apply negb_false_iff, N.eqb_eq in Efl. subst t. reflexivity.
        -- apply in_map_iff in Hin. destruct Hin as [M' [E HM']]. inversion E. subst M' t.
           right. split.
           ++ rewrite Habsd. apply In_fold_push_new. right. exact HM'.
           ++ rewrite Hatrig. subst abs_new. destruct (fired L s x) as [m|]; [|destruct HM'].
              destruct (m_abs m); [destruct HM' | reflexivity].
      * (* j_counts *)
        intros c Hc. cbn [ag_counts] in Hc. apply filter_In in Hc. destruct Hc as [Hc Hn].
        apply negb_true_iff, mem_false in Hn. apply In_push_new in Hc.
        assert (Hnab : ~ In c (absd s')).
        { rewrite Habsd. intros H. apply In_fold_push_new in H. destruct H as [H|H]; [|contradiction].
          apply Hbase in H. destruct H as [H1 H2]. destruct Hc as [Hc|Hc]; [|contradiction].
          exact (proj2 (Jcnt c Hc) H1). }
        split; [|exact Hnab].
        apply Hinp. destruct Hc as [Hc|Hc]; [|left; exact Hc].
        destruct (Jcnt c Hc) as [H1 H2]. right. split; [exact H1|]. intros _ H. apply In_remove_all in H. tauto.
      * (* j_last *)
        intros m t P Hl. cbn [ag_last] in Hl.
        destruct (fired L s x) as [m0|] eqn:Ef; [|discriminate].
        destruct (m_abs m0) as [|a0 ab] eqn:Eab; [discriminate|]. inversion Hl. subst m0 t P. clear Hl.
        destruct (fired_some_facts is_action L s x m Hx Ef) as [HmL _].
        assert (Ham : is_action_mapping is_action m = true) by (apply HK1; [exact HmL | rewrite Eab; discriminate]).
        split; [rewrite Hatrig; reflexivity|].
        rewrite (fired_spec L s x Hx) in Ef. rewrite <- Ef. apply find_ext_in. intros m' _.
        apply is_supported_ext. intros f _ Hfx. rewrite andb_true_r.
        change (inp (pre_press s x)) with (inp s). change (absd (pre_press s x)) with (remove_all x (absd s)).
        subst flushed. rewrite Ham in Hinp. cbn [andb] in Hinp.
        destruct (should_absorb (pre_press s x) x) eqn:Esa.
        -- destruct (mem f (inp s)) eqn:E1; destruct (mem f (remove_all x (absd s))) eqn:E2; cbn [andb negb].
           ++ apply mem_false. intros H. apply Hinp in H. destruct H as [H|[_ H]]; [contradiction|].
              apply (H eq_refl). apply mem_In. exact E2.
           ++ apply mem_In. apply Hinp. right. split; [apply mem_In; exact E1|]. intros _. apply mem_false. exact E2.
           ++ apply mem_false. intros H. apply Hinp in H. destruct H as [H|[H _]]; [contradiction|]. apply mem_false in E1. contradiction.
           ++ apply mem_false. intros H. apply Hinp in H. destruct H as [H|[H _]]; [contradiction|]. apply mem_false in E1. contradiction.
        -- cbn [mem existsb negb]. rewrite andb_true_r. apply mem_eq_iff. rewrite Hinp. split.
           ++ intros [H|[H _]]; [contradiction | exact H].
           ++ intros H. right. split; [exact H | discriminate].
  - (* release *)
    cbn [mstep phys_after ag_step].
    assert (Est : snd (let '(evs, r, s') := step is_action L s (Released x) in (evs, Some r, s')) = snd (step is_action L s (Released x))).
    { destruct (step is_action L s (Released x)) as [[a b] c]. reflexivity. }
    rewrite Est. clear Est.
    pose proof (release_aux_facts L s x I) as R. cbn zeta in R.
    set (s' := snd (step is_action L s (Released x))) in *. destruct R as [Hinp [Habsd Hatrig]].
    constructor.
    + intros M t Hin HMp. cbn [ag_abs] in Hin. apply filter_In in Hin. destruct Hin as [Hin Hf]. cbn [fst] in Hf.
      apply negb_true_iff, N.eqb_neq in Hf. apply In_apply_ev_release in HMp. destruct HMp as [HMp _].
      destruct (Jabs M t Hin HMp) as [H|[H1 H2]].
      * left. intros H'. apply Hinp in H'. tauto.
      * right. rewrite Habsd, Hatrig. split; assumption.
    + intros c Hc. cbn [ag_counts] in Hc. apply In_remove_all in Hc. destruct Hc as [Hc Hne].
      destruct (Jcnt c Hc) as [H1 H2]. rewrite Habsd. split; [apply Hinp; split; assumption | exact H2].
    + intros m t P Hl. cbn [ag_last] in Hl.
      destruct (ag_last g) as [[[m0 t0] P0]|] eqn:El; [|discriminate].
      destruct (Jlast m0 t0 P0 eq_refl) as [Hat Hfind].
      assert (Keep : ag_last g = Some (m, t, P) -> (t = x \/ ~ In x (inp s)) ->
                     atrig s' = Some t /\ find (fun m' => is_supported (m_from m') (inp s') [] t) (rev (group_of L t)) = Some m).
      { rewrite El. intros E Hcase. inversion E. subst m0 t0 P0. split; [rewrite Hatrig; exact Hat|].
        rewrite <- Hfind. apply find_ext_in. intros m' _. apply is_supported_ext. intros f _ Hft.
        f_equal. apply mem_eq_iff. rewrite Hinp. split; [tauto|]. intros H. split; [exact H|].
        intros E'. subst f. destruct Hcase as [Hc|Hc]; [symmetry in Hc; contradiction | contradiction]. }
      destruct (N.eqb_spec t0 x) as [E|E].
      * rewrite <- El in Hl. apply Keep; [exact Hl|]. left. rewrite El in Hl. inversion Hl. subst. reflexivity.
      * destruct (mem x phys) eqn:Ep; [discriminate|].
        rewrite <- El in Hl. apply Keep; [exact Hl|]. right. intros H. apply Hincl in H. apply mem_false in Ep. contradiction.
  - (* release-all *)
    cbn [mstep phys_after ag_step]. constructor; cbn; intros; try contradiction; discriminate.
Qed.

(* the invariant along every history *)
Lemma J_run L h :
  wf_layout L -> K1P L ->
  J L (state_of is_action L h) (phys_of h) (ghost_of is_action L h).
Proof.
  intros Hwf HK1. induction h as [|i h IH] using rev_ind.
  - apply J_init.
  - rewrite state_of_snoc, phys_of_snoc, ghost_of_snoc.
    destruct (run_facts is_action L h Hwf) as [I [_ Hincl]].
    apply J_step; assumption.
Qed.


(* ---------- the clauses ---------- *)

Lemma victims_In g phys x M t :
  In (M, t) (victims g phys x) <-> In (M, t) (ag_abs g) /\ In M phys /\ t <> x /\ M <> x.
Proof.
  unfold victims. rewrite filter_In. cbn [fst snd]. rewrite !andb_true_iff, !negb_true_iff, !N.eqb_neq, mem_In. tauto.
Qed.

(* (a) a press of another key never fires a mapping requiring the absorbed M *)
Lemma absorbed_not_required L h x M t m' :
  wf_layout L -> K1P L ->
  let s := state_of is_action L h in
  mem x (inp s) = false ->
  In (M, t) (victims (ghost_of is_action L h) (phys_of h) x) ->
  fired L s x = Some m' -> ~ In M (m_from m').
Proof.
  intros Hwf HK1. cbn zeta. intros Hx Hv Hf HM.
  apply victims_In in Hv. destruct Hv as [Hin [HMp [Htx HMx]]].
  destruct (J_run L h Hwf HK1) as [Jabs _ _].
  rewrite (fired_spec L _ x Hx) in Hf. apply find_some in Hf. destruct Hf as [_ Hsup].
  unfold is_supported in Hsup. rewrite forallb_forall in Hsup. specialize (Hsup M HM).
  apply orb_true_iff in Hsup. destruct Hsup as [Hsup|Hsup]; [|apply N.eqb_eq in Hsup; contradiction].
  apply andb_true_iff in Hsup. destruct Hsup as [H1 H2]. apply mem_In in H1. apply negb_true_iff, mem_false in H2.
  change (inp (pre_press (state_of is_action L h) x)) with (inp (state_of is_action L h)) in H1.
  destruct (Jabs M t Hin HMp) as [Hni|[Hab Hat]]; [contradiction|].
  unfold should_absorb, pre_press in H2. cbn [atrig absd set_rtrig set_absd] in H2. rewrite Hat in H2.
  assert (E : negb (N.eqb t x) = true) by (apply negb_true_iff, N.eqb_neq; exact Htx). rewrite E in H2.
  apply H2. apply In_remove_all. split; assumption.
Qed.

(* (c) pressing the trigger again fires the same mapping *)
Lemma refire_same L h m t P :
  wf_layout L -> K1P L ->
  let s := state_of is_action L h in
  ag_last (ghost_of is_action L h) = Some (m, t, P) -> mem t (inp s) = false ->
  fired L s t = Some m.
Proof.
  intros Hwf HK1. cbn zeta. intros Hl Ht.
  destruct (J_run L h Hwf HK1) as [_ _ Jlast]. destruct (Jlast m t P Hl) as [Hat Hfind].
  rewrite (fired_spec L _ t Ht).
  unfold should_absorb, pre_press. cbn [atrig inp absd set_rtrig set_absd]. rewrite Hat, N.eqb_refl. cbn [negb].
  exact Hfind.
Qed.

(* (d) a key pressed again counts as held until a mapping absorbing it fires *)
Lemma counts_again L h c :
  wf_layout L -> K1P L ->
  In c (ag_counts (ghost_of is_action L h)) ->
  In c (inp (state_of is_action L h)) /\ ~ In c (absd (state_of is_action L h)).
Proof. intros Hwf HK1 Hc. destruct (J_run L h Hwf HK1) as [_ Jcnt _]. apply Jcnt. exact Hc. Qed.

(* ---------- (b): the held set at the press of a non-modifier ---------- *)

Lemma haap_prefix held : forall evs hs,
  In hs (held_at_action_presses is_action held evs) ->
  exists pre a post, evs = pre ++ Pressed a :: post /\ is_action a = true
                     /\ hs = apply_evs held (pre ++ [Pressed a]).
Proof.
  intros evs. revert held. induction evs as [|e r IH]; intros held hs H; cbn [held_at_action_presses] in H; [destruct H|].
  assert (Rec : In hs (held_at_action_presses is_action (apply_ev held e) r) ->
                exists pre a post, e :: r = pre ++ Pressed a :: post /\ is_action a = true
                                   /\ hs = apply_evs held (pre ++ [Pressed a])).
  { intros H'. destruct (IH _ _ H') as [pre [a [post [E1 [E2 E3]]]]].
    exists (e :: pre), a, post. split; [rewrite E1; reflexivity|]. split; [exact E2 | exact E3]. }
  destruct e as [a|a]; [|apply Rec; exact H].
  destruct (is_action a) eqn:Ea; [|apply Rec; exact H].
  destruct H as [H|H]; [|apply Rec; exact H].
  exists [], a, r. split; [reflexivity|]. split; [exact Ea | symmetry; exact H].
Qed.

Lemma In_apply_evs_origin evs : forall h k, In k (apply_evs h evs) -> In k h \/ In (Pressed k) evs.
Proof.
  induction evs as [|e r IH]; intros h k H; [left; exact H|].
  unfold apply_evs in H. cbn [fold_left] in H. apply IH in H. destruct H as [H|H]; [|right; right; exact H].
  destruct e as [a|a].
  - apply In_apply_ev_press in H. destruct H as [H|H]; [left; exact H | right; left; subst; reflexivity].
  - apply In_apply_ev_release in H. left. tauto.
Qed.

Lemma split_after_releases (e0 te pre post : list event) a :
  all_released e0 -> e0 ++ te = pre ++ Pressed a :: post ->
  exists pre', pre = e0 ++ pre' /\ te = pre' ++ Pressed a :: post.
Proof.
  revert pre. induction e0 as [|e r IH]; intros pre Hr E.
  - exists pre. split; [reflexivity | exact E].
  - destruct pre as [|p pre].
    + cbn [app] in E. inversion E. subst e. exfalso.
      destruct (all_released_In _ (Pressed a) Hr (or_introl eq_refl)) as [y Ey]. discriminate.
    + cbn [app] in E. inversion E. subst p.
      assert (Hr' : all_released r).
      { unfold all_released in *. cbn [forallb] in Hr. apply andb_true_iff in Hr. tauto. }
      destruct (IH pre Hr' H1) as [pre' [E1 E2]]. exists pre'. split; [rewrite E1; reflexivity | exact E2].
Qed.

Lemma press_out_fold_act : forall ts evs s,
  act (snd (fold_left (press_out is_action) ts (evs, s))) = act s.
Proof.
  induction ts as [|x ts IH]; intros evs s; cbn [fold_left]; [reflexivity|].
  unfold press_out at 2. destruct (is_action x).
  - destruct (mem x (mout s)); [apply IH|]. destruct (mem x (pass s)); rewrite IH; reflexivity.
  - destruct (negb (mem x (mout s)) && negb (mem x (pass s))); rewrite IH; reflexivity.
Qed.

Lemma anm_tail_act s0 k m : act (snd (anm_tail is_action s0 k m)) = act s0 ++ [m].
Proof.
  unfold anm_tail. destruct (m_abs m); destruct (m_repeat m); cbn [fst snd];
    cbn [act set_rtrig set_act set_atrig set_absd release_all_action_keys set_mout set_pass snd];
    rewrite press_out_fold_act; reflexivity.
Qed.

Lemma anm_tail_events s0 k m e :
  In e (fst (fst (anm_tail is_action s0 k m))) -> (exists y, e = Released y) \/ In (ev_key e) (m_to m).
Proof.
  unfold anm_tail. intros H.
  assert (Hmain : In e (fst (consume_pass s0 m) ++ fst (fold_left (press_out is_action) (m_to m) ([], snd (consume_pass s0 m)))) ->
                  (exists y, e = Released y) \/ In (ev_key e) (m_to m)).
  { intros H'. apply in_app_or in H'. destruct H' as [H'|H'].
    - destruct (consume_events s0 m e H') as [y [Ey _]]. left. exists y. exact Ey.
    - destruct (press_out_fold_events is_action _ _ _ _ H') as [[]|Hk]. right. exact Hk. }
  destruct (m_repeat m); cbn [fst] in H.
  - apply Hmain. exact H.
  - apply in_app_or in H. destruct H as [H|H]; [apply Hmain; exact H|].
    destruct (raak_events is_action _ _ H) as [y [Ey _]]. left. exists y. exact Ey.
  - apply in_app_or in H. destruct H as [H|H]; [apply Hmain; exact H|].
    destruct (raak_events is_action _ _ H) as [y [Ey _]]. left. exists y. exact Ey.
Qed.

Definition K2P (L : layout) : Prop :=
  forall m, In m L -> is_action_mapping is_action m = false -> forall t, In t (m_to m) -> is_action t = false.

Lemma K2_K2P L : K2 is_action L = true -> K2P L.
Proof.
  unfold K2, K2P. rewrite forallb_forall. intros H m Hm Hna t Ht. specialize (H m Hm). rewrite Hna in H.
  cbn [orb] in H. rewrite forallb_forall in H. apply negb_true_iff. apply H. exact Ht.
Qed.

Lemma absorbed_not_down L h x M t hs :
  wf_layout L -> K1P L -> K2P L ->
  let s := state_of is_action L h in
  let r := step is_action L s (Pressed x) in
  mem x (inp s) = false ->
  In (M, t) (victims (ghost_of is_action L h) (phys_of h) x) ->
  In hs (held_at_action_presses is_action (held_all is_action L h) (fst (fst r))) ->
  In M hs -> still_used (act (snd r)) M = true.
Proof.
  intros Hwf HK1 HK2. cbn zeta. intros Hx Hv Hhs HM.
  apply victims_In in Hv. destruct Hv as [Hin [HMp [Htx HMx]]].
  destruct (J_run L h Hwf HK1) as [Jabs _ _].
  destruct (run_facts is_action L h Hwf) as [I _].
  pose proof (held_all_seteq is_action L h Hwf) as Hheld.
  set (s := state_of is_action L h) in *.
  destruct (haap_prefix _ _ _ Hhs) as [pre [a [post [Eevs [Ea Ehs]]]]]. subst hs.
  assert (Ipp : Inv L (pre_press s x)) by (apply Inv_pre_press; exact I).
  (* M is flushed from the input list whenever release_absorbed_keys runs for a trigger other than t *)
  assert (HJ : ~ In M (inp s) \/ (In M (absd (pre_press s x)) /\ should_absorb (pre_press s x) x = true)).
  { destruct (Jabs M t Hin HMp) as [H|[H1 H2]]; [left; exact H|]. right. split.
    - unfold pre_press. cbn [absd set_rtrig set_absd]. apply In_remove_all. split; assumption.
    - unfold should_absorb, pre_press. cbn [atrig set_rtrig set_absd]. rewrite H2. apply negb_true_iff, N.eqb_neq. exact Htx. }
  cbn [step] in *. rewrite Hx in *.
  destruct (fired L s x) as [m'|] eqn:Ef.
  - rewrite (newly_press_fired_some is_action L s x m' Hx Ef) in *. cbn [fst snd] in *.
    rewrite anm_unfold in *. cbn [fst snd act set_inp] in *.
    destruct (fired_some_facts is_action L s x m' Hx Ef) as [Hm'L _].
    pose proof (flush_for_action_inv is_action L (pre_press s x) x m' Ipp) as R. cbn zeta in R.
    destruct R as [I0 [T0 [Hr0 [Hinp0 [_ _]]]]].
    set (e0 := fst (flush_for_action is_action (pre_press s x) x m')) in *.
    set (s0 := snd (flush_for_action is_action (pre_press s x) x m')) in *.
    destruct (split_after_releases _ _ _ _ _ Hr0 Eevs) as [pre' [Epre Ete]].
    (* the pressed non-modifier is an output key of m', so m' is key-producing (K2) *)
    assert (Hain : In a (m_to m')).
    { assert (Hin_a : In (Pressed a) (fst (fst (anm_tail is_action s0 x m')))) by (rewrite Ete; apply in_or_app; right; left; reflexivity).
      destruct (anm_tail_events _ _ _ _ Hin_a) as [[y Ey]|Hk]; [discriminate | exact Hk]. }
    assert (Ham : is_action_mapping is_action m' = true).
    { destruct (is_action_mapping is_action m') eqn:E; [reflexivity|]. rewrite (HK2 m' Hm'L E a Hain) in Ea. discriminate. }
    assert (HMinp0 : ~ In M (inp s0)).
    { intros H. apply Hinp0 in H. destruct H as [H1 H2]. destruct HJ as [HJ|[HJ1 HJ2]]; [exact (HJ H1)|].
      exact (H2 Ham HJ2 HJ1). }
    rewrite anm_tail_act. apply still_used_out_of.
    subst pre. rewrite <- app_assoc in HM. unfold apply_evs in HM. rewrite fold_left_app in HM. fold (apply_evs (held_all is_action L h) e0) in HM.
    fold (apply_evs (apply_evs (held_all is_action L h) e0) (pre' ++ [Pressed a])) in HM.
    assert (Hs0 : seteq (apply_evs (held_all is_action L h) e0) (held_of s0)).
    { eapply seteq_trans; [apply apply_evs_seteq; exact Hheld|]. exact (proj2 T0). }
    apply (apply_evs_seteq _ _ _ Hs0) in HM. apply In_apply_evs_origin in HM. destruct HM as [HM|HM].
    + unfold held_of in HM. apply in_app_or in HM. destruct HM as [HM|HM].
      * exfalso. apply HMinp0. apply (i_pass_inp _ _ I0). exact HM.
      * destruct (i_mout _ _ I0 M HM) as [m2 [Hm2 Ht2]]. exists m2. split; [apply in_or_app; left; exact Hm2 | exact Ht2].
    + assert (Hin_M : In (Pressed M) (fst (fst (anm_tail is_action s0 x m')))).
      { rewrite Ete. apply in_app_or in HM. destruct HM as [HM|[HM|[]]];
          [apply in_or_app; left; exact HM | apply in_or_app; right; left; exact HM]. }
      destruct (anm_tail_events _ _ _ _ Hin_M) as [[y Ey]|Hk]; [discriminate|].
      exists m'. split; [apply in_or_app; right; left; reflexivity | exact Hk].
  - rewrite (fired_spec L s x Hx) in Ef. unfold newly_press in *. cbn zeta in *. fold (pre_press s x) in *.
    rewrite Ef in *.
    destruct (existsb (mentions x) (act (pre_press s x))); [cbn [fst] in Eevs; destruct pre; discriminate|].
    destruct (mem x (pass (pre_press s x))); [cbn [fst] in Eevs; destruct pre; discriminate|].
    destruct (is_action x) eqn:Eax.
    + pose proof (release_action_mappings_inv is_action L _ Ipp) as R. cbn zeta in R.
      destruct R as [I1 [T1 [Hi1 [_ [_ [_ [[Ha1 _] Hr1]]]]]]].
      destruct (release_action_mappings is_action (pre_press s x)) as [ea sa]. cbn [fst snd] in *.
      pose proof (release_absorbed_keys_inv is_action L sa I1) as R. cbn zeta in R.
      destruct R as [Ib [Tb [Hrb [Hib _]]]].
      destruct (release_absorbed_keys sa) as [eb sb]. cbn [fst snd act set_inp set_pass] in *.
      assert (Hr : all_released (ea ++ eb)) by (apply all_released_app_intro; assumption).
      destruct (split_after_releases _ _ _ _ _ Hr Eevs) as [pre' [Epre Ete]].
      destruct pre' as [|p pre']; [|destruct pre'; discriminate]. cbn [app] in Ete. inversion Ete. subst a post.
      rewrite app_nil_r in Epre. subst pre.
      assert (HMinpb : ~ In M (inp sb)).
      { intros H. apply Hib in H. destruct H as [H1 H2]. rewrite Hi1 in H1. destruct HJ as [HJ|[HJ1 _]]; [exact (HJ H1)|].
        apply H2. rewrite Ha1. exact HJ1. }
      apply still_used_out_of.
      unfold apply_evs in HM. rewrite fold_left_app in HM. cbn [fold_left] in HM.
      apply In_apply_ev_press in HM. destruct HM as [HM|HM]; [|contradiction].
      assert (Hsb : seteq (fold_left apply_ev (ea ++ eb) (held_all is_action L h)) (held_of sb)).
      { eapply seteq_trans; [apply (apply_evs_seteq (ea ++ eb)); exact Hheld|].
        exact (proj2 (tr_ok_app _ _ _ _ _ T1 Tb)). }
      apply Hsb in HM. unfold held_of in HM. apply in_app_or in HM. destruct HM as [HM|HM].
      * exfalso. apply HMinpb. apply (i_pass_inp _ _ Ib). exact HM.
      * exact (i_mout _ _ Ib M HM).
    + cbn [fst app] in Eevs. destruct pre as [|p pre]; [|destruct pre; discriminate].
      cbn [app] in Eevs. inversion Eevs. subst a. congruence.
Qed.


(* ---------- the extracted checker never fires on the model (K1, K2 layouts) ---------- *)

Lemma list_eqb_refl {A} (eqb : A -> A -> bool) : (forall a, eqb a a = true) -> forall l, list_eqb eqb l l = true.
Proof. intros H. induction l as [|x t IH]; cbn [list_eqb]; [reflexivity | rewrite H, IH; reflexivity]. Qed.

Lemma mapping_eqb_refl m : mapping_eqb m m = true.
Proof.
  unfold mapping_eqb. rewrite !(list_eqb_refl N.eqb N.eqb_refl).
  destruct (m_repeat m) as [| |ks d i]; cbn [repeat_eqb andb]; try reflexivity.
  rewrite (list_eqb_refl N.eqb N.eqb_refl), !Z.eqb_refl. reflexivity.
Qed.

Lemma c08_check_silent L h i :
  wf_layout L -> K1P L -> K2P L ->
  c08_check is_action L (state_of is_action L h) (state_of is_action L (h ++ [i]))
            (phys_of h) (held_all is_action L h) (ghost_of is_action L h) i
            (fst (fst (mstep is_action L (state_of is_action L h) i))) = [].
Proof.
  intros Hwf HK1 HK2. unfold c08_check.
  assert (Hcnt : existsb (fun k => negb (mem k (inp (state_of is_action L (h ++ [i])))) || mem k (absd (state_of is_action L (h ++ [i]))))
                   (ag_counts (ag_step L (state_of is_action L h) (phys_of h) (ghost_of is_action L h) i)) = false).
  { rewrite <- ghost_of_snoc. match goal with |- ?X = false => destruct X eqn:E end; [|reflexivity]. exfalso.
    apply existsb_exists in E. destruct E as [c [Hc Hb]].
    destruct (counts_again L (h ++ [i]) c Hwf HK1 Hc) as [H1 H2].
    apply mem_In in H1. apply mem_false in H2. rewrite H1, H2 in Hb. discriminate. }
  rewrite Hcnt. rewrite app_nil_r.
  destruct i as [[x|x]|]; try reflexivity.
  destruct (mem x (inp (state_of is_action L h))) eqn:Hx; [reflexivity|].
  cbn [mstep].
  assert (Est : fst (fst (let '(evs, r, s') := step is_action L (state_of is_action L h) (Pressed x) in (evs, Some r, s')))
                = fst (fst (step is_action L (state_of is_action L h) (Pressed x)))).
  { destruct (step is_action L (state_of is_action L h) (Pressed x)) as [[a b] c]. reflexivity. }
  rewrite Est. clear Est. rewrite state_of_snoc. cbn [mstep].
  assert (Est : snd (let '(evs, r, s') := step is_action L (state_of is_action L h) (Pressed x) in (evs, Some r, s'))
                = snd (step is_action L (state_of is_action L h) (Pressed x))).
  { destruct (step is_action L (state_of is_action L h) (Pressed x)) as [[a b] c]. reflexivity. }
  rewrite Est. clear Est.
  assert (A : existsb (fun p => match fired L (state_of is_action L h) x with Some m' => mem (fst p) (m_from m') | None => false end)
                (victims (ghost_of is_action L h) (phys_of h) x) = false).
  { match goal with |- ?X = false => destruct X eqn:E end; [|reflexivity]. exfalso. apply existsb_exists in E. destruct E as [[M t] [Hv Hb]].
    cbn [fst] in Hb. destruct (fired L (state_of is_action L h) x) as [m'|] eqn:Ef; [|discriminate].
    apply mem_In in Hb. exact (absorbed_not_required L h x M t m' Hwf HK1 Hx Hv Ef Hb). }
  assert (B : existsb (fun p => existsb (mem (fst p))
                   (held_at_action_presses is_action (held_all is_action L h)
                      (fst (fst (step is_action L (state_of is_action L h) (Pressed x)))))
                 && negb (still_used (act (snd (step is_action L (state_of is_action L h) (Pressed x)))) (fst p)))
                (victims (ghost_of is_action L h) (phys_of h) x) = false).
  { match goal with |- ?X = false => destruct X eqn:E end; [|reflexivity]. exfalso. apply existsb_exists in E. destruct E as [[M t] [Hv Hb]].
    cbn [fst] in Hb. apply andb_true_iff in Hb. destruct Hb as [Hb1 Hb2]. apply existsb_exists in Hb1.
    destruct Hb1 as [hs [Hhs HM]]. apply mem_In in HM.
    rewrite (absorbed_not_down L h x M t hs Hwf HK1 HK2 Hx Hv Hhs HM) in Hb2. discriminate. }
  rewrite A, B. cbn [app].
  destruct (ag_last (ghost_of is_action L h)) as [[[m t] P]|] eqn:El; [|reflexivity].
  destruct (N.eqb_spec t x) as [E|E]; [|reflexivity]. subst t.
  rewrite (refire_same L h m x P Hwf HK1 El Hx), mapping_eqb_refl. cbn [negb]. rewrite andb_false_r. reflexivity.
Qed.

End S.
