(* BuiltinFacts.v — the five built-in layouts (DEFAULT_LAYOUTS of
   default_fancy_layouts.rs, regenerated into TMGen.Builtins on every run as
   serde_json parses them): each loads, can be installed in the mapper, and
   lies in the class K1 /\ K2 in which C08 is proved. *)
From TM Require Import Base Json RustOps Mapper Monitors Parser Convert Absorb SpecTables.
From TMGen Require Import Builtins.

Definition spec_is_action (k : key) : bool := negb (spec_is_modifier k).

Definition builtin_ok (nj : string * json) : bool :=
  match load (snd nj) with
  | Ok L => for_layout_ok L && K1 spec_is_action L && K2 spec_is_action L
  | _ => false
  end.

Lemma builtins_ok_all : forallb builtin_ok builtin_layouts = true.
Proof. vm_compute. reflexivity. Qed.

Lemma builtins_ok : forall n j, In (n, j) builtin_layouts ->
  exists L, load j = Ok L /\ for_layout_ok L = true /\ K1 spec_is_action L = true /\ K2 spec_is_action L = true.
Proof.
  intros n j H. pose proof builtins_ok_all as A. rewrite forallb_forall in A. specialize (A (n, j) H).
  unfold builtin_ok in A. cbn [snd] in A. destruct (load j) as [L| |s]; try discriminate.
  exists L. apply andb_true_iff in A. destruct A as [A A3]. apply andb_true_iff in A. destruct A as [A1 A2].
  repeat split; assumption.
Qed.

Lemma builtin_names : map fst builtin_layouts
  = ["caps-for-movement"; "caps-q-for-esc"; "easy-symbols"; "easy-symbols-tab-for-movement"; "super-dvorak"]%string.
Proof. vm_compute. reflexivity. Qed.
