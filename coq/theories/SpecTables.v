(* SpecTables.v — the US-QWERTY keyboard, written from the keyboard (ANSI 104
   layout and the kernel's KEY_* numbers of include/uapi/linux/input-event-codes.h),
   NOT from /repo.  It is the oracle for C13's table theorems and the table used
   by the specification ConvertSpec.expand.  Definitions only.

   One entry per physical key: (kernel code, character without Shift,
   character with Shift), as Unicode scalars. *)
From Coq Require Export NArith List.
Export ListNotations.
Open Scope N_scope.

Definition physkey := (N * N * N)%type.

(* number row, left to right: ` 1 2 3 4 5 6 7 8 9 0 - =                *)
Definition kb_row_number : list physkey :=
  [ (41, 96, 126)   (* KEY_GRAVE  backquote ~ *);
    (2, 49, 33)     (* KEY_1      1 ! *);
    (3, 50, 64)     (* KEY_2      2 @ *);
    (4, 51, 35)     (* KEY_3      3 # *);
    (5, 52, 36)     (* KEY_4      4 $ *);
    (6, 53, 37)     (* KEY_5      5 % *);
    (7, 54, 94)     (* KEY_6      6 ^ *);
    (8, 55, 38)     (* KEY_7      7 & *);
    (9, 56, 42)     (* KEY_8      8 * *);
    (10, 57, 40)    (* KEY_9      9 ( *);
    (11, 48, 41)    (* KEY_0      0 ) *);
    (12, 45, 95)    (* KEY_MINUS  - _ *);
    (13, 61, 43)    (* KEY_EQUAL  = + *) ].

(* top letter row: q w e r t y u i o p [ ]   (then \ on ANSI boards) *)
Definition kb_row_top : list physkey :=
  [ (16, 113, 81); (17, 119, 87); (18, 101, 69); (19, 114, 82); (20, 116, 84);
    (21, 121, 89); (22, 117, 85); (23, 105, 73); (24, 111, 79); (25, 112, 80);
    (26, 91, 123)   (* KEY_LEFTBRACE  [ { *);
    (27, 93, 125)   (* KEY_RIGHTBRACE ] } *) ].

(* the key right of ] on ANSI boards: \ |  — not part of any shorthand row *)
Definition kb_backslash : physkey := (43, 92, 124).

(* home row: a s d f g h j k l ; ' *)
Definition kb_row_home : list physkey :=
  [ (30, 97, 65); (31, 115, 83); (32, 100, 68); (33, 102, 70); (34, 103, 71);
    (35, 104, 72); (36, 106, 74); (37, 107, 75); (38, 108, 76);
    (39, 59, 58)    (* KEY_SEMICOLON  ; : *);
    (40, 39, 34)    (* KEY_APOSTROPHE apostrophe, double quote *) ].

(* bottom row: z x c v b n m , . / *)
Definition kb_row_bottom : list physkey :=
  [ (44, 122, 90); (45, 120, 88); (46, 99, 67); (47, 118, 86); (48, 98, 66);
    (49, 110, 78); (50, 109, 77);
    (51, 44, 60)    (* KEY_COMMA , < *);
    (52, 46, 62)    (* KEY_DOT   . > *);
    (53, 47, 63)    (* KEY_SLASH / ? *) ].

Definition keyboard : list physkey :=
  kb_row_number ++ kb_row_top ++ [kb_backslash] ++ kb_row_home ++ kb_row_bottom.

Definition KEY_LEFTSHIFT : N := 42.
Definition KEY_RIGHTSHIFT : N := 54.

(* the eight keys an alias definition may consist of without becoming a mapping
   of its own: both Shift, Ctrl, Alt and Meta keys *)
Definition spec_modifier_keys : list N :=
  [ 42 (* LEFTSHIFT *); 54 (* RIGHTSHIFT *); 29 (* LEFTCTRL *); 97 (* RIGHTCTRL *);
    56 (* LEFTALT *); 100 (* RIGHTALT *); 125 (* LEFTMETA *); 126 (* RIGHTMETA *) ].

Definition spec_is_modifier (k : N) : bool := existsb (N.eqb k) spec_modifier_keys.

(* how to type a character: (needs Shift, key) *)
Fixpoint spec_char_in (kb : list physkey) (ch : N) : option (bool * N) :=
  match kb with
  | [] => None
  | (code, plain, shifted) :: t =>
    if N.eqb ch plain then Some (false, code)
    else if N.eqb ch shifted then Some (true, code)
    else spec_char_in t ch
  end.

Definition spec_char (ch : N) : option (bool * N) := spec_char_in keyboard ch.

(* the 94 printable ASCII characters other than space, as (char, shift, key) *)
Definition us_qwerty : list (N * bool * N) :=
  flat_map (fun k => match k with (code, plain, shifted) => [(plain, false, code); (shifted, true, code)] end) keyboard.

(* the shorthand rows (README: the row starting with GRAVE; 1 is the same row
   starting with the 1 key; the rows starting with Q, A, Z) *)
Definition codes (r : list physkey) : list N := map (fun k => fst (fst k)) r.

Definition spec_row_grave : list N := codes kb_row_number.
Definition spec_row_1 : list N := tl (codes kb_row_number).
Definition spec_row_q : list N := codes kb_row_top.
Definition spec_row_a : list N := codes kb_row_home.
Definition spec_row_z : list N := codes kb_row_bottom.
