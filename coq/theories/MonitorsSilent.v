(* MonitorsSilent.v — the extracted step checker Monitors.check_step (what the
   correspondence engine applies to the REAL mapper's outputs on every explored
   transition) never fires on the model itself: for every classification, every
   accepted layout, every history h and every next input i,

     check_step L (state after h) (state after h ++ [i]) (phys_of h) (held_all h) i
                (the model's events for i) = []

   One lemma per clause (K_C01_silent, K_C02_justified_silent, ...), each reduced
   to the property lemma of that clause (MapperProps, MapperChoice, MapperStale,
   MapperNoRepeat, MapperForeign, MapperEmpty, MapperProv, MapperStay); then
   check_step_silent.  The clauses of C03, C04 and C05.stay are claimed for
   layouts without absorbing mappings only; check_step guards them with
   has_absorbing itself, so the combined theorem needs no such hypothesis. *)
From TM Require Import Base ListFacts Mapper Monitors Trace TraceLemmas MapperInv MapperProps MapperFire
                       MapperNoAbs MapperChoice MapperNoRepeat MapperProv MapperForeign MapperEmpty
                       MapperStay MapperStale MapperAbsorb.
From Coq Require Import Lia.

(* ---------- boolean plumbing ---------- *)

Lemma existsb_false_intro {A} (f : A -> bool) (l : list A) :
  (forall x, In x l -> f x = true -> False) -> existsb f l = false.
Proof.
  intros H. destruct (existsb f l) eqn:E; [|reflexivity]. exfalso.
  apply existsb_exists in E. destruct E as [x [Hx Hf]]. exact (H x Hx Hf).
Qed.

Lemma ev_eqb_eq a b : ev_eqb a b = true <-> a = b.
Proof.
  destruct a as [x|x], b as [y|y]; cbn [ev_eqb]; split; intros H; try discriminate.
  - apply N.eqb_eq in H. subst. reflexivity.
  - inversion H. apply N.eqb_refl.
  - apply N.eqb_eq in H. subst. reflexivity.
  - inversion H. apply N.eqb_refl.
Qed.

Lemma ev_eqb_refl a : ev_eqb a a = true.
Proof. apply ev_eqb_eq. reflexivity. Qed.

Lemma has_ev_In e evs : has_ev e evs = true <-> In e evs.
Proof.
  unfold has_ev. rewrite existsb_exists. split.
  - intros [x [Hx E]]. apply ev_eqb_eq in E. subst. exact Hx.
  - intros H. exists e. split; [exact H | apply ev_eqb_refl].
Qed.

Lemma list_eqb_sound {A} (eqb : A -> A -> bool) :
  (forall a b, eqb a b = true -> a = b) -> forall l1 l2, list_eqb eqb l1 l2 = true -> l1 = l2.
Proof.
  intros H. induction l1 as [|x t IH]; intros [|y r] E; cbn [list_eqb] in E; try discriminate; [reflexivity|].
  apply andb_true_iff in E. destruct E as [E1 E2]. apply H in E1. apply IH in E2. subst. reflexivity.
Qed.

Lemma keys_eqb_sound (l1 l2 : list key) : list_eqb N.eqb l1 l2 = true -> l1 = l2.
Proof. apply list_eqb_sound. intros a b H. apply N.eqb_eq. exact H. Qed.

Lemma repeat_eqb_sound a b : repeat_eqb a b = true -> a = b.
Proof.
  destruct a as [| |k1 d1 i1], b as [| |k2 d2 i2]; cbn [repeat_eqb]; intros H; try discriminate; try reflexivity.
  apply andb_true_iff in H. destruct H as [H H3]. apply andb_true_iff in H. destruct H as [H1 H2].
  apply keys_eqb_sound in H1. apply Z.eqb_eq in H2. apply Z.eqb_eq in H3. subst. reflexivity.
Qed.

Lemma mapping_eqb_sound a b : mapping_eqb a b = true -> a = b.
Proof.
  unfold mapping_eqb. intros H.
  apply andb_true_iff in H. destruct H as [H H4]. apply andb_true_iff in H. destruct H as [H H3].
  apply andb_true_iff in H. destruct H as [H1 H2].
  apply keys_eqb_sound in H1. apply keys_eqb_sound in H2. apply repeat_eqb_sound in H3. apply keys_eqb_sound in H4.
  destruct a as [f1 t1 r1 a1], b as [f2 t2 r2 a2]. cbn [m_from m_to m_repeat m_abs] in *. subst. reflexivity.
Qed.

Lemma all_released_no_press evs : all_released evs -> existsb is_pressed evs = false.
Proof.
  intros H. apply existsb_false_intro. intros e He Hp.
  destruct (all_released_In _ _ H He) as [x Ex]. subst e. discriminate.
Qed.

Section S.
Variable is_action : key -> bool.

(* ---------- one more input: the quantities the checker is applied to ---------- *)

Lemma held_all_snoc L h i :
  held_all is_action L (h ++ [i])
  = apply_evs (held_all is_action L h) (fst (fst (mstep is_action L (state_of is_action L h) i))).
Proof. unfold held_all. rewrite out_all_snoc, apply_evs_app. reflexivity. Qed.

Lemma mstep_ev_fst L s e : fst (fst (mstep is_action L s (IEv e))) = fst (fst (step is_action L s e)).
Proof. cbn [mstep]. destruct (step is_action L s e) as [[a b] c]. reflexivity. Qed.

Lemma mstep_ev_snd L s e : snd (mstep is_action L s (IEv e)) = snd (step is_action L s e).
Proof. cbn [mstep]. destruct (step is_action L s e) as [[a b] c]. reflexivity. Qed.

(* a key that is in no absorbing list is seen by the mapper for as long as it is physically held *)
Lemma phys_inp_unless_absorbable L : forall h x,
  wf_layout L -> ~ lay_abs L x -> In x (phys_of h) -> In x (inp (state_of is_action L h)).
Proof.
  intros h x Hwf Hna. induction h as [|i h IH] using rev_ind; [intros []|].
  rewrite phys_of_snoc, state_of_snoc. intros Hp.
  destruct (run_facts is_action L h Hwf) as [I _].
  destruct i as [[k|k]|]; cbn [phys_after] in Hp.
  - rewrite mstep_ev_snd. apply In_apply_ev_press in Hp.
    destruct (mem k (inp (state_of is_action L h))) eqn:Hk.
    + cbn [step]. rewrite Hk. cbn [snd]. destruct Hp as [Hp|Hp]; [apply IH; exact Hp | subst; apply mem_In; exact Hk].
    + destruct (press_aux_facts is_action L _ k Hwf I Hk) as [Hi _]. apply Hi.
      destruct Hp as [Hp|Hp]; [|left; exact Hp]. right. split; [apply IH; exact Hp|].
      intros _ Hx. apply In_remove_all in Hx. apply Hna. apply (absd_in_layout is_action L h x Hwf). tauto.
  - rewrite mstep_ev_snd. apply In_apply_ev_release in Hp.
    destruct (release_aux_facts is_action L _ k I) as [Hi _]. apply Hi. split; [apply IH; tauto | tauto].
  - destruct Hp.
Qed.

(* ---------- the clauses, one by one ---------- *)

Section Step.
Variable L : layout.
Variable h : list input.
Variable i : input.
Hypothesis Hwf : wf_layout L.

Let s := state_of is_action L h.
Let s' := state_of is_action L (h ++ [i]).
Let evs := fst (fst (mstep is_action L s i)).
Let phys := phys_of h.
Let held := held_all is_action L h.
Let phys' := phys_of (h ++ [i]).
Let held' := held_all is_action L (h ++ [i]).

(* C19 *)
Lemma K_C19_silent : redundant held evs = false.
Proof.
  pose proof (no_redundant is_action L (h ++ [i]) Hwf) as R.
  rewrite out_all_snoc, redundant_app in R. apply orb_false_iff in R. exact (proj2 R).
Qed.

(* C01 *)
Lemma K_C01_silent :
  match phys' with [] => negb (match held' with [] => true | _ => false end) | _ => false end = false.
Proof.
  destruct phys' eqn:E; [|reflexivity].
  unfold held'. rewrite (no_stuck_keys is_action L (h ++ [i]) Hwf E). reflexivity.
Qed.

(* C02 *)
Lemma K_C02_justified_silent : negb (forallb (justified L phys') held') = false.
Proof.
  apply negb_false_iff. apply forallb_forall. intros k Hk.
  exact (held_justified is_action L (h ++ [i]) k Hwf Hk).
Qed.

Lemma K_C02_silenced_silent : existsb (silenced L) held' = false.
Proof.
  apply existsb_false_intro. intros k Hk Hs.
  exact (silenced_never_held is_action L (h ++ [i]) k Hwf Hs Hk).
Qed.

Lemma K_C02_release_presses_silent :
  match i with IEv (Released _) | IReleaseAll => existsb is_pressed evs | _ => false end = false.
Proof.
  pose proof (release_never_presses is_action L s i) as R.
  destruct i as [[k|k]|]; [reflexivity | |]; apply all_released_no_press; exact R.
Qed.

Lemma K_C02_trigger_silent :
  existsb (fun m => existsb (fun f => mem f held' && negb (still_used (act s') f)) (m_from m)) (act s') = false.
Proof.
  unfold s', held'. apply existsb_false_intro. intros m Hm E. apply existsb_exists in E. destruct E as [f [Hf E]].
  apply andb_true_iff in E. destruct E as [E1 E2]. apply mem_In in E1.
  rewrite (trigger_consumed is_action L (h ++ [i]) m f Hwf Hm Hf E1) in E2. discriminate.
Qed.

End Step.

(* ---------- the clauses of a physical press ---------- *)

Lemma is_normal_RNormal m : is_normal m = true <-> m_repeat m = RNormal.
Proof. unfold is_normal. destruct (m_repeat m); split; intros H; try discriminate; reflexivity. Qed.

Lemma filter_press_released k e1 : all_released e1 -> filter (ev_eqb (Pressed k)) e1 = [].
Proof.
  intros H. induction e1 as [|e t IH]; [reflexivity|].
  unfold all_released in H. cbn [forallb] in H. apply andb_true_iff in H. destruct H as [H1 H2].
  destruct e as [x|x]; [discriminate|]. cbn [filter ev_eqb]. apply IH. exact H2.
Qed.

Section Press.
Variable L : layout.
Variable h : list input.
Variable k : key.
Hypothesis Hwf : wf_layout L.

Let s := state_of is_action L h.
Let evs := fst (fst (step is_action L s (Pressed k))).
Let phys := phys_of h.
Let held := held_all is_action L h.
Let phys' := phys_of (h ++ [IEv (Pressed k)]).
Let held' := held_all is_action L (h ++ [IEv (Pressed k)]).

(* C03, a mapping is chosen *)
Lemma K_C03_fire_silent m :
  noabs L -> mem k phys = false -> spec_choice L phys k = Some m ->
  negb (forallb (fun t => if is_action t then has_ev (Pressed t) evs
                          else mem t held' || has_ev (Pressed t) evs) (m_to m)
        && (if is_normal m then subset (m_to m) held' else true)) = false.
Proof.
  intros Hna Hk Hc. pose proof (choice_fires is_action L h k Hwf Hna Hk) as R. cbn zeta in R.
  unfold phys in Hc. rewrite Hc in R. destruct R as [_ [H1 [H2 H3]]].
  apply negb_false_iff. apply andb_true_iff. split.
  - apply forallb_forall. intros t Ht. destruct (is_action t) eqn:Ea.
    + apply has_ev_In. exact (H1 t Ht Ea).
    + apply orb_true_iff. left. apply mem_In. exact (H2 t Ht Ea).
  - destruct (is_normal m) eqn:En; [|reflexivity]. apply subset_incl. intros t Ht.
    apply (H3 (proj1 (is_normal_RNormal m) En) t Ht).
Qed.

(* C03, no mapping is chosen *)
Lemma K_C03_pass_silent :
  noabs L -> mem k phys = false -> spec_choice L phys k = None ->
  negb (if existsb (mentions k) (act s)
        then match evs with [] => true | _ => false end
        else match last_opt evs with Some e => ev_eqb e (Pressed k) | None => false end) = false.
Proof.
  intros Hna Hk Hc. pose proof (choice_fires is_action L h k Hwf Hna Hk) as R. cbn zeta in R.
  unfold phys in Hc. rewrite Hc in R. fold s in R. fold evs in R.
  apply negb_false_iff. destruct (existsb (mentions k) (act s)).
  - rewrite R. reflexivity.
  - rewrite R. apply ev_eqb_refl.
Qed.

(* C04 (and the "final press not found" case of C03.fire) *)
Lemma K_C04_silent m t :
  noabs L -> mem k phys = false -> spec_choice L phys k = Some m ->
  is_action_mapping is_action m = true -> last_opt (m_to m) = Some t ->
  exists pre,
    upto_press t evs = Some pre
    /\ negb (forallb (fun d => is_action d || mem d (apply_evs held pre)) (m_to m)) = false
    /\ existsb (fun d => negb (is_action d) && negb (mem d (m_to m))
                         && negb (c04_ok_other is_action L phys' m d)) (apply_evs held pre) = false.
Proof.
  intros Hna Hk Hc Ham Hl.
  destruct (no_stale_modifiers is_action L h k m t Hwf Hna Hk Hc Ham Hl) as [pre [Hup [H1 H2]]].
  exists pre. split; [exact Hup|]. split.
  - apply negb_false_iff. apply forallb_forall. intros d Hd. apply orb_true_iff. right. apply mem_In. exact (H1 d Hd).
  - apply existsb_false_intro. intros d Hd E.
    apply andb_true_iff in E. destruct E as [E E3]. apply andb_true_iff in E. destruct E as [E1 E2].
    apply negb_true_iff in E1. apply negb_true_iff, mem_false in E2.
    unfold phys' in E3. rewrite (H2 d Hd E1 E2) in E3. discriminate.
Qed.

(* C05, a foreign key is pressed exactly once by its physical press *)
Lemma K_C05_foreign_press_silent :
  mem k phys = false ->
  foreign L k && negb (Nat.eqb (length (filter (ev_eqb (Pressed k)) evs)) 1) = false.
Proof.
  intros Hk. destruct (foreign L k) eqn:Hf; [|reflexivity]. cbn [andb].
  destruct (foreign_press_once is_action L h k Hwf Hf Hk) as [e1 [He Hr]].
  unfold evs, s. rewrite He, filter_app, (filter_press_released k e1 Hr).
  cbn [filter app]. rewrite ev_eqb_refl. reflexivity.
Qed.

Lemma fired_some_acted m : fired L s k = Some m -> mem k (inp s) = false.
Proof. unfold fired. destruct (mem k (inp s)); [discriminate | reflexivity]. Qed.

(* C07 *)
Lemma K_C07_silent m :
  fired L s k = Some m -> is_normal m = false ->
  existsb is_action held' = false
  /\ negb (forallb (fun t => negb (is_action t) || has_ev (Pressed t) evs) (m_to m)) = false.
Proof.
  intros Hf Hn.
  assert (Hnr : m_repeat m <> RNormal).
  { intros E. apply is_normal_RNormal in E. congruence. }
  destruct (norepeat_fire is_action L h k m Hwf (fired_some_acted m Hf) Hf Hnr) as [H1 H2]. split.
  - apply existsb_false_intro. intros x Hx Ha. rewrite (H1 x Hx) in Ha. discriminate.
  - apply negb_false_iff. apply forallb_forall. intros t Ht. destruct (is_action t) eqn:Ea; [|reflexivity].
    cbn [negb orb]. apply has_ev_In. exact (H2 t Ht Ea).
Qed.

End Press.

(* ---------- C05: foreign keys, release scope, outputs that stay (any input) ---------- *)

Section Step2.
Variable L : layout.
Variable h : list input.
Variable i : input.
Hypothesis Hwf : wf_layout L.

Let s := state_of is_action L h.
Let s' := state_of is_action L (h ++ [i]).
Let evs := fst (fst (mstep is_action L s i)).
Let phys := phys_of h.
Let held' := held_all is_action L (h ++ [i]).

Lemma K_C05_foreign_events_silent :
  existsb (fun e =>
     match e with
     | Pressed x =>
       foreign L x && negb (match i with IEv (Pressed k) => N.eqb k x && negb (mem k phys) | _ => false end)
     | Released x =>
       foreign L x
       && negb (match i with
                | IEv (Released k) => N.eqb k x
                | IReleaseAll => true
                | IEv (Pressed k) =>
                  is_action x && match fired L s k with Some m => negb (is_normal m) | None => false end
                end)
     end) evs
  || match i with IEv (Released k) => foreign L k && mem k held' | _ => false end = false.
Proof.
  apply orb_false_iff. split.
  - apply existsb_false_intro. intros e He E.
    destruct e as [x|x]; apply andb_true_iff in E; destruct E as [Hf E]; apply negb_true_iff in E.
    + pose proof (foreign_events is_action L h i x (Pressed x) Hwf Hf He eq_refl) as R. cbn beta iota in R.
      destruct R as [Ei Hx]. rewrite Ei in E. rewrite N.eqb_refl in E. cbn [andb] in E.
      apply negb_false_iff, mem_In in E.
      destruct (foreign_not_in_layout L x Hf) as [_ [_ N3]].
      apply (phys_inp_unless_absorbable L h x Hwf N3) in E. apply mem_In in E. fold s in E, Hx. congruence.
    + pose proof (foreign_events is_action L h i x (Released x) Hwf Hf He eq_refl) as R. cbn beta iota in R.
      destruct R as [Ei|[Ei|[Ha [k [m [Ei [Hfi Hn]]]]]]]; rewrite Ei in E.
      * rewrite N.eqb_refl in E. discriminate.
      * discriminate.
      * fold s in Hfi. rewrite Ha, Hfi in E. cbn [andb] in E. apply negb_false_iff in E.
        apply is_normal_RNormal in E. contradiction.
  - destruct i as [[k|k]|]; try reflexivity.
    destruct (foreign L k) eqn:Hf; [|reflexivity]. cbn [andb]. apply mem_false.
    exact (foreign_up_after_release is_action L h k Hwf Hf).
Qed.

Lemma K_C05_scope_silent :
  match i with
  | IEv (Released k) =>
    existsb (fun e => match e with
       | Released x =>
         negb (N.eqb x k || existsb (fun m => mem k (m_from m) && mem x (m_to m)) L)
         || still_used (act s') x
       | Pressed _ => false end) evs
  | _ => false
  end = false.
Proof.
  destruct i as [[k|k]|] eqn:Ei; try reflexivity.
  apply existsb_false_intro. intros e He E. destruct e as [x|x]; [discriminate|].
  unfold evs in He. rewrite mstep_ev_fst in He.
  destruct (release_scope is_action L h k x Hwf He) as [Hsc Hu].
  unfold s' in E. rewrite state_of_snoc, mstep_ev_snd in E. rewrite Hu in E. rewrite orb_false_r in E.
  apply negb_true_iff, orb_false_iff in E. destruct E as [E1 E2].
  destruct Hsc as [Hx|[m [Hm [Hk Hx]]]].
  - subst x. rewrite N.eqb_refl in E1. discriminate.
  - assert (T : existsb (fun m => mem k (m_from m) && mem x (m_to m)) L = true).
    { apply existsb_exists. exists m. split; [exact Hm|]. apply andb_true_iff. split; apply mem_In; assumption. }
    congruence.
Qed.

End Step2.

Section Stay.
Variable L : layout.
Variable h : list input.
Variable e : event.
Hypothesis Hwf : wf_layout L.

Let s := state_of is_action L h.
Let s' := state_of is_action L (h ++ [IEv e]).
Let evs := fst (fst (step is_action L s e)).

Lemma K_C05_stay_silent :
  noabs L ->
  existsb (fun m =>
     existsb (mapping_eqb m) (act s') &&
     existsb (fun t =>
       Nat.eqb (count_outputs L t) 1 && has_ev (Released t) evs &&
       ((modifier_remapping is_action m && negb (is_action t))
        || (is_normal m && negb (is_any_modifier is_action (m_to m))
            && negb (match e with
                     | Pressed k => match fired L s k with Some m => negb (is_normal m) | None => false end
                     | _ => false end))))
       (m_to m)) (act s) = false.
Proof.
  intros Hna. apply existsb_false_intro. intros m Hm E.
  apply andb_true_iff in E. destruct E as [E1 E2].
  apply existsb_exists in E1. destruct E1 as [m1 [Hm1 Eq]]. apply mapping_eqb_sound in Eq. subst m1.
  apply existsb_exists in E2. destruct E2 as [t [Ht E]].
  apply andb_true_iff in E. destruct E as [E E3]. apply andb_true_iff in E. destruct E as [E1 E2].
  apply has_ev_In in E2.
  unfold s' in Hm1. rewrite state_of_snoc, mstep_ev_snd in Hm1.
  apply (outputs_stay is_action L h e m t Hwf Hna Hm Hm1 Ht); [|exact E2].
  unfold protected. rewrite E1. cbn [andb].
  destruct e as [k|k]; exact E3.
Qed.

End Stay.

(* ---------- C05: the empty layout ---------- *)

Lemma apply_evs_releases : forall p q, apply_evs q (map Released p) = filter (fun x => negb (mem x p)) q.
Proof.
  induction p as [|a p IH]; intros q; cbn [map].
  - cbn [mem existsb negb]. unfold apply_evs. cbn [fold_left]. symmetry. apply filter_all_true.
  - unfold apply_evs in *. cbn [fold_left apply_ev]. rewrite IH. unfold remove_all.
    clear IH. induction q as [|x q IHq]; [reflexivity|]. cbn [filter mem existsb].
    rewrite N.eqb_sym. destruct (N.eqb a x); cbn [negb orb filter]; [exact IHq|].
    fold (mem x p). destruct (mem x p); cbn [negb]; [exact IHq | rewrite IHq; reflexivity].
Qed.

Lemma filter_none_self (p : list key) : filter (fun x => negb (mem x p)) p = [].
Proof.
  assert (H : forall q, incl q p -> filter (fun x => negb (mem x p)) q = []).
  { induction q as [|x q IH]; intros Hq; [reflexivity|]. cbn [filter].
    assert (Hx : mem x p = true) by (apply mem_In; apply Hq; left; reflexivity).
    rewrite Hx. cbn [negb]. apply IH. intros y Hy. apply Hq. right. exact Hy. }
  apply H. apply incl_refl.
Qed.

Lemma apply_evs_echo_one p i : apply_evs p (echo_one p i) = phys_after p i.
Proof.
  destruct i as [[k|k]|]; cbn [echo_one phys_after].
  - cbn [apply_ev]. destruct (mem k p) eqn:E; [reflexivity|]. unfold apply_evs. cbn [fold_left apply_ev]. rewrite E. reflexivity.
  - cbn [apply_ev]. destruct (mem k p) eqn:E; [reflexivity|]. unfold apply_evs. cbn [fold_left].
    symmetry. apply remove_all_notin. apply mem_false. exact E.
  - rewrite apply_evs_releases. apply filter_none_self.
Qed.

(* with the empty layout the mapper's view, the physical keys and the device's held list coincide as lists *)
Lemma empty_layout_lists : forall h,
  plain (state_of is_action [] h)
  /\ inp (state_of is_action [] h) = phys_of h
  /\ held_all is_action [] h = phys_of h.
Proof.
  induction h as [|i h IH] using rev_ind.
  - split; [repeat split; constructor | split; reflexivity].
  - destruct IH as [Hpl [Hi Hh]].
    destruct (plain_mstep is_action (state_of is_action [] h) i Hpl) as [H1 [H2 H3]].
    rewrite state_of_snoc, phys_of_snoc, held_all_snoc. split; [exact H2|]. split.
    + rewrite H3, Hi. reflexivity.
    + rewrite H1, Hh, Hi. apply apply_evs_echo_one.
Qed.

Lemma K_C05_empty_silent h i :
  negb (list_eqb ev_eqb (fst (fst (mstep is_action [] (state_of is_action [] h) i)))
          (match i with
           | IEv (Pressed k) => if mem k (phys_of h) then [] else [Pressed k]
           | IEv (Released k) => if mem k (held_all is_action [] h) then [Released k] else []
           | IReleaseAll => map Released (held_all is_action [] h)
           end)) = false.
Proof.
  destruct (empty_layout_lists h) as [Hpl [Hi Hh]].
  destruct (plain_mstep is_action (state_of is_action [] h) i Hpl) as [H1 _].
  rewrite H1, Hh, Hi. apply negb_false_iff.
  destruct i as [[k|k]|]; cbn [echo_one]; apply list_eqb_refl; exact ev_eqb_refl.
Qed.

(* ---------- all clauses together ---------- *)

(* the two parts of the press block of check_step *)
Lemma press_choice_silent L h k :
  wf_layout L -> noabs L -> mem k (phys_of h) = false ->
  let evs := fst (fst (step is_action L (state_of is_action L h) (Pressed k))) in
  let held := held_all is_action L h in
  let held' := held_all is_action L (h ++ [IEv (Pressed k)]) in
  let phys' := phys_of (h ++ [IEv (Pressed k)]) in
  let c (b : bool) (k : clause) : list clause := if b then [k] else [] in
  match spec_choice L (phys_of h) k with
  | Some m =>
    c (negb (forallb (fun t => if is_action t then has_ev (Pressed t) evs
                                else mem t held' || has_ev (Pressed t) evs) (m_to m)
             && (if is_normal m then subset (m_to m) held' else true))) K_C03_fire
    ++ (if is_action_mapping is_action m then
          match last_opt (m_to m) with
          | Some t =>
            match upto_press t evs with
            | Some pre =>
              let at_press := apply_evs held pre in
              c (negb (forallb (fun d => is_action d || mem d at_press) (m_to m))) K_C04_missing
              ++ c (existsb (fun d => negb (is_action d) && negb (mem d (m_to m))
                                      && negb (c04_ok_other is_action L phys' m d)) at_press) K_C04_stale
            | None => [K_C03_fire]
            end
          | None => []
          end
        else [])
  | None =>
    c (negb (if existsb (mentions k) (act (state_of is_action L h))
             then match evs with [] => true | _ => false end
             else match last_opt evs with Some e => ev_eqb e (Pressed k) | None => false end)) K_C03_pass
  end = [].
Proof.
  intros Hwf Hna Hk. cbn zeta.
  destruct (spec_choice L (phys_of h) k) as [m|] eqn:Hc.
  - rewrite (K_C03_fire_silent L h k Hwf m Hna Hk Hc). cbn [app].
    destruct (is_action_mapping is_action m) eqn:Ham; [|reflexivity].
    destruct (last_opt (m_to m)) as [t|] eqn:Hl; [|reflexivity].
    destruct (K_C04_silent L h k Hwf m t Hna Hk Hc Ham Hl) as [pre [Hup [H1 H2]]].
    rewrite Hup, H1, H2. reflexivity.
  - rewrite (K_C03_pass_silent L h k Hwf Hna Hk Hc). reflexivity.
Qed.

Lemma press_tail_silent L h k :
  wf_layout L -> mem k (phys_of h) = false ->
  let evs := fst (fst (step is_action L (state_of is_action L h) (Pressed k))) in
  let held' := held_all is_action L (h ++ [IEv (Pressed k)]) in
  let c (b : bool) (k : clause) : list clause := if b then [k] else [] in
  c (foreign L k && negb (Nat.eqb (length (filter (ev_eqb (Pressed k)) evs)) 1)) K_C05_foreign
  ++ (match fired L (state_of is_action L h) k with
      | Some m =>
        if is_normal m then [] else
        c (existsb is_action held') K_C07_held
        ++ c (negb (forallb (fun t => negb (is_action t) || has_ev (Pressed t) evs) (m_to m))) K_C07_pressed
      | None => []
      end) = [].
Proof.
  intros Hwf Hk. cbn zeta.
  rewrite (K_C05_foreign_press_silent L h k Hwf Hk). cbn [app].
  destruct (fired L (state_of is_action L h) k) as [m|] eqn:Hf; [|reflexivity].
  destruct (is_normal m) eqn:Hn; [reflexivity|].
  destruct (K_C07_silent L h k Hwf m Hf Hn) as [H1 H2]. rewrite H1, H2. reflexivity.
Qed.

Theorem check_step_silent L h i :
  wf_layout L ->
  check_step is_action L (state_of is_action L h) (state_of is_action L (h ++ [i]))
             (phys_of h) (held_all is_action L h) i
             (fst (fst (mstep is_action L (state_of is_action L h) i))) = [].
Proof.
  intros Hwf. unfold check_step. cbn zeta.
  rewrite <- held_all_snoc, <- phys_of_snoc.
  rewrite (K_C19_silent L h i Hwf), (K_C01_silent L h i Hwf), (K_C02_justified_silent L h i Hwf),
    (K_C02_silenced_silent L h i Hwf), (K_C02_release_presses_silent L h i),
    (K_C02_trigger_silent L h i Hwf), (K_C05_foreign_events_silent L h i Hwf).
  cbn [app].
  match goal with |- context [if (match L with [] => ?X | _ :: _ => false end) then [K_C05_empty] else []] =>
    assert (Hempty : (match L with [] => X | _ :: _ => false end) = false) end.
  { destruct L; [apply K_C05_empty_silent | reflexivity]. }
  rewrite Hempty. clear Hempty. cbn [app].
  pose proof (K_C05_scope_silent L h i Hwf) as Hscope.
  destruct i as [[k|k]|].
  - (* a press *)
    rewrite !mstep_ev_fst.
    destruct (has_absorbing L) eqn:Hab.
    + rewrite app_nil_r. destruct (mem k (phys_of h)) eqn:Hk; [reflexivity|].
      cbn [app]. exact (press_tail_silent L h k Hwf Hk).
    + apply has_absorbing_noabs in Hab.
      rewrite (K_C05_stay_silent L h (Pressed k) Hwf Hab). rewrite app_nil_r.
      destruct (mem k (phys_of h)) eqn:Hk; [reflexivity|].
      pose proof (press_choice_silent L h k Hwf Hab Hk) as H1. cbn zeta in H1. rewrite H1. cbn [app].
      exact (press_tail_silent L h k Hwf Hk).
  - (* a release *)
    rewrite Hscope. cbn [app].
    destruct (has_absorbing L) eqn:Hab; [reflexivity|].
    apply has_absorbing_noabs in Hab. rewrite !mstep_ev_fst.
    rewrite (K_C05_stay_silent L h (Released k) Hwf Hab). reflexivity.
  - (* release-all *)
    destruct (has_absorbing L); reflexivity.
Qed.

Corollary check_step_clause_silent L h i c :
  wf_layout L ->
  ~ In c (check_step is_action L (state_of is_action L h) (state_of is_action L (h ++ [i]))
            (phys_of h) (held_all is_action L h) i
            (fst (fst (mstep is_action L (state_of is_action L h) i)))).
Proof. intros Hwf. rewrite (check_step_silent L h i Hwf). intros []. Qed.

End S.

(* Non-vacuity: on outputs a defective mapper would produce the checker fires.
   A (30) is mapped to B (48).  After A-down: the release of A answered with no
   event leaves B stuck; answered with two releases of B it is redundant; the
   press of A answered with a press of A itself is not the mapping's output.
   On the model's own events it is silent. *)
Example check_step_fires :
  let ia := fun k => negb (N.eqb k 42) in
  let L := [mkMapping [30%N] [48%N] RNormal []] in
  let h := [IEv (Pressed 30%N)] in
  let i := IEv (Released 30%N) in
  let chk := check_step ia L (state_of ia L h) (state_of ia L (h ++ [i])) (phys_of h) (held_all ia L h) i in
  for_layout_ok L = true
  /\ chk [] = [K_C01; K_C02_justified]
  /\ chk [Released 48%N; Released 48%N] = [K_C19]
  /\ chk (fst (fst (mstep ia L (state_of ia L h) i))) = []
  /\ check_step ia L (state_of ia L []) (state_of ia L [IEv (Pressed 30%N)]) (phys_of []) (held_all ia L [])
                 (IEv (Pressed 30%N)) [Pressed 30%N]
     = [K_C02_silenced; K_C02_trigger; K_C03_fire; K_C03_fire].
Proof. vm_compute. repeat split; reflexivity. Qed.

(* ... and every other clause fires on some defective output.  L4: A -> [LEFTSHIFT, B],
   C -> [LEFTCTRL, D], E -> [F], CAPSLOCK -> [LEFTALT] (the layout of C04_example);
   L7: SEMICOLON -> [LEFTSHIFT, S] with a Special repeat (C07_example); L: A -> B. *)
Example check_step_fires_every_clause :
  let chk ia L h i evs :=
    check_step ia L (state_of ia L h) (state_of ia L (h ++ [i])) (phys_of h) (held_all ia L h) i evs in
  let ia4 := fun k => negb (N.eqb k 42 || N.eqb k 29 || N.eqb k 56) in
  let L4 := [mkMapping [30%N] [42%N; 48%N] RNormal []; mkMapping [46%N] [29%N; 32%N] RNormal [];
             mkMapping [18%N] [33%N] RNormal []; mkMapping [58%N] [56%N] RNormal []] in
  let h4 := [IEv (Pressed 58%N); IEv (Pressed 30%N); IEv (Pressed 46%N)] in
  let ia := fun k => negb (N.eqb k 42) in
  let L7 := [mkMapping [39%N] [42%N; 31%N] (RSpecial [191%N] 180 30) []] in
  let L := [mkMapping [30%N] [48%N] RNormal []] in
  (* E pressed: LEFTCTRL of C's mapping is not lifted before F goes down *)
  chk ia4 L4 h4 (IEv (Pressed 18%N)) [Released 32%N; Pressed 33%N] = [K_C04_stale]
  (* ... LEFTALT of the modifier-remapping in effect is lifted *)
  /\ chk ia4 L4 h4 (IEv (Pressed 18%N)) [Released 32%N; Released 29%N; Released 56%N; Pressed 33%N] = [K_C05_stay]
  /\ chk ia4 L4 h4 (IEv (Pressed 18%N)) [Released 32%N; Released 29%N; Pressed 33%N] = []
  (* A pressed: B goes down without LEFTSHIFT *)
  /\ chk ia4 L4 [] (IEv (Pressed 30%N)) [Pressed 48%N] = [K_C03_fire; K_C04_missing]
  (* the no-repeat mapping fires: S and SPACE stay down / S is never pressed *)
  /\ chk ia L7 [IEv (Pressed 57%N)] (IEv (Pressed 39%N)) [Pressed 42%N; Pressed 31%N] = [K_C07_held]
  /\ chk ia L7 [IEv (Pressed 57%N)] (IEv (Pressed 39%N)) [Pressed 42%N; Released 57%N]
     = [K_C03_fire; K_C03_fire; K_C07_pressed]
  /\ chk ia L7 [IEv (Pressed 57%N)] (IEv (Pressed 39%N)) [Pressed 42%N; Pressed 31%N; Released 57%N; Released 31%N] = []
  (* the foreign key X is swallowed; with the empty layout *)
  /\ chk ia L [IEv (Pressed 30%N)] (IEv (Pressed 45%N)) [] = [K_C03_pass; K_C05_foreign]
  /\ chk ia [] [IEv (Pressed 30%N)] (IEv (Pressed 45%N)) [] = [K_C03_pass; K_C05_foreign; K_C05_empty]
  (* the release of X lifts B, the output of A's mapping, which stays in effect *)
  /\ chk ia L [IEv (Pressed 30%N); IEv (Pressed 45%N)] (IEv (Released 45%N)) [Released 45%N; Released 48%N]
     = [K_C05_scope; K_C05_stay]
  (* the release of A lifts X and presses it again *)
  /\ chk ia L [IEv (Pressed 30%N); IEv (Pressed 45%N)] (IEv (Released 30%N)) [Released 48%N; Released 45%N; Pressed 45%N]
     = [K_C02_release_presses; K_C05_foreign; K_C05_scope].
Proof. vm_compute. repeat split; reflexivity. Qed.
