(* Findings.v — witnesses of the recorded (open) findings, evaluated on the model.
   The same layouts and histories are kept in corpus/mapper/ and replayed on the
   real code by every mapper check; KNOWN_FINDINGS.txt names the classes. *)
From TM Require Import Base Mapper Monitors Trace MapperProps Absorb.

(* key codes: A 30, B 48, C 46, X 45, Y 21, LEFTSHIFT 42, LEFTCTRL 29, CAPSLOCK 58 *)
Definition std_is_action (k : key) : bool := negb (N.eqb k 42 || N.eqb k 29 || N.eqb k 58).

(* finding 8.3, class absorbing-mapping-not-key-producing (not K1):
   [LEFTSHIFT,A]->[X] abs[LEFTSHIFT]; [LEFTCTRL,B]->[] abs[LEFTCTRL]; [LEFTSHIFT,B]->[Y] *)
Definition L83 : layout :=
  [mkMapping [42; 30] [45] RNormal [42]; mkMapping [29; 48] [] RNormal [29]; mkMapping [42; 48] [21] RNormal []]%N.
Definition h83 : list input :=
  [IEv (Pressed 42); IEv (Pressed 29); IEv (Pressed 30); IEv (Pressed 48); IEv (Released 48)]%N.

(* LEFTSHIFT was absorbed by the firing on A, stays held and is never pressed
   again; the press of B (another key) nevertheless fires [LEFTSHIFT,B]->[Y], and it is
   not the mapping [LEFTCTRL,B]->[] that the previous press of B, same keys held, fired *)
Lemma C08a_refuted_outside_K1 :
  for_layout_ok L83 = true /\ K1 std_is_action L83 = false /\ K2 std_is_action L83 = true
  /\ In (42%N, 30%N) (victims (ghost_of std_is_action L83 h83) (phys_of h83) 48%N)
  /\ fired L83 (state_of std_is_action L83 h83) 48%N = Some (mkMapping [42; 48] [21] RNormal [])%N
  /\ c08_check std_is_action L83 (state_of std_is_action L83 h83) (state_of std_is_action L83 (h83 ++ [IEv (Pressed 48%N)]))
       (phys_of h83) (held_all std_is_action L83 h83) (ghost_of std_is_action L83 h83) (IEv (Pressed 48%N))
       (fst (fst (step std_is_action L83 (state_of std_is_action L83 h83) (Pressed 48%N)))) = [K8_fires; K8_refire].
Proof. vm_compute. repeat split; try reflexivity. left; reflexivity. Qed.

(* finding 8.4, class non-key-producing-mapping-presses-ordinary-key (not K2):
   [LEFTSHIFT,LEFTCTRL,B]->[LEFTCTRL,B] abs[LEFTCTRL]; C->[B,CAPSLOCK,LEFTSHIFT] *)
Definition L84 : layout :=
  [mkMapping [42; 29; 48] [29; 48] RNormal [29]; mkMapping [46] [48; 58; 42] RNormal []]%N.
Definition h84 : list input :=
  [IEv (Pressed 42); IEv (Pressed 29); IEv (Pressed 48); IEv (Released 48)]%N.

(* LEFTCTRL was absorbed by the firing on B; the press of C puts the ordinary
   key B on the virtual keyboard while LEFTCTRL is still down there *)
Lemma C08b_refuted_outside_K2 :
  for_layout_ok L84 = true /\ K1 std_is_action L84 = true /\ K2 std_is_action L84 = false
  /\ In (29%N, 48%N) (victims (ghost_of std_is_action L84 h84) (phys_of h84) 46%N)
  /\ c08_check std_is_action L84 (state_of std_is_action L84 h84) (state_of std_is_action L84 (h84 ++ [IEv (Pressed 46%N)]))
       (phys_of h84) (held_all std_is_action L84 h84) (ghost_of std_is_action L84 h84) (IEv (Pressed 46%N))
       (fst (fst (step std_is_action L84 (state_of std_is_action L84 h84) (Pressed 46%N)))) = [K8_held].
Proof. vm_compute. repeat split; try reflexivity. left; reflexivity. Qed.
