(* LoaderCheck.v — executable comparison functions and property checkers of the
   loader engine, extracted next to the model and applied to the REAL code's
   outputs by ocaml/loader_check.ml.  Definitions only. *)
From TM Require Export Convert ConvertSpec Serde.
From TMGen Require Import KeyTable.

Definition repeat_eqb (a b : Mapper.repeat) : bool :=
  match a, b with
  | RNormal, RNormal => true
  | RDisabled, RDisabled => true
  | RSpecial k1 d1 i1, RSpecial k2 d2 i2 => keys_eqb k1 k2 && Z.eqb d1 d2 && Z.eqb i1 i2
  | _, _ => false
  end.

Definition mapping_eqb (a b : mapping) : bool :=
  keys_eqb (m_from a) (m_from b) && keys_eqb (m_to a) (m_to b)
  && repeat_eqb (m_repeat a) (m_repeat b) && keys_eqb (m_abs a) (m_abs b).

Fixpoint layout_eqb (a b : layout) : bool :=
  match a, b with
  | [], [] => true
  | x :: a', y :: b' => mapping_eqb x y && layout_eqb a' b'
  | _, _ => false
  end.

(* outcomes are compared as Ok payload / Err / Panic (site and message ignored) *)
Definition outcome_eqb (a b : res layout) : bool :=
  match a, b with
  | Ok x, Ok y => layout_eqb x y
  | Err, Err => true
  | Panic _, Panic _ => true
  | _, _ => false
  end.

Definition opt_z_eqb (a b : option Z) : bool :=
  match a, b with
  | Some x, Some y => Z.eqb x y
  | None, None => true
  | _, _ => false
  end.

Fixpoint json_eqb (a b : json) {struct a} : bool :=
  match a, b with
  | JNull, JNull => true
  | JBool x, JBool y => Bool.eqb x y
  | JNum x, JNum y => opt_z_eqb x y
  | JStr x, JStr y => str_eqb x y
  | JArr x, JArr y =>
    (fix go (x y : list json) {struct x} : bool :=
       match x, y with
       | [], [] => true
       | u :: x', v :: y' => json_eqb u v && go x' y'
       | _, _ => false
       end) x y
  | JObj x, JObj y =>
    (fix go (x y : list (str * json)) {struct x} : bool :=
       match x, y with
       | [], [] => true
       | (k, u) :: x', (k', v) :: y' => str_eqb k k' && json_eqb u v && go x' y'
       | _, _ => false
       end) x y
  | _, _ => false
  end.

(* ---------- C15: the basic layouts the round trip is claimed for ---------- *)

Definition known_key (k : key) : bool :=
  match serde_name k with Some _ => true | None => false end.

Definition repeat_okb (r : Mapper.repeat) : bool :=
  match r with
  | RSpecial ks d i => forallb known_key ks && is_i32 d && is_i32 i
  | _ => true
  end.

Definition wf_basic_mapping (m : mapping) : bool :=
  match m_from m with [] => false | _ => true end
  && nodupb (m_from m) && nodupb (m_to m)
  && forallb known_key (m_from m) && forallb known_key (m_to m) && forallb known_key (m_abs m)
  && repeat_okb (m_repeat m)
  && subset (m_abs m) (removelast (m_from m)).

Definition wf_basic (L : layout) : bool := forallb wf_basic_mapping L.

(* ---------- checkers applied to the real code's outputs ---------- *)

(* C15.roundtrip: [reloaded] is what the real parse_layout_from_json + convert
   answered on the real serde_json::to_value(L) *)
Definition check_roundtrip (L : layout) (reloaded : res layout) : bool :=
  negb (wf_basic L) || outcome_eqb reloaded (Ok L).

(* C14.accepted_wf: a layout the real loader accepted must satisfy the mapper's
   constructor *)
Definition check_accepted_wf (L : layout) : bool := for_layout_ok L.

(* C13's observation of a load: defined for inputs of the shorthand language
   (the model parser accepts them); an accepted layout must be the expansion
   (the final duplicate-key rejection is C14's business, not C13's), a rejected
   input must be one whose expansion is an error.  Panics are C14's. *)
Definition expand_obs_ok (pf : res fancy_layout) (core full : fancy_layout -> res layout) (real : res layout) : bool :=
  match pf with
  | Ok f =>
    match real with
    | Ok L => outcome_eqb (core f) (Ok L)
    | Err => match full f with Ok _ => false | _ => true end
    | Panic _ => true
    end
  | _ => true
  end.

(* how many basic mappings each SOURCE mapping of [j] expands to (ConvertSpec.expand_mapping, before the repeat-only
   entries are applied; identity mappings added by repeat-only entries come after all of these).  C13 fixes the order
   "between different source mappings", not inside one: the checker driver compares a real result with the
   specification block by block, each block as a multiset. *)
Definition block_lengths (j : json) : option (list nat) :=
  match parse_layout j with
  | Ok f => match map_res (expand_mapping f) f with
            | Ok pm => Some (map (@length mapping) pm)
            | _ => None
            end
  | _ => None
  end.

(* C13.expand: the real loader's answer on [j] against the specification *)
Definition spec_load (j : json) : res layout := f <- parse_layout j ;; expand f.
Definition check_expand (j : json) (real : res layout) : bool :=
  expand_obs_ok (parse_layout j) expand_core expand real.

(* observation class EXPAND: the same observation, model against implementation *)
Definition model_expand_agrees (j : json) (real : res layout) : bool :=
  expand_obs_ok (parse_layout j) convert_core convert real.

Definition is_panic_outcome (r : res layout) : bool := match r with Panic _ => true | _ => false end.
