(* SortLemmas.v — FromSet (sorted modifiers + final key) compares triggers as
   "same final key, same multiset of modifiers": the converter's hash-table key
   and the specification's [same_trigger] are the same test. *)
From TM Require Import Base Json RustOps Fancy Mapper Parser Convert ConvertSpec RustOpsLemmas StrLemmas.
From Coq Require Import Lia Arith Sorting.Sorted.

(* ---------- counting ---------- *)

Lemma count_key_app : forall k a b, count_key k (a ++ b) = (count_key k a + count_key k b)%nat.
Proof. induction a as [|x a IH]; intro b; cbn [app count_key]; [reflexivity|]. rewrite IH. lia. Qed.

Lemma count_key_insert : forall k x l, count_key k (insert_key x l) = count_key k (x :: l).
Proof.
  induction l as [|y l IH]; cbn [insert_key]; [reflexivity|].
  destruct (x <=? y)%N; [reflexivity|]. cbn [count_key] in *. rewrite IH. lia.
Qed.

Lemma count_key_sort : forall k l, count_key k (sort_keys l) = count_key k l.
Proof.
  induction l as [|x l IH]; [reflexivity|]. cbn [sort_keys fold_right]. fold (sort_keys l).
  rewrite count_key_insert. cbn [count_key]. rewrite IH. reflexivity.
Qed.

Lemma count_key_zero : forall k l, ~ In k l -> count_key k l = 0%nat.
Proof.
  induction l as [|x l IH]; intro H; cbn [count_key]; [reflexivity|].
  destruct (N.eqb x k) eqn:E.
  - apply N.eqb_eq in E. exfalso. apply H. left. exact E.
  - rewrite IH; [reflexivity|]. intro Hin. apply H. right. exact Hin.
Qed.

Lemma count_key_pos : forall k l, In k l -> (0 < count_key k l)%nat.
Proof.
  induction l as [|x l IH]; intro H; [destruct H|]. cbn [count_key].
  destruct H as [H|H].
  - subst. rewrite N.eqb_refl. lia.
  - specialize (IH H). lia.
Qed.

Lemma same_multiset_iff : forall a b, same_multiset a b = true <-> (forall k, count_key k a = count_key k b).
Proof.
  intros a b. unfold same_multiset. rewrite forallb_forall. split.
  - intros H k. destruct (in_dec N.eq_dec k (a ++ b)) as [Hin|Hout].
    + apply Nat.eqb_eq. apply H. exact Hin.
    + rewrite !count_key_zero; [reflexivity| |]; intro Hin; apply Hout; apply in_or_app; [right|left]; exact Hin.
  - intros H k _. apply Nat.eqb_eq. apply H.
Qed.

(* ---------- insertion sort sorts ---------- *)

Lemma insert_key_In : forall x y l, In y (insert_key x l) -> y = x \/ In y l.
Proof.
  induction l as [|z l IH]; cbn [insert_key]; intro H.
  - destruct H as [H|[]]. left. symmetry. exact H.
  - destruct (x <=? z)%N.
    + destruct H as [H|H]; [left; symmetry; exact H|right; exact H].
    + destruct H as [H|H]; [right; left; exact H|].
      destruct (IH H) as [H1|H1]; [left; exact H1|right; right; exact H1].
Qed.

Lemma insert_key_sorted : forall x l, StronglySorted N.le l -> StronglySorted N.le (insert_key x l).
Proof.
  induction l as [|y l IH]; intro Hs; cbn [insert_key].
  - constructor; constructor.
  - inversion Hs as [|y' l' Hs' Hall]; subst. destruct (x <=? y)%N eqn:E.
    + apply N.leb_le in E. constructor; [exact Hs|]. constructor; [exact E|].
      rewrite Forall_forall in *. intros z Hz. specialize (Hall z Hz). lia.
    + apply N.leb_gt in E. constructor; [apply IH; exact Hs'|].
      rewrite Forall_forall in *. intros z Hz. destruct (insert_key_In _ _ _ Hz) as [H|H]; [subst; lia|apply Hall; exact H].
Qed.

Lemma sort_keys_sorted : forall l, StronglySorted N.le (sort_keys l).
Proof.
  induction l as [|x l IH]; [constructor|]. cbn [sort_keys fold_right]. fold (sort_keys l).
  apply insert_key_sorted. exact IH.
Qed.

(* two sorted lists with the same counts are equal *)
Lemma sorted_same_counts_eq : forall a b, StronglySorted N.le a -> StronglySorted N.le b ->
  (forall k, count_key k a = count_key k b) -> a = b.
Proof.
  induction a as [|x a IH]; intros b Ha Hb Hc.
  - destruct b as [|y b]; [reflexivity|]. specialize (Hc y). cbn [count_key] in Hc. rewrite N.eqb_refl in Hc. lia.
  - destruct b as [|y b].
    + specialize (Hc x). cbn [count_key] in Hc. rewrite N.eqb_refl in Hc. lia.
    + inversion Ha as [|x' a' Ha' Hxa]; subst. inversion Hb as [|y' b' Hb' Hyb]; subst.
      assert (x = y) as Exy.
      { assert (In x (y :: b)) as Hx.
        { destruct (in_dec N.eq_dec x (y :: b)) as [H|H]; [exact H|].
          apply count_key_zero in H. specialize (Hc x). rewrite H in Hc. cbn [count_key] in Hc.
          rewrite N.eqb_refl in Hc. lia. }
        assert (In y (x :: a)) as Hy.
        { destruct (in_dec N.eq_dec y (x :: a)) as [H|H]; [exact H|].
          apply count_key_zero in H. specialize (Hc y). rewrite H in Hc. cbn [count_key] in Hc.
          rewrite N.eqb_refl in Hc. lia. }
        rewrite Forall_forall in Hxa, Hyb.
        destruct Hx as [Hx|Hx]; [symmetry; exact Hx|]. destruct Hy as [Hy|Hy]; [exact Hy|].
        specialize (Hxa y Hy). specialize (Hyb x Hx). lia. }
      subst y. f_equal. apply IH; [exact Ha'|exact Hb'|].
      intro k. specialize (Hc k). cbn [count_key] in Hc. lia.
Qed.

Lemma sort_keys_eq_iff : forall a b, sort_keys a = sort_keys b <-> same_multiset a b = true.
Proof.
  intros a b. rewrite same_multiset_iff. split.
  - intros H k. rewrite <- (count_key_sort k a), <- (count_key_sort k b), H. reflexivity.
  - intro H. apply sorted_same_counts_eq; try apply sort_keys_sorted.
    intro k. rewrite !count_key_sort. apply H.
Qed.

(* ---------- FromSet::new ---------- *)

(* the value FromSet::new computes *)
Definition fset (keys : list key) : list key :=
  match keys with
  | [] => []
  | _ => sort_keys (removelast keys) ++ [last keys 0%N]
  end.

Lemma last_opt_last : forall {A} (l : list A) d, l <> [] -> last_opt l = Some (last l d).
Proof.
  induction l as [|x l IH]; intros d H; [contradiction|].
  destruct l as [|y l]; [reflexivity|]. cbn [last_opt last]. apply IH. discriminate.
Qed.

Lemma last_opt_None : forall {A} (l : list A), last_opt l = None <-> l = [].
Proof.
  intros A l. split; intro H; [|subst; reflexivity].
  destruct l as [|x l]; [reflexivity|]. rewrite (last_opt_last _ x) in H by discriminate. discriminate.
Qed.

Lemma from_set_Ok : forall keys, from_set keys = Ok (fset keys).
Proof.
  intro keys. unfold from_set, fset. destruct keys as [|x l]; [reflexivity|].
  set (ks := x :: l). assert (ks <> []) as Hne by discriminate.
  rewrite usub_Ok by (subst ks; cbn; lia). cbn [bind].
  rewrite slice_prefix by exact Hne. cbn [bind].
  rewrite (last_opt_last ks 0%N Hne). reflexivity.
Qed.

Lemma keys_eqb_snoc : forall a b x y, keys_eqb (a ++ [x]) (b ++ [y]) = keys_eqb a b && N.eqb x y.
Proof.
  induction a as [|u a IH]; intros b x y.
  - destruct b as [|v b]; cbn; [rewrite andb_true_r; reflexivity|].
    destruct b; cbn; rewrite andb_false_r; reflexivity.
  - destruct b as [|v b]; cbn.
    + destruct a; cbn; rewrite andb_false_r; reflexivity.
    + rewrite IH. rewrite andb_assoc. reflexivity.
Qed.

Lemma keys_eqb_sort_multiset : forall a b, keys_eqb (sort_keys a) (sort_keys b) = same_multiset a b.
Proof.
  intros a b. destruct (same_multiset a b) eqn:E.
  - apply sort_keys_eq_iff in E. rewrite E. apply keys_eqb_refl.
  - destruct (keys_eqb (sort_keys a) (sort_keys b)) eqn:E2; [|reflexivity].
    apply keys_eqb_eq in E2. apply sort_keys_eq_iff in E2. rewrite E2 in E. discriminate.
Qed.

(* the hash-table key compares triggers exactly as the specification does *)
Lemma fset_same_trigger : forall a b, keys_eqb (fset a) (fset b) = same_trigger a b.
Proof.
  intros a b. unfold same_trigger, fset.
  destruct a as [|x a]; destruct b as [|y b]; try reflexivity.
  - rewrite (last_opt_last (y :: b) 0%N) by discriminate.
    destruct (sort_keys (removelast (y :: b))); reflexivity.
  - rewrite (last_opt_last (x :: a) 0%N) by discriminate.
    destruct (sort_keys (removelast (x :: a))); reflexivity.
  - rewrite (last_opt_last (x :: a) 0%N), (last_opt_last (y :: b) 0%N) by discriminate.
    rewrite keys_eqb_snoc, keys_eqb_sort_multiset. apply andb_comm.
Qed.

Lemma same_trigger_refl : forall a, same_trigger a a = true.
Proof. intro a. rewrite <- fset_same_trigger. apply keys_eqb_refl. Qed.

Lemma same_trigger_sym : forall a b, same_trigger a b = same_trigger b a.
Proof.
  intros a b. rewrite <- !fset_same_trigger. destruct (keys_eqb (fset a) (fset b)) eqn:E.
  - apply keys_eqb_eq in E. rewrite E. symmetry. apply keys_eqb_refl.
  - destruct (keys_eqb (fset b) (fset a)) eqn:E2; [|reflexivity].
    apply keys_eqb_eq in E2. rewrite E2, keys_eqb_refl in E. discriminate.
Qed.

Lemma same_trigger_trans : forall a b c, same_trigger a b = true -> same_trigger b c = true -> same_trigger a c = true.
Proof.
  intros a b c. rewrite <- !fset_same_trigger. intros H1 H2.
  apply keys_eqb_eq in H1. apply keys_eqb_eq in H2. rewrite H1, H2. apply keys_eqb_refl.
Qed.
