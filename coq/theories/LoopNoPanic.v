(* LoopNoPanic.v — when the per-device loop cannot panic.  The model's Panicked
   outcome stands for the three arithmetic panics of do_remapping_loop_one_device
   (Instant + Duration twice, 1000 * (1 << restart_count)).  None is reachable
   when every Special repeat of the layout has 0 <= delay_ms, interval_ms
   (they are i32, so < 2^31), fewer than 54 poll calls are interrupted, and the
   clock stays far enough below the end of Instant's range for the length of
   the run (finding 8.7 of DESIGN.md: a NEGATIVE delay or interval is accepted by
   the parser and makes `x as u64` huge; see no_panic_needs_nonneg). *)
From TM Require Import Base ListFacts Mapper Monitors MapperInv MapperFire MapperRepeat Loop LoopEnv.
From Coq Require Import Lia.
Open Scope Z_scope.

Definition b31 : Z := 2147483648.
Definition bns : Z := b31 * ns_per_ms.

Definition timing_ok (m : mapping) : bool :=
  match m_repeat m with
  | RSpecial _ d i => (0 <=? d) && (d <? b31) && (0 <=? i) && (i <? b31)
  | _ => true
  end.
Definition timings_ok (L : layout) : bool := forallb timing_ok L.

Fixpoint interrupts (rs : list resp) : Z :=
  match rs with
  | [] => 0
  | RPoll PInterrupted :: t => 1 + interrupts t
  | _ :: t => interrupts t
  end.

Lemma interrupts_nonneg rs : 0 <= interrupts rs.
Proof. induction rs as [|r t IH]; cbn [interrupts]; [lia|]. destruct r; try lia. destruct r; lia. Qed.

Section S.
Variable is_action : key -> bool.
Variable L : layout.
Variable T : Z.
Hypothesis Htim : timings_ok L = true.

Definition tm (d i : Z) : Prop := 0 <= d < b31 /\ 0 <= i < b31.

Lemma step_repeat_timing s e evs ks d i s' :
  step is_action L s e = (evs, RRRepeating ks d i, s') -> tm d i.
Proof.
  intros E. pose proof (step_repeat is_action L s e) as R. rewrite E in R. cbn [fst snd] in R.
  unfold expected_repeat in R. destruct e as [k|k].
  - destruct (mem k (inp s)) eqn:Hk; [discriminate|].
    destruct (fired L s k) as [m|] eqn:Ef; [|discriminate].
    destruct (m_repeat m) as [| |ks' d' i'] eqn:Er; try discriminate. inversion R. subst ks' d' i'.
    destruct (fired_some_facts is_action L s k m Hk Ef) as [HmL _].
    unfold timings_ok in Htim. rewrite forallb_forall in Htim. specialize (Htim m HmL).
    unfold timing_ok in Htim. rewrite Er in Htim. rewrite !andb_true_iff in Htim.
    destruct Htim as [[[A B] C] D]. unfold tm. lia.
  - destruct (mem k (inp s)); discriminate.
Qed.

(* the invariant, relative to the answers still to come *)
Definition G (p : point) (st : lstate) (rs : list resp) : Prop :=
  0 <= l_restart st /\ l_restart st + interrupts rs <= 53
  /\ (forall t, In (RNow t) rs -> t <= T)
  /\ T + (Z.of_nat (length rs) + 2) * bns <= instant_limit
  /\ match l_wr st with
     | Repeating _ nw iv => 0 <= iv < b31 /\ nw + (Z.of_nat (length rs) + 1) * bns <= instant_limit
     | Idle => True
     end
  /\ match p with
     | PNowStep _ d i _ => tm d i
     | PSendStep _ (RRRepeating _ d i) _ => tm d i
     | _ => True
     end.

Lemma as_u64_nn x : 0 <= x -> as_u64 x = x.
Proof. intros H. unfold as_u64. destruct (x <? 0) eqn:E; [lia | reflexivity]. Qed.

Lemma add_ok t ms : 0 <= ms < b31 -> t + bns <= instant_limit ->
  instant_add_ms t ms = Some (t + ms * ns_per_ms).
Proof.
  intros H1 H2. unfold instant_add_ms. rewrite as_u64_nn by lia.
  assert (ms * ns_per_ms < bns) by (unfold bns, ns_per_ms, b31 in *; lia).
  destruct (t + ms * ns_per_ms <? instant_limit) eqn:E; [reflexivity | lia].
Qed.

Lemma sleep_ok rc : 0 <= rc <= 54 -> exists ms, sleep_ms rc = Some ms.
Proof.
  intros H. unfold sleep_ms.
  destruct (rc <? 0) eqn:A; [lia|]. destruct (64 <=? rc) eqn:B; [lia|]. cbn [orb].
  assert (P : 2 ^ rc <= 2 ^ 54) by (apply Z.pow_le_mono_r; lia).
  assert (Q : 1000 * 2 ^ rc < two64) by (unfold two64; change (2 ^ 54) with 18014398509481984 in P; lia).
  destruct (1000 * 2 ^ rc <? two64) eqn:C; [eexists; reflexivity | lia].
Qed.

Lemma G_step p st r rs :
  G p st (r :: rs) ->
  resume is_action L p st r <> Stop Panicked
  /\ forall p' st', resume is_action L p st r = Go p' st' -> G p' st' rs.
Proof.
  intros [Hr0 [Hr1 [Hnow [Hlim [Hwr Hp]]]]].
  assert (Hint : interrupts rs <= interrupts (r :: rs)).
  { cbn [interrupts]. destruct r; try lia. destruct r; lia. }
  assert (Hnow' : forall t, In (RNow t) rs -> t <= T) by (intros t Ht; apply Hnow; right; exact Ht).
  assert (Hlen : Z.of_nat (length (r :: rs)) = Z.of_nat (length rs) + 1) by (cbn [length]; lia).
  rewrite Hlen in *.
  assert (Hlim' : T + (Z.of_nat (length rs) + 2) * bns <= instant_limit) by (unfold bns, b31, ns_per_ms in *; lia).
  assert (Hbns : 0 < bns) by (unfold bns, b31, ns_per_ms; lia).
  (* keeping the state, one answer fewer *)
  assert (Keep : forall st0, l_restart st0 = l_restart st \/ l_restart st0 = 0 ->
            (match l_wr st0 with
             | Repeating _ nw iv => 0 <= iv < b31 /\ nw + (Z.of_nat (length rs) + 1) * bns <= instant_limit
             | Idle => True end) ->
            forall p0, (match p0 with
                        | PNowStep _ d i _ => tm d i
                        | PSendStep _ (RRRepeating _ d i) _ => tm d i
                        | _ => True end) -> G p0 st0 rs).
  { intros st0 Hrs Hw0 p0 Hp0. unfold G. pose proof (interrupts_nonneg rs).
    repeat split; try assumption; destruct Hrs as [E|E]; rewrite E; lia. }
  assert (Hwr' : match l_wr st with
                 | Repeating _ nw iv => 0 <= iv < b31 /\ nw + (Z.of_nat (length rs) + 1) * bns <= instant_limit
                 | Idle => True end).
  { destruct (l_wr st); [exact I|]. destruct Hwr as [A B]. split; [exact A | lia]. }
  assert (Hvisit : forall rest st0, l_restart st0 = l_restart st \/ l_restart st0 = 0 ->
            (match l_wr st0 with
             | Repeating _ nw iv => 0 <= iv < b31 /\ nw + (Z.of_nat (length rs) + 1) * bns <= instant_limit
             | Idle => True end) ->
            visit rest st0 <> Stop Panicked /\ forall p' st', visit rest st0 = Go p' st' -> G p' st' rs).
  { intros rest st0 Hrs Hw0. unfold visit, at_top.
    destruct rest as [|[|] rest'].
    - destruct (l_wr st0) eqn:Ew; (split; [discriminate|]); intros p' st' E; inversion E; subst;
        (apply Keep; [exact Hrs | rewrite Ew; exact Hw0 | exact I]).
    - split; [discriminate|]. intros p' st' E. inversion E; subst. apply Keep; [exact Hrs | exact Hw0 | exact I].
    - split; [discriminate|]. intros p' st' E. inversion E; subst. apply Keep; [exact Hrs | exact Hw0 | exact I]. }
  assert (Htop : forall st0, l_restart st0 = l_restart st \/ l_restart st0 = 0 ->
            (match l_wr st0 with
             | Repeating _ nw iv => 0 <= iv < b31 /\ nw + (Z.of_nat (length rs) + 1) * bns <= instant_limit
             | Idle => True end) ->
            at_top st0 <> Stop Panicked /\ forall p' st', at_top st0 = Go p' st' -> G p' st' rs).
  { intros st0 Hrs Hw0. exact (Hvisit [] st0 Hrs Hw0). }
  assert (Hadv : forall st0, l_restart st0 = l_restart st -> l_wr st0 = l_wr st ->
            advance_wakeup st0 <> Stop Panicked /\ forall p' st', advance_wakeup st0 = Go p' st' -> G p' st' rs).
  { intros st0 Hrs Hw0. unfold advance_wakeup. rewrite Hw0. destruct (l_wr st) as [|ks nw iv] eqn:Ew.
    - apply Htop; [left; exact Hrs | rewrite Hw0; exact I].
    - destruct Hwr as [A B].
      rewrite (add_ok nw iv A) by lia.
      apply Htop; [left; cbn [l_restart set_wr]; exact Hrs|]. cbn [l_wr set_wr].
      split; [exact A|]. unfold bns, b31, ns_per_ms in *. lia. }
  destruct p; destruct r; cbn [resume]; try (split; [discriminate | intros; discriminate]).
  all: try (apply Htop; [left; reflexivity | exact Hwr']).
  - (* PNowPoll, RNow *)
    destruct (l_wr st) eqn:Ew; (split; [discriminate|]); intros p' st' E; inversion E; subst; apply Keep;
      try (left; reflexivity); try exact I; rewrite Ew; exact Hwr'.
  - (* PPoll, RPoll *)
    destruct r as [ds| |].
    + apply Hvisit; [right; reflexivity | exact Hwr'].
    + destruct (l_wr st) as [|ks nw iv] eqn:Ew.
      * apply Htop; [left; reflexivity | rewrite Ew; exact I].
      * destruct (l_tablet st).
        -- apply Htop; [left; reflexivity | cbn [l_wr set_wr]; exact I].
        -- destruct (chord_events (l_mapper st) ks).
           ++ apply Hadv; [reflexivity | first [reflexivity | exact Ew]].
           ++ split; [discriminate|]. intros p' st' E. inversion E; subst. apply Keep; [left; reflexivity | rewrite Ew; exact Hwr' | exact I].
    + (* Interrupted *)
      cbn [interrupts] in Hr1.
      destruct (1 <? l_restart st + 1) eqn:E1.
      * destruct (sleep_ok (l_restart st + 1)) as [ms Hms]; [pose proof (interrupts_nonneg rs); lia|]. rewrite Hms.
        split; [discriminate|]. intros p' st' E. inversion E; subst. unfold G. cbn [l_restart l_wr set_restart].
        pose proof (interrupts_nonneg rs). repeat split; try assumption; try lia; try exact I.
      * assert (Hres : G PRegister (set_restart st (l_restart st + 1)) rs -> True) by trivial.
        unfold at_top. cbn [l_wr set_restart].
        destruct (l_wr st) eqn:Ew; (split; [discriminate|]); intros p' st' E; inversion E; subst; unfold G;
          cbn [l_restart l_wr set_restart]; pose proof (interrupts_nonneg rs); rewrite ?Ew;
          repeat split; try assumption; try lia; try exact I; rewrite Ew in Hwr'; apply Hwr'.
  - (* PSendChord, RUnit *) apply Hadv; reflexivity.
  - (* PKbd, RKbd *)
    destruct n as [| |e].
    + split; [discriminate | intros; discriminate].
    + apply Hvisit; [left; reflexivity | exact Hwr'].
    + destruct (l_tablet st).
      { split; [discriminate|]. intros p' st' E. inversion E; subst. apply Keep; [left; reflexivity | exact Hwr' | exact I]. }
      destruct (step is_action L (l_mapper st) e) as [[evs rep] s'] eqn:Es.
      assert (Hrep : match rep with RRRepeating _ d i => tm d i | _ => True end).
      { destruct rep as [| |ks d i]; try exact I. exact (step_repeat_timing _ _ _ _ _ _ _ Es). }
      destruct evs as [|e0 evs0].
      * unfold after_step_send. destruct rep as [| |ks d i]; (split; [discriminate|]); intros p' st' E; inversion E; subst;
          apply Keep; try (left; reflexivity); cbn [l_wr set_wr set_mapper]; try exact I; try exact Hwr'; exact Hrep.
      * split; [discriminate|]. intros p' st' E. inversion E; subst.
        apply Keep; [left; reflexivity | cbn [l_wr set_mapper]; exact Hwr' | exact Hrep].
  - (* PSendStep, RUnit *)
    unfold after_step_send. destruct rep as [| |ks d i]; (split; [discriminate|]); intros p' st' E; inversion E; subst;
      apply Keep; try (left; reflexivity); cbn [l_wr set_wr]; try exact I; try exact Hwr'; exact Hp.
  - (* PNowStep, RNow *)
    destruct Hp as [Hd Hi].
    assert (Ht : t <= T) by (apply Hnow; left; reflexivity).
    rewrite (add_ok t delay_ms Hd) by (unfold bns, b31, ns_per_ms in *; lia).
    split; [discriminate|]. intros p' st' E. inversion E; subst.
    apply Keep; [left; reflexivity | | exact I]. cbn [l_wr set_wr]. split; [exact Hi|].
    assert (delay_ms * ns_per_ms < bns) by (unfold bns, ns_per_ms, b31 in *; lia). lia.
  - (* PTab, RTab *)
    destruct n as [| |on].
    + split; [discriminate | intros; discriminate].
    + apply Hvisit; [left; reflexivity | exact Hwr'].
    + destruct (release_all is_action L (l_mapper st)) as [evs s'].
      destruct evs; (split; [discriminate|]); intros p' st' E; inversion E; subst;
        apply Keep; try (left; reflexivity); cbn [l_wr set_wr set_mapper set_tablet]; exact I.
  - (* PSendTab, RUnit *)
    split; [discriminate|]. intros p' st' E. inversion E; subst. apply Keep; [left; reflexivity | exact Hwr' | exact I].
Qed.

Lemma run_from_no_panic : forall rs p st, G p st rs -> snd (run_from is_action L p st rs) <> Panicked.
Proof.
  induction rs as [|r rs IH]; intros p st HG; cbn [run_from]; [cbn; discriminate|].
  destruct (G_step p st r rs HG) as [Hnp Hgo].
  destruct (resume is_action L p st r) as [p' st'|o] eqn:E.
  - specialize (IH p' st' (Hgo p' st' eq_refl)).
    destruct (run_from is_action L p' st' rs) as [cs o]. exact IH.
  - cbn [snd]. intros Eo. subst o. apply Hnp. reflexivity.
Qed.

Theorem loop_does_not_panic rs :
  (forall t, In (RNow t) rs -> t <= T) ->
  T + (Z.of_nat (length rs) + 2) * bns <= instant_limit ->
  interrupts rs <= 53 ->
  snd (Loop.run is_action L rs) <> Panicked.
Proof.
  intros Hnow Hlim Hint. apply run_from_no_panic. unfold G. cbn [l_restart l_wr linit].
  repeat split; try assumption; try lia; exact I.
Qed.

End S.

(* the guard on the timings is needed: interval_ms = -1 (accepted by the parser; `-1 as u64` milliseconds)
   overflows Instant after about 500 ticks of the repeat timer (DESIGN.md 8.7; the loop engine runs the same
   script against the real code, case fixed/negative-interval) *)
Definition neg_layout : layout := [mkMapping [30%N] [48%N] (RSpecial [190%N] 400 (-1)) []].
Fixpoint tick_answers (n : nat) : list resp :=
  match n with O => [] | S k => RNow 0 :: RPoll PTimedOut :: RUnit :: tick_answers k end.
Definition neg_script (n : nat) : list resp :=
  [RUnit; RPoll (PDeviceEvent [DKbd]); RKbd (NOne (Pressed 30%N)); RUnit; RNow 0; RKbd NBusy] ++ tick_answers n.

Lemma no_panic_needs_nonneg :
  timings_ok neg_layout = false /\ interrupts (neg_script 520) = 0
  /\ snd (Loop.run (fun _ => true) neg_layout (neg_script 520)) = Panicked.
Proof. vm_compute. repeat split; reflexivity. Qed.
