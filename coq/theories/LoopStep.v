(* LoopStep.v — Loop.resume as a relation: one constructor per row of the
   straight-line code between two answers, so that every proof about the loop
   does ONE case analysis (`destruct (resume_lstep ..)`) with named cases
   instead of unfolding `resume`. *)
From TM Require Import Base ListFacts Mapper Monitors Loop LoopEnv LoopSpec LoopLemmas.
From Coq Require Import Lia.

(* the answer has the type the call returns *)
Definition well_typed (c : call) (r : resp) : bool :=
  match c, r with
  | (CRegister | CSend _ | CPoll _ | CNextKbd | CNextTab), RErr _ => true
  | (CRegister | CSend _ | CSleep _), RUnit => true
  | CNow, RNow _ => true
  | CPoll _, RPoll _ => true
  | CNextKbd, RKbd _ => true
  | CNextTab, RTab _ => true
  | _, _ => false
  end.

(* the places `at_top` leads to *)
Definition top_point (st : lstate) (p : point) : Prop :=
  (l_wr st = Idle /\ p = PPoll None) \/ (exists ks nw iv, l_wr st = Repeating ks nw iv /\ p = PNowPoll).

(* the places `visit rest` leads to *)
Definition visit_point (rest : list device) (st : lstate) (p : point) : Prop :=
  match rest with
  | [] => top_point st p
  | DKbd :: rest' => p = PKbd rest'
  | DTab :: rest' => p = PTab rest'
  end.

Lemma at_top_spec st : exists p, at_top st = Go p st /\ top_point st p.
Proof.
  unfold at_top, top_point. destruct (l_wr st) as [|ks nw iv].
  - exists (PPoll None). split; [reflexivity | left; split; reflexivity].
  - exists PNowPoll. split; [reflexivity | right; exists ks, nw, iv; split; reflexivity].
Qed.

Lemma visit_spec rest st : exists p, visit rest st = Go p st /\ visit_point rest st p.
Proof.
  destruct rest as [|[|] rest]; cbn [visit visit_point].
  - apply at_top_spec.
  - eexists; split; reflexivity.
  - eexists; split; reflexivity.
Qed.

Section S.
Variable is_action : key -> bool.
Variable L : layout.

Notation resume := (Loop.resume is_action L).

Inductive lstep : point -> lstate -> resp -> result -> Prop :=
| LS_err : forall p st m,
    is_driver_call (pending p) = true -> lstep p st (RErr m) (Stop (Returned_err m))
| LS_mismatch : forall p st r,
    well_typed (pending p) r = false -> lstep p st r (Stop Mismatch)
| LS_register : forall st, lstep PRegister st RUnit (at_top st)
| LS_now_poll : forall st now ks nw iv,
    l_wr st = Repeating ks nw iv ->
    lstep PNowPoll st (RNow now) (Go (PPoll (Some (timeout_of nw now))) st)
| LS_now_poll_idle : forall st now,
    l_wr st = Idle -> lstep PNowPoll st (RNow now) (Go (PPoll None) st)
| LS_tick_idle : forall to st,
    l_wr st = Idle -> lstep (PPoll to) st (RPoll PTimedOut) (at_top st)
| LS_tick_tablet : forall to st ks nw iv,
    l_wr st = Repeating ks nw iv -> l_tablet st = true ->
    lstep (PPoll to) st (RPoll PTimedOut) (at_top (set_wr st Idle))
| LS_tick_quiet : forall to st ks nw iv,
    l_wr st = Repeating ks nw iv -> l_tablet st = false ->
    chord_events (l_mapper st) ks = [] ->
    lstep (PPoll to) st (RPoll PTimedOut) (advance_wakeup st)
| LS_tick_chord : forall to st ks nw iv evs,
    l_wr st = Repeating ks nw iv -> l_tablet st = false ->
    chord_events (l_mapper st) ks = evs -> evs <> [] ->
    lstep (PPoll to) st (RPoll PTimedOut) (Go (PSendChord evs) st)
| LS_intr_first : forall to st,
    (1 <? l_restart st + 1)%Z = false ->
    lstep (PPoll to) st (RPoll PInterrupted) (at_top (set_restart st (l_restart st + 1)%Z))
| LS_intr_sleep : forall to st ms,
    (1 <? l_restart st + 1)%Z = true -> sleep_ms (l_restart st + 1) = Some ms ->
    lstep (PPoll to) st (RPoll PInterrupted) (Go (PSleep ms) (set_restart st (l_restart st + 1)%Z))
| LS_intr_panic : forall to st,
    (1 <? l_restart st + 1)%Z = true -> sleep_ms (l_restart st + 1) = None ->
    lstep (PPoll to) st (RPoll PInterrupted) (Stop Panicked)
| LS_devs : forall to st ds,
    lstep (PPoll to) st (RPoll (PDeviceEvent ds)) (visit ds (set_restart st 0%Z))
| LS_chord_sent : forall evs st, lstep (PSendChord evs) st RUnit (advance_wakeup st)
| LS_slept : forall ms st, lstep (PSleep ms) st RUnit (at_top st)
| LS_kbd_busy : forall rest st, lstep (PKbd rest) st (RKbd NBusy) (visit rest st)
| LS_kbd_end : forall rest st, lstep (PKbd rest) st (RKbd NEnd) (Stop Returned_ok)
| LS_kbd_tablet : forall rest st e,
    l_tablet st = true -> lstep (PKbd rest) st (RKbd (NOne e)) (Go (PKbd rest) st)
| LS_kbd_quiet : forall rest st e rep s',
    l_tablet st = false -> step is_action L (l_mapper st) e = ([], rep, s') ->
    lstep (PKbd rest) st (RKbd (NOne e)) (after_step_send rep rest (set_mapper st s'))
| LS_kbd_out : forall rest st e evs rep s',
    l_tablet st = false -> step is_action L (l_mapper st) e = (evs, rep, s') -> evs <> [] ->
    lstep (PKbd rest) st (RKbd (NOne e)) (Go (PSendStep evs rep rest) (set_mapper st s'))
| LS_step_sent : forall evs rep rest st,
    lstep (PSendStep evs rep rest) st RUnit (after_step_send rep rest st)
| LS_now_step : forall ks d i rest st now nw,
    instant_add_ms now d = Some nw ->
    lstep (PNowStep ks d i rest) st (RNow now) (Go (PKbd rest) (set_wr st (Repeating ks nw i)))
| LS_now_step_panic : forall ks d i rest st now,
    instant_add_ms now d = None ->
    lstep (PNowStep ks d i rest) st (RNow now) (Stop Panicked)
| LS_tab_busy : forall rest st, lstep (PTab rest) st (RTab NBusy) (visit rest st)
| LS_tab_end : forall rest st, lstep (PTab rest) st (RTab NEnd) (Stop Returned_ok)
| LS_tab_quiet : forall rest st on s',
    release_all is_action L (l_mapper st) = ([], s') ->
    lstep (PTab rest) st (RTab (NOne on))
          (Go (PTab rest) (set_mapper (set_wr (set_tablet st on) Idle) s'))
| LS_tab_out : forall rest st on evs s',
    release_all is_action L (l_mapper st) = (evs, s') -> evs <> [] ->
    lstep (PTab rest) st (RTab (NOne on))
          (Go (PSendTab evs rest) (set_mapper (set_wr (set_tablet st on) Idle) s'))
| LS_tab_sent : forall evs rest st, lstep (PSendTab evs rest) st RUnit (Go (PTab rest) st).

Lemma resume_lstep p st r : lstep p st r (resume p st r).
Proof.
  destruct r as [| t | pr | n | n | m].
  - destruct p; cbn [Loop.resume]; try (apply LS_mismatch; reflexivity).
    + apply LS_register.
    + apply LS_chord_sent.
    + apply LS_slept.
    + apply LS_step_sent.
    + apply LS_tab_sent.
  - destruct p; cbn [Loop.resume]; try (apply LS_mismatch; reflexivity).
    + destruct (l_wr st) as [|ks nw iv] eqn:E; [apply LS_now_poll_idle; exact E | eapply LS_now_poll; exact E].
    + destruct (instant_add_ms t delay_ms) eqn:E; [apply LS_now_step | apply LS_now_step_panic]; exact E.
  - destruct p; cbn [Loop.resume]; try (apply LS_mismatch; reflexivity).
    destruct pr as [ds| |].
    + apply LS_devs.
    + destruct (l_wr st) as [|ks nw iv] eqn:E; [apply LS_tick_idle; exact E|].
      destruct (l_tablet st) eqn:Et; [eapply LS_tick_tablet; eassumption|].
      destruct (chord_events (l_mapper st) ks) as [|x evs] eqn:Ec.
      * eapply LS_tick_quiet; eassumption.
      * eapply LS_tick_chord; try eassumption. discriminate.
    + destruct (1 <? l_restart st + 1)%Z eqn:E1; [|apply LS_intr_first; exact E1].
      destruct (sleep_ms (l_restart st + 1)) eqn:E2; [apply LS_intr_sleep | apply LS_intr_panic]; assumption.
  - destruct p; cbn [Loop.resume]; try (apply LS_mismatch; reflexivity).
    destruct n as [| |e].
    + apply LS_kbd_end.
    + apply LS_kbd_busy.
    + destruct (l_tablet st) eqn:Et; [apply LS_kbd_tablet; exact Et|].
      destruct (step is_action L (l_mapper st) e) as [[evs rep] s'] eqn:Es.
      destruct evs as [|x evs].
      * eapply LS_kbd_quiet; eassumption.
      * eapply LS_kbd_out; try eassumption. discriminate.
  - destruct p; cbn [Loop.resume]; try (apply LS_mismatch; reflexivity).
    destruct n as [| |b].
    + apply LS_tab_end.
    + apply LS_tab_busy.
    + destruct (release_all is_action L (l_mapper st)) as [evs s'] eqn:Er.
      destruct evs as [|x evs].
      * eapply LS_tab_quiet; eassumption.
      * eapply LS_tab_out; try eassumption. discriminate.
  - rewrite resume_err. destruct (is_driver_call (pending p)) eqn:E.
    + apply LS_err. exact E.
    + apply LS_mismatch. destruct p; try discriminate; reflexivity.
Qed.

(* usage: `pose proof (resume_lstep p st r) as HS; rewrite E in HS; inversion HS` or,
   better, the following elimination: *)
Lemma resume_cases p st r res : resume p st r = res -> lstep p st r res.
Proof. intros <-. apply resume_lstep. Qed.

(* ---------- the helpers ---------- *)

Lemma after_step_send_spec rep rest st :
  match rep with
  | RRRepeating ks d i => after_step_send rep rest st = Go (PNowStep ks d i rest) st
  | RRDisabled => after_step_send rep rest st = Go (PKbd rest) (set_wr st Idle)
  | RRNoChange => after_step_send rep rest st = Go (PKbd rest) st
  end.
Proof. destruct rep; reflexivity. Qed.

Lemma advance_wakeup_spec st :
  match l_wr st with
  | Idle => advance_wakeup st = at_top st
  | Repeating ks nw iv =>
    match instant_add_ms nw iv with
    | Some nw' => advance_wakeup st = Go PNowPoll (set_wr st (Repeating ks nw' iv))
    | None => advance_wakeup st = Stop Panicked
    end
  end.
Proof.
  unfold advance_wakeup. destruct (l_wr st) as [|ks nw iv]; [reflexivity|].
  destruct (instant_add_ms nw iv); reflexivity.
Qed.

(* a mismatch is exactly an ill-typed answer *)
Lemma resume_mismatch_iff p st r :
  resume p st r = Stop Mismatch <-> well_typed (pending p) r = false.
Proof.
  split.
  - intros H. destruct (well_typed (pending p) r) eqn:W; [exfalso | reflexivity].
    pose proof (resume_lstep p st r) as HS. rewrite H in HS.
    inversion HS; subst; try congruence;
      match goal with
      | H : at_top ?s = Stop _ |- _ => destruct (at_top_go s) as [q Hq]; congruence
      | H : visit ?d ?s = Stop _ |- _ => destruct (visit_go d s) as [q Hq]; congruence
      | H : after_step_send ?a ?b ?s = Stop _ |- _ =>
        destruct (after_step_send_go a b s) as [q [s2 Hq]]; congruence
      | H : advance_wakeup ?s = Stop _ |- _ =>
        destruct (advance_wakeup_cases s) as [Hq|[q [s2 Hq]]]; congruence
      end.
  - intros W. destruct p, r; try discriminate W; reflexivity.
Qed.

(* ---------- the continuing rows, with the next point spelled out ---------- *)

Definition step_next (rep : rrepeat) (rest : list device) (st : lstate) (p' : point) (st' : lstate) : Prop :=
  match rep with
  | RRRepeating ks d i => p' = PNowStep ks d i rest /\ st' = st
  | RRDisabled => p' = PKbd rest /\ st' = set_wr st Idle
  | RRNoChange => p' = PKbd rest /\ st' = st
  end.

Definition adv_next (st : lstate) (p' : point) (st' : lstate) : Prop :=
  match l_wr st with
  | Idle => top_point st p' /\ st' = st
  | Repeating ks nw iv =>
    exists nw', instant_add_ms nw iv = Some nw' /\ p' = PNowPoll /\ st' = set_wr st (Repeating ks nw' iv)
  end.

Inductive lgo : point -> lstate -> resp -> point -> lstate -> Prop :=
| G_register : forall st p', top_point st p' -> lgo PRegister st RUnit p' st
| G_now_poll : forall st now ks nw iv,
    l_wr st = Repeating ks nw iv -> lgo PNowPoll st (RNow now) (PPoll (Some (timeout_of nw now))) st
| G_now_poll_idle : forall st now, l_wr st = Idle -> lgo PNowPoll st (RNow now) (PPoll None) st
| G_tick_idle : forall to st p', l_wr st = Idle -> top_point st p' -> lgo (PPoll to) st (RPoll PTimedOut) p' st
| G_tick_tablet : forall to st ks nw iv,
    l_wr st = Repeating ks nw iv -> l_tablet st = true ->
    lgo (PPoll to) st (RPoll PTimedOut) (PPoll None) (set_wr st Idle)
| G_tick_quiet : forall to st ks nw iv p' st',
    l_wr st = Repeating ks nw iv -> l_tablet st = false ->
    chord_events (l_mapper st) ks = [] -> adv_next st p' st' ->
    lgo (PPoll to) st (RPoll PTimedOut) p' st'
| G_tick_chord : forall to st ks nw iv evs,
    l_wr st = Repeating ks nw iv -> l_tablet st = false ->
    chord_events (l_mapper st) ks = evs -> evs <> [] ->
    lgo (PPoll to) st (RPoll PTimedOut) (PSendChord evs) st
| G_intr_first : forall to st p',
    (1 <? l_restart st + 1)%Z = false -> top_point st p' ->
    lgo (PPoll to) st (RPoll PInterrupted) p' (set_restart st (l_restart st + 1)%Z)
| G_intr_sleep : forall to st ms,
    (1 <? l_restart st + 1)%Z = true -> sleep_ms (l_restart st + 1) = Some ms ->
    lgo (PPoll to) st (RPoll PInterrupted) (PSleep ms) (set_restart st (l_restart st + 1)%Z)
| G_devs : forall to st ds p',
    visit_point ds st p' -> lgo (PPoll to) st (RPoll (PDeviceEvent ds)) p' (set_restart st 0%Z)
| G_chord_sent : forall evs st p' st', adv_next st p' st' -> lgo (PSendChord evs) st RUnit p' st'
| G_slept : forall ms st p', top_point st p' -> lgo (PSleep ms) st RUnit p' st
| G_kbd_busy : forall rest st p', visit_point rest st p' -> lgo (PKbd rest) st (RKbd NBusy) p' st
| G_kbd_tablet : forall rest st e, l_tablet st = true -> lgo (PKbd rest) st (RKbd (NOne e)) (PKbd rest) st
| G_kbd_quiet : forall rest st e rep s' p' st',
    l_tablet st = false -> step is_action L (l_mapper st) e = ([], rep, s') ->
    step_next rep rest (set_mapper st s') p' st' ->
    lgo (PKbd rest) st (RKbd (NOne e)) p' st'
| G_kbd_out : forall rest st e evs rep s',
    l_tablet st = false -> step is_action L (l_mapper st) e = (evs, rep, s') -> evs <> [] ->
    lgo (PKbd rest) st (RKbd (NOne e)) (PSendStep evs rep rest) (set_mapper st s')
| G_step_sent : forall evs rep rest st p' st',
    step_next rep rest st p' st' -> lgo (PSendStep evs rep rest) st RUnit p' st'
| G_now_step : forall ks d i rest st now nw,
    instant_add_ms now d = Some nw ->
    lgo (PNowStep ks d i rest) st (RNow now) (PKbd rest) (set_wr st (Repeating ks nw i))
| G_tab_busy : forall rest st p', visit_point rest st p' -> lgo (PTab rest) st (RTab NBusy) p' st
| G_tab_quiet : forall rest st on s',
    release_all is_action L (l_mapper st) = ([], s') ->
    lgo (PTab rest) st (RTab (NOne on)) (PTab rest) (set_mapper (set_wr (set_tablet st on) Idle) s')
| G_tab_out : forall rest st on evs s',
    release_all is_action L (l_mapper st) = (evs, s') -> evs <> [] ->
    lgo (PTab rest) st (RTab (NOne on)) (PSendTab evs rest) (set_mapper (set_wr (set_tablet st on) Idle) s')
| G_tab_sent : forall evs rest st, lgo (PSendTab evs rest) st RUnit (PTab rest) st.

Lemma top_point_set_restart st v p : top_point (set_restart st v) p <-> top_point st p.
Proof. unfold top_point. cbn [l_wr set_restart]. tauto. Qed.

Lemma at_top_inv st p' st' : at_top st = Go p' st' -> st' = st /\ top_point st p'.
Proof.
  intros H. destruct (at_top_spec st) as [q [Hq Ht]]. rewrite Hq in H. inversion H; subst. split; [reflexivity | exact Ht].
Qed.

Lemma visit_inv rest st p' st' : visit rest st = Go p' st' -> st' = st /\ visit_point rest st p'.
Proof.
  intros H. destruct (visit_spec rest st) as [q [Hq Ht]]. rewrite Hq in H. inversion H; subst. split; [reflexivity | exact Ht].
Qed.

Lemma after_step_send_inv rep rest st p' st' :
  after_step_send rep rest st = Go p' st' -> step_next rep rest st p' st'.
Proof. destruct rep; cbn [after_step_send step_next]; intros H; inversion H; split; reflexivity. Qed.

Lemma advance_wakeup_inv st p' st' : advance_wakeup st = Go p' st' -> adv_next st p' st'.
Proof.
  intros H. pose proof (advance_wakeup_spec st) as A. unfold adv_next. destruct (l_wr st) as [|ks nw iv].
  - rewrite A in H. destruct (at_top_inv _ _ _ H) as [H1 H2]. split; assumption.
  - destruct (instant_add_ms nw iv) as [nw'|]; rewrite A in H; [|discriminate].
    inversion H; subst. exists nw'. repeat split.
Qed.

Lemma resume_go p st r p' st' : resume p st r = Go p' st' -> lgo p st r p' st'.
Proof.
  intros E. pose proof (resume_lstep p st r) as HS. rewrite E in HS.
  inversion HS; subst;
    repeat match goal with
    | H : at_top ?s = Go _ _ |- _ => apply at_top_inv in H; destruct H as [? H]; subst
    | H : visit ?d ?s = Go _ _ |- _ => apply visit_inv in H; destruct H as [? H]; subst
    | H : after_step_send _ _ _ = Go _ _ |- _ => apply after_step_send_inv in H
    | H : advance_wakeup _ = Go _ _ |- _ => apply advance_wakeup_inv in H
    end.
  - apply G_register; assumption.
  - eapply G_now_poll; eassumption.
  - apply G_now_poll_idle; assumption.
  - apply G_tick_idle; assumption.
  - eapply G_tick_tablet; eassumption.
  - eapply G_tick_quiet; eassumption.
  - eapply G_tick_chord; try eassumption. reflexivity.
  - apply G_intr_first; [assumption|].
    match goal with H : top_point (set_restart _ _) _ |- _ => apply top_point_set_restart in H; exact H end.
  - apply G_intr_sleep; assumption.
  - apply G_devs. destruct ds as [|[|] ds]; cbn [visit_point] in *; try assumption.
  - apply G_chord_sent; assumption.
  - apply G_slept; assumption.
  - apply G_kbd_busy; assumption.
  - apply G_kbd_tablet; assumption.
  - eapply G_kbd_quiet; eassumption.
  - eapply G_kbd_out; eassumption.
  - apply G_step_sent; assumption.
  - apply G_now_step; assumption.
  - apply G_tab_busy; assumption.
  - apply G_tab_quiet; assumption.
  - apply G_tab_out; assumption.
  - apply G_tab_sent.
Qed.

Inductive lstop : point -> lstate -> resp -> outcome -> Prop :=
| T_err : forall p st m, is_driver_call (pending p) = true -> lstop p st (RErr m) (Returned_err m)
| T_mismatch : forall p st r, well_typed (pending p) r = false -> lstop p st r Mismatch
| T_kbd_end : forall rest st, lstop (PKbd rest) st (RKbd NEnd) Returned_ok
| T_tab_end : forall rest st, lstop (PTab rest) st (RTab NEnd) Returned_ok
| T_panic : forall p st r, well_typed (pending p) r = true ->
    match r with RPoll PTimedOut | RPoll PInterrupted | RUnit | RNow _ => True | _ => False end ->
    lstop p st r Panicked.

Lemma resume_stop p st r o : resume p st r = Stop o -> lstop p st r o.
Proof.
  intros E. pose proof (resume_lstep p st r) as HS. rewrite E in HS.
  inversion HS; subst;
    try match goal with
    | H : at_top ?s = Stop _ |- _ => destruct (at_top_go s) as [q Hq]; congruence
    | H : visit ?d ?s = Stop _ |- _ => destruct (visit_go d s) as [q Hq]; congruence
    | H : after_step_send ?a ?b ?s = Stop _ |- _ =>
      destruct (after_step_send_go a b s) as [q [s2 Hq]]; congruence
    | H : advance_wakeup ?s = Stop _ |- _ =>
      destruct (advance_wakeup_cases s) as [Hq|[q [s2 Hq]]]; [|congruence];
      assert (o = Panicked) by congruence; subst o; apply T_panic; [reflexivity | exact I]
    end.
  - apply T_err; assumption.
  - apply T_mismatch; assumption.
  - apply T_panic; [reflexivity | exact I].
  - apply T_kbd_end.
  - apply T_panic; [reflexivity | exact I].
  - apply T_tab_end.
Qed.

(* an entry that is a key or tablet event never stops the loop *)
Lemma stop_ekind p st r o : resume p st r = Stop o -> ekind_of (pending p, r) = EOther.
Proof.
  intros E. apply resume_stop in E. destruct E; try reflexivity.
  - destruct (pending p); reflexivity.
  - destruct (pending p), r as [| | |[]|[]|]; try reflexivity; discriminate.
  - destruct (pending p), r as [| |[]| | |]; try reflexivity; contradiction.
Qed.

End S.
