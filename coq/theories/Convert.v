(* Convert.v — executable model of src/fancy_layout_interpreting.rs (convert and
   everything it calls).  Definitions only; one Gallina function per Rust
   function, loops in the same order, every indexing / slicing / unwrap /
   usize subtraction through RustOps so that a panic is an explicit outcome.

   HashMaps: alias_mappings (String -> Vec<&AliasMapping>), alias_map
   (String -> usize), from_table (FromSet -> Vec<usize>), CHAR_ACCESS_MAP and
   US_KEYBOARD_LAYOUT are only ever accessed with get / get_mut / insert in the
   code modelled here (no iteration; ROW_NAMES.keys() appears in an error
   message only), so they are association lists and their iteration order is
   not observable. *)
From TM Require Export Base Json RustOps Fancy Mapper Parser.
From TMGen Require Import KeyTable CharTable Rows Modifiers.

(* ---------- alias definitions ---------- *)

Definition alias_table := list (str * list alias_mapping).

(* res.get_mut(name) { Some(list) => list.push(alias), None => res.insert(name, vec![alias]) } *)
Fixpoint at_push (tbl : alias_table) (name : str) (a : alias_mapping) : alias_table :=
  match tbl with
  | [] => [(name, [a])]
  | (n, l) :: t => if str_eqb n name then (n, l ++ [a]) :: t else (n, l) :: at_push t name a
  end.

(* fn find_alias_mappings *)
Definition find_alias_mappings (f : fancy_layout) : alias_table :=
  fold_left (fun tbl m => match m with FAlias a => at_push tbl (am_name a) a | _ => tbl end) f [].

Definition alias_get (tbl : alias_table) (name : str) : option (list alias_mapping) := assoc_str name tbl.

(* ---------- AliasCombinationIterable ---------- *)

Record combos := mkCombos {
  c_mods : list modifier;                  (* modifiers *)
  c_quant : list nat;                      (* alias_quantities *)
  c_found : list (list alias_mapping);     (* alias_found_mappings *)
  c_map : list (str * nat)                 (* alias_map; insert = cons, get = first match, i.e. the last insert wins *)
}.

Definition bc_state := (list nat * list (list alias_mapping) * list (str * nat))%type.

Definition bc_step (tbl : alias_table) (acc : bc_state) (m : modifier) : res bc_state :=
  match m with
  | MAlias a =>
    match alias_get tbl a with
    | None => Err
    | Some ms => let '(q, f, mp) := acc in Ok (q ++ [length ms], f ++ [ms], (a, length q) :: mp)
    end
  | MKey _ => Ok acc
  end.

(* fn build_combinations *)
Definition build_combinations (tbl : alias_table) (mods : list modifier) : res combos :=
  '(q, f, mp) <- fold_res (fun acc i => m <- idx "build_combinations:modifiers[i]" mods i ;; bc_step tbl acc m)
                          (seq 0 (length mods)) ([], [], []) ;;
  Ok (mkCombos mods q f mp).

(* &self.it.alias_found_mappings[j][self.tuple[j]].from.keys *)
Definition alias_keys_at (c : combos) (tuple : list nat) (j : nat) : res (list key) :=
  ms <- idx "AliasCombination:alias_found_mappings[j]" (c_found c) j ;;
  t <- idx "AliasCombination:tuple[j]" tuple j ;;
  a <- idx "AliasCombination:alias_found_mappings[j][tuple[j]]" ms t ;;
  Ok (am_keys a).

(* fn AliasCombination::from_modifiers *)
Definition from_modifiers (c : combos) (tuple : list nat) : res (list key) :=
  r <- fold_res (fun (acc : list key * nat) i =>
                   m <- idx "from_modifiers:modifiers[i]" (c_mods c) i ;;
                   match m with
                   | MAlias _ => ks <- alias_keys_at c tuple (snd acc) ;; Ok (fst acc ++ ks, S (snd acc))
                   | MKey k => Ok (fst acc ++ [k], snd acc)
                   end)
                (seq 0 (length (c_mods c))) ([], 0%nat) ;;
  Ok (fst r).

(* fn AliasCombination::reify_modifiers *)
Definition reify_one (c : combos) (tuple : list nat) (m : modifier) : res (list key) :=
  match m with
  | MKey k => Ok [k]
  | MAlias a =>
    match assoc_str a (c_map c) with
    | None => Err
    | Some i => alias_keys_at c tuple i
    end
  end.

Definition reify_modifiers (c : combos) (tuple : list nat) (mods : list modifier) : res (list key) :=
  kss <- map_res (reify_one c tuple) mods ;; Ok (concat kss).

(* fn AliasCombination::translate_single_to_keys *)
Definition translate_single_to_keys (c : combos) (tuple : list nat) (to : single_to) : res (list key) :=
  match st_terminal to with
  | TPhysical t => ks <- reify_modifiers c tuple (st_initial to) ;; Ok (ks ++ [t])
  | TNull => Ok []
  end.

(* ---------- MultiplyIter ---------- *)

(* for j in 0..i { self.position[j] = 0 } *)
Definition zero_prefix (pos : list nat) (i : nat) : res (list nat) :=
  fold_res (fun p j => set_idx "MultiplyIter::next:position[j]=0" p j 0%nat) (seq 0 i) pos.

(* the `for i in 0..self.quantities.len()` loop of next(): Some(new position) at
   the first index that can be incremented, None if there is none *)
Fixpoint mi_scan (qs pos : list nat) (is : list nat) : res (option (list nat)) :=
  match is with
  | [] => Ok None
  | i :: rest =>
    p <- idx "MultiplyIter::next:position[i]" pos i ;;
    q <- idx "MultiplyIter::next:quantities[i]" qs i ;;
    q1 <- usub "MultiplyIter::next:quantities[i]-1" q 1 ;;
    if (p <? q1)%nat then
      pos1 <- set_idx "MultiplyIter::next:position[i]+=1" pos i (p + 1)%nat ;;
      pos2 <- zero_prefix pos1 i ;;
      Ok (Some pos2)
    else mi_scan qs pos rest
  end.

Definition mi_next (qs pos : list nat) : res (option (list nat)) := mi_scan qs pos (seq 0 (length qs)).

(* `for tuple in iterate_combinations(..) { body }`: next() clones the position,
   advances it (or sets done), then the body runs on the clone.  The loop ends
   after at most prod(quantities) rounds; [fuel] is that bound plus one and
   running out of it is reported as a panic of the model (proved unreachable). *)
Fixpoint comb_loop {St} (fuel : nat) (qs pos : list nat) (body : list nat -> St -> res St) (s : St) : res St :=
  match fuel with
  | O => Panic "model:combination-loop-fuel"
  | S fuel' =>
    adv <- mi_next qs pos ;;
    s' <- body pos s ;;
    match adv with
    | None => Ok s'
    | Some pos' => comb_loop fuel' qs pos' body s'
    end
  end.

Definition product (qs : list nat) : nat := fold_right Nat.mul 1%nat qs.

Definition for_combinations {St} (c : combos) (body : list nat -> St -> res St) (s : St) : res St :=
  comb_loop (S (product (c_quant c))) (c_quant c) (List.repeat 0%nat (length (c_quant c))) body s.

(* ---------- key constants, tables ---------- *)

Definition kc (ident : string) : key := match key_from_str (lit ident) with Some k => k | None => 0%N end.
Definition RIGHTSHIFT : key := kc "RIGHTSHIFT".
Definition LEFTSHIFT : key := kc "LEFTSHIFT".

(* US_KEYBOARD_LAYOUT.get(row) *)
Definition physical_row (r : row) : option (list key) :=
  match r with
  | RowGrave => row_USQuertyGrave
  | Row1 => row_USQuerty1
  | RowQ => row_USQuertyQ
  | RowA => row_USQuertyA
  | RowZ => row_USQuertyZ
  end.

(* CHAR_ACCESS_MAP.get(ch): the map is filled by successive inserts, the last
   insert of a character wins *)
Definition char_table_rev : list (N * bool * N) := rev char_table.
Definition char_lookup (ch : N) : option (bool * key) :=
  match find (fun e => N.eqb (fst (fst e)) ch) char_table_rev with
  | Some e => Some (snd (fst e), snd e)
  | None => None
  end.

(* ---------- single mappings ---------- *)

Definition convert_single_repeat (c : combos) (tuple : list nat) (rep : single_repeat) : res Mapper.repeat :=
  match rep with
  | SRNormal => Ok RNormal
  | SRDisabled => Ok RDisabled
  | SRSpecial keys d i => ks <- translate_single_to_keys c tuple keys ;; Ok (RSpecial ks d i)
  end.

(* fn convert_single *)
Definition convert_single (tbl : alias_table) (from : single_from) (to : single_to) (rep : single_repeat)
           (absorbing : list modifier) : res (list mapping) :=
  c <- build_combinations tbl (sf_mods from) ;;
  for_combinations c (fun tuple acc =>
    fm <- from_modifiers c tuple ;;
    to' <- translate_single_to_keys c tuple to ;;
    rep' <- convert_single_repeat c tuple rep ;;
    absorbing' <- reify_modifiers c tuple absorbing ;;
    Ok (acc ++ [mkMapping (fm ++ [sf_key from]) to' rep' absorbing'])) [].

(* ---------- row mappings ---------- *)

Inductive row_repeat_template :=
| TNormal
| TDisabled
| TSpecial (mods : list key) (terminal : str) (delay_ms interval_ms : Z).

(* fn find_right_shift *)
Definition find_right_shift (from : list key) : bool := existsb (fun k => N.eqb k RIGHTSHIFT) from.

(* fn convert_row_to *)
Definition convert_row_to (has_right_shift : bool) (mods : list key) (terminals : str) (char_i : nat)
  : res (option (list key)) :=
  if (length terminals <=? char_i)%nat then Ok None
  else
    ch <- idx "convert_row_to:terminals[char_i]" terminals char_i ;;
    if N.eqb ch 32 then Ok None
    else match char_lookup ch with
         | None => Err
         | Some (sh, k) =>
           Ok (Some (mods ++ (if sh then [if has_right_shift then RIGHTSHIFT else LEFTSHIFT] else []) ++ [k]))
         end.

Definition row_template (c : combos) (tuple : list nat) (to : row_to) (rep : row_repeat) : res row_repeat_template :=
  match rep with
  | WRNormal => Ok TNormal
  | WRDisabled => Ok TDisabled
  | WRSpecial keys d i =>
    if (length (rt_letters to) <? length (rt_letters keys))%nat then Err
    else ms <- reify_modifiers c tuple (rt_initial keys) ;; Ok (TSpecial ms (rt_letters keys) d i)
  end.

Definition row_repeat_at (has_right_shift : bool) (tmpl : row_repeat_template) (char_i : nat) : res Mapper.repeat :=
  match tmpl with
  | TNormal => Ok RNormal
  | TDisabled => Ok RDisabled
  | TSpecial ms term d i =>
    r <- convert_row_to has_right_shift ms term char_i ;;
    match r with None => Ok RNormal | Some ks => Ok (RSpecial ks d i) end
  end.

(* fn convert_row *)
Definition convert_row (tbl : alias_table) (from : row_from) (to : row_to) (rep : row_repeat)
           (absorbing : list modifier) : res (list mapping) :=
  c <- build_combinations tbl (rf_mods from) ;;
  for_combinations c (fun tuple acc =>
    from_mods <- from_modifiers c tuple ;;
    to_mods <- reify_modifiers c tuple (rt_initial to) ;;
    tmpl <- row_template c tuple to rep ;;
    prow <- opt_res (physical_row (rf_row from)) ;;
    let hrs := find_right_shift from_mods in
    fold_res (fun acc char_i =>
      if (length prow <=? char_i)%nat then Err
      else
        to' <- convert_row_to hrs to_mods (rt_letters to) char_i ;;
        match to' with
        | None => Ok acc
        | Some to'' =>
          pk <- idx "convert_row:from_physical_row[char_i]" prow char_i ;;
          rep' <- row_repeat_at hrs tmpl char_i ;;
          absorbing' <- reify_modifiers c tuple absorbing ;;
          Ok (acc ++ [mkMapping (from_mods ++ [pk]) to'' rep' absorbing'])
        end) (seq 0 (length (rt_letters to))) acc) [].

(* ---------- alias mappings ---------- *)

(* fn is_just_one_modifier *)
Definition is_just_one_modifier (ks : list key) : res bool :=
  if Nat.eqb (length ks) 1 then k <- idx "is_just_one_modifier:ks[0]" ks 0 ;; Ok (Modifiers.is_modifier k)
  else Ok false.

(* fn convert_alias *)
Definition convert_alias (a : alias_mapping) : res (list mapping) :=
  b <- is_just_one_modifier (am_keys a) ;;
  if b then Ok [] else Ok [mkMapping (am_keys a) (am_initial a) RNormal []].

(* fn convert_mapping *)
Definition convert_mapping (tbl : alias_table) (m : fmapping) : res (list mapping) :=
  match m with
  | FAlias a => convert_alias a
  | FSingle from to rep absorbing => convert_single tbl from to rep absorbing
  | FRow from to rep absorbing => convert_row tbl from to rep absorbing
  | FRepeatOnly _ _ => Ok []
  end.

(* ---------- FromSet and from_table ---------- *)

(* Vec::sort on KeyCode: derived Ord = order of the discriminants.  FromSets are
   only compared for equality, so any sorting function gives the same answers. *)
Fixpoint insert_key (k : key) (l : list key) : list key :=
  match l with
  | [] => [k]
  | x :: t => if (k <=? x)%N then k :: l else x :: insert_key k t
  end.
Definition sort_keys (l : list key) : list key := fold_right insert_key [] l.

(* fn FromSet::new *)
Definition from_set (keys : list key) : res (list key) :=
  match keys with
  | [] => Ok []
  | _ =>
    n1 <- usub "FromSet::new:len-1" (length keys) 1 ;;
    sl <- slice "FromSet::new:keys[..len-1]" keys 0 n1 ;;
    l <- unwrap "FromSet::new:last().unwrap" (last_opt keys) ;;
    Ok (sort_keys sl ++ [l])
  end.

Fixpoint keys_eqb (a b : list key) : bool :=
  match a, b with
  | [], [] => true
  | x :: a', y :: b' => N.eqb x y && keys_eqb a' b'
  | _, _ => false
  end.

Definition from_table := list (list key * list nat).

Fixpoint ft_get (ft : from_table) (fs : list key) : option (list nat) :=
  match ft with
  | [] => None
  | (k, v) :: t => if keys_eqb k fs then Some v else ft_get t fs
  end.

(* match from_table.get_mut(&from_set) { Some(v) => v.push(i), None => insert(from_set, vec![i]) } *)
Fixpoint ft_add (ft : from_table) (fs : list key) (i : nat) : from_table :=
  match ft with
  | [] => [(fs, [i])]
  | (k, v) :: t => if keys_eqb k fs then (k, v ++ [i]) :: t else (k, v) :: ft_add t fs i
  end.

(* ---------- repeat-only entries ---------- *)

Definition set_repeat (m : mapping) (r : Mapper.repeat) : mapping := mkMapping (m_from m) (m_to m) r (m_abs m).

(* fn adjust_repeats *)
Definition adjust_repeats (res0 : list mapping) (ft : from_table) (tbl : alias_table) (fm : fmapping)
  : res (list mapping) :=
  match fm with
  | FRepeatOnly from rep =>
    c <- build_combinations tbl (sf_mods from) ;;
    for_combinations c (fun tuple acc =>
      fmods <- from_modifiers c tuple ;;
      let from' := fmods ++ [sf_key from] in
      rep' <- convert_single_repeat c tuple rep ;;
      fs <- from_set from' ;;
      match ft_get ft fs with
      | Some is =>
        fold_res (fun acc i => sm <- idx "adjust_repeats:res[*i]" acc i ;; Ok (set_nth acc i (set_repeat sm rep'))) is acc
      | None => Ok (acc ++ [mkMapping from' from' rep' []])
      end) res0
  | _ => Ok res0
  end.

(* ---------- convert ---------- *)

(* fn has_duplicate_key *)
Definition has_duplicate_key (keys : list key) : res bool :=
  exists_res (fun i =>
    exists_res (fun j =>
      a <- idx "has_duplicate_key:keys[i]" keys i ;;
      b <- idx "has_duplicate_key:keys[j]" keys j ;;
      Ok (N.eqb a b)) (seq (i + 1) (length keys - (i + 1))))
    (seq 0 (length keys)).

Definition push_converted (acc : list mapping * from_table) (sm : mapping) : res (list mapping * from_table) :=
  fs <- from_set (m_from sm) ;;
  Ok (fst acc ++ [sm], ft_add (snd acc) fs (length (fst acc))).

(* fn convert, up to the final check: both passes over the source mappings *)
Definition convert_core (f : fancy_layout) : res (list mapping) :=
  let tbl := find_alias_mappings f in
  r1 <- fold_res (fun acc fm => sms <- convert_mapping tbl fm ;; fold_res push_converted sms acc) f ([], []) ;;
  fold_res (fun acc fm => adjust_repeats acc (snd r1) tbl fm) f (fst r1).

(* "The mapper requires the keys of a trigger, and of an output, to be distinct." *)
Definition reject_duplicates (res2 : list mapping) : res layout :=
  dup <- exists_res (fun sm =>
           d <- has_duplicate_key (m_from sm) ;;
           if d then Ok true else has_duplicate_key (m_to sm)) res2 ;;
  if dup then Err else Ok res2.

(* fn convert *)
Definition convert (f : fancy_layout) : res layout :=
  res2 <- convert_core f ;; reject_duplicates res2.

(* load_layout_from_file after serde_json::from_reader *)
Definition load (j : json) : res layout := f <- parse_layout j ;; convert f.
