(* Mapper.v — executable model of src/key_transforms.rs (definitions only).
   One Gallina function per Rust function; Vec = list in the same order. *)
From TM Require Export Base.

Inductive event := Pressed (k : key) | Released (k : key).

Inductive repeat :=
| RNormal
| RDisabled
| RSpecial (keys : list key) (delay_ms interval_ms : Z).

Record mapping := mkMapping {
  m_from : list key;
  m_to : list key;
  m_repeat : repeat;
  m_abs : list key
}.

Definition layout := list mapping.

Inductive rrepeat :=
| RRDisabled
| RRNoChange
| RRRepeating (keys : list key) (delay_ms interval_ms : Z).

Record state := mkState {
  inp : list key;          (* input_pressed_keys *)
  act : list mapping;      (* active_mappings *)
  pass : list key;         (* pass_through_keys *)
  mout : list key;         (* mapped_output_keys *)
  absd : list key;         (* mapped_absorbed_keys *)
  atrig : option key;      (* absorbing_trigger *)
  rtrig : option key       (* repeating_trigger *)
}.

Definition init : state := mkState [] [] [] [] [] None None.

Definition set_inp s v := mkState v (act s) (pass s) (mout s) (absd s) (atrig s) (rtrig s).
Definition set_act s v := mkState (inp s) v (pass s) (mout s) (absd s) (atrig s) (rtrig s).
Definition set_pass s v := mkState (inp s) (act s) v (mout s) (absd s) (atrig s) (rtrig s).
Definition set_mout s v := mkState (inp s) (act s) (pass s) v (absd s) (atrig s) (rtrig s).
Definition set_absd s v := mkState (inp s) (act s) (pass s) (mout s) v (atrig s) (rtrig s).
Definition set_atrig s v := mkState (inp s) (act s) (pass s) (mout s) (absd s) v (rtrig s).
Definition set_rtrig s v := mkState (inp s) (act s) (pass s) (mout s) (absd s) (atrig s) v.

(* fn is_supported *)
Definition is_supported (trigger pressed absorbed : list key) (new_key : key) : bool :=
  forallb (fun k => (mem k pressed && negb (mem k absorbed)) || N.eqb k new_key) trigger.

(* fn fails_when_released *)
Definition fails_when_released (trigger : list key) (k : key) : bool := mem k trigger.

(* HashedLayout lookup: the group of mappings whose final trigger key is k,
   in layout order *)
Definition has_final (k : key) (m : mapping) : bool :=
  match last_opt (m_from m) with Some f => N.eqb f k | None => false end.

Definition group_of (L : layout) (k : key) : list mapping := filter (has_final k) L.

(* make_hashed_layout panics unless every trigger is non-empty and no from/to
   list has a duplicate *)
Definition mapping_ok (m : mapping) : bool :=
  match m_from m with [] => false | _ => true end && nodupb (m_from m) && nodupb (m_to m).

Definition for_layout_ok (L : layout) : bool := forallb mapping_ok L.

Section WithModifiers.

(* fn is_action_key: instantiated from the generated Modifiers table for
   extraction; every theorem holds for an arbitrary classification *)
Variable is_action : key -> bool.

Definition is_action_mapping (m : mapping) : bool :=
  match last_opt (m_to m) with Some k => is_action k | None => false end.

Definition is_any_modifier (ks : list key) : bool := existsb (fun k => negb (is_action k)) ks.

(* keys_to_release of release_action_mappings (each key collected once) *)
Definition ram_one (mo : list key) (m : mapping) : list key :=
  if is_action_mapping m && (1 <? length (m_to m))%nat && is_any_modifier (m_to m)
  then filter (fun k => mem k mo) (rev (m_to m)) else [].

Definition ram_keys (s : state) : list key := dedup (flat_map (ram_one (mout s)) (act s)).

Definition release_action_mappings (s : state) : list event * state :=
  let ks := ram_keys s in
  (map Released ks,
   set_pass (set_mout s (filter (fun k => negb (mem k ks)) (mout s)))
            (filter (fun k => negb (mem k ks)) (pass s))).

Definition release_all_action_keys (s : state) : list event * state :=
  (map Released (filter is_action (pass s) ++ filter is_action (mout s)),
   set_mout (set_pass s (filter (fun k => negb (is_action k)) (pass s)))
            (filter (fun k => negb (is_action k)) (mout s))).

(* fn remove_mapping(state, i, removed_key) *)
Definition still_used (others : list mapping) (k : key) : bool :=
  existsb (fun m => mem k (m_to m)) others.

Definition still_shadowed (others : list mapping) (k : key) : bool :=
  existsb (fun m => mem k (m_from m)) others.

Definition handover (s : state) (others : list mapping) (removed k : key) : bool :=
  mem k (inp s) && negb (N.eqb k removed) && negb (still_shadowed others k).

Definition remove_mapping (s : state) (i : nat) (removed : key) : list event * state :=
  let others := remove_nth i (act s) in
  let dropped := filter (fun k => negb (still_used others k)) (rev (mout s)) in
  (map Released (filter (fun k => negb (handover s others removed k)) dropped),
   set_act (set_mout (set_pass s (pass s ++ filter (handover s others removed) dropped))
                     (filter (still_used others) (mout s)))
           others).

(* "i from len-1 down to 0: if from contains k, remove_mapping(i)" *)
Fixpoint release_loop (n : nat) (k : key) (s : state) : list event * state :=
  match n with
  | O => ([], s)
  | S i =>
    match nth_error (act s) i with
    | None => release_loop i k s   (* index out of range: unreachable, see MapperTotal *)
    | Some m =>
      if fails_when_released (m_from m) k then
        let '(e1, s1) := remove_mapping s i k in
        let '(e2, s2) := release_loop i k s1 in
        (e1 ++ e2, s2)
      else release_loop i k s
    end
  end.

(* reverse scan of pass_through_keys with break: drop the last occurrence *)
Definition release_pass (k : key) (s : state) : list event * state :=
  if mem k (pass s) then ([Released k], set_pass s (remove_last k (pass s)))
  else ([], s).

Definition release_absorbed_one (acc : list event * state) (k : key) : list event * state :=
  let '(evs, s) := acc in
  let '(e1, s1) := release_loop (length (act s)) k s in
  let '(e2, s2) := release_pass k s1 in
  (evs ++ e1 ++ e2, set_inp s2 (remove_all k (inp s2))).

Definition release_absorbed_keys (s : state) : list event * state :=
  fold_left release_absorbed_one (absd s) ([], set_atrig (set_absd s []) None).

Definition should_absorb (s : state) (k : key) : bool :=
  match atrig s with Some t => negb (N.eqb t k) | None => true end.

(* the "for new_key in &m.to" loop of add_new_mapping *)
Definition press_out (acc : list event * state) (t : key) : list event * state :=
  let '(evs, s) := acc in
  if is_action t then
    if mem t (mout s) then (evs ++ [Released t; Pressed t], s)
    else if mem t (pass s) then
      (evs ++ [Released t; Pressed t],
       set_mout (set_pass s (remove_all t (pass s))) (mout s ++ [t]))
    else (evs ++ [Pressed t], set_mout s (mout s ++ [t]))
  else
    if negb (mem t (mout s)) && negb (mem t (pass s))
    then (evs ++ [Pressed t], set_mout s (mout s ++ [t]))
    else (evs, s).

(* the is_action_mapping block at the top of add_new_mapping *)
Definition flush_for_action (s : state) (k : key) (m : mapping) : list event * state :=
  if is_action_mapping m then
    let '(e1, s1) := release_action_mappings s in
    if should_absorb s1 k then
      let '(e2, s2) := release_absorbed_keys s1 in (e1 ++ e2, s2)
    else (e1, s1)
  else ([], s).

(* pass_through_keys.retain(...) of add_new_mapping *)
Definition consume_pass (s : state) (m : mapping) : list event * state :=
  let p := pass s in
  (map Released (filter (fun o => (mem o (m_from m) || mem o (m_to m)) && negb (mem o (m_to m))) p),
   set_mout (set_pass s (filter (fun o => negb (mem o (m_from m) || mem o (m_to m))) p))
            (mout s ++ filter (fun o => mem o (m_to m)) p)).

Definition add_new_mapping (s : state) (k : key) (m : mapping) : list event * rrepeat * state :=
  let '(e0, s0) := flush_for_action s k m in
  let '(e1, s1) := consume_pass s0 m in
  let '(e2, s2) := fold_left press_out (m_to m) ([], s1) in
  let s3 := set_absd s2 (fold_left push_new (m_abs m) (absd s2)) in
  let s4 := match m_abs m with [] => s3 | _ => set_atrig s3 (Some k) end in
  let s5 := set_act s4 (act s4 ++ [m]) in
  let evs := e0 ++ e1 ++ e2 in
  match m_repeat m with
  | RNormal => (evs, RRDisabled, s5)
  | RDisabled =>
    let '(e3, s6) := release_all_action_keys s5 in (evs ++ e3, RRDisabled, s6)
  | RSpecial ks d i =>
    let '(e3, s6) := release_all_action_keys s5 in
    (evs ++ e3, RRRepeating ks d i, set_rtrig s6 (Some k))
  end.

Definition mentions (k : key) (m : mapping) : bool := mem k (m_from m) || mem k (m_to m).

Definition newly_press (L : layout) (s : state) (k : key) : list event * rrepeat * state :=
  let s1 := set_rtrig (set_absd s (remove_all k (absd s))) None in
  let absorbed := if should_absorb s1 k then absd s1 else [] in
  match find (fun m => is_supported (m_from m) (inp s1) absorbed k) (rev (group_of L k)) with
  | Some m =>
    let '(evs, rep, s2) := add_new_mapping s1 k m in
    (evs, rep, set_inp s2 (inp s2 ++ [k]))
  | None =>
    if existsb (mentions k) (act s1) then ([], RRDisabled, set_inp s1 (inp s1 ++ [k]))
    else if mem k (pass s1) then ([], RRDisabled, set_inp s1 (inp s1 ++ [k]))
    else
      let '(e1, s2) :=
        if is_action k then
          let '(ea, sa) := release_action_mappings s1 in
          let '(eb, sb) := release_absorbed_keys sa in (ea ++ eb, sb)
        else ([], s1) in
      (e1 ++ [Pressed k], RRDisabled,
       set_inp (set_pass s2 (pass s2 ++ [k])) (inp s2 ++ [k]))
  end.

Definition newly_release (s : state) (k : key) : list event * rrepeat * state :=
  let '(e1, s1) := release_loop (length (act s)) k s in
  let '(e2, s2) := release_pass k s1 in
  (e1 ++ e2, RRDisabled, set_inp s2 (remove_all k (inp s2))).

Definition step (L : layout) (s : state) (e : event) : list event * rrepeat * state :=
  match e with
  | Pressed k => if mem k (inp s) then ([], RRNoChange, s) else newly_press L s k
  | Released k => if mem k (inp s) then newly_release s k else ([], RRNoChange, s)
  end.

(* Mapper::release_all: a release step for every key of a copy of inp *)
Definition release_all_one (L : layout) (acc : list event * state) (k : key) : list event * state :=
  let '(evs, s) := acc in
  let '(e, _, s') := step L s (Released k) in (evs ++ e, s').

Definition release_all (L : layout) (s : state) : list event * state :=
  fold_left (release_all_one L) (inp s) ([], s).

(* running a whole history *)
Fixpoint run (L : layout) (s : state) (h : list event) : list (list event * rrepeat) * state :=
  match h with
  | [] => ([], s)
  | e :: h' =>
    let '(evs, rep, s1) := step L s e in
    let '(outs, s2) := run L s1 h' in
    ((evs, rep) :: outs, s2)
  end.

Definition state_after (L : layout) (h : list event) : state := snd (run L init h).
Definition outputs (L : layout) (h : list event) : list event :=
  concat (map fst (fst (run L init h))).

End WithModifiers.
