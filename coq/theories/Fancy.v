(* Fancy.v — the types of src/fancy_keys.rs (the parsed shorthand layout).
   Definitions only.  Keys are N (KeyCode discriminants), alias names and
   letters are lists of Unicode scalars. *)
From TM Require Export Base Json.

Inductive modifier :=
| MKey (k : key)
| MAlias (name : str).

Inductive row := RowGrave | Row1 | RowQ | RowA | RowZ.

Inductive terminal :=
| TPhysical (k : key)
| TNull.

Record single_to := mkSingleTo { st_initial : list modifier; st_terminal : terminal }.
Record row_to := mkRowTo { rt_initial : list modifier; rt_letters : str }.

Inductive single_repeat :=
| SRNormal
| SRDisabled
| SRSpecial (keys : single_to) (delay_ms interval_ms : Z).

Inductive row_repeat :=
| WRNormal
| WRDisabled
| WRSpecial (keys : row_to) (delay_ms interval_ms : Z).

Record single_from := mkSingleFrom { sf_mods : list modifier; sf_key : key }.
Record row_from := mkRowFrom { rf_mods : list modifier; rf_row : row }.

(* AliasMapping { from: AliasFromKeys { keys }, to: AliasToKeys { initial, terminal } } *)
Record alias_mapping := mkAlias { am_keys : list key; am_initial : list key; am_name : str }.

Inductive fmapping :=
| FSingle (from : single_from) (to : single_to) (rep : single_repeat) (absorbing : list modifier)
| FAlias (a : alias_mapping)
| FRow (from : row_from) (to : row_to) (rep : row_repeat) (absorbing : list modifier)
| FRepeatOnly (from : single_from) (rep : single_repeat).

Definition fancy_layout := list fmapping.

(* derived PartialEq of Modifier *)
Definition modifier_eqb (a b : modifier) : bool :=
  match a, b with
  | MKey x, MKey y => N.eqb x y
  | MAlias x, MAlias y => str_eqb x y
  | _, _ => false
  end.
