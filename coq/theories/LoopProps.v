(* LoopProps.v — the event-loop theorems in the form the Properties files
   state them: about `Loop.run`, its transcript `combine cs rs`, and layouts
   accepted by Mapper::for_layout (`for_layout_ok L = true`). *)
From TM Require Import Base ListFacts Mapper Monitors Trace TraceLemmas MapperInv MapperProps MapperRepeat
                       MapperRefire Loop LoopEnv LoopMonitors LoopSpec LoopLemmas LoopStep LoopSends
                       LoopTablet LoopEnvLemmas LoopTimer LoopSim.
From Coq Require Import Lia.

Section P.
Variable is_action : key -> bool.
Variable L : layout.

Notation run := (Loop.run is_action L).
Notation conf_at := (LoopSpec.conf_at is_action L).
Notation step := (Mapper.step is_action L).
Notation release_all := (Mapper.release_all is_action L).
Notation state_of := (MapperProps.state_of is_action L).

(* ---------- C10 ---------- *)

Theorem chunking_independence rs cs o h kends tb tends t0 e' :
  run rs = (cs, o) -> no_tab_event rs ->
  epath (env0 h kends tb tends t0) (combine cs rs) e' ->
  exists unread,
    h = kbd_reads (combine cs rs) ++ unread
    /\ msends false cs rs
       = filter non_nil (map fst (fst (Mapper.run is_action L init (kbd_reads (combine cs rs))))).
Proof.
  intros Hrun Hno Hp. destruct (reads_are_history_prefix h kends tb tends t0 _ e' Hp) as [rest Hrest].
  exists rest. split; [exact Hrest|]. exact (sends_are_step_outputs is_action L rs cs o Hrun Hno).
Qed.

Lemma pending_kbd p : pending p = CNextKbd -> exists rest, p = PKbd rest.
Proof. destruct p; try discriminate. intros _. eexists; reflexivity. Qed.

Lemma pending_tab p : pending p = CNextTab -> exists rest, p = PTab rest.
Proof. destruct p; try discriminate. intros _. eexists; reflexivity. Qed.

Lemma pending_poll p to : pending p = CPoll to -> p = PPoll to.
Proof. destruct p; try discriminate. intros H. inversion H. reflexivity. Qed.

Theorem key_read_then_send rs cs o k e :
  run rs = (cs, o) -> nth_error (combine cs rs) k = Some (CNextKbd, RKbd (NOne e)) ->
  let pre := firstn k (combine cs rs) in
  if tab_after false pre then ~ is_send (nth_error cs (S k))
  else let out := fst (fst (step (state_of (minputs false pre)) e)) in
       (out <> [] -> nth_error cs (S k) = Some (CSend out))
       /\ (out = [] -> ~ is_send (nth_error cs (S k))).
Proof.
  intros Hrun Hk. destruct (entry_conf is_action L rs cs o k _ _ Hrun Hk) as [x [Hx [Hp Hr]]].
  destruct (pending_kbd _ Hp) as [rest Hp'].
  destruct (state_at is_action L rs cs o k x Hrun Hx) as [Hm Ht].
  pose proof (after_key_read is_action L rs cs o k x rest e Hrun Hx Hp' Hr) as H.
  cbn zeta. rewrite <- Ht, <- Hm. exact H.
Qed.

Hypothesis Hok : for_layout_ok L = true.

Let Hwf : wf_layout L := proj1 (for_layout_ok_wf L) Hok.

Theorem send_explained rs cs o k evs :
  run rs = (cs, o) -> nth_error cs (S k) = Some (CSend evs) ->
  evs <> []
  /\ exists c r, nth_error (combine cs rs) k = Some (c, r)
     /\ let pre := firstn k (combine cs rs) in
        let s := state_of (minputs false pre) in
        tab_after false pre = false
        /\ ((exists e, c = CNextKbd /\ r = RKbd (NOne e) /\ evs = fst (fst (step s e)))
            \/ (exists to x ks nw iv,
                   c = CPoll to /\ r = RPoll PTimedOut /\ conf_at rs k = Some x
                   /\ l_wr (c_state x) = Repeating ks nw iv /\ evs = chord_events s ks)
            \/ (exists on, c = CNextTab /\ r = RTab (NOne on) /\ evs = fst (release_all s))).
Proof.
  intros Hrun Hc. destruct (every_send_explained is_action L rs cs o k evs Hrun Hc) as [x [Hx [Hne Hwhy]]].
  split; [exact Hne|]. exists (pending (c_point x)), (c_resp x).
  split; [exact (conf_entry is_action L rs cs o k x Hrun Hx)|].
  destruct (state_at is_action L rs cs o k x Hrun Hx) as [Hm Ht].
  cbn zeta. rewrite <- Hm. split; [exact (silent_in_tablet_mode is_action L Hwf rs cs o k evs Hrun Hc)|].
  destruct Hwhy as [rest e Hp Hr Htf Hevs | to ks nw iv Hp Hr Htf Hw Hevs | rest on Hp Hr Hevs].
  - left. exists e. rewrite Hp. repeat split; assumption.
  - right. left. exists to, x, ks, nw, iv. rewrite Hp. repeat split; assumption.
  - right. right. exists on. rewrite Hp. repeat split; assumption.
Qed.

(* ---------- C12 ---------- *)

Theorem tablet_event_then rs cs o k on :
  run rs = (cs, o) -> nth_error (combine cs rs) k = Some (CNextTab, RTab (NOne on)) ->
  let pre := firstn k (combine cs rs) in
  let batch := fst (release_all (state_of (minputs false pre))) in
  (batch <> [] -> nth_error cs (S k) = Some (CSend batch))
  /\ (batch = [] -> nth_error cs (S k) = Some CNextTab)
  /\ apply_evs [] (acked pre ++ batch) = []
  /\ redundant [] (acked pre ++ batch) = false.
Proof.
  intros Hrun Hk. destruct (entry_conf is_action L rs cs o k _ _ Hrun Hk) as [x [Hx [Hp Hr]]].
  destruct (pending_tab _ Hp) as [rest Hp'].
  destruct (state_at is_action L rs cs o k x Hrun Hx) as [Hm _].
  destruct (after_tablet_event is_action L rs cs o k x rest on Hrun Hx Hp' Hr) as [H1 H2].
  destruct (tablet_event_releases_all is_action L Hwf rs cs o k x rest on Hrun Hx Hp' Hr) as [H3 H4].
  cbn zeta in *. rewrite <- Hm. repeat split; assumption.
Qed.

Theorem silent_while_on rs cs o k :
  run rs = (cs, o) -> tab_after false (firstn k (combine cs rs)) = true ->
  ~ is_send (nth_error cs (S k)).
Proof.
  intros Hrun Hon [evs Hs]. rewrite (silent_in_tablet_mode is_action L Hwf rs cs o k evs Hrun Hs) in Hon.
  discriminate.
Qed.

Theorem fresh_after_tablet_event rs cs o k x :
  run rs = (cs, o) -> conf_at rs k = Some x ->
  forall h, mresp is_action L (l_mapper (c_state x)) h
            = mresp is_action L (state_of (since_tab false [] (firstn k (combine cs rs)))) h.
Proof. exact (fresh_since_tablet_event is_action L Hwf rs cs o k x). Qed.

Theorem key_read_then_send_fresh rs cs o k e :
  run rs = (cs, o) -> nth_error (combine cs rs) k = Some (CNextKbd, RKbd (NOne e)) ->
  let pre := firstn k (combine cs rs) in
  tab_after false pre = false ->
  let out := fst (fst (step (state_of (since_tab false [] pre)) e)) in
  (out <> [] -> nth_error cs (S k) = Some (CSend out))
  /\ (out = [] -> ~ is_send (nth_error cs (S k))).
Proof.
  intros Hrun Hk. destruct (entry_conf is_action L rs cs o k _ _ Hrun Hk) as [x [Hx [Hp Hr]]].
  destruct (pending_kbd _ Hp) as [rest Hp'].
  destruct (state_at is_action L rs cs o k x Hrun Hx) as [_ Ht].
  pose proof (after_key_read is_action L rs cs o k x rest e Hrun Hx Hp' Hr) as H.
  cbn zeta. intros Htf. rewrite Ht, Htf in H. cbn zeta in H.
  rewrite (step_output_since_tablet_event is_action L Hwf rs cs o k x e Hrun Hx) in H. exact H.
Qed.

Theorem stale_release_silent rs cs o k key :
  run rs = (cs, o) -> nth_error (combine cs rs) k = Some (CNextKbd, RKbd (NOne (Released key))) ->
  ~ In (IEv (Pressed key)) (since_tab false [] (firstn k (combine cs rs))) ->
  ~ is_send (nth_error cs (S k)).
Proof.
  intros Hrun Hk Hno.
  pose proof (key_read_then_send rs cs o k _ Hrun Hk) as H0. cbn zeta in H0.
  destruct (tab_after false (firstn k (combine cs rs))) eqn:Et; [exact H0|].
  pose proof (key_read_then_send_fresh rs cs o k _ Hrun Hk Et) as H. cbn zeta in H.
  rewrite (stale_release_ignored is_action L Hwf _ key Hno) in H. cbn [fst] in H. apply H. reflexivity.
Qed.

(* ---------- C11 ---------- *)

(* the chord, in terms of what is actually held on the virtual keyboard *)
Theorem chord_shape_and_transience rs cs o k to evs :
  run rs = (cs, o) ->
  nth_error (combine cs rs) k = Some (CPoll to, RPoll PTimedOut) ->
  nth_error cs (S k) = Some (CSend evs) ->
  let held := apply_evs [] (acked (firstn k (combine cs rs))) in
  exists x ks nw iv,
    conf_at rs k = Some x /\ l_wr (c_state x) = Repeating ks nw iv /\ l_tablet (c_state x) = false
    /\ let c := dedup (filter (fun key => negb (mem key held)) ks) in
       evs = map Pressed c ++ map Released (rev c)
       /\ NoDup c /\ (forall key, In key c <-> In key ks /\ ~ In key held)
       /\ apply_evs held evs = held /\ redundant held evs = false.
Proof.
  intros Hrun Hk Hc. cbn zeta.
  destruct (every_send_explained is_action L rs cs o k evs Hrun Hc) as [x [Hx [Hne Hwhy]]].
  pose proof (conf_entry is_action L rs cs o k x Hrun Hx) as He. rewrite Hk in He. inversion He as [[Hp Hr]].
  destruct (all_at is_action L Hwf rs cs o k x Hrun Hx) as [_ [[HI [HT _]] _]].
  destruct Hwhy as [rest e Hp' _ _ _ | to' ks nw iv Hp' _ Htf Hw Hevs | rest on Hp' _ _];
    try (rewrite Hp' in Hp; discriminate Hp).
  rewrite Hp' in HT. cbn [pending_send pending] in HT. rewrite app_nil_r in HT.
  destruct HT as [_ Hseteq]. fold (apply_evs [] (acked (firstn k (combine cs rs)))) in Hseteq.
  set (held := apply_evs [] (acked (firstn k (combine cs rs)))) in *.
  exists x, ks, nw, iv. split; [exact Hx|]. split; [exact Hw|]. split; [exact Htf|].
  rewrite (chord_events_chord_of _ ks held Hseteq) in Hevs. unfold chord_of in Hevs.
  split; [exact Hevs|]. split; [apply NoDup_dedup|]. split.
  - intros key. rewrite In_dedup, filter_In, negb_true_iff. rewrite mem_false. tauto.
  - rewrite Hevs. apply (chord_of_transient held ks).
Qed.

Theorem cancel_on_tablet_event rs k x y rest on :
  conf_at rs k = Some x -> conf_at rs (S k) = Some y ->
  c_point x = PTab rest -> c_resp x = RTab (NOne on) -> l_wr (c_state y) = Idle.
Proof.
  intros Hx Hy Hp Hr. rewrite (timer_evolution is_action L rs k x y Hx Hy).
  unfold wr_after. rewrite Hp, Hr. reflexivity.
Qed.

Theorem cancel_on_key_event rs k x y rest e evs s' :
  conf_at rs k = Some x -> conf_at rs (S k) = Some y ->
  c_point x = PKbd rest -> c_resp x = RKbd (NOne e) -> l_tablet (c_state x) = false ->
  step (l_mapper (c_state x)) e = (evs, RRDisabled, s') ->
  (evs = [] -> l_wr (c_state y) = Idle)
  /\ (evs <> [] -> c_point y = PSendStep evs RRDisabled rest
                  /\ forall z, conf_at rs (S (S k)) = Some z -> l_wr (c_state z) = Idle).
Proof.
  intros Hx Hy Hp Hr Ht Hs. split.
  - intros ->. rewrite (timer_evolution is_action L rs k x y Hx Hy).
    unfold wr_after. rewrite Hp, Hr, Ht, Hs. reflexivity.
  - intros Hne.
    pose proof (confs_next is_action L rs PRegister linit k x y Hx Hy) as E.
    rewrite Hp, Hr in E. cbn [Loop.resume] in E. rewrite Ht, Hs in E.
    destruct evs as [|ev evs]; [contradiction|]. inversion E as [[Hpy Hsy]].
    split; [reflexivity|]. intros z Hz.
    rewrite (timer_evolution is_action L rs (S k) y z Hy Hz).
    unfold wr_after. rewrite <- Hpy.
    pose proof (confs_next is_action L rs PRegister linit (S k) y z Hy Hz) as E2.
    rewrite <- Hpy in E2. destruct (c_resp y); try discriminate E2. reflexivity.
Qed.

(* ---------- the monitors ---------- *)

Theorem monitors_silent rs cs o t0 tol :
  (0 <= tol)%Z -> run rs = (cs, o) ->
  check_transcript is_action L tol (annotate t0 cs rs) = [].
Proof. intros Htol Hrun. exact (monitor_never_fires is_action L tol Hwf Htol rs cs o t0 Hrun). Qed.

Theorem monitors_silent_clause rs cs o t0 tol n c :
  (0 <= tol)%Z -> run rs = (cs, o) ->
  ~ In (n, c) (check_transcript is_action L tol (annotate t0 cs rs)).
Proof. intros Htol Hrun. rewrite (monitors_silent rs cs o t0 tol Htol Hrun). intros []. Qed.

End P.
