(* LoopEndToEnd.v — every send of every run of the event loop on a layout the
   loader accepted, with key events of known keys, is a batch of known keys:
   step outputs and release-all batches by EndToEnd.output_keys, timer chords
   because the repeat keys the loop holds always come from a Special mapping of
   the layout (invariant `rep_ok` along the run). *)
From TM Require Import Base ListFacts Json RustOps Mapper Monitors Trace TraceLemmas MapperInv MapperProps
                       MapperFire MapperRepeat Parser Convert LoaderCheck LoadedWf
                       Wire WireSpec WireLemmas EndToEnd Loop LoopEnv LoopSpec LoopLemmas LoopProps.
From Coq Require Import Lia.

Section S.
Variable is_action : key -> bool.
Variable L : layout.
Hypothesis Hwfb : wf_basic L = true.

Definition kks (ks : list key) : Prop := forall k, In k ks -> known_key k = true.

Lemma special_keys_known m ks d i : In m L -> m_repeat m = RSpecial ks d i -> kks ks.
Proof.
  intros Hm Hr k Hk. unfold wf_basic in Hwfb. rewrite forallb_forall in Hwfb. specialize (Hwfb m Hm).
  unfold wf_basic_mapping in Hwfb. rewrite !andb_true_iff in Hwfb. destruct Hwfb as [[_ Hrep] _].
  unfold repeat_okb in Hrep. rewrite Hr in Hrep. rewrite !andb_true_iff in Hrep. destruct Hrep as [[Hks _] _].
  rewrite forallb_forall in Hks. apply Hks. exact Hk.
Qed.

Lemma step_repeat_keys_known s e evs ks d i s' :
  step is_action L s e = (evs, RRRepeating ks d i, s') -> kks ks.
Proof.
  intros E. pose proof (step_repeat is_action L s e) as R. rewrite E in R. cbn [fst snd] in R.
  unfold expected_repeat in R. destruct e as [k|k].
  - destruct (mem k (inp s)) eqn:Hk; [discriminate|].
    destruct (fired L s k) as [m|] eqn:Ef; [|discriminate].
    destruct (m_repeat m) as [| |ks' d' i'] eqn:Er; try discriminate. inversion R. subst ks' d' i'.
    destruct (fired_some_facts is_action L s k m Hk Ef) as [HmL _].
    exact (special_keys_known m ks d i HmL Er).
  - destruct (mem k (inp s)); discriminate.
Qed.

Definition rep_ok (p : point) (st : lstate) : Prop :=
  match l_wr st with Repeating ks _ _ => kks ks | Idle => True end
  /\ match p with
     | PNowStep ks _ _ _ => kks ks
     | PSendStep _ (RRRepeating ks _ _) _ => kks ks
     | _ => True
     end.

Ltac case_matches E :=
  repeat match type of E with
         | context [match ?x with _ => _ end] => destruct x eqn:?
         | context [if ?x then _ else _] => destruct x eqn:?
         end.

Lemma rep_ok_step p st r p' st' : rep_ok p st -> resume is_action L p st r = Go p' st' -> rep_ok p' st'.
Proof.
  intros [Hwr Hp] E.
  assert (Hvisit : forall rest st0 p0 st1, match l_wr st0 with Repeating ks _ _ => kks ks | Idle => True end ->
            visit rest st0 = Go p0 st1 -> rep_ok p0 st1).
  { intros rest st0 p0 st1 H0 Ev. unfold visit, at_top in Ev.
    destruct rest as [|[|] rest']; [destruct (l_wr st0) eqn:Ew|..]; inversion Ev; subst; split; try rewrite Ew; try exact I; try exact H0.
    all: try (rewrite Ew in H0; exact H0). }
  assert (Htop : forall st0 p0 st1, match l_wr st0 with Repeating ks _ _ => kks ks | Idle => True end ->
            at_top st0 = Go p0 st1 -> rep_ok p0 st1).
  { intros st0 p0 st1 H0 Ev. exact (Hvisit [] st0 p0 st1 H0 Ev). }
  destruct p; destruct r; cbn [resume] in E; try discriminate.
  all: try (eapply Htop; [|exact E]; cbn [l_wr set_wr set_restart set_mapper set_tablet]; exact Hwr).
  all: try (eapply Hvisit; [|exact E]; cbn [l_wr set_wr set_restart set_mapper set_tablet]; exact Hwr).
  - (* PNowPoll, RNow *) destruct (l_wr st) eqn:Ew; inversion E; subst; split; try rewrite Ew; try exact I; exact Hwr.
  - (* PPoll, RPoll *)
    destruct r as [ds| |].
    + eapply Hvisit; [|exact E]. cbn [l_wr set_restart]. exact Hwr.
    + destruct (l_wr st) as [|ks nw iv] eqn:Ew.
      * eapply Htop; [|exact E]. rewrite Ew. exact I.
      * destruct (l_tablet st).
        -- eapply Htop; [|exact E]. cbn [l_wr set_wr]. exact I.
        -- destruct (chord_events (l_mapper st) ks) eqn:Ec.
           ++ unfold advance_wakeup in E. rewrite Ew in E.
              destruct (instant_add_ms nw iv); [|discriminate].
              eapply Htop; [|exact E]. cbn [l_wr set_wr]. exact Hwr.
           ++ inversion E; subst. split; [rewrite Ew; exact Hwr | exact I].
    + destruct (1 <? l_restart st + 1)%Z.
      * destruct (sleep_ms (l_restart st + 1)); [|discriminate]. inversion E; subst.
        split; [cbn [l_wr set_restart]; exact Hwr | exact I].
      * eapply Htop; [|exact E]. cbn [l_wr set_restart]. exact Hwr.
  - (* PSendChord, RUnit *)
    unfold advance_wakeup in E. destruct (l_wr st) as [|ks nw iv] eqn:Ew.
    + eapply Htop; [|exact E]. rewrite Ew. exact I.
    + destruct (instant_add_ms nw iv); [|discriminate].
      eapply Htop; [|exact E]. cbn [l_wr set_wr]. exact Hwr.
  - (* PKbd, RKbd *)
    destruct n as [| |e].
    + discriminate.
    + eapply Hvisit; [|exact E]. exact Hwr.
    + destruct (l_tablet st); [inversion E; subst; split; [exact Hwr | exact I]|].
      destruct (step is_action L (l_mapper st) e) as [[evs rep] s'] eqn:Es.
      assert (Hrep : match rep with RRRepeating ks _ _ => kks ks | _ => True end).
      { destruct rep as [| |ks d i]; try exact I. exact (step_repeat_keys_known _ _ _ _ _ _ _ Es). }
      destruct evs as [|e0 evs0].
      * unfold after_step_send in E. destruct rep as [| |ks d i]; inversion E; subst; split; cbn [l_wr set_wr set_mapper]; try exact I; try exact Hwr; exact Hrep.
      * inversion E; subst. split; [cbn [l_wr set_mapper]; exact Hwr|]. exact Hrep.
  - (* PSendStep, RUnit *)
    unfold after_step_send in E. destruct rep as [| |ks d i]; inversion E; subst; split; cbn [l_wr set_wr]; try exact I; try exact Hwr; exact Hp.
  - (* PNowStep, RNow *)
    destruct (instant_add_ms t delay_ms); [|discriminate]. inversion E; subst. split; [cbn [l_wr set_wr]; exact Hp | exact I].
  - (* PTab, RTab *)
    destruct n as [| |on].
    + discriminate.
    + eapply Hvisit; [|exact E]. exact Hwr.
    + destruct (release_all is_action L (l_mapper st)) as [evs s'].
      destruct evs; inversion E; subst; split; cbn [l_wr set_wr set_mapper set_tablet]; exact I.
  - (* PSendTab, RUnit *) inversion E; subst. split; [exact Hwr | exact I].
Qed.

Lemma rep_ok_at rs k x : conf_at is_action L rs k = Some x -> rep_ok (c_point x) (c_state x).
Proof.
  unfold conf_at. apply (confs_ind is_action L rep_ok); [exact rep_ok_step|].
  split; cbn; exact I.
Qed.


(* input keys of the mapper inputs of a transcript are keys of key events read in it *)
Lemma minputs_keys : forall tr tab k,
  In k (input_keys (minputs tab tr)) -> exists e, In e (kbd_reads tr) /\ ev_key e = k.
Proof.
  induction tr as [|x tr IH]; intros tab k H; [destruct H|].
  cbn [minputs] in H.
  assert (Hsub : forall tab', In k (input_keys (minputs tab' tr)) -> exists e, In e (kbd_reads (x :: tr)) /\ ev_key e = k).
  { intros tab' H'. destruct (IH tab' k H') as [e [He Hk]]. exists e. split; [|exact Hk].
    destruct x as [c r]. cbn [kbd_reads]. destruct c; try exact He. destruct r; try exact He. destruct n; try exact He. right. exact He. }
  destruct x as [c r]. unfold ekind_of in H.
  destruct c; try (apply (Hsub tab); exact H).
  - (* CNextKbd *)
    destruct r; try (apply (Hsub tab); exact H). destruct n as [| |e]; try (apply (Hsub tab); exact H).
    destruct tab; [apply (Hsub true); exact H|].
    unfold input_keys in H. cbn [flat_map key_of_input app] in H. destruct H as [H|H].
    + exists e. split; [cbn [kbd_reads]; left; reflexivity | exact H].
    + apply (Hsub false). exact H.
  - (* CNextTab *)
    destruct r; try (apply (Hsub tab); exact H). destruct n as [| |b]; try (apply (Hsub tab); exact H).
    unfold input_keys in H. cbn [flat_map key_of_input app] in H. apply (Hsub b). exact H.
Qed.

Lemma chord_events_keys s ks ev : In ev (chord_events s ks) -> In (ev_key ev) ks.
Proof.
  unfold chord_events, chord_keys. intros H. apply in_app_or in H.
  assert (Hc : forall x, In x (dedup (filter (fun k => negb (is_output_held s k)) ks)) -> In x ks).
  { intros x Hx. apply (proj1 (In_dedup _ _)) in Hx. apply filter_In in Hx. tauto. }
  destruct H as [H|H]; apply in_map_iff in H; destruct H as [x [Ex Hx]]; subst ev; cbn [ev_key]; apply Hc;
    [exact Hx | apply in_rev; exact Hx].
Qed.

(* the capstone at the level of the event loop *)
Theorem loop_sends_are_known_batches :
  for_layout_ok L = true ->
  forall (rs : list resp) (cs : list call) (o : outcome) (k : nat) (evs : list event),
    Loop.run is_action L rs = (cs, o) ->
    (forall e, In e (kbd_reads (combine cs rs)) -> known_key (ev_key e) = true) ->
    nth_error cs (S k) = Some (CSend evs) ->
    known_batch evs = true.
Proof.
  intros Hok rs cs o k evs Hrun Hkeys Hsend.
  assert (Hwf : wf_layout L) by (apply for_layout_ok_wf; exact Hok).
  destruct (send_explained is_action L Hok rs cs o k evs Hrun Hsend) as [_ [c [r [Hnth [_ Hwhy]]]]].
  set (pre := firstn k (combine cs rs)) in *.
  assert (Hpre : forall key, In key (input_keys (minputs false pre)) -> known_key key = true).
  { intros key Hk. destruct (minputs_keys pre false key Hk) as [e [He Hek]]. subst key. apply Hkeys.
    assert (Hsplit : combine cs rs = pre ++ skipn k (combine cs rs)) by (subst pre; symmetry; apply firstn_skipn).
    rewrite Hsplit. clear - He. induction pre as [|[c r] pre IH]; [destruct He|].
    cbn [app kbd_reads] in *. destruct c; try (apply IH; exact He). destruct r; try (apply IH; exact He).
    destruct n; try (apply IH; exact He). destruct He as [He|He]; [left; exact He | right; apply IH; exact He]. }
  assert (Hmap : forall i, (forall key, In key (key_of_input i) -> known_key key = true) ->
            known_batch (fst (fst (mstep is_action L (state_of is_action L (minputs false pre)) i))) = true).
  { intros i Hi. unfold known_batch. apply forallb_forall. intros ev Hev.
    change (spec_key ev) with (ev_key ev). apply known_key_code.
    assert (Hout : In ev (out_all is_action L (minputs false pre ++ [i]))).
    { rewrite out_all_snoc. apply in_or_app. right. exact Hev. }
    destruct (output_keys is_action L Hwf _ ev Hout) as [H|[m [Hm Hx]]].
    - unfold input_keys in H. rewrite flat_map_app in H. apply in_app_or in H. destruct H as [H|H].
      + apply Hpre. exact H.
      + cbn [flat_map] in H. rewrite app_nil_r in H. apply Hi. exact H.
    - unfold wf_basic in Hwfb. rewrite forallb_forall in Hwfb. specialize (Hwfb m Hm).
      unfold wf_basic_mapping in Hwfb. rewrite !andb_true_iff in Hwfb.
      destruct Hwfb as [[[[[[[_ _] _] _] Hto] _] _] _]. rewrite forallb_forall in Hto. apply Hto. exact Hx. }
  destruct Hwhy as [[e [Hc [Hr Hevs]]]|[[to [x [ks [nw [iv [Hc [Hr [Hx [Hw Hevs]]]]]]]]]|[on [Hc [Hr Hevs]]]]].
  - subst evs. specialize (Hmap (IEv e)). cbn [mstep] in Hmap.
    destruct (step is_action L (state_of is_action L (minputs false pre)) e) as [[a b] c0]. cbn [fst] in *.
    apply Hmap. intros key [Hk|[]]. subst key. apply Hkeys.
    subst c r. eapply nth_error_In in Hnth. clear - Hnth.
    induction (combine cs rs) as [|[c r] t IH]; [destruct Hnth|].
    cbn [kbd_reads]. destruct Hnth as [E|Hn].
    + inversion E; subst. left. reflexivity.
    + destruct c; try (apply IH; exact Hn). destruct r; try (apply IH; exact Hn). destruct n; try (apply IH; exact Hn).
      right. apply IH. exact Hn.
  - subst evs. pose proof (rep_ok_at rs k x Hx) as [Hwr _]. rewrite Hw in Hwr.
    unfold known_batch. apply forallb_forall. intros ev Hev. change (spec_key ev) with (ev_key ev).
    apply known_key_code. apply Hwr. eapply chord_events_keys. exact Hev.
  - subst evs. specialize (Hmap IReleaseAll). cbn [mstep] in Hmap.
    destruct (release_all is_action L (state_of is_action L (minputs false pre))) as [a b]. cbn [fst] in *.
    apply Hmap. intros key [].
Qed.

End S.
