(* LoopSpec.v — vocabulary for stating the event-loop properties C10, C11, C12,
   C20 about Loop.run (definitions only; the lemmas are in LoopLemmas*.v).

   * `confs`: the configurations of a run, one per ANSWERED call: the place
     where the loop waits (`point`), its local variables (`lstate`) and the
     answer it then receives.  `transcript_of` is the list of (call, answer)
     pairs of those configurations; it equals `combine cs rs` for
     `(cs, o) = Loop.run rs` (lemma `run_from_transcript`).
   * `minputs`: the inputs the loop gives to the mapper according to a
     transcript alone: each key event read while the tablet switch is off is a
     `step`, each tablet event is a `release_all`.
   * `msends` / `chord_sends`: the payloads of the `send` calls of a run, split
     into those made directly after a `TimedOut` answer (the timer chords of
     C11) and all the others.
   * `epathP`: admissible transcripts of LoopEnv in which, in addition, every
     answer is given in an environment satisfying a predicate. *)
From TM Require Export Base Mapper Monitors Loop LoopEnv MapperInv.

Section WithModifiers.
Variable is_action : key -> bool.
Variable L : layout.

Definition conf : Type := point * lstate * resp.
Definition c_point (x : conf) : point := fst (fst x).
Definition c_state (x : conf) : lstate := snd (fst x).
Definition c_resp (x : conf) : resp := snd x.
Definition entry_of (x : conf) : call * resp := (pending (c_point x), c_resp x).

Fixpoint confs (p : point) (st : lstate) (rs : list resp) : list conf :=
  match rs with
  | [] => []
  | r :: rs' =>
    (p, st, r) :: match resume is_action L p st r with
                  | Go p' st' => confs p' st' rs'
                  | Stop _ => []
                  end
  end.

Definition transcript_of (p : point) (st : lstate) (rs : list resp) : list (call * resp) :=
  map entry_of (confs p st rs).

(* the configuration in which the k-th call (from 0) of `Loop.run rs` is answered *)
Definition conf_at (rs : list resp) (k : nat) : option conf :=
  nth_error (confs PRegister linit rs) k.

End WithModifiers.

(* ---------- what a transcript means for the mapper ---------- *)

Inductive ekind := EKey (e : event) | ETab (on : bool) | EOther.

Definition ekind_of (x : call * resp) : ekind :=
  match x with
  | (CNextKbd, RKbd (NOne e)) => EKey e
  | (CNextTab, RTab (NOne b)) => ETab b
  | _ => EOther
  end.

(* tab = is the tablet switch on at the start of tr *)
Fixpoint minputs (tab : bool) (tr : list (call * resp)) : list input :=
  match tr with
  | [] => []
  | x :: tr' =>
    match ekind_of x with
    | EKey e => if tab then minputs tab tr' else IEv e :: minputs tab tr'
    | ETab b => IReleaseAll :: minputs b tr'
    | EOther => minputs tab tr'
    end
  end.

Fixpoint tab_after (tab : bool) (tr : list (call * resp)) : bool :=
  match tr with
  | [] => tab
  | x :: tr' =>
    match ekind_of x with
    | ETab b => tab_after b tr'
    | _ => tab_after tab tr'
    end
  end.

(* the mapper inputs since the last tablet event (none of them a release-all):
   the key events read while the switch is off; acc = those before tr *)
Fixpoint since_tab (tab : bool) (acc : list input) (tr : list (call * resp)) : list input :=
  match tr with
  | [] => acc
  | x :: tr' =>
    match ekind_of x with
    | EKey e => since_tab tab (if tab then acc else acc ++ [IEv e]) tr'
    | ETab b => since_tab b [] tr'
    | EOther => since_tab tab acc tr'
    end
  end.

Definition no_tab_event (rs : list resp) : Prop := forall b, ~ In (RTab (NOne b)) rs.

(* ---------- the sends of a run ---------- *)

Definition is_tick (c : call) (r : option resp) : bool :=
  match c, r with
  | CPoll _, Some (RPoll PTimedOut) => true
  | _, _ => false
  end.

(* payloads of the send calls in cs (answered by rs; the last call may be
   unanswered).  after_tick = the previous call was a poll answered TimedOut.
   `msends`: sends NOT directly after a TimedOut;  `chord_sends`: the others. *)
Fixpoint msends (after_tick : bool) (cs : list call) (rs : list resp) : list (list event) :=
  match cs with
  | [] => []
  | c :: cs' =>
    (match c with CSend evs => if after_tick then [] else [evs] | _ => [] end)
    ++ msends (is_tick c (hd_error rs)) cs' (tl rs)
  end.

Fixpoint chord_sends (after_tick : bool) (cs : list call) (rs : list resp) : list (list event) :=
  match cs with
  | [] => []
  | c :: cs' =>
    (match c with CSend evs => if after_tick then [evs] else [] | _ => [] end)
    ++ chord_sends (is_tick c (hd_error rs)) cs' (tl rs)
  end.

Definition non_nil {A} (l : list A) : bool := match l with [] => false | _ => true end.

(* the events of the sends in a transcript that were acknowledged (answered RUnit) *)
Fixpoint acked (tr : list (call * resp)) : list event :=
  match tr with
  | [] => []
  | (CSend evs, RUnit) :: tr' => evs ++ acked tr'
  | _ :: tr' => acked tr'
  end.

(* the payload of the send the loop is waiting on, if any *)
Definition pending_send (p : point) : list event :=
  match pending p with CSend evs => evs | _ => [] end.

(* ---------- the repeat timer ---------- *)

Definition advanced (wr : working_repeat) : working_repeat :=
  match wr with
  | Idle => Idle
  | Repeating ks nw iv => Repeating ks (nw + as_u64 iv * ns_per_ms)%Z iv
  end.

Section Timer.
Variable is_action : key -> bool.
Variable L : layout.

(* the value of `working_repeat` after the answer of configuration x has been
   processed (when the loop goes on): the ONLY ways it changes *)
Definition wr_after (x : conf) : working_repeat :=
  let st := c_state x in
  match c_point x, c_resp x with
  | PNowStep ks d i _, RNow now => Repeating ks (now + as_u64 d * ns_per_ms)%Z i   (* armed: now + delay *)
  | PTab _, RTab (NOne _) => Idle                                                  (* any tablet event cancels *)
  | PPoll _, RPoll PTimedOut =>
    match l_wr st with
    | Idle => Idle
    | Repeating ks nw iv =>
      if l_tablet st then Idle
      else if non_nil (chord_events (l_mapper st) ks) then l_wr st   (* advanced after the chord is sent *)
           else advanced (l_wr st)
    end
  | PSendChord _, RUnit => advanced (l_wr st)                                      (* tick: + interval *)
  | PKbd _, RKbd (NOne e) =>
    if l_tablet st then l_wr st
    else match step is_action L (l_mapper st) e with
         | ([], RRDisabled, _) => Idle                                              (* acted key event cancels *)
         | _ => l_wr st
         end
  | PSendStep _ RRDisabled _, RUnit => Idle                                        (* ... after its output is sent *)
  | _, _ => l_wr st
  end.

End Timer.

(* the script "k time-outs in a row" with clock readings nows, and the calls it must produce *)
Fixpoint tick_script (has_chord : bool) (nows : list Z) : list resp :=
  match nows with
  | [] => []
  | now :: t => RNow now :: RPoll PTimedOut :: (if has_chord then [RUnit] else []) ++ tick_script has_chord t
  end.

Fixpoint tick_calls (chord : list event) (next_wakeup interval_ns : Z) (nows : list Z) : list call :=
  match nows with
  | [] => [CNow]
  | now :: t =>
    CNow :: CPoll (Some (timeout_of next_wakeup now))
         :: (if non_nil chord then [CSend chord] else [])
         ++ tick_calls chord (next_wakeup + interval_ns)%Z interval_ns t
  end.

(* ---------- admissible transcripts with a condition on every answer ---------- *)

Inductive epathP (P : env -> call -> Prop) : env -> list (call * resp) -> env -> Prop :=
| EPP_nil : forall e, epathP P e [] e
| EPP_cons : forall e e1 e2 e3 c r tr,
    arrive e e1 -> P e1 c -> answer e1 c r e2 -> epathP P e2 tr e3 -> epathP P e ((c, r) :: tr) e3.

(* at a poll no device has something to read that no coming poll will announce *)
Definition polls_find_nothing_unread (e : env) (c : call) : Prop :=
  match c with CPoll _ => forall d, ~ stale e d | _ => True end.
