(* MapperRepeat.v — C09: the repeat request of a step, by case analysis of step. *)
From TM Require Import Mapper Monitors.

Section S.
Variable is_action : key -> bool.

Definition expected_repeat (L : layout) (s : state) (e : event) : rrepeat :=
  match e with
  | Pressed k =>
    if mem k (inp s) then RRNoChange else
    match fired L s k with
    | Some m => match m_repeat m with RSpecial ks d i => RRRepeating ks d i | _ => RRDisabled end
    | None => RRDisabled
    end
  | Released k => if mem k (inp s) then RRDisabled else RRNoChange
  end.

Lemma add_new_mapping_repeat s k m :
  snd (fst (add_new_mapping is_action s k m)) =
  match m_repeat m with RSpecial ks d i => RRRepeating ks d i | _ => RRDisabled end.
Proof.
  unfold add_new_mapping.
  destruct (flush_for_action is_action s k m) as [e0 s0].
  destruct (consume_pass s0 m) as [e1 s1].
  destruct (fold_left (press_out is_action) (m_to m) ([], s1)) as [e2 s2].
  destruct (m_repeat m); cbn [fst snd]; try reflexivity;
    destruct (release_all_action_keys is_action _) as [e3 s6]; reflexivity.
Qed.

Lemma step_repeat L s e :
  snd (fst (step is_action L s e)) = expected_repeat L s e.
Proof.
  destruct e as [k|k]; cbn [step expected_repeat].
  - unfold fired. destruct (mem k (inp s)) eqn:Hin; [reflexivity|].
    unfold newly_press.
    destruct (find _ _) as [m|].
    + pose proof (add_new_mapping_repeat (set_rtrig (set_absd s (remove_all k (absd s))) None) k m) as H.
      destruct (add_new_mapping is_action _ k m) as [[evs rep] s2]. cbn [fst snd] in *. exact H.
    + destruct (existsb _ _); [reflexivity|].
      destruct (mem k (pass _)); [reflexivity|].
      destruct (if is_action k then _ else _) as [e1 s2]; reflexivity.
  - destruct (mem k (inp s)); [|reflexivity].
    unfold newly_release.
    destruct (release_loop _ k s) as [e1 s1].
    destruct (release_pass k s1) as [e2 s2]. reflexivity.
Qed.

(* an ignored event changes nothing at all *)
Lemma step_ignored L s e :
  (match e with Pressed k => mem k (inp s) = true | Released k => mem k (inp s) = false end) ->
  step is_action L s e = ([], RRNoChange, s).
Proof.
  destruct e as [k|k]; cbn [step]; intros ->; reflexivity.
Qed.

(* Corollaries naming the sub-claims of C09 one by one. *)

(* a step requests repeating exactly when it fires a Special mapping, and then
   with that mapping's keys, delay and interval *)
Lemma step_repeating_iff L s e ks d i :
  snd (fst (step is_action L s e)) = RRRepeating ks d i <->
  exists k m, e = Pressed k /\ fired L s k = Some m /\ m_repeat m = RSpecial ks d i.
Proof.
  rewrite step_repeat. split.
  - destruct e as [k|k]; cbn [expected_repeat].
    + destruct (mem k (inp s)); [discriminate|].
      destruct (fired L s k) as [m|] eqn:F; [|discriminate].
      destruct (m_repeat m) as [| |ks' d' i'] eqn:R; try discriminate.
      intros H; injection H as -> -> ->. exists k, m. repeat split; assumption.
    + destruct (mem k (inp s)); discriminate.
  - intros (k & m & -> & F & R). cbn [expected_repeat].
    assert (Hin : mem k (inp s) = false).
    { unfold fired in F. destruct (mem k (inp s)); [discriminate|reflexivity]. }
    rewrite Hin, F, R. reflexivity.
Qed.

(* the release of any key the mapper considers held cancels repeating: a repeat
   never survives the release of its trigger *)
Lemma step_release_cancels L s k :
  mem k (inp s) = true ->
  snd (fst (step is_action L s (Released k))) = RRDisabled.
Proof. intros H. rewrite step_repeat. cbn [expected_repeat]. rewrite H. reflexivity. Qed.

(* a press the mapper acts on that fires no mapping, or a Normal/Disabled one,
   cancels repeating, whatever other mappings of the layout are Special *)
Lemma step_press_non_special_cancels L s k :
  mem k (inp s) = false ->
  (forall m ks d i, fired L s k = Some m -> m_repeat m <> RSpecial ks d i) ->
  snd (fst (step is_action L s (Pressed k))) = RRDisabled.
Proof.
  intros H N. rewrite step_repeat. cbn [expected_repeat]. rewrite H.
  destruct (fired L s k) as [m|] eqn:F; [|reflexivity].
  destruct (m_repeat m) as [| |ks d i] eqn:R; try reflexivity.
  exfalso. exact (N m ks d i eq_refl R).
Qed.

(* NoChange is returned for ignored events only *)
Lemma step_nochange_iff L s e :
  snd (fst (step is_action L s e)) = RRNoChange <->
  (match e with Pressed k => mem k (inp s) = true | Released k => mem k (inp s) = false end).
Proof.
  rewrite step_repeat. destruct e as [k|k]; cbn [expected_repeat].
  - destruct (mem k (inp s)); [tauto|].
    split; [|discriminate].
    destruct (fired L s k) as [m|]; [destruct (m_repeat m)|]; discriminate.
  - destruct (mem k (inp s)); split; try discriminate; reflexivity.
Qed.

End S.
