(* MapperRepeat.v — C09: the repeat request of a step, by case analysis of step. *)
From TM Require Import Mapper Monitors.

Section S.
Variable is_action : key -> bool.

Definition expected_repeat (L : layout) (s : state) (e : event) : rrepeat :=
  match e with
  | Pressed k =>
    if mem k (inp s) then RRNoChange else
    match fired L s k with
    | Some m => match m_repeat m with RSpecial ks d i => RRRepeating ks d i | _ => RRDisabled end
    | None => RRDisabled
    end
  | Released k => if mem k (inp s) then RRDisabled else RRNoChange
  end.

Lemma add_new_mapping_repeat s k m :
  snd (fst (add_new_mapping is_action s k m)) =
  match m_repeat m with RSpecial ks d i => RRRepeating ks d i | _ => RRDisabled end.
Proof.
  unfold add_new_mapping.
  destruct (flush_for_action is_action s k m) as [e0 s0].
  destruct (consume_pass s0 m) as [e1 s1].
  destruct (fold_left (press_out is_action) (m_to m) ([], s1)) as [e2 s2].
  destruct (m_repeat m); cbn [fst snd]; try reflexivity;
    destruct (release_all_action_keys is_action _) as [e3 s6]; reflexivity.
Qed.

Lemma step_repeat L s e :
  snd (fst (step is_action L s e)) = expected_repeat L s e.
Proof.
  destruct e as [k|k]; cbn [step expected_repeat].
  - unfold fired. destruct (mem k (inp s)) eqn:Hin; [reflexivity|].
    unfold newly_press.
    destruct (find _ _) as [m|].
    + pose proof (add_new_mapping_repeat (set_rtrig (set_absd s (remove_all k (absd s))) None) k m) as H.
      destruct (add_new_mapping is_action _ k m) as [[evs rep] s2]. cbn [fst snd] in *. exact H.
    + destruct (existsb _ _); [reflexivity|].
      destruct (mem k (pass _)); [reflexivity|].
      destruct (if is_action k then _ else _) as [e1 s2]; reflexivity.
  - destruct (mem k (inp s)); [|reflexivity].
    unfold newly_release.
    destruct (release_loop _ k s) as [e1 s1].
    destruct (release_pass k s1) as [e2 s2]. reflexivity.
Qed.

(* an ignored event changes nothing at all *)
Lemma step_ignored L s e :
  (match e with Pressed k => mem k (inp s) = true | Released k => mem k (inp s) = false end) ->
  step is_action L s e = ([], RRNoChange, s).
Proof.
  destruct e as [k|k]; cbn [step]; intros ->; reflexivity.
Qed.

End S.
