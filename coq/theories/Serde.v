(* Serde.v — serde_json::to_value(&keys::Layout): the derive(Serialize) form in
   which add_systemd_service saves the converted layout.  Definitions only.

   struct Layout { mappings }, struct Mapping { from, to, repeat, absorbing }
   (every field is always written; #[serde(default)] only affects reading),
   enum Repeat { Normal, Disabled, Special { keys, delay_ms, interval_ms } } in
   serde's externally tagged form, KeyCode as its variant name or its
   #[serde(rename)].  Object keys are listed in BTreeMap order. *)
From TM Require Export Base Json Mapper.
From TMGen Require Import KeyTable.

(* the serde name of a key code: third column of the key table, looked up by
   discriminant (discriminants of a Rust enum are distinct) *)
Fixpoint serde_name_in (tbl : list (string * N * string)) (k : key) : option str :=
  match tbl with
  | [] => None
  | (_, c, s) :: t => if N.eqb c k then Some (lit s) else serde_name_in t k
  end.

Definition serde_name (k : key) : option str := serde_name_in key_table k.

(* a key that is not a KeyCode cannot occur in a keys::Layout; JNull marks it *)
Definition key_json (k : key) : json :=
  match serde_name k with Some s => JStr s | None => JNull end.

Definition keys_json (ks : list key) : json := JArr (map key_json ks).

Definition repeat_json (r : repeat) : json :=
  match r with
  | RNormal => JStr (lit "Normal")
  | RDisabled => JStr (lit "Disabled")
  | RSpecial ks d i =>
    JObj [ (lit "Special",
            JObj [ (lit "delay_ms", JNum (Some d));
                   (lit "interval_ms", JNum (Some i));
                   (lit "keys", keys_json ks) ]) ]
  end.

Definition mapping_json (m : mapping) : json :=
  JObj [ (lit "absorbing", keys_json (m_abs m));
         (lit "from", keys_json (m_from m));
         (lit "repeat", repeat_json (m_repeat m));
         (lit "to", keys_json (m_to m)) ].

Definition to_json (L : layout) : json :=
  JObj [ (lit "mappings", JArr (map mapping_json L)) ].
