(* EndToEnd.v — the models fit together: for a layout that the loader accepts
   and key events of known keys, everything the mapper emits is a batch of
   known keys, hence (C18) is written as well-formed records that the tool's own
   reader decodes back to exactly that batch.  Connects Loader (C13-C15),
   Mapper (C01-C09, C19) and Wire (C18). *)
From TM Require Import Base ListFacts Json RustOps Mapper Monitors Trace TraceLemmas MapperInv MapperProps
                       MapperFire MapperProv MapperRepeat Parser Convert Serde LoaderCheck KeyNames LoadedWf
                       Wire WireSpec WireLemmas.
From TMGen Require Import KeyTable.

Lemma known_key_code k : known_key k = true -> known_code k = true.
Proof.
  unfold known_key, serde_name. destruct (serde_name_in key_table k) as [s|] eqn:E; [|discriminate]. intros _.
  destruct (serde_name_in_table key_table k s E) as [[[id c] sn] [Hin [Hc _]]]. cbn in Hc. subst c.
  apply known_code_in. exists id, sn. exact Hin.
Qed.

(* in a trace without redundant events a released key was held before or pressed earlier in it *)
Lemma released_origin evs : forall h x,
  redundant h evs = false -> In (Released x) evs -> In x h \/ In (Pressed x) evs.
Proof.
  induction evs as [|e r IH]; intros h x Hr Hin; [destruct Hin|].
  rewrite redundant_cons in Hr. apply orb_false_iff in Hr. destruct Hr as [Hb Hr].
  destruct Hin as [E|Hin].
  - subst e. left. unfold bad_ev in Hb. apply negb_false_iff, mem_In in Hb. exact Hb.
  - destruct (IH _ x Hr Hin) as [H|H]; [|right; right; exact H].
    destruct e as [a|a].
    + apply In_apply_ev_press in H. destruct H as [H|H]; [left; exact H | right; left; subst; reflexivity].
    + apply In_apply_ev_release in H. left. tauto.
Qed.

Section S.
Variable is_action : key -> bool.

Definition key_of_input (i : input) : list key := match i with IEv e => [ev_key e] | IReleaseAll => [] end.
Definition input_keys (h : list input) : list key := flat_map key_of_input h.

Lemma phys_sub_inputs : forall h p x, In x (phys_all p h) -> In x p \/ In x (input_keys h).
Proof.
  induction h as [|i h IH]; intros p x H; [left; exact H|].
  unfold phys_all in H. cbn [fold_left] in H. apply (IH (phys_after p i)) in H. destruct H as [H|H].
  - destruct i as [[k|k]|]; cbn [phys_after] in H.
    + apply In_apply_ev_press in H. destruct H as [H|H]; [left; exact H | right; left; symmetry; exact H].
    + apply In_apply_ev_release in H. left. tauto.
    + destruct H.
  - right. unfold input_keys. cbn [flat_map]. apply in_or_app. right. exact H.
Qed.

(* every key the mapper ever puts in an output event is a key of an input event or an output key of the layout *)
Lemma output_keys L : wf_layout L -> forall h ev,
  In ev (out_all is_action L h) -> In (ev_key ev) (input_keys h) \/ lay_out L (ev_key ev).
Proof.
  intros Hwf. induction h as [|i h IH] using rev_ind; intros ev Hin; [destruct Hin|].
  rewrite out_all_snoc in Hin. apply in_app_or in Hin. destruct Hin as [Hin|Hin].
  { destruct (IH ev Hin) as [H|H]; [left|right; exact H].
    unfold input_keys. rewrite flat_map_app. apply in_or_app. left. exact H. }
  destruct (run_facts is_action L h Hwf) as [I [Ttr _]].
  set (s := state_of is_action L h) in *.
  pose proof (mstep_inv is_action L s i Hwf I) as R. cbn zeta in R. destruct R as [_ [Tstep _]].
  (* presses of this step *)
  assert (Hpress : forall x, In (Pressed x) (fst (fst (mstep is_action L s i))) ->
            In x (input_keys (h ++ [i])) \/ lay_out L x).
  { intros x Hx. destruct i as [[k|k]|].
    - cbn [mstep] in Hx.
      destruct (mem k (inp s)) eqn:Hk.
      + rewrite (step_ignored is_action L s (Pressed k) Hk) in Hx. destruct Hx.
      + assert (Hx' : In (Pressed x) (fst (fst (step is_action L s (Pressed k))))).
        { destruct (step is_action L s (Pressed k)) as [[a b] c]. exact Hx. }
        pose proof (press_event_class is_action L s k (Pressed x) I Hk Hx') as C. cbn in C.
        destruct C as [C|C]; [left | right; exact C].
        unfold input_keys. rewrite flat_map_app. apply in_or_app. right. cbn. left. symmetry. exact C.
    - pose proof (release_never_presses is_action L s (IEv (Released k))) as Hrel. cbn beta iota in Hrel.
      destruct (all_released_In _ _ Hrel Hx) as [y Ey]. discriminate.
    - pose proof (release_never_presses is_action L s IReleaseAll) as Hrel. cbn beta iota in Hrel.
      destruct (all_released_In _ _ Hrel Hx) as [y Ey]. discriminate. }
  destruct ev as [x|x]; cbn [ev_key]; [apply Hpress; exact Hin|].
  destruct (released_origin _ _ x (proj1 Tstep) Hin) as [Hheld|Hp]; [|apply Hpress; exact Hp].
  (* x was held before the step: physically held or an output key of the layout *)
  assert (Hh : In x (held_all is_action L h)) by (apply (held_all_seteq is_action L h Hwf); exact Hheld).
  pose proof (held_justified is_action L h x Hwf Hh) as J. unfold justified in J. apply orb_true_iff in J.
  destruct J as [J|J].
  - left. apply mem_In in J. apply phys_sub_inputs in J. destruct J as [[]|J].
    unfold input_keys. rewrite flat_map_app. apply in_or_app. left. exact J.
  - right. apply existsb_exists in J. destruct J as [m [Hm Hb]]. apply andb_true_iff in Hb.
    exists m. split; [exact Hm | apply mem_In; tauto].
Qed.

(* ---- the capstone *)
Theorem loaded_layout_outputs_are_encodable :
  forall (j : json) (L : layout) (h : list input),
    load j = Ok L ->
    (forall k, In k (input_keys h) -> known_key k = true) ->
    forall batch, In batch (fst (mrun is_action L init h)) ->
      known_batch batch = true
      /\ fits_u16 batch = true
      /\ decode_stream (encode_batch batch) = batch.
Proof.
  intros j L h Hload Hin batch Hb.
  assert (Hwfb : wf_basic L = true) by (eapply loaded_is_wf_basic; exact Hload).
  assert (Hok : for_layout_ok L = true) by (eapply accepted_is_wf; exact Hload).
  assert (Hwf : wf_layout L) by (apply for_layout_ok_wf; exact Hok).
  assert (Hk : known_batch batch = true).
  { unfold known_batch. apply forallb_forall. intros ev Hev.
    assert (Hout : In ev (out_all is_action L h)).
    { unfold out_all. apply in_concat. exists batch. split; assumption. }
    change (spec_key ev) with (ev_key ev).
    apply known_key_code.
    destruct (output_keys L Hwf h ev Hout) as [H|[m [Hm Hx]]]; [apply Hin; exact H|].
    unfold wf_basic in Hwfb. rewrite forallb_forall in Hwfb. specialize (Hwfb m Hm).
    unfold wf_basic_mapping in Hwfb. rewrite !andb_true_iff in Hwfb.
    destruct Hwfb as [[[[[[[_ _] _] _] Hto] _] _] _]. rewrite forallb_forall in Hto. apply Hto. exact Hx. }
  split; [exact Hk|]. split; [apply known_batch_fits; exact Hk|].
  apply (proj1 (roundtrip_full batch Hk)).
Qed.

End S.
