(* ExpandLemmas.v — Convert.convert = ConvertSpec.expand for every fancy layout:
   the two passes of `convert` (push every converted mapping and record its
   FromSet in from_table; then adjust_repeats for the repeat-only entries) and
   the final duplicate-key rejection, against the specification. *)
From TM Require Import Base Json RustOps Fancy Mapper Parser Convert SpecTables ConvertSpec
  RustOpsLemmas StrLemmas ParserLemmas OdometerLemmas LoaderTables SortLemmas ConvertLemmas.
From Coq Require Import Lia Arith.

(* ---------- generic loop shapes ---------- *)

Lemma fold_res_pure_step : forall {A B St} (g : A -> res B) (h : St -> B -> St) l s,
  fold_res (fun acc x => y <- g x ;; Ok (h acc y)) l s = (ys <- map_res g l ;; Ok (fold_left h ys s)).
Proof.
  induction l as [|x l IH]; intro s; cbn [fold_res map_res bind fold_left]; [reflexivity|].
  rewrite !bind_assoc. apply bind_ext. intros y _. cbn [bind]. rewrite IH. rewrite !bind_assoc.
  apply bind_ext. intros ys _. reflexivity.
Qed.

(* the same with a loop invariant under which the step is "compute y, then a pure update" *)
Lemma fold_res_pure_step_inv : forall {A B St} (I : St -> Prop) (step : St -> A -> res St) (g : A -> res B) (h : St -> B -> St) l s,
  (forall acc x, I acc -> step acc x = (y <- g x ;; Ok (h acc y))) ->
  (forall acc y, I acc -> I (h acc y)) -> I s ->
  fold_res step l s = (ys <- map_res g l ;; Ok (fold_left h ys s)).
Proof.
  intros A B St I step g h l s Hstep Hinv. revert s. induction l as [|x l IH]; intros s Hs; cbn [fold_res map_res bind fold_left]; [reflexivity|].
  rewrite (Hstep s x Hs). rewrite !bind_assoc. apply bind_ext. intros y _. cbn [bind]. rewrite IH by (apply Hinv; exact Hs).
  rewrite !bind_assoc. apply bind_ext. intros ys _. reflexivity.
Qed.

Lemma fold_left_inv : forall {B St} (I : St -> Prop) (h : St -> B -> St) l s,
  (forall acc y, I acc -> I (h acc y)) -> I s -> I (fold_left h l s).
Proof. induction l as [|y l IH]; intros s Hh Hs; cbn [fold_left]; [exact Hs|]. apply IH; [exact Hh|apply Hh; exact Hs]. Qed.

Lemma fold_left_concat : forall {B St} (h : St -> B -> St) (yss : list (list B)) s,
  fold_left (fun acc ys => fold_left h ys acc) yss s = fold_left h (concat yss) s.
Proof.
  induction yss as [|ys yss IH]; intro s; cbn [fold_left concat]; [reflexivity|].
  rewrite fold_left_app. apply IH.
Qed.

Lemma nth_error_ext : forall {A} (a b : list A), (forall j, nth_error a j = nth_error b j) -> a = b.
Proof.
  induction a as [|x a IH]; intros b H.
  - destruct b as [|y b]; [reflexivity|]. specialize (H 0%nat). discriminate.
  - destruct b as [|y b]; [specialize (H 0%nat); discriminate|].
    pose proof (H 0%nat) as H0. cbn in H0. inversion H0; subst. f_equal. apply IH. intro j. apply (H (S j)).
Qed.

(* ---------- from_table ---------- *)

Definition ftget0 (ft : from_table) (x : list key) : list nat :=
  match ft_get ft x with Some l => l | None => [] end.

Lemma ft_get_ft_add : forall ft fs i x,
  ft_get (ft_add ft fs i) x = if keys_eqb fs x then Some (ftget0 ft x ++ [i]) else ft_get ft x.
Proof.
  unfold ftget0. induction ft as [|[k v] ft IH]; intros fs i x; cbn [ft_add ft_get].
  - destruct (keys_eqb fs x); reflexivity.
  - destruct (keys_eqb k fs) eqn:E; cbn [ft_get].
    + apply keys_eqb_eq in E. subst k. destruct (keys_eqb fs x); reflexivity.
    + rewrite IH. destruct (keys_eqb fs x) eqn:E2; [|reflexivity].
      apply keys_eqb_eq in E2. subst x. rewrite E. reflexivity.
Qed.

(* the indices of the mappings whose trigger has FromSet x, in increasing order *)
Definition matches (res : list mapping) (x : list key) (i : nat) : bool :=
  match nth_error res i with Some m => keys_eqb (fset (m_from m)) x | None => false end.

Definition matching (res : list mapping) (x : list key) : list nat :=
  filter (matches res x) (seq 0 (length res)).

Lemma matching_snoc : forall res sm x,
  matching (res ++ [sm]) x = matching res x ++ (if keys_eqb (fset (m_from sm)) x then [length res] else []).
Proof.
  intros res sm x. unfold matching. rewrite app_length. cbn [length]. rewrite Nat.add_1_r, seq_S, filter_app.
  cbn [plus filter]. f_equal.
  - apply filter_ext_in. intros i Hi. apply in_seq in Hi. unfold matches. rewrite nth_error_app1 by lia. reflexivity.
  - unfold matches. rewrite nth_error_app2 by lia. rewrite Nat.sub_diag. cbn [nth_error].
    destruct (keys_eqb (fset (m_from sm)) x); reflexivity.
Qed.

Lemma In_matching : forall res x i,
  In i (matching res x) <-> exists m, nth_error res i = Some m /\ keys_eqb (fset (m_from m)) x = true.
Proof.
  intros res x i. unfold matching. rewrite filter_In, in_seq. unfold matches. split.
  - intros [_ H]. destruct (nth_error res i) as [m|]; [|discriminate]. exists m. split; [reflexivity|exact H].
  - intros [m [H1 H2]]. rewrite H1. split; [|exact H2]. split; [lia|]. cbn. apply nth_error_Some. congruence.
Qed.

Definition ft_inv (ft : from_table) (res : list mapping) : Prop :=
  forall x, ft_get ft x = match matching res x with [] => None | is => Some is end.

Definition ft_push (acc : list mapping * from_table) (sm : mapping) : list mapping * from_table :=
  (fst acc ++ [sm], ft_add (snd acc) (fset (m_from sm)) (length (fst acc))).

Lemma push_converted_spec : forall acc sm, push_converted acc sm = Ok (ft_push acc sm).
Proof. intros acc sm. unfold push_converted. rewrite from_set_Ok. reflexivity. Qed.

Lemma ft_push_inv : forall acc sm, ft_inv (snd acc) (fst acc) -> ft_inv (snd (ft_push acc sm)) (fst (ft_push acc sm)).
Proof.
  intros [res ft] sm H x. cbn [fst snd ft_push] in *. rewrite ft_get_ft_add, matching_snoc.
  unfold ftget0. rewrite (H x). destruct (keys_eqb (fset (m_from sm)) x).
  - destruct (matching res x); reflexivity.
  - rewrite app_nil_r. reflexivity.
Qed.

Lemma ft_push_fold : forall sms acc, ft_inv (snd acc) (fst acc) ->
  fst (fold_left ft_push sms acc) = fst acc ++ sms /\ ft_inv (snd (fold_left ft_push sms acc)) (fst (fold_left ft_push sms acc)).
Proof.
  induction sms as [|sm sms IH]; intros acc H; cbn [fold_left].
  - rewrite app_nil_r. split; [reflexivity|exact H].
  - destruct (IH (ft_push acc sm) (ft_push_inv acc sm H)) as [H1 H2]. split; [|exact H2].
    rewrite H1. cbn [ft_push fst]. rewrite <- app_assoc. reflexivity.
Qed.

(* the first pass of convert *)
Lemma first_pass_spec : forall f,
  fold_res (fun acc fm => sms <- convert_mapping (find_alias_mappings f) fm ;; fold_res push_converted sms acc) f ([], [])
  = (per <- map_res (expand_mapping f) f ;; Ok (fold_left ft_push (concat per) ([], []))).
Proof.
  intro f.
  rewrite (fold_res_ext _ (fun acc fm => sms <- expand_mapping f fm ;; Ok (fold_left ft_push sms acc))).
  - rewrite fold_res_pure_step. apply bind_ext. intros per _. rewrite fold_left_concat. reflexivity.
  - intros acc fm _. rewrite convert_mapping_spec. apply bind_ext. intros sms _.
    rewrite (fold_res_ext _ (fun acc x => y <- Ok x ;; Ok (ft_push acc y))) by (intros; apply push_converted_spec).
    rewrite fold_res_pure_step. rewrite map_res_pure, map_id. reflexivity.
Qed.

(* ---------- adjust_repeats: overwriting the repeat of the listed indices ---------- *)

Lemma nth_error_set_nth : forall {A} (l : list A) i x j, (i < length l)%nat ->
  nth_error (set_nth l i x) j = if Nat.eqb j i then Some x else nth_error l j.
Proof.
  induction l as [|y l IH]; intros i x j Hi; [cbn in Hi; lia|].
  destruct i as [|i]; destruct j as [|j]; cbn [set_nth nth_error Nat.eqb]; try reflexivity.
  apply IH. cbn in Hi. lia.
Qed.

Definition upd_step (rep : Mapper.repeat) (acc : list mapping) (i : nat) : list mapping :=
  match nth_error acc i with Some sm => set_nth acc i (set_repeat sm rep) | None => acc end.

Lemma upd_step_length : forall rep acc i, length (upd_step rep acc i) = length acc.
Proof. intros. unfold upd_step. destruct (nth_error acc i); [apply set_nth_length|reflexivity]. Qed.

Lemma upd_fold_res : forall rep is acc, (forall i, In i is -> (i < length acc)%nat) ->
  fold_res (fun acc i => sm <- idx "adjust_repeats:res[*i]" acc i ;; Ok (set_nth acc i (set_repeat sm rep))) is acc
  = Ok (fold_left (upd_step rep) is acc).
Proof.
  induction is as [|i is IH]; intros acc H; cbn [fold_res fold_left]; [reflexivity|].
  destruct (idx_lt "adjust_repeats:res[*i]" acc i (H i (or_introl eq_refl))) as [sm [E1 E2]].
  rewrite E1. cbn [bind]. unfold upd_step at 2. rewrite E2. apply IH.
  intros j Hj. rewrite set_nth_length. apply H. right. exact Hj.
Qed.

Lemma set_repeat_idem : forall m r, set_repeat (set_repeat m r) r = set_repeat m r.
Proof. reflexivity. Qed.

Lemma upd_nth_error : forall rep is acc j,
  nth_error (fold_left (upd_step rep) is acc) j
  = option_map (fun m => if existsb (Nat.eqb j) is then set_repeat m rep else m) (nth_error acc j).
Proof.
  induction is as [|i is IH]; intros acc j; cbn [fold_left existsb].
  - destruct (nth_error acc j); reflexivity.
  - rewrite IH. unfold upd_step. destruct (nth_error acc i) as [sm|] eqn:E.
    + rewrite nth_error_set_nth by (apply nth_error_Some; congruence).
      destruct (Nat.eqb j i) eqn:Eji; cbn [orb].
      * apply Nat.eqb_eq in Eji. subst j. rewrite E. cbn [option_map].
        destruct (existsb (Nat.eqb i) is); reflexivity.
      * reflexivity.
    + destruct (Nat.eqb j i) eqn:Eji; cbn [orb]; [|reflexivity].
      apply Nat.eqb_eq in Eji. subst j. rewrite E. reflexivity.
Qed.

(* ---------- one request of a repeat-only entry ---------- *)

(* the accumulator of the second pass: the base mappings with possibly changed
   repeats, followed by identity mappings whose triggers no base mapping has *)
Definition adj_inv (base acc : list mapping) : Prop :=
  (forall j b, nth_error base j = Some b -> exists m, nth_error acc j = Some m /\ m_from m = m_from b)
  /\ (forall j m, nth_error acc j = Some m -> (length base <= j)%nat ->
        existsb (fun b => same_trigger (m_from b) (m_from m)) base = false).

Lemma adj_inv_init : forall base, adj_inv base base.
Proof.
  intro base. split.
  - intros j b H. exists b. split; [exact H|reflexivity].
  - intros j m H Hj. assert (j < length base)%nat by (apply nth_error_Some; congruence). lia.
Qed.

Definition code_request (ft : from_table) (acc : list mapping) (e : list key * Mapper.repeat) : res (list mapping) :=
  fs <- from_set (fst e) ;;
  match ft_get ft fs with
  | Some is =>
    fold_res (fun acc i => sm <- idx "adjust_repeats:res[*i]" acc i ;; Ok (set_nth acc i (set_repeat sm (snd e)))) is acc
  | None => Ok (acc ++ [mkMapping (fst e) (fst e) (snd e) []])
  end.

Lemma existsb_base_matching : forall base trigger,
  existsb (fun m => same_trigger (m_from m) trigger) base = true <-> matching base (fset trigger) <> [].
Proof.
  intros base trigger. split.
  - intro H. apply existsb_exists in H. destruct H as [m [Hin Hm]].
    apply In_nth_error in Hin. destruct Hin as [i Hi].
    assert (In i (matching base (fset trigger))) as Hi2.
    { apply In_matching. exists m. split; [exact Hi|]. rewrite fset_same_trigger. exact Hm. }
    intro E. rewrite E in Hi2. destruct Hi2.
  - intro H. destruct (matching base (fset trigger)) as [|i is] eqn:E; [contradiction|].
    assert (In i (matching base (fset trigger))) as Hi by (rewrite E; left; reflexivity).
    apply In_matching in Hi. destruct Hi as [m [H1 H2]]. apply existsb_exists. exists m.
    split; [eapply nth_error_In; exact H1|]. rewrite <- fset_same_trigger. exact H2.
Qed.

Lemma code_request_spec : forall ft base acc e, ft_inv ft base -> adj_inv base acc ->
  code_request ft acc e = Ok (apply_repeat_only base acc e) /\ adj_inv base (apply_repeat_only base acc e).
Proof.
  intros ft base acc [trigger rep] Hft [Hb Hx]. unfold code_request, apply_repeat_only. cbn [fst snd].
  rewrite from_set_Ok. cbn [bind]. rewrite (Hft (fset trigger)).
  pose proof (existsb_base_matching base trigger) as Hex.
  destruct (matching base (fset trigger)) as [|i0 is0] eqn:Em.
  - (* no base mapping has this trigger: push an identity mapping *)
    assert (existsb (fun m => same_trigger (m_from m) trigger) base = false) as E.
    { destruct (existsb (fun m => same_trigger (m_from m) trigger) base); [|reflexivity].
      exfalso. apply (proj1 Hex); reflexivity. }
    rewrite E. split; [reflexivity|]. split.
    + intros j b Hj. destruct (Hb j b Hj) as [m [H1 H2]]. exists m. split; [|exact H2].
      rewrite nth_error_app1 by (apply nth_error_Some; congruence). exact H1.
    + intros j m Hj Hlen. destruct (Nat.lt_ge_cases j (length acc)) as [Hlt|Hge].
      * rewrite nth_error_app1 in Hj by exact Hlt. eapply Hx; eauto.
      * rewrite nth_error_app2 in Hj by exact Hge. destruct (j - length acc)%nat as [|n]; cbn in Hj.
        -- inversion Hj; subst. cbn [m_from]. exact E.
        -- destruct n; discriminate.
  - (* some base mappings have it: overwrite their repeat *)
    assert (existsb (fun m => same_trigger (m_from m) trigger) base = true) as E.
    { apply (proj2 Hex). discriminate. }
    rewrite E. rewrite <- Em.
    assert (forall i, In i (matching base (fset trigger)) -> (i < length base)%nat) as Hrange.
    { intros i Hi. apply In_matching in Hi. destruct Hi as [m [H1 _]]. apply nth_error_Some. congruence. }
    assert (length base <= length acc)%nat as Hlen.
    { destruct (Nat.le_gt_cases (length base) (length acc)) as [H|H]; [exact H|].
      destruct (nth_error base (length acc)) as [b|] eqn:Eb; [|apply nth_error_None in Eb; lia].
      destruct (Hb _ _ Eb) as [m [H1 _]]. assert (length acc < length acc)%nat by (apply nth_error_Some; congruence). lia. }
    rewrite upd_fold_res by (intros i Hi; specialize (Hrange i Hi); lia).
    assert (fold_left (upd_step rep) (matching base (fset trigger)) acc
            = map (fun m => if same_trigger (m_from m) trigger then set_repeat_of m rep else m) acc) as Eq.
    { apply nth_error_ext. intro j. rewrite upd_nth_error, nth_error_map.
      destruct (nth_error acc j) as [m|] eqn:Ej; cbn [option_map]; [|reflexivity]. f_equal.
      destruct (Nat.lt_ge_cases j (length base)) as [Hlt|Hge].
      - destruct (nth_error base j) as [b|] eqn:Eb; [|apply nth_error_None in Eb; lia].
        destruct (Hb j b Eb) as [m' [H1 H2]]. rewrite Ej in H1. inversion H1; subst m'. rewrite H2.
        destruct (same_trigger (m_from b) trigger) eqn:Est.
        + replace (existsb (Nat.eqb j) (matching base (fset trigger))) with true; [reflexivity|].
          symmetry. apply existsb_exists. exists j. split; [|apply Nat.eqb_refl].
          apply In_matching. exists b. split; [exact Eb|]. rewrite fset_same_trigger. exact Est.
        + replace (existsb (Nat.eqb j) (matching base (fset trigger))) with false; [reflexivity|].
          symmetry. destruct (existsb (Nat.eqb j) (matching base (fset trigger))) eqn:Ee; [|reflexivity].
          apply existsb_exists in Ee. destruct Ee as [j' [Hj' Ejj]]. apply Nat.eqb_eq in Ejj. subst j'.
          apply In_matching in Hj'. destruct Hj' as [b' [H3 H4]]. rewrite Eb in H3. inversion H3; subst b'.
          rewrite fset_same_trigger in H4. congruence.
      - replace (existsb (Nat.eqb j) (matching base (fset trigger))) with false.
        + destruct (same_trigger (m_from m) trigger) eqn:Est; [|reflexivity]. exfalso.
          pose proof (Hx j m Ej Hge) as Hno.
          apply existsb_exists in E. destruct E as [b0 [Hin0 Hb0]].
          assert (existsb (fun b => same_trigger (m_from b) (m_from m)) base = true) as Hyes.
          { apply existsb_exists. exists b0. split; [exact Hin0|].
            eapply same_trigger_trans; [exact Hb0|]. rewrite same_trigger_sym. exact Est. }
          congruence.
        + symmetry. destruct (existsb (Nat.eqb j) (matching base (fset trigger))) eqn:Ee; [|reflexivity].
          apply existsb_exists in Ee. destruct Ee as [j' [Hj' Ejj]]. apply Nat.eqb_eq in Ejj. subst j'.
          specialize (Hrange j Hj'). lia. }
    rewrite Eq. split; [reflexivity|]. split.
    + intros j b Hj. destruct (Hb j b Hj) as [m [H1 H2]]. rewrite nth_error_map, H1. cbn [option_map].
      eexists. split; [reflexivity|]. destruct (same_trigger (m_from m) trigger); exact H2.
    + intros j m Hj Hge. rewrite nth_error_map in Hj. destruct (nth_error acc j) as [m0|] eqn:Ej; [|discriminate].
      cbn [option_map] in Hj. inversion Hj; subst m.
      assert (m_from (if same_trigger (m_from m0) trigger then set_repeat_of m0 rep else m0) = m_from m0) as Ef
        by (destruct (same_trigger (m_from m0) trigger); reflexivity).
      rewrite Ef. eapply Hx; eauto.
Qed.

(* ---------- adjust_repeats and the second pass ---------- *)

Lemma adjust_repeats_spec : forall f ft base acc fm, ft_inv ft base -> adj_inv base acc ->
  adjust_repeats acc ft (find_alias_mappings f) fm
  = (reqs <- repeat_requests f fm ;; Ok (fold_left (apply_repeat_only base) reqs acc)).
Proof.
  intros f ft base acc fm Hft Hacc.
  destruct fm as [from to rep ab|a|from to rep ab|from rep]; try reflexivity.
  cbn [adjust_repeats repeat_requests].
  rewrite build_combinations_spec, candidates_lookup. rewrite !bind_assoc. apply bind_ext. intros found Hfound.
  cbn [bind].
  destruct (lookup_defs_nonempty _ _ _ (find_alias_mappings_ok f) Hfound) as [Hlen Hpos].
  set (c := mkCombos (sf_mods from) (map (@length _) found) found (bc_mp (alias_slots (sf_mods from)) 0 [])).
  rewrite for_combinations_spec by exact Hpos.
  pose proof (combos_of_found (sf_mods from) found Hlen) as Hrel. cbv zeta in Hrel. fold c in Hrel.
  set (slots := alias_slots (sf_mods from)).
  set (g := fun choice : list alias_mapping =>
              rep' <- spec_single_repeat slots choice rep ;;
              Ok (subst_trigger (sf_mods from) choice ++ [sf_key from], rep')).
  revert acc Hacc. induction Hrel as [|t ch ts chs [Hsel [Hl Hm]] Hrel IH]; intros acc Hacc; cbn [fold_res map_res]; [reflexivity|].
  rewrite (from_modifiers_spec c t ch Hsel Hl). cbn [bind].
  rewrite (convert_single_repeat_spec c t ch Hsel Hl Hm). cbn [c_mods c]. fold slots. unfold g at 1.
  rewrite !bind_assoc. apply bind_ext. intros rep' _. cbn [bind].
  pose proof (code_request_spec ft base acc (subst_trigger (sf_mods from) ch ++ [sf_key from], rep') Hft Hacc) as [H1 H2].
  unfold code_request in H1. cbn [fst snd] in H1. rewrite H1. cbn [bind].
  rewrite (IH _ H2). rewrite !bind_assoc. apply bind_ext. intros reqs _. reflexivity.
Qed.

Lemma adj_inv_requests : forall base reqs acc, adj_inv base acc -> adj_inv base (fold_left (apply_repeat_only base) reqs acc).
Proof.
  intros base reqs acc H. apply (fold_left_inv (adj_inv base)); [|exact H].
  intros a e Ha.
  (* any from-table with the invariant will do; the one built by ft_push has it *)
  destruct (ft_push_fold base ([], []) (fun x => eq_refl)) as [Hf Hi]. cbn [fst app] in Hf. rewrite Hf in Hi.
  exact (proj2 (code_request_spec _ base a e Hi Ha)).
Qed.

Lemma second_pass_spec : forall f ft base, ft_inv ft base ->
  fold_res (fun acc fm => adjust_repeats acc ft (find_alias_mappings f) fm) f base
  = (per_entry <- map_res (repeat_requests f) f ;; Ok (fold_left (apply_repeat_only base) (concat per_entry) base)).
Proof.
  intros f ft base Hft.
  rewrite (fold_res_pure_step_inv (adj_inv base) _ (repeat_requests f)
             (fun acc reqs => fold_left (apply_repeat_only base) reqs acc)).
  - apply bind_ext. intros per _. rewrite fold_left_concat. reflexivity.
  - intros acc fm Hacc. apply adjust_repeats_spec; assumption.
  - intros acc reqs Hacc. apply adj_inv_requests. exact Hacc.
  - apply adj_inv_init.
Qed.

(* ---------- convert_core ---------- *)

Lemma convert_core_spec : forall f, convert_core f = expand_core f.
Proof.
  intro f. unfold convert_core, expand_core. rewrite first_pass_spec. rewrite bind_assoc.
  apply bind_ext. intros per _. cbn [bind].
  destruct (ft_push_fold (concat per) ([], []) (fun x => eq_refl)) as [Hf Hi]. cbn [fst app] in Hf.
  rewrite Hf in *. apply second_pass_spec. exact Hi.
Qed.

(* ---------- has_duplicate_key, reject_duplicates ---------- *)

Lemma dup_inner : forall (pre : list key) (x : key) (t : list key),
  exists_res (fun j =>
      a <- idx "has_duplicate_key:keys[i]" (pre ++ x :: t) (length pre) ;;
      b <- idx "has_duplicate_key:keys[j]" (pre ++ x :: t) j ;;
      Ok (N.eqb a b)) (seq (length pre + 1) (length t))
  = Ok (mem x t).
Proof.
  intros pre x t.
  assert (forall (done todo : list key), t = done ++ todo ->
     exists_res (fun j =>
        a <- idx "has_duplicate_key:keys[i]" (pre ++ x :: t) (length pre) ;;
        b <- idx "has_duplicate_key:keys[j]" (pre ++ x :: t) j ;;
        Ok (N.eqb a b)) (seq (length pre + 1 + length done) (length todo)) = Ok (mem x todo)) as H.
  { intros done todo. revert done. induction todo as [|y todo IH]; intros done Ht; cbn [length seq exists_res]; [reflexivity|].
    unfold idx at 1. rewrite nth_error_app2 by lia. rewrite Nat.sub_diag. cbn [nth_error bind].
    unfold idx at 1. rewrite nth_error_app2 by lia.
    replace (length pre + 1 + length done - length pre)%nat with (S (length done)) by lia. cbn [nth_error].
    rewrite Ht. rewrite nth_error_app2 by lia. rewrite Nat.sub_diag. cbn [nth_error bind mem existsb].
    destruct (N.eqb x y); [reflexivity|]. cbn [orb]. rewrite <- Ht.
    specialize (IH (done ++ [y])). rewrite app_length in IH. cbn [length] in IH.
    replace (S (length pre + 1 + length done)) with (length pre + 1 + (length done + 1))%nat by lia.
    apply IH. rewrite <- app_assoc. exact Ht. }
  specialize (H [] t eq_refl). cbn [length] in H. rewrite Nat.add_0_r in H. exact H.
Qed.

Lemma dup_inner_keys : forall (keys pre : list key) (x : key) (t : list key), keys = pre ++ x :: t ->
  exists_res (fun j =>
      a <- idx "has_duplicate_key:keys[i]" keys (length pre) ;;
      b <- idx "has_duplicate_key:keys[j]" keys j ;;
      Ok (N.eqb a b)) (seq (length pre + 1) (length t))
  = Ok (mem x t).
Proof. intros keys pre x t H. subst keys. apply dup_inner. Qed.

Lemma has_duplicate_key_spec : forall keys, has_duplicate_key keys = Ok (negb (nodupb keys)).
Proof.
  intro keys. unfold has_duplicate_key.
  assert (forall pre l, keys = pre ++ l ->
     exists_res (fun i =>
        exists_res (fun j =>
          a <- idx "has_duplicate_key:keys[i]" keys i ;;
          b <- idx "has_duplicate_key:keys[j]" keys j ;;
          Ok (N.eqb a b)) (seq (i + 1) (length keys - (i + 1)))) (seq (length pre) (length l))
     = Ok (negb (nodupb l))) as H.
  { intros pre l. revert pre. induction l as [|x l IH]; intros pre Hk; cbn [length seq exists_res]; [reflexivity|].
    replace (length keys - (length pre + 1))%nat with (length l) by (rewrite Hk, app_length; cbn [length]; lia).
    rewrite (dup_inner_keys keys pre x l Hk). cbn [bind nodupb].
    destruct (mem x l); [reflexivity|]. cbn [negb andb].
    specialize (IH (pre ++ [x])). rewrite app_length in IH. cbn [length] in IH. rewrite Nat.add_1_r in IH.
    apply IH. rewrite <- app_assoc. exact Hk. }
  exact (H [] keys eq_refl).
Qed.

Lemma reject_duplicates_spec : forall res2,
  reject_duplicates res2 = if existsb repeats_a_key res2 then Err else Ok res2.
Proof.
  intro res2. unfold reject_duplicates.
  assert (forall l, exists_res (fun sm => d <- has_duplicate_key (m_from sm) ;;
                                          if d then Ok true else has_duplicate_key (m_to sm)) l
                    = Ok (existsb repeats_a_key l)) as H.
  { induction l as [|m l IH]; cbn [exists_res existsb]; [reflexivity|].
    rewrite !has_duplicate_key_spec. cbn [bind]. unfold repeats_a_key at 1.
    destruct (nodupb (m_from m)); cbn [negb orb bind].
    - destruct (nodupb (m_to m)); cbn [negb orb]; [exact IH|reflexivity].
    - reflexivity. }
  rewrite H. reflexivity.
Qed.

(* ---------- the theorem ---------- *)

Theorem convert_refines_spec : forall f, convert f = expand f.
Proof.
  intro f. unfold convert, expand. rewrite convert_core_spec. apply bind_ext. intros r _.
  apply reject_duplicates_spec.
Qed.

(* ---------- the specification has no panic outcome, hence neither has the converter ---------- *)

Lemma np_candidates : forall f mods, np (candidates f mods).
Proof. intros. unfold candidates. apply np_map_res. intros a _. destruct (defs f a); [apply np_Err|apply np_Ok]. Qed.

Lemma np_spec_single_to : forall slots ch to, np (spec_single_to slots ch to).
Proof.
  intros. unfold spec_single_to. destruct (st_terminal to); [|apply np_Ok].
  apply np_bind; [apply np_subst_output|]. intros; apply np_Ok.
Qed.

Lemma np_spec_single_repeat : forall slots ch rep, np (spec_single_repeat slots ch rep).
Proof.
  intros slots ch [| |keys d i]; cbn [spec_single_repeat]; try apply np_Ok.
  apply np_bind; [apply np_spec_single_to|]. intros; apply np_Ok.
Qed.

Lemma np_expand_single : forall f from to rep ab, np (expand_single f from to rep ab).
Proof.
  intros. unfold expand_single. apply np_bind; [apply np_candidates|]. intros cands _.
  apply np_map_res. intros ch _.
  apply np_bind; [apply np_spec_single_to|]. intros to' _.
  apply np_bind; [apply np_spec_single_repeat|]. intros rep' _.
  apply np_bind; [apply np_subst_output|]. intros; apply np_Ok.
Qed.

Lemma np_row_choice : forall from to rep ab ch, np (row_choice from to rep ab ch).
Proof.
  intros. unfold row_choice. apply np_bind; [apply np_subst_output|]. intros to_mods _.
  assert (forall (rep_of : nat -> res Mapper.repeat), (forall n, np (rep_of n)) ->
    np (if (length (spec_row (rf_row from)) <? length (rt_letters to))%nat then Err
        else per_letter <- map_res (fun n =>
               to' <- type_letter (existsb (N.eqb KEY_RIGHTSHIFT) (subst_trigger (rf_mods from) ch)) to_mods (rt_letters to) n ;;
               match to', nth_error (spec_row (rf_row from)) n with
               | Some to'', Some pk =>
                 rep' <- rep_of n ;;
                 absorbing' <- subst_output (alias_slots (rf_mods from)) ch ab ;;
                 Ok [mkMapping (subst_trigger (rf_mods from) ch ++ [pk]) to'' rep' absorbing']
               | _, _ => Ok []
               end) (seq 0 (length (rt_letters to))) ;;
             Ok (concat per_letter))) as H.
  { intros rep_of Hr. destruct (_ <? _)%nat; [apply np_Err|].
    apply np_bind; [|intros; apply np_Ok]. apply np_map_res. intros n _.
    apply np_bind; [apply np_type_letter|]. intros [to''|] _; [|apply np_Ok].
    destruct (nth_error (spec_row (rf_row from)) n); [|apply np_Ok].
    apply np_bind; [apply Hr|]. intros rep' _. apply np_bind; [apply np_subst_output|]. intros; apply np_Ok. }
  destruct rep as [| |keys d i]; cbn [bind].
  - apply (H (fun _ => Ok RNormal)). intros; apply np_Ok.
  - apply (H (fun _ => Ok RDisabled)). intros; apply np_Ok.
  - destruct (length (rt_letters to) <? length (rt_letters keys))%nat; [apply np_Err|]. rewrite bind_assoc.
    apply np_bind; [apply np_subst_output|]. intros rmods _. cbn [bind].
    apply (H (fun n => r <- type_letter (existsb (N.eqb KEY_RIGHTSHIFT) (subst_trigger (rf_mods from) ch)) rmods (rt_letters keys) n ;;
                       Ok (match r with Some ks => RSpecial ks d i | None => RNormal end))).
    intro n. apply np_bind; [apply np_type_letter|]. intros; apply np_Ok.
Qed.

Lemma np_expand_row : forall f from to rep ab, np (expand_row f from to rep ab).
Proof.
  intros. rewrite expand_row_unfold. apply np_bind; [apply np_candidates|]. intros cands _.
  apply np_bind; [|intros; apply np_Ok]. apply np_map_res. intros ch _. apply np_row_choice.
Qed.

Lemma np_expand_mapping : forall f m, np (expand_mapping f m).
Proof.
  intros f [from to rep ab|a|from to rep ab|from rep]; cbn [expand_mapping];
    [apply np_expand_single|apply np_Ok|apply np_expand_row|apply np_Ok].
Qed.

Lemma np_repeat_requests : forall f m, np (repeat_requests f m).
Proof.
  intros f [from to rep ab|a|from to rep ab|from rep]; cbn [repeat_requests]; try apply np_Ok.
  apply np_bind; [apply np_candidates|]. intros cands _. apply np_map_res. intros ch _.
  apply np_bind; [apply np_spec_single_repeat|]. intros; apply np_Ok.
Qed.

Lemma np_expand_core : forall f, np (expand_core f).
Proof.
  intro f. unfold expand_core.
  apply np_bind; [apply np_map_res; intros; apply np_expand_mapping|]. intros per _.
  apply np_bind; [apply np_map_res; intros; apply np_repeat_requests|]. intros; apply np_Ok.
Qed.

Lemma np_expand : forall f, np (expand f).
Proof.
  intro f. unfold expand. apply np_bind; [apply np_expand_core|]. intros r _.
  destruct (existsb repeats_a_key r); [apply np_Err|apply np_Ok].
Qed.

(* every modelled panic site of the converter is unreachable, for EVERY fancy layout *)
Theorem convert_total : forall f, np (convert f).
Proof. intro f. rewrite convert_refines_spec. apply np_expand. Qed.

Theorem load_total : forall j, np (load j).
Proof.
  intro j. unfold load. apply np_bind; [apply ParserLemmas.parse_layout_total|]. intros f _. apply convert_total.
Qed.
