(* ListingSelection.v — proofs about the selection layer of the keyboard-selection
   model (property C16): --all-keyboards and --dev-file .. --only-if-keyboard. *)
From Coq Require Import List NArith Bool Lia Arith.
From TM Require Import Listing ListingLemmas.
Import ListNotations.
Open Scope N_scope.

Section Selection.
  Variable glob_match : bytes -> bytes -> bool.
  Variable sys_devnode : bytes -> io (option bytes).
  Variable canon : bytes -> option bytes.

  Notation excluded := (excluded glob_match).
  Notation resolve := (resolve sys_devnode).
  Notation listed := (listed sys_devnode).
  Notation spec_all := (spec_all glob_match sys_devnode).
  Notation selectable := (selectable glob_match sys_devnode).
  Notation selectable_node := (selectable_node glob_match sys_devnode).

  (* ---- the /sys lookups *)

  Definition found {A B} (sysfs_of : A -> bytes) (mk : A -> bytes -> B) (d : A) : list B :=
    if is_virtual (sysfs_of d) then []
    else match sys_devnode (sysfs_of d) with
         | IoOk (Some n) => [mk d n]
         | _ => []
         end.

  Lemma resolve_ok : forall A B (sysfs_of : A -> bytes) (mk : A -> bytes -> B) l,
    (forall d, In d l -> is_virtual (sysfs_of d) = false -> sys_devnode (sysfs_of d) <> IoErr) ->
    resolve sysfs_of mk l = IoOk (flat_map (found sysfs_of mk) l).
  Proof.
    intros A B sysfs_of mk. induction l as [|d r IH]; intro H; [reflexivity|].
    cbn [Listing.resolve flat_map]. unfold found at 1.
    assert (Hr : forall d0, In d0 r -> is_virtual (sysfs_of d0) = false -> sys_devnode (sysfs_of d0) <> IoErr).
    { intros d0 Hin. apply H. right. exact Hin. }
    specialize (IH Hr).
    destruct (is_virtual (sysfs_of d)) eqn:Ev; cbn [negb].
    - rewrite IH. reflexivity.
    - pose proof (H d (or_introl eq_refl) Ev) as Hd.
      destruct (sys_devnode (sysfs_of d)) as [[n|]|]; [| |contradiction].
      + rewrite IH. reflexivity.
      + rewrite IH. reflexivity.
  Qed.

  (* ---- --all-keyboards *)

  Lemma sel_all_list : forall ex ds,
    map (fun e : xkbd * bool => fst (fst e))
        (filter (fun e : xkbd * bool => negb (snd e))
                (flag_excluded glob_match
                   (flat_map (found (fun d : kdev => fst d) (fun d node => (node, snd d)))
                             (map forget (filter is_kbd ds))) ex))
    = spec_all ex ds.
  Proof.
    intros ex. unfold flag_excluded, Listing.spec_all.
    induction ds as [|d r IH]; [reflexivity|].
    destruct d as [[p n] k]. cbn [filter is_kbd snd flat_map].
    unfold Listing.selectable_node at 1. cbn [is_kbd fst snd].
    destruct k; cbn [andb map flat_map forget fst]; [|exact IH].
    unfold found at 1. cbn [fst snd].
    destruct (is_virtual p); cbn [negb andb app]; [exact IH|].
    destruct (sys_devnode p) as [[node|]|]; cbn [app map filter snd fst].
    - destruct (Listing.excluded glob_match ex n); cbn [negb map fst app]; rewrite IH; reflexivity.
    - destruct (Listing.excluded glob_match ex n); cbn [negb app]; exact IH.
    - destruct (Listing.excluded glob_match ex n); cbn [negb app]; exact IH.
  Qed.

  Theorem select_all_spec : forall t ex ds,
    extract_input_devices t = Ok ds ->
    lookups_ok sys_devnode true ds ->
    select_all_keyboards glob_match sys_devnode t ex = OOk (spec_all ex ds).
  Proof.
    intros t ex ds Hds Hok.
    unfold select_all_keyboards, list_keyboards.
    unfold extract_keyboards. rewrite (agree_text keyboard_like t).
    unfold extract_input_devices in Hds. rewrite Hds. unfold lift.
    rewrite resolve_ok.
    - cbn [omap]. rewrite sel_all_list. reflexivity.
    - intros d Hin Hv. apply in_map_iff in Hin. destruct Hin as [d0 [Hf Hin]].
      apply filter_In in Hin. destruct Hin as [Hin Hk]. subst d.
      unfold forget. apply (Hok d0 Hin); [intros _; exact Hk|exact Hv].
  Qed.

  Theorem spec_all_In : forall ex ds n,
    In n (spec_all ex ds) <-> exists d, In d ds /\ selectable ex d n.
  Proof.
    intros ex ds n. unfold Listing.spec_all. rewrite in_flat_map. split.
    - intros [d [Hin Hn]]. exists d. split; [exact Hin|].
      unfold Listing.selectable_node in Hn. unfold Listing.selectable.
      destruct (is_kbd d); cbn [andb] in Hn; [|contradiction].
      destruct (is_virtual (fst (fst d))); cbn [negb andb] in Hn; [contradiction|].
      destruct (Listing.excluded glob_match ex (snd (fst d))); cbn [negb] in Hn; [contradiction|].
      destruct (sys_devnode (fst (fst d))) as [[m|]|]; try contradiction.
      destruct Hn as [Hn|[]]. subst. repeat split; reflexivity.
    - intros [d [Hin [Hk [Hv [Hs He]]]]]. exists d. split; [exact Hin|].
      unfold Listing.selectable_node. rewrite Hk, Hv, He, Hs. left. reflexivity.
  Qed.

  (* ---- --dev-file *)

  Definition mkx (nd : bytes * idev) : xdev := (fst nd, snd (fst (snd nd)), snd (snd nd)).

  Lemma found_listed : forall ds,
    flat_map (found (fun d : idev => fst (fst d)) (fun d node => (node, snd (fst d), snd d))) ds
    = map mkx (listed ds).
  Proof.
    unfold Listing.listed. induction ds as [|d r IH]; [reflexivity|].
    cbn [flat_map]. rewrite map_app, IH. f_equal.
    unfold found. destruct (is_virtual (fst (fst d))); [reflexivity|].
    destruct (sys_devnode (fst (fst d))) as [[n|]|]; reflexivity.
  Qed.

  Lemma list_input_devices_ok : forall t ds,
    extract_input_devices t = Ok ds ->
    lookups_ok sys_devnode false ds ->
    list_input_devices sys_devnode t = OOk (map mkx (listed ds)).
  Proof.
    intros t ds Hds Hok. unfold list_input_devices. rewrite Hds. unfold lift.
    rewrite resolve_ok.
    - rewrite found_listed. reflexivity.
    - intros d Hin Hv. apply (Hok d Hin); [intro H; discriminate|exact Hv].
  Qed.

  Definition keys_of (L : list (bytes * idev)) : list bytes :=
    flat_map (fun nd => match canon (fst nd) with
                        | Some c => [c]
                        | None => []
                        end) L.

  Definition cs_of (ex : list bytes) (L : list (bytes * idev)) : cset :=
    build_cset canon (flag_excluded_input_devices glob_match (map mkx L) ex).

  Lemma cs_of_cons : forall ex nd L,
    cs_of ex (nd :: L) =
    match canon (fst nd) with
    | Some c => [(c, (mkx nd, excluded ex (snd (fst (snd nd)))))]
    | None => []
    end ++ cs_of ex L.
  Proof. intros ex nd L. reflexivity. Qed.

  Lemma cset_get_absent : forall ex c L, ~ In c (keys_of L) -> cset_get c (cs_of ex L) = None.
  Proof.
    intros ex c. induction L as [|nd L IH]; intro H; [reflexivity|].
    rewrite cs_of_cons. unfold keys_of in H. cbn [flat_map] in H. fold (keys_of L) in H.
    destruct (canon (fst nd)) as [c1|].
    - cbn [app cset_get]. rewrite IH.
      + destruct (beq_bytes c1 c) eqn:E; [|reflexivity].
        apply beq_bytes_eq in E. subst. exfalso. apply H. left. reflexivity.
      + intro Hin. apply H. right. exact Hin.
    - cbn [app]. apply IH. exact H.
  Qed.

  Lemma existsb_absent : forall (Q : bytes * idev -> bool) c L,
    ~ In c (keys_of L) -> existsb (fun nd => same_canon canon c (fst nd) && Q nd) L = false.
  Proof.
    intros Q c. induction L as [|nd L IH]; intro H; [reflexivity|].
    unfold keys_of in H. cbn [flat_map] in H. fold (keys_of L) in H.
    cbn [existsb]. unfold same_canon at 1.
    destruct (canon (fst nd)) as [c1|].
    - destruct (beq_bytes c1 c) eqn:E.
      + apply beq_bytes_eq in E. subst. exfalso. apply H. left. reflexivity.
      + cbn [andb orb]. apply IH. intro Hin. apply H. right. exact Hin.
    - cbn [andb orb]. apply IH. exact H.
  Qed.

  (* the HashMap lookup against the declarative reading, when no two listed
     devices share a canonical path *)
  Lemma cset_get_spec : forall ex c L,
    NoDup (keys_of L) ->
    match cset_get c (cs_of ex L) with
    | None => false
    | Some (d, excl) => if true && negb (snd d) then false else negb excl
    end =
    existsb (fun nd => same_canon canon c (fst nd)
                       && (is_kbd (snd nd) && negb (excluded ex (snd (fst (snd nd)))))) L.
  Proof.
    intros ex c. induction L as [|nd L IH]; intro Hnd; [reflexivity|].
    rewrite cs_of_cons. unfold keys_of in Hnd. cbn [flat_map] in Hnd. fold (keys_of L) in Hnd.
    cbn [existsb]. unfold same_canon at 1.
    destruct (canon (fst nd)) as [c1|].
    - cbn [app] in Hnd. inversion Hnd as [|x y Hnotin Hnd']; subst.
      cbn [app cset_get].
      destruct (beq_bytes c1 c) eqn:E.
      + apply beq_bytes_eq in E. subst c1.
        rewrite (cset_get_absent ex c L Hnotin).
        rewrite (existsb_absent _ c L Hnotin).
        unfold mkx, is_kbd. cbn [snd fst andb orb].
        destruct (snd (snd nd)); cbn [negb andb]; [|reflexivity].
        rewrite orb_false_r. reflexivity.
      + cbn [andb orb]. rewrite <- (IH Hnd').
        destruct (cset_get c (cs_of ex L)) as [[d excl]|]; reflexivity.
    - cbn [app andb orb]. apply IH. exact Hnd.
  Qed.

  Lemma existsb_ext' : forall A (f g : A -> bool) l, (forall x, f x = g x) -> existsb f l = existsb g l.
  Proof.
    intros A f g l H. induction l as [|x r IH]; [reflexivity|].
    cbn [existsb]. rewrite H, IH. reflexivity.
  Qed.

  Theorem filter_devices_spec : forall t ex ds devices,
    extract_input_devices t = Ok ds ->
    lookups_ok sys_devnode false ds ->
    canon_clean canon ->
    NoDup (canon_keys sys_devnode canon ds) ->
    filter_devices glob_match sys_devnode canon t devices true ex
    = OOk (spec_dev_file glob_match sys_devnode canon ex ds devices).
  Proof.
    intros t ex ds devices Hds Hok Hclean Hnd.
    unfold filter_devices. rewrite (list_input_devices_ok t ds Hds Hok). cbn [omap].
    f_equal. unfold spec_dev_file. apply filter_ext. intro s.
    unfold keep_dev. destruct (canon s) as [c|] eqn:Ec; [|reflexivity].
    rewrite (Hclean s c Ec).
    change (build_cset canon (flag_excluded_input_devices glob_match (map mkx (listed ds)) ex))
      with (cs_of ex (listed ds)).
    rewrite (cset_get_spec ex c (listed ds) Hnd).
    apply existsb_ext'. intro nd. rewrite andb_assoc. reflexivity.
  Qed.

  Lemma listed_In : forall ds n d,
    In (n, d) (listed ds) <->
    In d ds /\ is_virtual (fst (fst d)) = false /\ sys_devnode (fst (fst d)) = IoOk (Some n).
  Proof.
    intros ds n d. unfold Listing.listed. rewrite in_flat_map. split.
    - intros [d0 [Hin H]].
      destruct (is_virtual (fst (fst d0))) eqn:Ev; [contradiction|].
      destruct (sys_devnode (fst (fst d0))) as [[m|]|] eqn:Es; try contradiction.
      destruct H as [H|[]]. inversion H; subst. repeat split; assumption.
    - intros [Hin [Hv Hs]]. exists d. split; [exact Hin|]. rewrite Hv, Hs. left. reflexivity.
  Qed.

  (* a given path is selected by --dev-file .. --only-if-keyboard iff it names
     (up to canonicalisation) a device that --all-keyboards selects *)
  Theorem spec_dev_file_In : forall ex ds devices s,
    In s (spec_dev_file glob_match sys_devnode canon ex ds devices) <->
    In s devices /\ exists c n, canon s = Some c /\ canon n = Some c /\ In n (spec_all ex ds).
  Proof.
    intros ex ds devices s. unfold spec_dev_file. rewrite filter_In. split.
    - intros [Hin H]. split; [exact Hin|].
      destruct (canon s) as [c|]; [|discriminate].
      apply existsb_exists in H. destruct H as [[n d] [Hl H]]. cbn [fst snd] in H.
      apply andb_true_iff in H. destruct H as [H He].
      apply andb_true_iff in H. destruct H as [Hc Hk].
      unfold same_canon in Hc. destruct (canon n) as [c2|] eqn:Ecn; [|discriminate].
      apply beq_bytes_eq in Hc. subst c2.
      exists c, n. split; [reflexivity|]. split; [exact Ecn|].
      apply spec_all_In. exists d. apply listed_In in Hl. destruct Hl as [Hd [Hv Hs]].
      split; [exact Hd|]. unfold Listing.selectable. repeat split; try assumption.
      apply negb_true_iff in He. exact He.
    - intros [Hin [c [n [Hcs [Hcn Hsel]]]]]. split; [exact Hin|].
      rewrite Hcs. apply spec_all_In in Hsel. destruct Hsel as [d [Hd [Hk [Hv [Hs He]]]]].
      apply existsb_exists. exists (n, d). split.
      + apply listed_In. repeat split; assumption.
      + cbn [fst snd]. unfold same_canon. rewrite Hcn, beq_bytes_refl, Hk, He. reflexivity.
  Qed.

  (* the computable guards used by the checkers are the guards of the theorems *)
  Lemma nodup_bytes_NoDup : forall l, nodup_bytes l = true -> NoDup l.
  Proof.
    induction l as [|x r IH]; intro H; [constructor|].
    cbn [nodup_bytes] in H. apply andb_true_iff in H. destruct H as [Hx Hr].
    constructor; [|apply IH; exact Hr].
    intro Hin. apply negb_true_iff in Hx.
    assert (E : existsb (beq_bytes x) r = true).
    { apply existsb_exists. exists x. split; [exact Hin|apply beq_bytes_refl]. }
    rewrite E in Hx. discriminate.
  Qed.

  Lemma lookups_ok_b_sound : forall only ds, lookups_ok_b sys_devnode only ds = true -> lookups_ok sys_devnode only ds.
  Proof.
    intros only ds H d Hin Hk Hv. unfold lookups_ok_b in H.
    rewrite forallb_forall in H. specialize (H d Hin). rewrite Hv in H.
    destruct only.
    - rewrite (Hk eq_refl) in H. cbn [negb andb orb] in H.
      destruct (sys_devnode (fst (fst d))); [discriminate|discriminate H].
    - cbn [andb orb] in H. destruct (sys_devnode (fst (fst d))); [discriminate|discriminate H].
  Qed.

  (* the statements of Properties/C16.v *)
  Theorem selection_all : forall t ex ds,
    extract_input_devices t = Ok ds ->
    lookups_ok sys_devnode true ds ->
    select_all_keyboards glob_match sys_devnode t ex = OOk (spec_all ex ds)
    /\ forall n, In n (spec_all ex ds) <-> exists d, In d ds /\ selectable ex d n.
  Proof.
    intros t ex ds H1 H2. split; [exact (select_all_spec t ex ds H1 H2)|exact (spec_all_In ex ds)].
  Qed.

  Theorem selection_dev_file : forall t ex ds devices,
    extract_input_devices t = Ok ds ->
    lookups_ok sys_devnode false ds ->
    canon_clean canon ->
    NoDup (canon_keys sys_devnode canon ds) ->
    filter_devices glob_match sys_devnode canon t devices true ex
    = OOk (spec_dev_file glob_match sys_devnode canon ex ds devices)
    /\ forall s, In s (spec_dev_file glob_match sys_devnode canon ex ds devices) <->
                 In s devices /\
                 exists c n, canon s = Some c /\ canon n = Some c /\ In n (spec_all ex ds).
  Proof.
    intros t ex ds devices H1 H2 H3 H4.
    split; [exact (filter_devices_spec t ex ds devices H1 H2 H3 H4)|exact (spec_dev_file_In ex ds devices)].
  Qed.

  Theorem guards_sound : forall ds,
    (forall only, lookups_ok_b sys_devnode only ds = true -> lookups_ok sys_devnode only ds) /\
    (canon_distinct_b sys_devnode canon ds = true -> NoDup (canon_keys sys_devnode canon ds)).
  Proof.
    intro ds. split; [intro only; exact (lookups_ok_b_sound only ds)|exact (nodup_bytes_NoDup (canon_keys sys_devnode canon ds))].
  Qed.
End Selection.
