(* LoopTimer.v — the repeat timer (C11): how `working_repeat` evolves, which
   time-out is requested, the closed form of the tick schedule. *)
From TM Require Import Base ListFacts Mapper Monitors Trace TraceLemmas MapperInv MapperProps
                       Loop LoopEnv LoopMonitors LoopSpec LoopLemmas LoopStep LoopSends LoopTablet.
From Coq Require Import Lia.

Lemma instant_add_ms_val t ms r : instant_add_ms t ms = Some r -> r = (t + as_u64 ms * ns_per_ms)%Z.
Proof. unfold instant_add_ms. destruct (_ <? _)%Z; [|discriminate]. intros H. inversion H. reflexivity. Qed.

Lemma as_u64_nonneg x : (0 <= x)%Z -> as_u64 x = x.
Proof. intros H. unfold as_u64. destruct (x <? 0)%Z eqn:E; [apply Z.ltb_lt in E; lia | reflexivity]. Qed.

Section S.
Variable is_action : key -> bool.
Variable L : layout.

Notation resume := (Loop.resume is_action L).
Notation run_from := (Loop.run_from is_action L).
Notation run := (Loop.run is_action L).
Notation confs := (LoopSpec.confs is_action L).
Notation conf_at := (LoopSpec.conf_at is_action L).
Notation step := (Mapper.step is_action L).
Notation lgo := (LoopStep.lgo is_action L).
Notation wr_after := (LoopSpec.wr_after is_action L).

(* ---------- working_repeat changes only as wr_after says ---------- *)

Lemma adv_next_wr st p' st' : adv_next st p' st' -> l_wr st' = advanced (l_wr st).
Proof.
  unfold adv_next. destruct (l_wr st) as [|ks nw iv] eqn:E.
  - intros [_ ->]. rewrite E. reflexivity.
  - intros [nw' [Hn [_ ->]]]. cbn [l_wr set_wr advanced]. rewrite (instant_add_ms_val _ _ _ Hn). reflexivity.
Qed.

Lemma lgo_wr p st r p' st' : lgo p st r p' st' -> l_wr st' = wr_after (p, st, r).
Proof.
  intros H. destruct H; unfold LoopSpec.wr_after; cbn [c_point c_state c_resp fst snd l_wr set_wr set_restart set_mapper set_tablet];
    try reflexivity.
  - (* tick_idle *) rewrite H. reflexivity.
  - (* tick_tablet *) rewrite H, H0. reflexivity.
  - (* tick_quiet *) rewrite H, H0, H1. cbn [non_nil]. rewrite <- H. apply adv_next_wr with (p' := p'). exact H2.
  - (* tick_chord *) rewrite H, H0, H1. destruct evs; [contradiction | reflexivity].
  - (* chord_sent *) apply adv_next_wr with (p' := p'). exact H.
  - (* kbd_tablet *) rewrite H. reflexivity.
  - (* kbd_quiet *) rewrite H, H0. destruct rep; cbn [step_next] in H1; destruct H1 as [_ ->]; reflexivity.
  - (* kbd_out *) rewrite H, H0. destruct evs; [contradiction | reflexivity].
  - (* step_sent *) destruct rep; cbn [step_next] in H; destruct H as [_ ->]; reflexivity.
  - (* now_step *) rewrite (instant_add_ms_val _ _ _ H). reflexivity.
Qed.

Theorem timer_evolution rs k x y :
  conf_at rs k = Some x -> conf_at rs (S k) = Some y -> l_wr (c_state y) = wr_after x.
Proof.
  intros Hx Hy. pose proof (confs_next is_action L rs PRegister linit k x y Hx Hy) as E.
  apply resume_go in E. destruct x as [[p st] r]. exact (lgo_wr _ _ _ _ _ E).
Qed.

(* ---------- polls: a time-out is requested iff a repeat is pending ---------- *)

Definition wr_inv (p : point) (st : lstate) : Prop :=
  match p with
  | PPoll None => l_wr st = Idle
  | PPoll (Some _) | PNowPoll => exists ks nw iv, l_wr st = Repeating ks nw iv
  | PSendChord evs =>
    exists ks nw iv, l_wr st = Repeating ks nw iv /\ l_tablet st = false
                     /\ evs = chord_events (l_mapper st) ks /\ evs <> []
  | _ => True
  end.

Lemma top_point_wr_inv st p : top_point st p -> wr_inv p st.
Proof. intros [[H ->]|[ks [nw [iv [H ->]]]]]; cbn [wr_inv]; [exact H | exists ks, nw, iv; exact H]. Qed.

Lemma visit_point_wr_inv rest st p : visit_point rest st p -> wr_inv p st.
Proof.
  destruct rest as [|[|] rest]; cbn [visit_point]; [apply top_point_wr_inv | intros ->; exact I | intros ->; exact I].
Qed.

Lemma adv_next_wr_inv st p' st' : adv_next st p' st' -> wr_inv p' st'.
Proof.
  unfold adv_next. destruct (l_wr st) as [|ks nw iv].
  - intros [H ->]. apply top_point_wr_inv. exact H.
  - intros [nw' [_ [-> ->]]]. cbn [wr_inv l_wr set_wr]. exists ks, nw', iv. reflexivity.
Qed.

Lemma wr_inv_step p st r p' st' : wr_inv p st -> resume p st r = Go p' st' -> wr_inv p' st'.
Proof.
  intros _ E. apply resume_go in E. destruct E; try exact I.
  - apply top_point_wr_inv; assumption.
  - cbn [wr_inv]. exists ks, nw, iv. assumption.
  - assumption.
  - apply top_point_wr_inv; assumption.
  - reflexivity.
  - eapply adv_next_wr_inv; eassumption.
  - cbn [wr_inv]. exists ks, nw, iv. repeat split; try assumption. symmetry; assumption.
  - apply top_point_wr_inv. apply top_point_set_restart. assumption.
  - apply visit_point_wr_inv with (rest := ds). destruct ds as [|[|] ds]; cbn [visit_point] in *; assumption.
  - eapply adv_next_wr_inv; eassumption.
  - apply top_point_wr_inv; assumption.
  - eapply visit_point_wr_inv; eassumption.
  - destruct rep; cbn [step_next] in H1; destruct H1 as [-> _]; exact I.
  - destruct rep; cbn [step_next] in H; destruct H as [-> _]; exact I.
  - eapply visit_point_wr_inv; eassumption.
Qed.

Theorem wr_at rs k x : conf_at rs k = Some x -> wr_inv (c_point x) (c_state x).
Proof.
  intros Hx. exact (confs_ind is_action L wr_inv wr_inv_step rs PRegister linit I k x Hx).
Qed.

(* the time-out of a poll is None exactly when no repeat is pending *)
Theorem poll_timeout_iff_repeating rs k x to :
  conf_at rs k = Some x -> c_point x = PPoll to ->
  (to = None <-> l_wr (c_state x) = Idle).
Proof.
  intros Hx Hp. pose proof (wr_at rs k x Hx) as H. rewrite Hp in H. cbn [wr_inv] in H.
  destruct to as [t|].
  - destruct H as [ks [nw [iv H]]]. split; [discriminate | congruence].
  - split; [intros _; exact H | reflexivity].
Qed.

(* the time-out requested after the clock reading `now` *)
Theorem timeout_requested rs cs o k x now ks nw iv :
  run rs = (cs, o) -> conf_at rs k = Some x ->
  c_point x = PNowPoll -> c_resp x = RNow now -> l_wr (c_state x) = Repeating ks nw iv ->
  nth_error cs (S k) = Some (CPoll (Some (timeout_of nw now))).
Proof.
  intros Hrun Hx Hp Hr Hw. destruct x as [[p st] r]. cbn [c_point c_state c_resp fst snd] in *. subst p r.
  assert (E : resume PNowPoll st (RNow now) = Go (PPoll (Some (timeout_of nw now))) st).
  { cbn [Loop.resume]. rewrite Hw. reflexivity. }
  exact (next_call is_action L rs cs o k _ _ _ Hrun Hx E).
Qed.

(* a time-out while repeating outside tablet mode: the chord is sent at once
   (unless empty) *)
Theorem tick_sends_chord rs cs o k x to ks nw iv :
  run rs = (cs, o) -> conf_at rs k = Some x ->
  c_point x = PPoll to -> c_resp x = RPoll PTimedOut ->
  l_wr (c_state x) = Repeating ks nw iv -> l_tablet (c_state x) = false ->
  let chord := chord_events (l_mapper (c_state x)) ks in
  (chord <> [] -> nth_error cs (S k) = Some (CSend chord))
  /\ (chord = [] -> ~ is_send (nth_error cs (S k))).
Proof.
  intros Hrun Hx Hp Hr Hw Ht. destruct x as [[p st] r]. cbn [c_point c_state c_resp fst snd] in *. subst p r.
  cbn zeta. split.
  - intros Hne.
    assert (E : resume (PPoll to) st (RPoll PTimedOut) = Go (PSendChord (chord_events (l_mapper st) ks)) st).
    { cbn [Loop.resume]. rewrite Hw, Ht. destruct (chord_events (l_mapper st) ks); [contradiction | reflexivity]. }
    exact (next_call is_action L rs cs o k _ _ _ Hrun Hx E).
  - intros He [evs Hs].
    destruct (call_succ_conf is_action L rs PRegister linit k (CSend evs)) as [x' [p' [st' [H1 [H2 H3]]]]].
    { fold (run rs). rewrite Hrun. exact Hs. }
    unfold LoopSpec.conf_at in Hx. rewrite Hx in H1. inversion H1; subst x'.
    cbn [c_point c_state c_resp fst snd] in H2. cbn [Loop.resume] in H2. rewrite Hw, Ht, He in H2.
    apply advance_wakeup_inv in H2. destruct (adv_next_same _ _ _ H2) as [Hns _].
    unfold not_send in Hns. rewrite H3 in Hns. exact Hns.
Qed.

(* ---------- closed form: k time-outs in a row ---------- *)

Lemma tick_run : forall nows st ks nw iv,
  l_wr st = Repeating ks nw iv -> l_tablet st = false -> (0 <= iv)%Z ->
  (nw + Z.of_nat (length nows) * (iv * ns_per_ms) < instant_limit)%Z ->
  let chord := chord_events (l_mapper st) ks in
  run_from PNowPoll st (tick_script (non_nil chord) nows)
  = (tick_calls chord nw (iv * ns_per_ms) nows, Starved).
Proof.
  induction nows as [|now nows IH]; intros st ks nw iv Hw Ht Hiv Hlim; [reflexivity|].
  cbn zeta. cbn [tick_script tick_calls].
  assert (E1 : resume PNowPoll st (RNow now) = Go (PPoll (Some (timeout_of nw now))) st).
  { cbn [Loop.resume]. rewrite Hw. reflexivity. }
  rewrite (run_from_go _ _ _ _ _ _ _ _ E1). cbn [pending].
  assert (Hadd : instant_add_ms nw iv = Some (nw + iv * ns_per_ms)%Z).
  { unfold instant_add_ms. rewrite (as_u64_nonneg iv Hiv).
    assert (Hlt : (nw + iv * ns_per_ms <? instant_limit)%Z = true).
    { apply Z.ltb_lt. cbn [length] in Hlim. unfold ns_per_ms in *. lia. }
    rewrite Hlt. reflexivity. }
  set (st1 := set_wr st (Repeating ks (nw + iv * ns_per_ms)%Z iv)).
  assert (Hadv : advance_wakeup st = Go PNowPoll st1).
  { unfold advance_wakeup. rewrite Hw, Hadd. reflexivity. }
  assert (IH1 : run_from PNowPoll st1 (tick_script (non_nil (chord_events (l_mapper st) ks)) nows)
                = (tick_calls (chord_events (l_mapper st) ks) (nw + iv * ns_per_ms) (iv * ns_per_ms) nows, Starved)).
  { apply (IH st1 ks (nw + iv * ns_per_ms)%Z iv); [reflexivity | exact Ht | exact Hiv |].
    cbn [length] in Hlim. unfold ns_per_ms in *. lia. }
  destruct (chord_events (l_mapper st) ks) as [|ev evs] eqn:Ec.
  - assert (E2 : resume (PPoll (Some (timeout_of nw now))) st (RPoll PTimedOut) = Go PNowPoll st1).
    { cbn [Loop.resume]. rewrite Hw, Ht, Ec. exact Hadv. }
    cbn [non_nil app] in *. rewrite (run_from_go _ _ _ _ _ _ _ _ E2). rewrite IH1. reflexivity.
  - assert (E2 : resume (PPoll (Some (timeout_of nw now))) st (RPoll PTimedOut) = Go (PSendChord (ev :: evs)) st).
    { cbn [Loop.resume]. rewrite Hw, Ht, Ec. reflexivity. }
    assert (E3 : resume (PSendChord (ev :: evs)) st RUnit = Go PNowPoll st1).
    { cbn [Loop.resume]. exact Hadv. }
    cbn [non_nil app] in *. rewrite (run_from_go _ _ _ _ _ _ _ _ E2). cbn [fst snd].
    rewrite (run_from_go _ _ _ _ _ _ _ _ E3). rewrite IH1. reflexivity.
Qed.

(* from the clock reading t0 that arms the repeat (last device of the wake-up,
   which then reports Busy): the k-th time-out is requested against
   t0 + delay + (k-1)*interval, whatever the readings at the ticks *)
Theorem schedule_closed_form st ks d i t0 nows :
  l_tablet st = false -> (0 <= d)%Z -> (0 <= i)%Z ->
  (t0 + d * ns_per_ms + Z.of_nat (length nows) * (i * ns_per_ms) < instant_limit)%Z ->
  let chord := chord_events (l_mapper st) ks in
  run_from (PNowStep ks d i []) st (RNow t0 :: RKbd NBusy :: tick_script (non_nil chord) nows)
  = (CNow :: CNextKbd :: tick_calls chord (t0 + d * ns_per_ms) (i * ns_per_ms) nows, Starved).
Proof.
  intros Ht Hd Hi Hlim. cbn zeta.
  assert (Hadd : instant_add_ms t0 d = Some (t0 + d * ns_per_ms)%Z).
  { unfold instant_add_ms. rewrite (as_u64_nonneg d Hd).
    assert (Hlt : (t0 + d * ns_per_ms <? instant_limit)%Z = true).
    { apply Z.ltb_lt. unfold ns_per_ms in *. lia. }
    rewrite Hlt. reflexivity. }
  set (st1 := set_wr st (Repeating ks (t0 + d * ns_per_ms)%Z i)).
  assert (E1 : resume (PNowStep ks d i []) st (RNow t0) = Go (PKbd []) st1).
  { cbn [Loop.resume]. rewrite Hadd. reflexivity. }
  assert (E2 : resume (PKbd []) st1 (RKbd NBusy) = Go PNowPoll st1).
  { reflexivity. }
  rewrite (run_from_go _ _ _ _ _ _ _ _ E1). cbn [pending fst snd].
  rewrite (run_from_go _ _ _ _ _ _ _ _ E2). cbn [pending fst snd].
  pose proof (tick_run nows st1 ks (t0 + d * ns_per_ms)%Z i eq_refl Ht Hi Hlim) as R. cbn zeta in R.
  change (l_mapper st1) with (l_mapper st) in R. rewrite R. reflexivity.
Qed.

(* the wake-up times in tick_calls do not depend on the readings: the k-th one *)
Lemma tick_calls_nth : forall nows chord nw step k now,
  nth_error nows k = Some now ->
  In (CPoll (Some (timeout_of (nw + Z.of_nat k * step) now))) (tick_calls chord nw step nows).
Proof.
  induction nows as [|n nows IH]; intros chord nw step k now Hk; [destruct k; discriminate|].
  cbn [tick_calls]. destruct k as [|k].
  - cbn [nth_error] in Hk. inversion Hk; subst. right. left. f_equal. f_equal. f_equal. lia.
  - cbn [nth_error] in Hk. right. right. apply in_or_app. right.
    replace (nw + Z.of_nat (S k) * step)%Z with ((nw + step) + Z.of_nat k * step)%Z by lia.
    apply IH. exact Hk.
Qed.

End S.
