(* KeyNames.v — finite facts about the regenerated key table (C15), by
   vm_compute, and their consequences in quantified form. *)
From TM Require Import Base Json RustOps Fancy Mapper Parser Convert Serde SpecTables ConvertSpec LoaderCheck StrLemmas.
From TMGen Require Import KeyTable CharTable Rows Modifiers.
From Coq Require Import Lia.

(* ---------- key names (C15) ---------- *)

Definition ident_of (e : string * N * string) : string := fst (fst e).
Definition code_of (e : string * N * string) : N := snd (fst e).
Definition sname_of (e : string * N * string) : string := snd e.

(* a string of ASCII digits only (and not empty) *)
Definition is_digit_string (s : str) : bool :=
  match s with [] => false | _ => forallb (fun c => (48 <=? c)%N && (c <=? 57)%N) s end.

Definition res_key_is (r : res key) (k : key) : bool :=
  match r with Ok k' => N.eqb k' k | _ => false end.

Definition opt_str_is (o : option str) (s : str) : bool :=
  match o with Some s' => str_eqb s' s | None => false end.

Definition key_entry_ok (e : string * N * string) : bool :=
  res_key_is (parse_key_code (lit (sname_of e))) (code_of e)
  && res_key_is (parse_key_code (lit (ident_of e))) (code_of e)
  && opt_str_is (serde_name (code_of e)) (lit (sname_of e))
  && negb (starts_with_at (lit (ident_of e)))
  && negb (is_digit_string (lit (ident_of e))).

Lemma key_table_ok : forallb key_entry_ok key_table = true.
Proof. vm_compute. reflexivity. Qed.

Fixpoint nodup_str (l : list str) : bool :=
  match l with
  | [] => true
  | x :: t => negb (existsb (str_eqb x) t) && nodup_str t
  end.

Lemma nodup_str_NoDup : forall l, nodup_str l = true -> NoDup l.
Proof.
  induction l as [|x l IH]; cbn; intro H; [constructor|].
  apply andb_true_iff in H. destruct H as [H1 H2]. constructor; [|apply IH; exact H2].
  intro Hin. apply negb_true_iff in H1.
  assert (existsb (str_eqb x) l = true) as E.
  { apply existsb_exists. exists x. split; [exact Hin|apply str_eqb_refl]. }
  rewrite E in H1. discriminate.
Qed.

Lemma key_idents_nodup : nodup_str (map (fun e => lit (ident_of e)) key_table) = true.
Proof. vm_compute. reflexivity. Qed.

Lemma key_snames_nodup : nodup_str (map (fun e => lit (sname_of e)) key_table) = true.
Proof. vm_compute. reflexivity. Qed.

Lemma key_codes_nodup : nodupb (map code_of key_table) = true.
Proof. vm_compute. reflexivity. Qed.

Lemma res_key_is_eq : forall r k, res_key_is r k = true -> r = Ok k.
Proof. intros [k'| |s] k H; cbn in H; try discriminate. apply N.eqb_eq in H. subst. reflexivity. Qed.

Lemma opt_str_is_eq : forall o s, opt_str_is o s = true -> o = Some s.
Proof. intros [s'|] s H; cbn in H; try discriminate. apply str_eqb_eq in H. subst. reflexivity. Qed.

Lemma key_names_roundtrip :
  forall e, In e key_table ->
    parse_key_code (lit (sname_of e)) = Ok (code_of e)
    /\ parse_key_code (lit (ident_of e)) = Ok (code_of e)
    /\ serde_name (code_of e) = Some (lit (sname_of e))
    /\ starts_with_at (lit (ident_of e)) = false
    /\ is_digit_string (lit (ident_of e)) = false.
Proof.
  intros e Hin. pose proof key_table_ok as H. rewrite forallb_forall in H. specialize (H e Hin).
  unfold key_entry_ok in H. repeat (apply andb_true_iff in H; destruct H as [H ?]).
  repeat split.
  - apply res_key_is_eq; assumption.
  - apply res_key_is_eq; assumption.
  - apply opt_str_is_eq; assumption.
  - apply negb_true_iff; assumption.
  - apply negb_true_iff; assumption.
Qed.

(* a key known to the table is written by serde as a name that parses back *)
Lemma serde_name_in_table : forall tbl k s, serde_name_in tbl k = Some s ->
  exists e, In e tbl /\ code_of e = k /\ lit (sname_of e) = s.
Proof.
  induction tbl as [|[[i c] sn] tbl IH]; cbn; intros k s H; [discriminate|].
  destruct (N.eqb c k) eqn:E.
  - inversion H; subst. apply N.eqb_eq in E. exists (i, c, sn). repeat split; auto.
  - destruct (IH k s H) as [e [Hin [Hc Hs]]]. exists e. repeat split; auto.
Qed.

Lemma serde_name_parses : forall k s, serde_name k = Some s -> parse_key_code s = Ok k /\ starts_with_at s = false.
Proof.
  intros k s H. unfold serde_name in H. destruct (serde_name_in_table _ _ _ H) as [e [Hin [Hc Hs]]].
  destruct (key_names_roundtrip e Hin) as [H1 _]. subst. split; [exact H1|].
  unfold parse_key_code in H1. destruct (starts_with_at (lit (sname_of e))); [discriminate|reflexivity].
Qed.

(* every key the tables can put into a layout is a key code of the tool *)
Lemma table_keys_known :
  forallb (fun e => known_key (snd e)) char_table = true
  /\ forallb known_key spec_row_grave = true /\ forallb known_key spec_row_q = true
  /\ forallb known_key spec_row_a = true /\ forallb known_key spec_row_z = true
  /\ known_key LEFTSHIFT = true /\ known_key RIGHTSHIFT = true.
Proof. vm_compute. repeat split; reflexivity. Qed.
