(* MapperRefire.v — C06: which part of the mapper state can influence the
   future.  `absd` matters only through the absorbed keys that are still held
   on the input (`live`), `atrig` only while there is such a key, `rtrig` never.
   States that agree on that (`aeq`) are bisimilar; a state with nothing held on
   the input, and the state after release_all, are `aeq` to `init`. *)
From TM Require Import Base ListFacts Mapper Monitors Trace TraceLemmas MapperInv MapperProps MapperFire MapperChoice.
From Coq Require Import Lia.

Definition set_aux (s : state) (a : list key) (t r : option key) : state :=
  mkState (inp s) (act s) (pass s) (mout s) a t r.

Definition live (s : state) : list key := filter (fun x => mem x (inp s)) (absd s).

Definition aeq (s s' : state) : Prop :=
  inp s' = inp s /\ act s' = act s /\ pass s' = pass s /\ mout s' = mout s
  /\ live s' = live s /\ (live s = [] \/ atrig s' = atrig s).

Lemma aeq_refl s : aeq s s.
Proof. unfold aeq. repeat split; try reflexivity. right; reflexivity. Qed.

Lemma aeq_sym s s' : aeq s s' -> aeq s' s.
Proof.
  intros [A [B [C [D [E F]]]]]. unfold aeq. repeat split; try (symmetry; assumption).
  destruct F as [F|F]; [left; rewrite E; exact F | right; symmetry; exact F].
Qed.

Lemma aeq_trans a b c : aeq a b -> aeq b c -> aeq a c.
Proof.
  intros [A [B [C [D [E F]]]]] [A' [B' [C' [D' [E' F']]]]]. unfold aeq.
  repeat split; try (etransitivity; eassumption).
  destruct F as [F|F]; [left; exact F|]. destruct F' as [F'|F']; [left; rewrite <- E; exact F' | right; congruence].
Qed.

Lemma aeq_set_aux s s' : aeq s s' -> s' = set_aux s (absd s') (atrig s') (rtrig s').
Proof.
  intros [A [B [C [D _]]]]. destruct s, s'; cbn in *. subst. reflexivity.
Qed.

Lemma set_aux_id s : set_aux s (absd s) (atrig s) (rtrig s) = s.
Proof. destruct s; reflexivity. Qed.

Lemma filter_filter_imp {A} (p q : A -> bool) (l : list A) :
  (forall x, p x = true -> q x = true) -> filter p (filter q l) = filter p l.
Proof.
  intros H. induction l as [|x t IH]; cbn [filter]; [reflexivity|].
  destruct (q x) eqn:Q; cbn [filter].
  - rewrite IH. reflexivity.
  - destruct (p x) eqn:P; [apply H in P; congruence | exact IH].
Qed.

Lemma filter_len_le {A} (p : A -> bool) (l : list A) : (length (filter p l) <= length l)%nat.
Proof. induction l as [|x t IH]; cbn [filter length]; [lia|]. destruct (p x); cbn [length]; lia. Qed.

Lemma filter_ext_in' {A} (p q : A -> bool) (l : list A) :
  (forall x, In x l -> p x = q x) -> filter p l = filter q l.
Proof.
  induction l as [|x t IH]; intros H; cbn [filter]; [reflexivity|].
  rewrite (H x (or_introl eq_refl)), IH; [reflexivity|]. intros y Hy. apply H. right; exact Hy.
Qed.

Lemma filter_push_new (p : key -> bool) a x :
  filter p (push_new a x) = if p x then push_new (filter p a) x else filter p a.
Proof.
  unfold push_new. destruct (p x) eqn:P.
  - assert (E : mem x (filter p a) = mem x a).
    { destruct (mem x a) eqn:M.
      - apply mem_In. apply filter_In. split; [apply mem_In; exact M | exact P].
      - apply mem_false. intros H. apply filter_In in H. apply mem_false in M. tauto. }
    rewrite E. destruct (mem x a); [reflexivity|]. rewrite filter_app. cbn [filter]. rewrite P. reflexivity.
  - destruct (mem x a); [reflexivity|]. rewrite filter_app. cbn [filter]. rewrite P. apply app_nil_r.
Qed.

Lemma filter_fold_push_new (p : key -> bool) l : forall a,
  filter p (fold_left push_new l a) = fold_left push_new (filter p l) (filter p a).
Proof.
  induction l as [|x t IH]; intros a; cbn [fold_left filter]; [reflexivity|].
  rewrite IH, filter_push_new. destruct (p x); reflexivity.
Qed.

Section S.
Variable is_action : key -> bool.

(* ---------- the helpers that never look at absd / atrig / rtrig ---------- *)

Lemma ram_aux s a t r :
  release_action_mappings is_action (set_aux s a t r)
  = (fst (release_action_mappings is_action s), set_aux (snd (release_action_mappings is_action s)) a t r).
Proof. reflexivity. Qed.

Lemma raak_aux s a t r :
  release_all_action_keys is_action (set_aux s a t r)
  = (fst (release_all_action_keys is_action s), set_aux (snd (release_all_action_keys is_action s)) a t r).
Proof. reflexivity. Qed.

Lemma remove_mapping_aux s i k a t r :
  remove_mapping (set_aux s a t r) i k
  = (fst (remove_mapping s i k), set_aux (snd (remove_mapping s i k)) a t r).
Proof. reflexivity. Qed.

Lemma release_loop_aux k a t r : forall n s,
  release_loop n k (set_aux s a t r)
  = (fst (release_loop n k s), set_aux (snd (release_loop n k s)) a t r).
Proof.
  induction n as [|i IH]; intros s; cbn [release_loop]; [reflexivity|].
  change (act (set_aux s a t r)) with (act s).
  destruct (nth_error (act s) i) as [m|]; [|apply IH].
  destruct (fails_when_released (m_from m) k); [|apply IH].
  rewrite remove_mapping_aux. destruct (remove_mapping s i k) as [e1 s1]. cbn [fst snd].
  rewrite IH. destruct (release_loop i k s1) as [e2 s2]. reflexivity.
Qed.

Lemma release_pass_aux k s a t r :
  release_pass k (set_aux s a t r)
  = (fst (release_pass k s), set_aux (snd (release_pass k s)) a t r).
Proof.
  unfold release_pass. change (pass (set_aux s a t r)) with (pass s).
  destruct (mem k (pass s)); reflexivity.
Qed.

Lemma release_core_aux k s a t r :
  release_core k (set_aux s a t r)
  = (fst (release_core k s), set_aux (snd (release_core k s)) a t r).
Proof.
  unfold release_core. change (act (set_aux s a t r)) with (act s).
  rewrite release_loop_aux. destruct (release_loop (length (act s)) k s) as [e1 s1]. cbn [fst snd].
  rewrite release_pass_aux. destruct (release_pass k s1) as [e2 s2]. reflexivity.
Qed.

Lemma absorbed_fold_aux a t r : forall ks evs s,
  fold_left release_absorbed_one ks (evs, set_aux s a t r)
  = (fst (fold_left release_absorbed_one ks (evs, s)),
     set_aux (snd (fold_left release_absorbed_one ks (evs, s))) a t r).
Proof.
  induction ks as [|k ks IH]; intros evs s; cbn [fold_left]; [reflexivity|].
  rewrite !release_absorbed_one_core, release_core_aux. cbn [fst snd]. apply IH.
Qed.

Lemma consume_pass_aux s m a t r :
  consume_pass (set_aux s a t r) m
  = (fst (consume_pass s m), set_aux (snd (consume_pass s m)) a t r).
Proof. reflexivity. Qed.

Lemma press_out_aux evs s x a t r :
  press_out is_action (evs, set_aux s a t r) x
  = (fst (press_out is_action (evs, s) x), set_aux (snd (press_out is_action (evs, s) x)) a t r).
Proof.
  unfold press_out. change (mout (set_aux s a t r)) with (mout s). change (pass (set_aux s a t r)) with (pass s).
  destruct (is_action x).
  - destruct (mem x (mout s)); [reflexivity|]. destruct (mem x (pass s)); reflexivity.
  - destruct (negb (mem x (mout s)) && negb (mem x (pass s))); reflexivity.
Qed.

Lemma press_out_fold_aux a t r : forall ts evs s,
  fold_left (press_out is_action) ts (evs, set_aux s a t r)
  = (fst (fold_left (press_out is_action) ts (evs, s)),
     set_aux (snd (fold_left (press_out is_action) ts (evs, s))) a t r).
Proof.
  induction ts as [|x ts IH]; intros evs s; cbn [fold_left]; [reflexivity|].
  rewrite press_out_aux. destruct (press_out is_action (evs, s) x) as [e1 s1]. cbn [fst snd]. apply IH.
Qed.

(* ---------- absorbed keys that are no longer held on the input are inert ---------- *)

Lemma release_loop_none k : forall n s,
  (forall m, In m (act s) -> ~ In k (m_from m)) -> release_loop n k s = ([], s).
Proof.
  induction n as [|i IH]; intros s H; cbn [release_loop]; [reflexivity|].
  destruct (nth_error (act s) i) as [m|] eqn:E; [|apply IH; exact H].
  assert (F : fails_when_released (m_from m) k = false).
  { unfold fails_when_released. apply mem_false. apply H. eapply nth_error_In. exact E. }
  rewrite F. apply IH. exact H.
Qed.

Lemma release_core_stale L k s : Inv L s -> ~ In k (inp s) -> release_core k s = ([], s).
Proof.
  intros I Hk. unfold release_core.
  rewrite release_loop_none.
  2:{ intros m Hm Hf. apply Hk. apply (proj2 (i_act L s I m Hm)). exact Hf. }
  unfold release_pass.
  assert (P : mem k (pass s) = false).
  { apply mem_false. intros Hp. apply Hk. apply (i_pass_inp L s I). exact Hp. }
  rewrite P. cbn [app fst snd]. rewrite remove_all_notin by exact Hk. destruct s; reflexivity.
Qed.

Lemma absorbed_fold_live L : forall n ks, (length ks <= n)%nat -> forall evs s,
  Inv L s ->
  fold_left release_absorbed_one ks (evs, s)
  = fold_left release_absorbed_one (filter (fun x => mem x (inp s)) ks) (evs, s).
Proof.
  induction n as [|n IH]; intros ks Hn evs s I.
  - destruct ks; [reflexivity | cbn in Hn; lia].
  - destruct ks as [|k t]; [reflexivity|]. cbn [length] in Hn. cbn [fold_left filter].
    rewrite release_absorbed_one_core.
    destruct (mem k (inp s)) eqn:Ek.
    + cbn [fold_left]. rewrite release_absorbed_one_core.
      pose proof (release_core_inv L k s I) as R. cbn zeta in R.
      destruct R as [I1 [_ [Hi1 _]]].
      rewrite (IH t ltac:(lia) _ _ I1).
      rewrite (IH (filter (fun x => mem x (inp s)) t)
                 ltac:(pose proof (filter_len_le (fun x => mem x (inp s)) t); lia) _ _ I1).
      rewrite filter_filter_imp; [reflexivity|].
      intros x Hx. rewrite Hi1 in Hx. apply mem_In in Hx. apply In_remove_all in Hx. apply mem_In. tauto.
    + rewrite (release_core_stale L k s I) by (apply mem_false; exact Ek).
      cbn [fst snd]. rewrite app_nil_r. apply IH; [lia | exact I].
Qed.

End S.

Section Bisim.
Variable is_action : key -> bool.

Lemma aeq_of_aux s a t r :
  filter (fun x => mem x (inp s)) a = live s -> (live s = [] \/ t = atrig s) -> aeq s (set_aux s a t r).
Proof. intros H1 H2. unfold aeq. repeat split; assumption. Qed.

Lemma aeq_core_change s s' i a p m :
  aeq s s' ->
  (forall x, In x (absd s) \/ In x (absd s') -> mem x i = mem x (inp s)) ->
  aeq (mkState i a p m (absd s) (atrig s) (rtrig s)) (mkState i a p m (absd s') (atrig s') (rtrig s')).
Proof.
  intros [A [B [C [D [E F]]]]] H. unfold aeq, live in *. cbn [inp act pass mout absd atrig].
  assert (E1 : filter (fun x => mem x i) (absd s) = filter (fun x => mem x (inp s)) (absd s)).
  { apply filter_ext_in'. intros x Hx. apply H. left; exact Hx. }
  assert (E2 : filter (fun x => mem x i) (absd s') = filter (fun x => mem x (inp s')) (absd s')).
  { apply filter_ext_in'. intros x Hx. rewrite A. apply H. right; exact Hx. }
  repeat split; try reflexivity.
  - rewrite E1, E2. exact E.
  - rewrite E1. exact F.
Qed.

Lemma mem_snoc_other x k i : x <> k -> mem x (i ++ [k]) = mem x i.
Proof.
  intros H. rewrite mem_app. cbn [mem existsb]. destruct (N.eqb_spec x k); [contradiction|].
  rewrite !orb_false_r. reflexivity.
Qed.

(* ---------- release_absorbed_keys ---------- *)

Lemma release_absorbed_keys_live L s : Inv L s ->
  release_absorbed_keys s = fold_left release_absorbed_one (live s) ([], set_atrig (set_absd s []) None).
Proof.
  intros I. unfold release_absorbed_keys, live.
  rewrite (absorbed_fold_live is_action L (length (absd s)) (absd s) (le_n _) [] _ (Inv_set_aux L s [] None I)).
  reflexivity.
Qed.

Lemma release_absorbed_keys_nolive L s : Inv L s -> live s = [] ->
  release_absorbed_keys s = ([], set_atrig (set_absd s []) None).
Proof. intros I H. rewrite (release_absorbed_keys_live L s I), H. reflexivity. Qed.

Lemma release_absorbed_keys_aeq L s s' : Inv L s -> Inv L s' -> aeq s s' ->
  fst (release_absorbed_keys s') = fst (release_absorbed_keys s)
  /\ snd (release_absorbed_keys s') = set_aux (snd (release_absorbed_keys s)) [] None (rtrig s').
Proof.
  intros I I' E. rewrite (release_absorbed_keys_live L s I), (release_absorbed_keys_live L s' I').
  destruct E as [A [B [C [D [E F]]]]]. rewrite E.
  assert (X : set_atrig (set_absd s' []) None = set_aux (set_atrig (set_absd s []) None) [] None (rtrig s')).
  { destruct s, s'; cbn in *; subst; reflexivity. }
  rewrite X, absorbed_fold_aux. cbn [fst snd]. split; reflexivity.
Qed.

Lemma release_absorbed_keys_aux L s : Inv L s ->
  absd (snd (release_absorbed_keys s)) = [] /\ atrig (snd (release_absorbed_keys s)) = None.
Proof.
  intros I. pose proof (release_absorbed_keys_inv is_action L s I) as R. cbn zeta in R.
  destruct R as [_ [_ [_ [_ [_ [Ha [Ht _]]]]]]]. split; assumption.
Qed.

(* ---------- flush_for_action ---------- *)

Lemma flush_unfold s k m :
  flush_for_action is_action s k m =
  if is_action_mapping is_action m then
    if should_absorb s k then
      (fst (release_action_mappings is_action s)
         ++ fst (release_absorbed_keys (snd (release_action_mappings is_action s))),
       snd (release_absorbed_keys (snd (release_action_mappings is_action s))))
    else release_action_mappings is_action s
  else ([], s).
Proof.
  unfold flush_for_action. destruct (is_action_mapping is_action m); [|reflexivity].
  destruct (release_action_mappings is_action s) as [e1 s1] eqn:E.
  assert (Hs : should_absorb s1 k = should_absorb s k).
  { unfold release_action_mappings in E. inversion E. reflexivity. }
  rewrite Hs. destruct (should_absorb s k); [|reflexivity].
  cbn [fst snd]. destruct (release_absorbed_keys s1); reflexivity.
Qed.

Lemma aeq_inv s s' : aeq s s' ->
  exists a t r, s' = set_aux s a t r /\ filter (fun x => mem x (inp s)) a = live s
                /\ (live s = [] \/ t = atrig s).
Proof.
  intros E. exists (absd s'), (atrig s'), (rtrig s'). split; [apply aeq_set_aux; exact E|].
  destruct E as [A [B [C [D [E F]]]]]. unfold live in E. rewrite A in E. split; assumption.
Qed.

Lemma aeq_aux_nolive s a b t u r v :
  filter (fun x => mem x (inp s)) a = [] -> filter (fun x => mem x (inp s)) b = [] ->
  aeq (set_aux s a t r) (set_aux s b u v).
Proof.
  intros Ha Hb. unfold aeq, live. cbn [inp act pass mout absd atrig set_aux].
  repeat split; try reflexivity; [rewrite Ha, Hb; reflexivity | left; exact Ha].
Qed.

Lemma flush_aeq L s s' k m : Inv L s -> Inv L s' -> aeq s s' ->
  ~ In k (absd s) -> ~ In k (absd s') ->
  fst (flush_for_action is_action s' k m) = fst (flush_for_action is_action s k m)
  /\ aeq (snd (flush_for_action is_action s k m)) (snd (flush_for_action is_action s' k m))
  /\ ~ In k (absd (snd (flush_for_action is_action s k m)))
  /\ ~ In k (absd (snd (flush_for_action is_action s' k m))).
Proof.
  intros I I' E Hk Hk'. rewrite !flush_unfold.
  destruct (is_action_mapping is_action m);
    [|cbn [fst snd]; split; [reflexivity|]; split; [exact E|]; split; assumption].
  destruct (aeq_inv s s' E) as [a [t [r [-> [El F]]]]]. clear E. cbn [absd set_aux] in Hk'.
  pose proof (release_action_mappings_inv is_action L s I) as R. cbn zeta in R. destruct R as [I1 _].
  pose proof (release_action_mappings_inv is_action L _ I') as R. cbn zeta in R. destruct R as [I1' _].
  rewrite ram_aux in *. cbn [fst snd] in *.
  set (s1 := snd (release_action_mappings is_action s)) in *.
  set (e1 := fst (release_action_mappings is_action s)) in *.
  assert (Es1 : release_action_mappings is_action s = (e1, s1)) by (subst e1 s1; apply surjective_pairing).
  rewrite Es1.
  assert (E1 : aeq s1 (set_aux s1 a t r)) by (apply aeq_of_aux; assumption).
  change (should_absorb (set_aux s a t r) k)
    with (match t with Some x => negb (N.eqb x k) | None => true end).
  change (should_absorb s k) with (match atrig s with Some x => negb (N.eqb x k) | None => true end).
  destruct F as [F|F].
  - (* no live absorbed key: release_absorbed_keys is inert on both sides *)
    assert (L1 : live s1 = []) by exact F.
    assert (L1' : live (set_aux s1 a t r) = []) by (rewrite <- F; exact El).
    rewrite (release_absorbed_keys_nolive L s1 I1 L1).
    rewrite (release_absorbed_keys_nolive L _ I1' L1'). cbn [fst snd].
    destruct (match t with Some x => negb (N.eqb x k) | None => true end);
      destruct (match atrig s with Some x => negb (N.eqb x k) | None => true end);
      cbn [fst snd]; rewrite ?app_nil_r; (split; [reflexivity|]); (split; [|split; try assumption; cbn; tauto]).
    + change (aeq (set_aux s1 [] None (rtrig s1)) (set_aux s1 [] None r)).
      apply aeq_aux_nolive; reflexivity.
    + change (aeq s1 (set_aux s1 [] None r)).
      rewrite <- (set_aux_id s1) at 1. apply aeq_aux_nolive; [exact L1 | reflexivity].
    + change (aeq (set_aux s1 [] None (rtrig s1)) (set_aux s1 a t r)).
      apply aeq_aux_nolive; [reflexivity | exact L1'].
    + exact E1.
  - subst t.
    destruct (release_absorbed_keys_aeq L _ _ I1 I1' E1) as [Ev Est].
    destruct (release_absorbed_keys_aux L s1 I1) as [Xa Xt].
    destruct (release_absorbed_keys_aux L _ I1') as [Xa' Xt'].
    destruct (match atrig s with Some x => negb (N.eqb x k) | None => true end); cbn [fst snd].
    + split; [rewrite Ev; reflexivity|]. split.
      * rewrite Est. apply aeq_of_aux; unfold live; rewrite Xa; [reflexivity | left; reflexivity].
      * rewrite Xa, Xa'. cbn. tauto.
    + split; [reflexivity|]. split; [exact E1|]. split; assumption.
Qed.


(* ---------- add_new_mapping: the part after the flush ---------- *)

Definition anm_tail (s0 : state) (k : key) (m : mapping) : list event * rrepeat * state :=
  let c := consume_pass s0 m in
  let p := fold_left (press_out is_action) (m_to m) ([], snd c) in
  let s3 := set_absd (snd p) (fold_left push_new (m_abs m) (absd (snd p))) in
  let s4 := match m_abs m with [] => s3 | _ => set_atrig s3 (Some k) end in
  let s5 := set_act s4 (act s4 ++ [m]) in
  let evs := fst c ++ fst p in
  match m_repeat m with
  | RNormal => (evs, RRDisabled, s5)
  | RDisabled => (evs ++ fst (release_all_action_keys is_action s5), RRDisabled,
                  snd (release_all_action_keys is_action s5))
  | RSpecial ks d i => (evs ++ fst (release_all_action_keys is_action s5), RRRepeating ks d i,
                        set_rtrig (snd (release_all_action_keys is_action s5)) (Some k))
  end.

Lemma anm_unfold s k m :
  add_new_mapping is_action s k m =
  (fst (flush_for_action is_action s k m) ++ fst (fst (anm_tail (snd (flush_for_action is_action s k m)) k m)),
   snd (fst (anm_tail (snd (flush_for_action is_action s k m)) k m)),
   snd (anm_tail (snd (flush_for_action is_action s k m)) k m)).
Proof.
  unfold add_new_mapping, anm_tail.
  destruct (flush_for_action is_action s k m) as [e0 s0]. cbn [fst snd].
  destruct (consume_pass s0 m) as [e1 s1]. cbn [fst snd].
  destruct (fold_left (press_out is_action) (m_to m) ([], s1)) as [e2 s2]. cbn [fst snd].
  destruct (m_repeat m) as [| |ks d i].
  - reflexivity.
  - destruct (release_all_action_keys is_action _) as [e3 s6]. cbn [fst snd]. rewrite <- !app_assoc. reflexivity.
  - destruct (release_all_action_keys is_action _) as [e3 s6]. cbn [fst snd]. rewrite <- !app_assoc. reflexivity.
Qed.

Definition tail_rtrig (m : mapping) (k : key) (r : option key) : option key :=
  match m_repeat m with RSpecial _ _ _ => Some k | _ => r end.
Definition tail_atrig (m : mapping) (k : key) (t : option key) : option key :=
  match m_abs m with [] => t | _ => Some k end.

Lemma anm_tail_aux s0 k m a t r :
  anm_tail (set_aux s0 a t r) k m
  = (fst (anm_tail (set_aux s0 a t r) k m),
     set_aux (snd (anm_tail s0 k m)) (fold_left push_new (m_abs m) a) (tail_atrig m k t) (tail_rtrig m k r))
  /\ fst (anm_tail (set_aux s0 a t r) k m) = fst (anm_tail s0 k m).
Proof.
  unfold anm_tail, tail_atrig, tail_rtrig. rewrite consume_pass_aux. cbn [fst snd].
  rewrite press_out_fold_aux. cbn [fst snd].
  destruct (m_abs m) as [|x ab]; destruct (m_repeat m) as [| |ks d i]; cbn [fst snd fold_left];
    try rewrite raak_aux; cbn [fst snd]; split; reflexivity.
Qed.

Lemma press_out_fold_inp : forall ts evs s,
  inp (snd (fold_left (press_out is_action) ts (evs, s))) = inp s.
Proof.
  induction ts as [|x ts IH]; intros evs s; cbn [fold_left]; [reflexivity|].
  unfold press_out at 2. destruct (is_action x).
  - destruct (mem x (mout s)); [apply IH|]. destruct (mem x (pass s)); rewrite IH; reflexivity.
  - destruct (negb (mem x (mout s)) && negb (mem x (pass s))); rewrite IH; reflexivity.
Qed.

Lemma anm_tail_inp s0 k m : inp (snd (anm_tail s0 k m)) = inp s0.
Proof.
  unfold anm_tail. destruct (m_abs m); destruct (m_repeat m); cbn [fst snd];
    cbn [inp set_rtrig]; rewrite ?raak_inp; cbn [inp set_rtrig set_act set_atrig set_absd];
    rewrite press_out_fold_inp; reflexivity.
Qed.

Lemma filter_inp_snoc i k a :
  ~ In k a -> filter (fun x => mem x (i ++ [k])) a = filter (fun x => mem x i) a.
Proof.
  intros H. apply filter_ext_in'. intros x Hx. apply mem_snoc_other. intro E. subst. contradiction.
Qed.

Lemma add_new_mapping_aeq L s s' k m : Inv L s -> Inv L s' -> aeq s s' ->
  ~ In k (absd s) -> ~ In k (absd s') ->
  let r := add_new_mapping is_action s k m in
  let r' := add_new_mapping is_action s' k m in
  fst r' = fst r
  /\ aeq (set_inp (snd r) (inp (snd r) ++ [k])) (set_inp (snd r') (inp (snd r') ++ [k])).
Proof.
  intros I I' E Hk Hk'. cbn zeta. rewrite !anm_unfold. cbn [fst snd].
  destruct (flush_aeq L s s' k m I I' E Hk Hk') as [Fe [Fa [Fk Fk']]].
  set (f := snd (flush_for_action is_action s k m)) in *.
  set (f' := snd (flush_for_action is_action s' k m)) in *.
  destruct (aeq_inv f f' Fa) as [a [t [r [Ef [El Ft]]]]]. rewrite Ef in *. cbn [absd set_aux] in Fk'.
  destruct (anm_tail_aux f k m a t r) as [T1 T2].
  destruct (anm_tail_aux f k m (absd f) (atrig f) (rtrig f)) as [U1 _]. rewrite set_aux_id in U1.
  rewrite T1, T2. cbn [fst snd]. split; [rewrite Fe; reflexivity|].
  rewrite U1 at 1. rewrite U1 at 1. cbn [fst snd].
  set (X := snd (anm_tail f k m)).
  assert (HX : inp X = inp f) by apply anm_tail_inp.
  unfold aeq, live. cbn [inp act pass mout absd atrig set_inp set_aux].
  assert (P : forall b, ~ In k b ->
            filter (fun x => mem x (inp X ++ [k])) (fold_left push_new (m_abs m) b)
            = fold_left push_new (filter (fun x => mem x (inp X ++ [k])) (m_abs m)) (filter (fun x => mem x (inp f)) b)).
  { intros b Hb. rewrite filter_fold_push_new, HX, (filter_inp_snoc _ _ _ Hb). reflexivity. }
  rewrite (P a Fk'), (P (absd f) Fk), El.
  repeat split; try reflexivity.
  unfold tail_atrig. destruct (m_abs m) as [|x ab]; [|right; reflexivity].
  cbn [filter fold_left]. destruct Ft as [Ft|Ft]; [left; exact Ft | right; exact Ft].
Qed.


(* ---------- newly_press ---------- *)

Lemma is_supported_live tr i ab k :
  is_supported tr i ab k = is_supported tr i (filter (fun x => mem x i) ab) k.
Proof.
  unfold is_supported. apply forallb_ext_in. intros x _.
  destruct (mem x i) eqn:Hi; [|reflexivity]. cbn [andb]. f_equal. f_equal.
  destruct (mem x ab) eqn:Ha.
  - symmetry. apply mem_In. apply filter_In. split; [apply mem_In; exact Ha | exact Hi].
  - symmetry. apply mem_false. intros H. apply filter_In in H. apply mem_false in Ha. tauto.
Qed.

Lemma remove_all_filter_comm (p : key -> bool) k l :
  filter p (remove_all k l) = remove_all k (filter p l).
Proof.
  unfold remove_all. induction l as [|x t IH]; cbn [filter]; [reflexivity|].
  destruct (negb (N.eqb x k)) eqn:A; destruct (p x) eqn:B; cbn [filter]; rewrite ?A, ?B, IH; reflexivity.
Qed.

Lemma pre_press_aeq s s' k : aeq s s' -> aeq (pre_press s k) (pre_press s' k).
Proof.
  intros E. destruct (aeq_inv s s' E) as [a [t [r [-> [El F]]]]].
  unfold pre_press, aeq, live in *. cbn [inp act pass mout absd atrig set_aux set_rtrig set_absd].
  repeat split; try reflexivity.
  - rewrite !remove_all_filter_comm, El. reflexivity.
  - destruct F as [F|F]; [left; rewrite remove_all_filter_comm, F; reflexivity | right; exact F].
Qed.

Lemma aeq_push_inp s s' k (g : state -> state) :
  aeq s s' -> ~ In k (absd s) -> ~ In k (absd s') ->
  aeq (set_inp s (inp s ++ [k])) (set_inp s' (inp s' ++ [k]))
  /\ aeq (set_inp (set_pass s (pass s ++ [k])) (inp s ++ [k]))
         (set_inp (set_pass s' (pass s' ++ [k])) (inp s' ++ [k])).
Proof.
  intros E Hk Hk'. destruct (aeq_inv s s' E) as [a [t [r [-> [El F]]]]]. cbn [absd set_aux] in Hk'.
  unfold aeq, live in *. cbn [inp act pass mout absd atrig set_aux set_inp set_pass].
  rewrite !(filter_inp_snoc _ _ _ Hk), !(filter_inp_snoc _ _ _ Hk').
  split; repeat split; try reflexivity; assumption.
Qed.

Lemma newly_press_aeq L s s' k : Inv L s -> Inv L s' -> aeq s s' ->
  fst (newly_press is_action L s' k) = fst (newly_press is_action L s k)
  /\ aeq (snd (newly_press is_action L s k)) (snd (newly_press is_action L s' k)).
Proof.
  intros I I' E. unfold newly_press. cbn zeta. fold (pre_press s k). fold (pre_press s' k).
  pose proof (pre_press_aeq s s' k E) as E1.
  pose proof (Inv_pre_press L s k I) as I1. pose proof (Inv_pre_press L s' k I') as I1'.
  assert (Hk : ~ In k (absd (pre_press s k))).
  { unfold pre_press. cbn [absd set_rtrig set_absd]. intros H. apply In_remove_all in H. tauto. }
  assert (Hk' : ~ In k (absd (pre_press s' k))).
  { unfold pre_press. cbn [absd set_rtrig set_absd]. intros H. apply In_remove_all in H. tauto. }
  set (p := pre_press s k) in *. set (p' := pre_press s' k) in *.
  assert (Hfind : forall l,
    find (fun m => is_supported (m_from m) (inp p') (if should_absorb p' k then absd p' else []) k) l
    = find (fun m => is_supported (m_from m) (inp p) (if should_absorb p k then absd p else []) k) l).
  { intros l. apply find_ext_in. intros m _.
    rewrite (is_supported_live _ (inp p')), (is_supported_live _ (inp p)).
    destruct E1 as [A [_ [_ [_ [El F]]]]]. rewrite A. f_equal.
    unfold live in *. rewrite A in El.
    unfold should_absorb.
    destruct F as [F|F].
    - assert (F' : filter (fun x => mem x (inp p)) (absd p') = []) by (rewrite El; exact F).
      destruct (atrig p') as [x|]; destruct (atrig p) as [y|];
        repeat match goal with |- context [if ?b then _ else _] => destruct b end;
        cbn [filter]; rewrite ?F, ?F'; reflexivity.
    - rewrite F. destruct (match atrig p with Some t => negb (N.eqb t k) | None => true end);
        [exact El | reflexivity]. }
  rewrite Hfind.
  destruct (find _ (rev (group_of L k))) as [m|].
  - pose proof (add_new_mapping_aeq L p p' k m I1 I1' E1 Hk Hk') as R. cbn zeta in R.
    destruct (add_new_mapping is_action p k m) as [[evs rep] s2].
    destruct (add_new_mapping is_action p' k m) as [[evs' rep'] s2']. cbn [fst snd] in *.
    destruct R as [R1 R2]. inversion R1. subst. split; [reflexivity | exact R2].
  - destruct (aeq_push_inp p p' k (fun x => x) E1 Hk Hk') as [P1 P2].
    assert (Ea : act p' = act p) by apply E1. assert (Ep : pass p' = pass p) by apply E1.
    rewrite Ea, Ep.
    destruct (existsb (mentions k) (act p)); [cbn [fst snd]; split; [reflexivity | exact P1]|].
    destruct (mem k (pass p)); [cbn [fst snd]; split; [reflexivity | exact P1]|].
    destruct (is_action k).
    + destruct (aeq_inv p p' E1) as [a [t [r [Ef [El F]]]]]. rewrite Ef in *.
      pose proof (release_action_mappings_inv is_action L p I1) as R. cbn zeta in R. destruct R as [J _].
      pose proof (release_action_mappings_inv is_action L _ I1') as R. cbn zeta in R. destruct R as [J' _].
      rewrite ram_aux in *. cbn [fst snd] in *.
      set (q := snd (release_action_mappings is_action p)) in *.
      assert (Eq : release_action_mappings is_action p = (fst (release_action_mappings is_action p), q))
        by (subst q; apply surjective_pairing).
      rewrite Eq.
      assert (Eq1 : aeq q (set_aux q a t r)) by (apply aeq_of_aux; assumption).
      destruct (release_absorbed_keys_aeq L _ _ J J' Eq1) as [Ev Est].
      destruct (release_absorbed_keys_aux L q J) as [Xa _].
      destruct (release_absorbed_keys (set_aux q a t r)) as [eb' sb']. 
      destruct (release_absorbed_keys q) as [eb sb]. cbn [fst snd] in *. subst eb' sb'.
      split; [reflexivity|].
      unfold aeq, live. cbn [inp act pass mout absd atrig set_aux set_inp set_pass]. rewrite Xa.
      repeat split; try reflexivity. left; reflexivity.
    + cbn [fst snd]. split; [reflexivity | exact P2].
Qed.

(* ---------- releases, steps ---------- *)

Lemma newly_release_aeq L s s' k : Inv L s -> aeq s s' ->
  fst (newly_release s' k) = fst (newly_release s k)
  /\ aeq (snd (newly_release s k)) (snd (newly_release s' k)).
Proof.
  intros I E. rewrite !newly_release_core. cbn [fst snd].
  destruct (aeq_inv s s' E) as [a [t [r [-> [El F]]]]]. rewrite release_core_aux. cbn [fst snd].
  split; [reflexivity|].
  pose proof (release_core_inv L k s I) as R. cbn zeta in R. destruct R as [_ [_ [Hi [_ [[Ha [Ht _]] _]]]]].
  set (c := snd (release_core k s)) in *.
  assert (M : forall b, filter (fun x => mem x (inp c)) b = remove_all k (filter (fun x => mem x (inp s)) b)).
  { intros b. rewrite Hi. unfold remove_all. induction b as [|x b IH]; cbn [filter]; [reflexivity|].
    destruct (mem x (inp s)) eqn:A; destruct (negb (N.eqb x k)) eqn:B.
    - assert (Z : mem x (filter (fun y => negb (N.eqb y k)) (inp s)) = true).
      { apply mem_In. apply filter_In. split; [apply mem_In; exact A | exact B]. }
      rewrite Z. cbn [filter]. rewrite B, IH. reflexivity.
    - assert (Z : mem x (filter (fun y => negb (N.eqb y k)) (inp s)) = false).
      { apply mem_false. intros H. apply filter_In in H. destruct H as [_ H]. congruence. }
      rewrite Z. cbn [filter]. rewrite B. exact IH.
    - assert (Z : mem x (filter (fun y => negb (N.eqb y k)) (inp s)) = false).
      { apply mem_false. intros H. apply filter_In in H. destruct H as [H _]. apply mem_In in H. congruence. }
      rewrite Z. exact IH.
    - assert (Z : mem x (filter (fun y => negb (N.eqb y k)) (inp s)) = false).
      { apply mem_false. intros H. apply filter_In in H. destruct H as [H _]. apply mem_In in H. congruence. }
      rewrite Z. exact IH. }
  unfold aeq, live. cbn [inp act pass mout absd atrig set_aux]. rewrite !M, Ha, Ht, El.
  repeat split; try reflexivity.
  destruct F as [F|F]; [left; unfold live in F; rewrite F; reflexivity | right; exact F].
Qed.

Lemma step_aeq L s s' e : wf_layout L -> Inv L s -> Inv L s' -> aeq s s' ->
  fst (step is_action L s' e) = fst (step is_action L s e)
  /\ aeq (snd (step is_action L s e)) (snd (step is_action L s' e)).
Proof.
  intros Hwf I I' E. assert (Ei : inp s' = inp s) by apply E.
  destruct e as [k|k]; cbn [step]; rewrite Ei; destruct (mem k (inp s)).
  - split; [reflexivity | exact E].
  - apply newly_press_aeq; assumption.
  - apply (newly_release_aeq L); assumption.
  - split; [reflexivity | exact E].
Qed.

Lemma release_all_fold_aeq L : forall ks evs s s',
  wf_layout L -> Inv L s -> Inv L s' -> aeq s s' ->
  fst (fold_left (release_all_one is_action L) ks (evs, s')) = fst (fold_left (release_all_one is_action L) ks (evs, s))
  /\ aeq (snd (fold_left (release_all_one is_action L) ks (evs, s))) (snd (fold_left (release_all_one is_action L) ks (evs, s'))).
Proof.
  induction ks as [|k t IH]; intros evs s s' Hwf I I' E; cbn [fold_left]; [split; [reflexivity | exact E]|].
  rewrite !release_all_one_eq.
  destruct (step_aeq L s s' (Released k) Hwf I I' E) as [S1 S2]. rewrite S1.
  apply IH; [exact Hwf | | | exact S2].
  - apply (step_inv is_action L s (Released k) Hwf I).
  - apply (step_inv is_action L s' (Released k) Hwf I').
Qed.

Lemma mstep_aeq L s s' i : wf_layout L -> Inv L s -> Inv L s' -> aeq s s' ->
  fst (mstep is_action L s' i) = fst (mstep is_action L s i)
  /\ aeq (snd (mstep is_action L s i)) (snd (mstep is_action L s' i)).
Proof.
  intros Hwf I I' E. destruct i as [e|]; cbn [mstep].
  - destruct (step_aeq L s s' e Hwf I I' E) as [S1 S2].
    destruct (step is_action L s e) as [[evs rep] s1]. destruct (step is_action L s' e) as [[evs' rep'] s1'].
    cbn [fst snd] in *. inversion S1. subst. split; [reflexivity | exact S2].
  - unfold release_all. assert (Ei : inp s' = inp s) by apply E. rewrite Ei.
    destruct (release_all_fold_aeq L (inp s) [] s s' Hwf I I' E) as [S1 S2].
    destruct (fold_left (release_all_one is_action L) (inp s) ([], s)) as [evs s1].
    destruct (fold_left (release_all_one is_action L) (inp s) ([], s')) as [evs' s1'].
    cbn [fst snd] in *. subst. split; [reflexivity | exact S2].
Qed.

(* the full responses of a run: events and repeat instruction of every step *)
Fixpoint mresp (L : layout) (s : state) (h : list input) : list (list event * option rrepeat) :=
  match h with
  | [] => []
  | i :: h' => fst (mstep is_action L s i) :: mresp L (snd (mstep is_action L s i)) h'
  end.

Lemma mresp_aeq L : forall h s s', wf_layout L -> Inv L s -> Inv L s' -> aeq s s' ->
  mresp L s' h = mresp L s h.
Proof.
  induction h as [|i h IH]; intros s s' Hwf I I' E; cbn [mresp]; [reflexivity|].
  destruct (mstep_aeq L s s' i Hwf I I' E) as [S1 S2]. rewrite S1. f_equal.
  apply IH; [exact Hwf | | | exact S2].
  - apply (mstep_inv is_action L s i Hwf I).
  - apply (mstep_inv is_action L s' i Hwf I').
Qed.

(* ---------- fresh states ---------- *)

Lemma rest_aeq_init L s : wf_layout L -> Inv L s -> inp s = [] -> aeq init s.
Proof.
  intros Hwf I H. destruct (Inv_inp_nil L s Hwf I H) as [A [P M]].
  unfold aeq, live. cbn [inp act pass mout absd atrig init]. rewrite H, A, P, M.
  repeat split; try reflexivity.
  - induction (absd s) as [|x t IH]; [reflexivity | exact IH].
  - left; reflexivity.
Qed.

Lemma state_of_Inv L h : wf_layout L -> Inv L (state_of is_action L h) /\ incl (inp (state_of is_action L h)) (phys_of h).
Proof.
  intros Hwf. unfold state_of, phys_of.
  pose proof (mrun_inv is_action L h init [] Hwf (Inv_init L) (fun x H => H)) as R. cbn zeta in R.
  destruct R as [I [_ Hi]]. split; assumption.
Qed.

Theorem fresh_after_rest L h1 h2 :
  wf_layout L -> phys_of h1 = [] ->
  mresp L (state_of is_action L h1) h2 = mresp L init h2.
Proof.
  intros Hwf Hp. destruct (state_of_Inv L h1 Hwf) as [I Hi].
  apply mresp_aeq; [exact Hwf | apply Inv_init | exact I |].
  apply (rest_aeq_init L); [exact Hwf | exact I |].
  rewrite Hp in Hi. destruct (inp (state_of is_action L h1)) as [|x t]; [reflexivity|].
  exfalso. apply (Hi x). left; reflexivity.
Qed.

Theorem fresh_after_release_all_state L s h2 :
  wf_layout L -> Inv L s ->
  mresp L (snd (release_all is_action L s)) h2 = mresp L init h2.
Proof.
  intros Hwf I. pose proof (release_all_inv is_action L s Hwf I) as R. cbn zeta in R.
  destruct R as [I1 [_ [_ [Hi _]]]].
  apply mresp_aeq; [exact Hwf | apply Inv_init | exact I1 |].
  apply (rest_aeq_init L); assumption.
Qed.

Theorem fresh_after_release_all L h1 h2 :
  wf_layout L ->
  mresp L (state_of is_action L (h1 ++ [IReleaseAll])) h2 = mresp L init h2.
Proof.
  intros Hwf. rewrite state_of_snoc. cbn [mstep].
  destruct (state_of_Inv L h1 Hwf) as [I _].
  pose proof (fresh_after_release_all_state L (state_of is_action L h1) h2 Hwf I) as R.
  destruct (release_all is_action L (state_of is_action L h1)) as [evs s']. exact R.
Qed.


(* the responses to h2 after h1 are the tail of the responses to h1 ++ h2 *)
Lemma mresp_app_state L : forall h1 h2 s,
  mresp L s (h1 ++ h2) = mresp L s h1 ++ mresp L (snd (mrun is_action L s h1)) h2.
Proof.
  induction h1 as [|i h1 IH]; intros h2 s; cbn [app mresp mrun]; [reflexivity|].
  rewrite IH. destruct (mstep is_action L s i) as [[evs rep] s1]. cbn [fst snd].
  destruct (mrun is_action L s1 h1) as [o1 s2]. reflexivity.
Qed.

Lemma mresp_app L h1 h2 :
  mresp L init (h1 ++ h2) = mresp L init h1 ++ mresp L (state_of is_action L h1) h2.
Proof. apply mresp_app_state. Qed.

Lemma mresp_length L : forall h s, length (mresp L s h) = length h.
Proof. induction h as [|i h IH]; intros s; cbn [mresp length]; [reflexivity | rewrite IH; reflexivity]. Qed.

End Bisim.
