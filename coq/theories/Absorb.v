(* Absorb.v — C08 as an executable history monitor (definitions only).

   The property speaks about the history: "after a mapping that absorbs M fires
   [on trigger key t], and for as long as M stays held without being pressed
   again ...".  The ghost below records exactly that, from the inputs and the
   specification's choice of the fired mapping (Monitors.fired):

     ag_abs    pairs (M, t): a mapping absorbing M fired on t, and since then M
               was neither released nor pressed again (an acted press)
     ag_counts keys whose last acted press was followed by no absorbing firing
               that lists them, no release of them and no release-all
               ("M counts again once it has been released and pressed again")
     ag_last   the last absorbing firing (mapping, trigger t, keys physically
               held before it) while nothing but releases/presses of t itself
               happened since ("pressing the same trigger key again before any
               other key, with the same keys held")

   The class of layouts in which the property is proved (DESIGN.md 8.3, 8.4):
     K1  every absorbing mapping is key-producing (output ends in a non-modifier)
     K2  a mapping that is not key-producing outputs only modifiers *)
From TM Require Export Mapper Monitors.

Record aghost := mkAG {
  ag_abs : list (key * key);
  ag_counts : list key;
  ag_last : option (mapping * key * list key)
}.

Definition ag_init : aghost := mkAG [] [] None.

Inductive clause8 :=
| K8_fires      (* a press of another key fired a mapping requiring the absorbed M *)
| K8_held       (* a non-modifier went down while the absorbed M was down and no mapping in effect outputs M *)
| K8_refire     (* re-pressing the trigger first, same keys held, did not fire the same mapping *)
| K8_counts.    (* a key pressed again does not count as held (specification state) *)

Definition seteqb (a b : list key) : bool := subset a b && subset b a.

Section WithModifiers.
Variable is_action : key -> bool.

Definition K1 (L : layout) : bool :=
  forallb (fun m => match m_abs m with [] => true | _ => is_action_mapping is_action m end) L.

Definition K2 (L : layout) : bool :=
  forallb (fun m => is_action_mapping is_action m || forallb (fun t => negb (is_action t)) (m_to m)) L.

(* ghost after input i; s = specification state before, phys = physically held before *)
Definition ag_step (L : layout) (s : state) (phys : list key) (g : aghost) (i : input) : aghost :=
  match i with
  | IEv (Pressed x) =>
    if mem x (inp s) then g else
    let f := fired L s x in
    let abs_new := match f with Some m => m_abs m | None => [] end in
    mkAG (filter (fun p => negb (N.eqb (fst p) x) && negb (mem (fst p) abs_new)) (ag_abs g)
            ++ map (fun M => (M, x)) abs_new)
         (filter (fun c => negb (mem c abs_new)) (push_new (ag_counts g) x))
         (match f with
          | Some m => match m_abs m with [] => None | _ => Some (m, x, phys) end
          | None => None
          end)
  | IEv (Released x) =>
    mkAG (filter (fun p => negb (N.eqb (fst p) x)) (ag_abs g))
         (remove_all x (ag_counts g))
         (match ag_last g with
          | Some (m, t, P) => if N.eqb t x then ag_last g else if mem x phys then None else ag_last g
          | None => None
          end)
  | IReleaseAll => mkAG [] [] None
  end.

(* the sets of keys held on the output right after each press of a non-modifier *)
Fixpoint held_at_action_presses (held : list key) (evs : list event) : list (list key) :=
  match evs with
  | [] => []
  | e :: r =>
    let h' := apply_ev held e in
    match e with
    | Pressed a => if is_action a then h' :: held_at_action_presses h' r else held_at_action_presses h' r
    | Released _ => held_at_action_presses h' r
    end
  end.

(* the absorbed pairs the clauses (a), (b) speak about at an acted press of x *)
Definition victims (g : aghost) (phys : list key) (x : key) : list (key * key) :=
  filter (fun p => mem (fst p) phys && negb (N.eqb (snd p) x) && negb (N.eqb (fst p) x)) (ag_abs g).

(* s, s' : specification state before / after; phys, held : before the step; g : ghost before *)
Definition c08_check (L : layout) (s s' : state) (phys held : list key) (g : aghost)
           (i : input) (evs : list event) : list clause8 :=
  let c (b : bool) (k : clause8) : list clause8 := if b then [k] else [] in
  (match i with
   | IEv (Pressed x) =>
     if mem x (inp s) then [] else
     let vs := victims g phys x in
     c (existsb (fun p => match fired L s x with Some m' => mem (fst p) (m_from m') | None => false end) vs) K8_fires
     ++ c (existsb (fun p => existsb (mem (fst p)) (held_at_action_presses held evs)
                             && negb (still_used (act s') (fst p))) vs) K8_held
     ++ c (match ag_last g with
           | Some (m, t, P) =>
             N.eqb t x && seteqb phys P
             && negb (match fired L s x with Some m' => mapping_eqb m m' | None => false end)
           | None => false
           end) K8_refire
   | _ => []
   end)
  ++ c (existsb (fun k => negb (mem k (inp s')) || mem k (absd s')) (ag_counts (ag_step L s phys g i))) K8_counts.

(* the ghost along a history: (specification state, physically held keys, ghost) *)
Definition gs_step (L : layout) (gs : state * list key * aghost) (i : input) : state * list key * aghost :=
  let '(s, phys, g) := gs in
  (snd (mstep is_action L s i), phys_after phys i, ag_step L s phys g i).

Definition gs_of (L : layout) (h : list input) : state * list key * aghost :=
  fold_left (gs_step L) h (init, [], ag_init).

Definition ghost_of (L : layout) (h : list input) : aghost := snd (gs_of L h).

End WithModifiers.
