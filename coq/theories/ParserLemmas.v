(* ParserLemmas.v — facts about the parser model: it never panics (every
   indexing, slicing, subtraction and unwrap of layout_parsing_formatting.rs is
   guarded), and equations for the spellings the serde form and the shorthand
   use. *)
From TM Require Import Base Json RustOps Fancy Parser RustOpsLemmas StrLemmas.
From Coq Require Import Lia Arith.

(* ---------- objects ---------- *)

Lemma obj_get_some_of_key : forall kvs k, existsb (str_eqb k) (obj_keys kvs) = true -> exists v, obj_get kvs k = Some v.
Proof.
  induction kvs as [|[k' v] kvs IH]; cbn; intros k H; [discriminate|].
  rewrite str_eqb_sym. destruct (str_eqb k k') eqn:E; [exists v; reflexivity|].
  cbn in H. apply IH. exact H.
Qed.

Lemma has_exactly_keys_get : forall kvs check k,
  has_exactly_keys kvs check = true -> In k check -> exists v, obj_get kvs k = Some v.
Proof.
  intros kvs check k H Hin. unfold has_exactly_keys in H. apply andb_true_iff in H. destruct H as [_ H].
  rewrite forallb_forall in H. apply obj_get_some_of_key. apply H. exact Hin.
Qed.

Lemma has_at_least_keys_get : forall kvs check k,
  has_at_least_keys kvs check = true -> In k check -> exists v, obj_get kvs k = Some v.
Proof.
  intros kvs check k H Hin. unfold has_at_least_keys in H. rewrite forallb_forall in H.
  specialize (H k Hin). unfold obj_has in H. destruct (obj_get kvs k) as [v|]; [exists v; reflexivity|discriminate].
Qed.

(* ---------- never panics ---------- *)

Ltac np_step :=
  match goal with
  | |- np (Ok _) => apply np_Ok
  | |- np Err => apply np_Err
  | |- np (opt_res _) => unfold opt_res
  | |- np (bind _ _) => apply np_bind; [|intros ? ?]
  | |- np (map_res _ _) => apply np_map_res; intros ? ?
  | |- np (iter_res _ _) => apply np_iter_res; intros ? ?
  | |- np (if ?b then _ else _) => destruct b eqn:?
  | |- np (match ?x with _ => _ end) => destruct x eqn:?
  | |- np (let '(_, _) := ?x in _) => destruct x eqn:?
  end.

Ltac np_tac := repeat np_step.

Lemma np_parse_key_code : forall t, np (parse_key_code t).
Proof. intro t. unfold parse_key_code. np_tac. Qed.

Lemma np_parse_key_code_j : forall v, np (parse_key_code_j v).
Proof. intro v. unfold parse_key_code_j. np_tac; apply np_parse_key_code. Qed.

Lemma np_parse_modifier : forall t, np (parse_modifier t).
Proof. intro t. unfold parse_modifier. np_tac. apply np_parse_key_code. Qed.

Lemma np_parse_from_modifier : forall v, np (parse_from_modifier v).
Proof. intro v. unfold parse_from_modifier. np_tac. apply np_parse_key_code. Qed.

Lemma np_parse_from_modifiers : forall vs, np (parse_from_modifiers vs).
Proof. intro vs. unfold parse_from_modifiers. np_tac. apply np_parse_from_modifier. Qed.

Lemma np_parse_row : forall t, np (parse_row t).
Proof. intro t. unfold parse_row. np_tac. Qed.

Lemma np_unwrap_get_exact : forall site kvs check k, has_exactly_keys kvs check = true -> In k check -> np (unwrap site (obj_get kvs k)).
Proof.
  intros site kvs check k H Hin. destruct (has_exactly_keys_get _ _ _ H Hin) as [v E]. rewrite E. apply np_Ok.
Qed.

Lemma np_unwrap_get_atleast : forall site kvs check k, has_at_least_keys kvs check = true -> In k check -> np (unwrap site (obj_get kvs k)).
Proof.
  intros site kvs check k H Hin. destruct (has_at_least_keys_get _ _ _ H Hin) as [v E]. rewrite E. apply np_Ok.
Qed.

Lemma np_parse_from_row : forall elems, np (parse_from_row elems).
Proof.
  intro elems. unfold parse_from_row. destruct (has_exactly_keys elems [k_row]) eqn:E; [|apply np_Err].
  apply np_bind; [eapply np_unwrap_get_exact; [exact E|left; reflexivity]|]. intros v _.
  np_tac. apply np_parse_row.
Qed.

Lemma np_parse_from_key : forall v, np (parse_from_key v).
Proof.
  intro v. unfold parse_from_key, parse_from_key_text, parse_from_key_obj. np_tac.
  - apply np_parse_key_code.
  - apply np_parse_from_row.
Qed.

(* the three operations on a non-empty array *)
Lemma nonempty_ops : forall {A} s1 s2 s3 (elems : list A) (d : A), Nat.eqb (length elems) 0 = false ->
  usub s1 (length elems) 1 = Ok (length elems - 1)%nat
  /\ slice s2 elems 0 (length elems - 1) = Ok (removelast elems)
  /\ idx s3 elems (length elems - 1) = Ok (last elems d).
Proof.
  intros A s1 s2 s3 elems d H. apply Nat.eqb_neq in H.
  assert (elems <> []) as Hne by (destruct elems; [cbn in H; lia|discriminate]).
  split; [apply usub_Ok; lia|]. split; [apply slice_prefix; exact Hne|].
  apply idx_Ok. apply nth_error_last. exact Hne.
Qed.

Lemma np_parse_from : forall v, np (parse_from v).
Proof.
  intro v. unfold parse_from. destruct v as [| b | z | s | elems | kvs];
    try (np_tac; apply np_parse_from_key).
  destruct (Nat.eqb (length elems) 0) eqn:E; [apply np_Err|].
  destruct (nonempty_ops "parse_from:len-1" "parse_from:from_elems[0..len-1]" "parse_from:from_elems[len-1]" elems JNull E) as [H1 [H2 H3]].
  rewrite H1. cbn [bind]. rewrite H2. cbn [bind]. apply np_bind; [apply np_parse_from_modifiers|]. intros ms _.
  rewrite H3. cbn [bind]. np_tac. apply np_parse_from_key.
Qed.

Lemma np_single_to_alias_from : forall f, np (single_to_alias_from f).
Proof. intro f. unfold single_to_alias_from. np_tac. Qed.

Lemma np_parse_to_initial : forall vs, np (parse_to_initial vs).
Proof. intro vs. unfold parse_to_initial, parse_to_initial_elem. np_tac. apply np_parse_key_code. Qed.

Lemma np_parse_alias_to_initial : forall vs, np (parse_alias_to_initial vs).
Proof. intro vs. unfold parse_alias_to_initial. np_tac. apply np_parse_key_code_j. Qed.

Lemma np_parse_single_or_alias_to_terminal : forall v, np (parse_single_or_alias_to_terminal v).
Proof.
  intro v. unfold parse_single_or_alias_to_terminal, parse_single_or_alias_to_text. np_tac. apply np_parse_key_code.
Qed.

Lemma np_parse_single_to_terminal : forall v, np (parse_single_to_terminal v).
Proof. intro v. unfold parse_single_to_terminal, parse_single_to_text. np_tac. apply np_parse_key_code. Qed.

Lemma np_parse_row_to_terminal : forall v, np (parse_row_to_terminal v).
Proof.
  intro v. unfold parse_row_to_terminal, parse_row_to_obj. destruct v; try apply np_Err.
  destruct (has_exactly_keys kvs [k_letters]) eqn:E; [|apply np_Err].
  apply np_bind; [eapply np_unwrap_get_exact; [exact E|left; reflexivity]|]. intros w _. np_tac.
Qed.

Lemma np_parse_single_or_alias_to : forall v, np (parse_single_or_alias_to v).
Proof.
  intro v. unfold parse_single_or_alias_to. destruct v as [| b | z | s | elems | kvs];
    try (np_tac; apply np_parse_single_or_alias_to_terminal).
  unfold parse_single_or_alias_to_array. destruct (Nat.eqb (length elems) 0) eqn:E; [apply np_Ok|].
  destruct (nonempty_ops "parse_single_or_alias_to_array:len-1" "parse_single_or_alias_to_array:to_elems[0..len-1]"
              "parse_single_or_alias_to_array:to_elems[len-1]" elems JNull E) as [H1 [H2 H3]].
  rewrite H1. cbn [bind]. rewrite H3. cbn [bind].
  apply np_bind; [apply np_parse_single_or_alias_to_terminal|]. intros t _.
  destruct t; rewrite H2; cbn [bind]; np_tac; [apply np_parse_to_initial|apply np_parse_alias_to_initial].
Qed.

Lemma np_parse_single_to : forall v, np (parse_single_to v).
Proof.
  intro v. unfold parse_single_to. destruct v as [| b | z | s | elems | kvs];
    try (np_tac; apply np_parse_single_to_terminal).
  unfold parse_single_to_array. destruct (Nat.eqb (length elems) 0) eqn:E; [apply np_Ok|].
  destruct (nonempty_ops "parse_single_to_array:len-1" "parse_single_to_array:to_elems[0..len-1]"
              "parse_single_to_array:to_elems[len-1]" elems JNull E) as [H1 [H2 H3]].
  rewrite H1. cbn [bind]. rewrite H2. cbn [bind].
  apply np_bind; [apply np_parse_to_initial|]. intros i _. rewrite H3. cbn [bind].
  np_tac. apply np_parse_single_to_terminal.
Qed.

Lemma np_parse_row_to : forall v, np (parse_row_to v).
Proof.
  intro v. unfold parse_row_to. destruct v as [| b | z | s | elems | kvs];
    try (np_tac; apply np_parse_row_to_terminal).
  unfold parse_row_to_array. destruct (Nat.eqb (length elems) 0) eqn:E; [apply np_Err|].
  destruct (nonempty_ops "parse_row_to_array:len-1" "parse_row_to_array:to_elems[0..len-1]"
              "parse_row_to_array:to_elems[len-1]" elems JNull E) as [H1 [H2 H3]].
  rewrite H1. cbn [bind]. rewrite H2. cbn [bind].
  apply np_bind; [apply np_parse_to_initial|]. intros i _. rewrite H3. cbn [bind].
  np_tac. apply np_parse_row_to_terminal.
Qed.

Lemma np_parse_repeat_ms : forall v, np (parse_repeat_ms v).
Proof. intro v. unfold parse_repeat_ms. np_tac. Qed.

Lemma np_parse_repeat_special : forall {K} (pk : json -> res K) params, (forall v, np (pk v)) -> np (parse_repeat_special pk params).
Proof.
  intros K pk params Hpk. unfold parse_repeat_special.
  destruct (has_exactly_keys params [k_Special]) eqn:E; [|apply np_Err].
  apply np_bind; [eapply np_unwrap_get_exact; [exact E|left; reflexivity]|]. intros sp _.
  destruct sp; try apply np_Err.
  destruct (has_exactly_keys kvs [k_keys; k_delay_ms; k_interval_ms]) eqn:E2; [|apply np_Err].
  apply np_bind; [eapply np_unwrap_get_exact; [exact E2|cbn; auto]|]. intros a _.
  apply np_bind; [eapply np_unwrap_get_exact; [exact E2|cbn; auto]|]. intros b _.
  apply np_bind; [eapply np_unwrap_get_exact; [exact E2|cbn; auto]|]. intros c _.
  apply np_bind; [apply Hpk|]. intros ks _.
  apply np_bind; [apply np_parse_repeat_ms|]. intros d _.
  apply np_bind; [apply np_parse_repeat_ms|]. intros i _. apply np_Ok.
Qed.

Lemma np_parse_single_repeat : forall ov, np (parse_single_repeat ov).
Proof.
  intro ov. unfold parse_single_repeat. destruct ov as [v|]; [|apply np_Ok].
  destruct v; try apply np_Err.
  - np_tac.
  - apply np_bind; [apply np_parse_repeat_special; exact np_parse_single_to|]. intros [[ks d] i] _. apply np_Ok.
Qed.

Lemma np_parse_row_repeat : forall ov, np (parse_row_repeat ov).
Proof.
  intro ov. unfold parse_row_repeat. destruct ov as [v|]; [|apply np_Ok].
  destruct v; try apply np_Err.
  - np_tac.
  - apply np_bind; [apply np_parse_repeat_special; exact np_parse_row_to|]. intros [[ks d] i] _. apply np_Ok.
Qed.

Lemma np_parse_absorbing : forall ov, np (parse_absorbing ov).
Proof. intro ov. unfold parse_absorbing. np_tac; apply np_parse_modifier. Qed.

Lemma np_parse_mapping_from_json : forall v, np (parse_mapping_from_json v).
Proof.
  intro v. unfold parse_mapping_from_json. destruct v as [| b | z | s | elems | mv]; try apply np_Err.
  destruct (has_at_least_keys mv [k_from; k_to]) eqn:E.
  - apply np_bind; [eapply np_unwrap_get_atleast; [exact E|cbn; auto]|]. intros fv _.
    apply np_bind; [apply np_parse_from|]. intros from _.
    destruct from as [from|from].
    + apply np_bind; [eapply np_unwrap_get_atleast; [exact E|cbn; auto]|]. intros tv _.
      apply np_bind; [apply np_parse_single_or_alias_to|]. intros to _.
      destruct to as [to|initial name].
      * apply np_bind; [apply np_parse_single_repeat|]. intros rep _.
        apply np_bind; [apply np_parse_absorbing|]. intros ab _. np_tac.
      * np_tac. apply np_single_to_alias_from.
    + apply np_bind; [eapply np_unwrap_get_atleast; [exact E|cbn; auto]|]. intros tv _.
      apply np_bind; [apply np_parse_row_to|]. intros to _.
      apply np_bind; [apply np_parse_row_repeat|]. intros rep _.
      match goal with |- np (if ?c then _ else _) => destruct c end; [apply np_Err|].
      apply np_bind; [apply np_parse_absorbing|]. intros ab _. np_tac.
  - destruct (has_exactly_keys mv [k_from; k_repeat]) eqn:E2; [|apply np_Err].
    apply np_bind; [eapply np_unwrap_get_exact; [exact E2|cbn; auto]|]. intros fv _.
    apply np_bind; [apply np_parse_from|]. intros from _.
    destruct from as [from|from]; [|apply np_Err].
    apply np_bind; [apply np_parse_single_repeat|]. intros rep _. apply np_Ok.
Qed.

Lemma np_fmt_collapse : forall site n, np (fmt_collapse site n).
Proof.
  intros site n. unfold fmt_collapse. destruct (Nat.eqb n 1) eqn:E; [|apply np_Ok].
  apply Nat.eqb_eq in E. subst. cbn. apply np_Ok.
Qed.

Lemma np_format_mapping : forall m, np (format_mapping m).
Proof.
  intro m. unfold format_mapping, fmt_single_to, fmt_absorbing.
  destruct m; np_tac; apply np_fmt_collapse.
Qed.

Lemma np_check_aliases_defined : forall defined m, np (check_aliases_defined defined m).
Proof. intros defined m. unfold check_aliases_defined. np_tac. apply np_format_mapping. Qed.

(* the parser never panics, for any JSON value *)
Lemma parse_layout_total : forall j, np (parse_layout j).
Proof.
  intro j. unfold parse_layout. destruct j; try apply np_Err.
  destruct (has_exactly_keys kvs [k_mappings]) eqn:E; [|apply np_Err].
  apply np_bind; [eapply np_unwrap_get_exact; [exact E|left; reflexivity]|]. intros mv _.
  destruct mv; try apply np_Err.
  apply np_bind; [apply np_map_res; intros; apply np_parse_mapping_from_json|]. intros ms _.
  apply np_bind; [apply np_iter_res; intros; apply np_check_aliases_defined|]. intros _ _. apply np_Ok.
Qed.
