(* ModifierSpec.v — the mapper's classification of keys (is_action_key of
   key_transforms.rs, regenerated into TMGen.Modifiers on every run) is the
   specification's: a key is a modifier iff it is one of the eight standard
   modifiers written down in SpecTables.spec_modifier_keys (left/right Shift,
   Ctrl, Alt, Meta).  Every mapper theorem holds for an ARBITRARY
   classification; this lemma says which one the code uses, so that "modifier"
   in C03, C04, C05, C07 means what the properties mean. *)
From TM Require Import Base SpecTables LoaderTables.
From TMGen Require Import Modifiers.

Lemma is_action_key_is_spec_on_table :
  forallb (fun k => Bool.eqb (Modifiers.is_action_key k) (negb (spec_is_modifier k)))
          (is_action_key_exceptions ++ spec_modifier_keys) = true.
Proof. vm_compute. reflexivity. Qed.

Lemma existsb_notin (k : N) l : ~ In k l -> existsb (N.eqb k) l = false.
Proof.
  intros H. destruct (existsb (N.eqb k) l) eqn:E; [|reflexivity].
  apply existsb_exists in E. destruct E as [x [Hx Ex]]. apply N.eqb_eq in Ex. subst. contradiction.
Qed.

Lemma is_action_key_is_spec : forall k, Modifiers.is_action_key k = negb (spec_is_modifier k).
Proof.
  intro k. destruct (In_dec_N k (is_action_key_exceptions ++ spec_modifier_keys)) as [Hin|Hout].
  - pose proof is_action_key_is_spec_on_table as H. rewrite forallb_forall in H. apply eqb_prop. apply H. exact Hin.
  - unfold Modifiers.is_action_key, spec_is_modifier.
    rewrite (existsb_notin k is_action_key_exceptions) by (intros H; apply Hout; apply in_or_app; left; exact H).
    rewrite (existsb_notin k spec_modifier_keys) by (intros H; apply Hout; apply in_or_app; right; exact H).
    reflexivity.
Qed.
