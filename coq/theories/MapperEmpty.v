(* MapperEmpty.v — C05: with an empty layout the output stream equals the input
   stream (events the mapper ignores removed; release-all releases what is held). *)
From TM Require Import Base ListFacts Mapper Monitors Trace TraceLemmas MapperInv MapperProps.

(* the specification: echo of the well-formed part of the input *)
Definition echo_one (p : list key) (i : input) : list event :=
  match i with
  | IEv (Pressed k) => if mem k p then [] else [Pressed k]
  | IEv (Released k) => if mem k p then [Released k] else []
  | IReleaseAll => map Released p
  end.

Fixpoint echo (p : list key) (h : list input) : list event :=
  match h with
  | [] => []
  | i :: h' => echo_one p i ++ echo (phys_after p i) h'
  end.

Lemma filter_all_true {A} (l : list A) : filter (fun _ => true) l = l.
Proof. induction l as [|x t IH]; cbn; [reflexivity | rewrite IH; reflexivity]. Qed.

Section S.
Variable is_action : key -> bool.

(* states of the empty layout: only pass-through keys, pass = inp *)
Definition plain (s : state) : Prop :=
  act s = [] /\ mout s = [] /\ absd s = [] /\ pass s = inp s /\ NoDup (inp s).

Lemma plain_step s e :
  plain s ->
  fst (fst (step is_action [] s e)) = echo_one (inp s) (IEv e)
  /\ plain (snd (step is_action [] s e))
  /\ inp (snd (step is_action [] s e)) = apply_ev (inp s) e.
Proof.
  intros [Ha [Hm [Hab [Hp Hnd]]]]. destruct e as [k|k]; cbn [step echo_one apply_ev].
  - destruct (mem k (inp s)) eqn:Ek; [cbn [fst snd]; repeat split; assumption|].
    unfold newly_press. cbn zeta. cbn [group_of filter rev find]. sf. rewrite Ha. cbn [existsb].
    rewrite Hp, Ek.
    assert (Hram : release_action_mappings is_action
                     (set_rtrig (set_absd s (remove_all k (absd s))) None)
                   = ([], set_rtrig (set_absd s (remove_all k (absd s))) None)).
    { unfold release_action_mappings, ram_keys. sf. rewrite Ha, Hm. cbn [flat_map dedup fold_left map filter mem existsb negb].
      rewrite filter_all_true. destruct s; cbn in *; subst; reflexivity. }
    destruct (is_action k).
    + rewrite Hram. unfold release_absorbed_keys. sf. rewrite Hab. cbn [remove_all filter fold_left app].
      cbn [fst snd]. sf. repeat split; try assumption; try reflexivity.
      * rewrite Hp. reflexivity.
      * apply NoDup_snoc; [exact Hnd | apply mem_false; exact Ek].
    + cbn [fst snd app]. sf. repeat split; try assumption.
      * rewrite Hab. reflexivity.
      * rewrite Hp. reflexivity.
      * apply NoDup_snoc; [exact Hnd | apply mem_false; exact Ek].
  - destruct (mem k (inp s)) eqn:Ek;
      [|cbn [fst snd]; split; [reflexivity|]; split; [repeat split; assumption|];
        symmetry; apply remove_all_notin; apply mem_false; exact Ek].
    unfold newly_release. rewrite Ha. cbn [length release_loop].
    unfold release_pass. rewrite Hp, Ek. cbn [fst snd app]. sf.
    rewrite (remove_last_NoDup k (inp s) Hnd).
    repeat split; try assumption; try reflexivity. apply NoDup_remove_all. exact Hnd.
Qed.

Lemma plain_release_all : forall ks evs s,
  plain s -> NoDup ks -> (forall k, In k ks -> In k (inp s)) ->
  fst (fold_left (release_all_one is_action []) ks (evs, s)) = evs ++ map Released ks
  /\ plain (snd (fold_left (release_all_one is_action []) ks (evs, s)))
  /\ (forall x, In x (inp (snd (fold_left (release_all_one is_action []) ks (evs, s)))) <-> In x (inp s) /\ ~ In x ks).
Proof.
  induction ks as [|k t IH]; intros evs s Hpl Hnd Hin; cbn [fold_left map].
  - cbn [fst snd]. rewrite app_nil_r. split; [reflexivity|]. split; [exact Hpl|]. intros x. cbn. tauto.
  - rewrite release_all_one_eq.
    destruct (plain_step s (Released k) Hpl) as [He [Hpl1 Hi1]].
    cbn [echo_one] in He. assert (Hk : mem k (inp s) = true) by (apply mem_In; apply Hin; left; reflexivity).
    rewrite Hk in He. rewrite He.
    inversion Hnd as [|? ? Hkt Hndt]; subst.
    assert (Hin1 : forall k', In k' t -> In k' (inp (snd (step is_action [] s (Released k))))).
    { intros k' Hk'. rewrite Hi1. apply In_apply_ev_release. split; [apply Hin; right; exact Hk'|].
      intro E. subst. contradiction. }
    destruct (IH (evs ++ [Released k]) _ Hpl1 Hndt Hin1) as [H1 [H2 H3]].
    split; [rewrite H1, <- app_assoc; reflexivity|]. split; [exact H2|].
    intros x. rewrite H3, Hi1, In_apply_ev_release. cbn [In]. split.
    + intros [[A B] C]. split; [exact A|]. intros [E|E]; [apply B; symmetry; exact E | exact (C E)].
    + intros [A B]. split; [split; [exact A|]|]; intro; apply B; [left; symmetry; assumption | right; assumption].
Qed.

Lemma plain_mstep s i :
  plain s ->
  fst (fst (mstep is_action [] s i)) = echo_one (inp s) i
  /\ plain (snd (mstep is_action [] s i))
  /\ inp (snd (mstep is_action [] s i)) = phys_after (inp s) i.
Proof.
  intros Hpl. destruct i as [e|]; cbn [mstep].
  - destruct (plain_step s e Hpl) as [H1 [H2 H3]].
    destruct (step is_action [] s e) as [[evs rep] s']. cbn [fst snd] in *. split; [exact H1|]. split; [exact H2|exact H3].
  - unfold release_all.
    destruct Hpl as [Ha [Hm [Hab [Hp Hnd]]]].
    destruct (plain_release_all (inp s) [] s (conj Ha (conj Hm (conj Hab (conj Hp Hnd)))) Hnd (fun k H => H)) as [H1 [H2 H3]].
    destruct (fold_left (release_all_one is_action []) (inp s) ([], s)) as [evs s']. cbn [fst snd] in *.
    split; [exact H1|]. split; [exact H2|]. cbn [phys_after].
    destruct (inp s') as [|x t] eqn:E; [reflexivity|]. exfalso.
    destruct (H3 x) as [H _]. destruct H as [A B]; [left; reflexivity | contradiction].
Qed.

Lemma plain_run : forall h s,
  plain s -> concat (fst (mrun is_action [] s h)) = echo (inp s) h.
Proof.
  induction h as [|i h IH]; intros s Hpl; cbn [mrun echo]; [reflexivity|].
  destruct (plain_mstep s i Hpl) as [H1 [H2 H3]].
  destruct (mstep is_action [] s i) as [[evs rep] s1]. cbn [fst snd] in *.
  specialize (IH s1 H2). destruct (mrun is_action [] s1 h) as [outs s2]. cbn [fst concat] in *.
  rewrite IH, H1, H3. reflexivity.
Qed.

Lemma empty_layout_echo h : out_all is_action [] h = echo [] h.
Proof.
  unfold out_all. apply (plain_run h init). repeat split; constructor.
Qed.

End S.
