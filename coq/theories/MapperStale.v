(* MapperStale.v — C04: the modifiers held at the instant a key-producing
   mapping presses its final output key (layouts without absorbing). *)
From TM Require Import Base ListFacts Mapper Monitors Trace TraceLemmas MapperInv MapperProps MapperFire
                       MapperNoAbs MapperChoice MapperProv MapperRefire MapperStay.
From Coq Require Import Lia.

Lemma last_opt_none {A} (l : list A) : last_opt l = None -> l = [].
Proof.
  induction l as [|x l IH]; [reflexivity|]. cbn [last_opt]. destruct l as [|y r]; [discriminate|].
  intros H. apply IH in H. discriminate.
Qed.

Lemma upto_press_app t a b :
  (forall e, In e a -> e <> Pressed t) ->
  upto_press t (a ++ b) = match upto_press t b with Some p => Some (a ++ p) | None => None end.
Proof.
  induction a as [|e a IH]; intros H; cbn [app upto_press].
  - destruct (upto_press t b); reflexivity.
  - assert (He : ev_eqb e (Pressed t) = false).
    { destruct e as [x|x]; cbn [ev_eqb]; [|reflexivity].
      destruct (N.eqb_spec x t); [|reflexivity]. subst. exfalso. apply (H (Pressed t)); [left; reflexivity | reflexivity]. }
    rewrite He, IH by (intros e' He'; apply H; right; exact He').
    destruct (upto_press t b); reflexivity.
Qed.

Lemma upto_press_head t r : upto_press t (Pressed t :: r) = Some [Pressed t].
Proof. cbn [upto_press ev_eqb]. rewrite N.eqb_refl. reflexivity. Qed.

Lemma upto_press_rel_head t r : upto_press t (Released t :: Pressed t :: r) = Some [Released t; Pressed t].
Proof. cbn [upto_press ev_eqb]. rewrite N.eqb_refl. reflexivity. Qed.

Lemma all_released_not_press evs t : all_released evs -> forall e, In e evs -> e <> Pressed t.
Proof.
  intros H e He E. subst e. destruct (all_released_In _ _ H He) as [x Ex]. discriminate.
Qed.

Section S.
Variable is_action : key -> bool.

Lemma fold_left_snoc {A B} (f : A -> B -> A) l x a : fold_left f (l ++ [x]) a = f (fold_left f l a) x.
Proof. rewrite fold_left_app. reflexivity. Qed.

(* the state at the instant the final output key goes down *)
Lemma final_press_state L pp k m t :
  Inv L pp -> absd pp = [] -> wf_mapping m ->
  is_action_mapping is_action m = true -> last_opt (m_to m) = Some t ->
  exists pre s2,
    upto_press t (fst (fst (add_new_mapping is_action pp k m))) = Some pre
    /\ tr_ok (held_of pp) pre (held_of s2)
    /\ (forall d, In d (m_to m) -> In d (held_of s2))
    /\ (forall d, In d (pass s2) -> In d (pass pp) /\ ~ In d (m_from m) /\ ~ In d (m_to m))
    /\ (forall d, In d (mout s2) -> In d (m_to m) \/ (In d (mout pp) /\ ~ In d (ram_keys is_action pp))).
Proof.
  intros I Hab [_ [_ Hndt]] Ham Hlast.
  assert (Hta : is_action t = true) by (unfold is_action_mapping in Ham; rewrite Hlast in Ham; exact Ham).
  rewrite anm_unfold. cbn [fst].
  (* the flush *)
  rewrite flush_unfold, Ham.
  pose proof (release_action_mappings_inv is_action L pp I) as R. cbn zeta in R.
  destruct R as [I1 [T1 [_ [_ [Hp1 [Hm1 [[Ha1 _] Hr1]]]]]]].
  set (s1 := snd (release_action_mappings is_action pp)) in *.
  set (e1 := fst (release_action_mappings is_action pp)) in *.
  assert (Hfl : exists s0,
            (if should_absorb pp k
             then (e1 ++ fst (release_absorbed_keys s1), snd (release_absorbed_keys s1))
             else release_action_mappings is_action pp) = (e1, s0)
            /\ pass s0 = pass s1 /\ mout s0 = mout s1 /\ Inv L s0).
  { destruct (should_absorb pp k).
    - rewrite (release_absorbed_keys_empty s1) by (rewrite Ha1; exact Hab). cbn [fst snd]. rewrite app_nil_r.
      eexists. split; [reflexivity|]. split; [reflexivity|]. split; [reflexivity|]. apply Inv_set_aux. exact I1.
    - exists s1. split; [subst e1 s1; apply surjective_pairing|]. split; [reflexivity|]. split; [reflexivity | exact I1]. }
  destruct Hfl as [s0 [Efl [Hps0 [Hms0 I0]]]]. rewrite Efl. cbn [fst snd].
  assert (T0 : tr_ok (held_of pp) e1 (held_of s0)).
  { unfold held_of in *. rewrite Hps0, Hms0. exact T1. }
  (* the tail *)
  unfold anm_tail.
  pose proof (consume_pass_facts is_action s0 m (Inv_W3 L s0 I0)) as R. cbn zeta in R.
  destruct R as [Wc [Tc [Hrc [Hpc [Hmc _]]]]].
  set (sc := snd (consume_pass s0 m)) in *. set (ec := fst (consume_pass s0 m)) in *.
  set (ts := removelast (m_to m)) in *.
  assert (Emt : m_to m = ts ++ [t]) by (apply last_opt_removelast; exact Hlast).
  assert (Efold0 : fold_left (press_out is_action) (m_to m) ([], sc)
                   = press_out is_action (fold_left (press_out is_action) ts ([], sc)) t).
  { rewrite <- fold_left_snoc. f_equal. exact Emt. }
  rewrite Efold0.
  assert (Hts : forall x, In x ts -> In x (m_to m)).
  { intros x Hx. rewrite Emt. apply in_or_app. left; exact Hx. }
  assert (Htts : ~ In t ts).
  { rewrite Emt in Hndt.
    intros Hx. apply (NoDup_app_disj ts [t] t Hndt Hx). left; reflexivity. }
  assert (Hnpc : forall x, In x (m_to m) -> ~ In x (pass sc)).
  { intros x Hx Hp. rewrite Hpc in Hp. apply filter_In in Hp. destruct Hp as [_ Hp].
    apply mem_In in Hx. rewrite Hx, orb_true_r in Hp. discriminate. }
  pose proof (press_out_fold_facts is_action ts [] sc Wc (fun x Hx => Hnpc x (Hts x Hx))) as R. cbn zeta in R.
  destruct R as [ep [Eep [Tp [Wp [Hpp [Hmp _]]]]]]. cbn [app] in Eep.
  pose proof (press_out_fold_events is_action ts [] sc) as Hevp.
  destruct (fold_left (press_out is_action) ts ([], sc)) as [ep' sp] eqn:Efold. cbn [fst snd] in *. subst ep'.
  (* the final key *)
  assert (Htp : mem t (pass sp) = false).
  { apply mem_false. rewrite Hpp. apply Hnpc. apply last_opt_In. exact Hlast. }
  assert (Hfin : exists et s2 rest,
            press_out is_action (ep, sp) t = (ep ++ et, s2)
            /\ upto_press t (et ++ rest) = Some et
            /\ tr_ok (held_of sp) et (held_of s2)
            /\ pass s2 = pass sp /\ (forall x, In x (mout s2) <-> In x (mout sp) \/ x = t)).
  { unfold press_out. rewrite Hta. destruct (mem t (mout sp)) eqn:Emo.
    - apply mem_In in Emo. exists [Released t; Pressed t], sp, []. split; [reflexivity|].
      split; [apply upto_press_rel_head|]. split; [apply tr_ok_repress; unfold held_of; apply in_or_app; right; exact Emo|].
      split; [reflexivity|]. intros x. split; [tauto | intros [H|H]; [exact H | subst; exact Emo]].
    - rewrite Htp. apply mem_false in Emo. exists [Pressed t], (set_mout sp (mout sp ++ [t])), [].
      split; [reflexivity|]. split; [apply upto_press_head|].
      split.
      + unfold held_of. cbn [pass mout set_mout]. eapply tr_ok_seteq_r; [|apply tr_ok_press].
        * intros x. rewrite !in_app_iff. cbn. tauto.
        * rewrite in_app_iff. apply mem_false in Htp. tauto.
      + split; [reflexivity|]. intros x. cbn [mout set_mout]. rewrite in_app_iff. cbn. split; [intros [H|[H|[]]]; auto | intros [H|H]; auto]. }
  destruct Hfin as [et [s2 [_ [Epo [_ [Tt [Hp2 Hm2]]]]]]]. rewrite Epo. cbn [fst snd].
  assert (Hup_et : forall rest, upto_press t (et ++ rest) = Some et).
  { intros rest. unfold press_out in Epo. rewrite Hta in Epo. destruct (mem t (mout sp)).
    - inversion Epo as [[E1 E2]]. apply app_inv_head in E1. subst et. apply upto_press_rel_head.
    - rewrite Htp in Epo. inversion Epo as [[E1 E2]]. apply app_inv_head in E1. subst et. apply upto_press_head. }
  exists (e1 ++ ec ++ ep ++ et), s2.
  assert (Hup : forall rest, upto_press t (e1 ++ (ec ++ (ep ++ et)) ++ rest) = Some (e1 ++ ec ++ ep ++ et)).
  { intros rest.
    rewrite upto_press_app by (apply all_released_not_press; exact Hr1).
    rewrite <- !app_assoc.
    rewrite upto_press_app by (apply all_released_not_press; exact Hrc).
    rewrite upto_press_app.
    - rewrite Hup_et. reflexivity.
    - intros e He E. subst e. destruct (Hevp _ He) as [[]|Hk]. cbn [ev_key] in Hk. exact (Htts Hk). }
  split.
  { destruct (m_repeat m); cbn [fst].
    - rewrite <- (app_nil_r (ec ++ ep ++ et)) at 1. apply Hup.
    - apply Hup.
    - apply Hup. }
  split.
  { eapply tr_ok_app; [exact T0|]. eapply tr_ok_app; [exact Tc|]. eapply tr_ok_app; [exact Tp | exact Tt]. }
  split.
  { intros d Hd. unfold held_of. apply in_or_app. right. apply Hm2.
    rewrite Emt in Hd. apply in_app_or in Hd.
    destruct Hd as [Hd|[Hd|[]]]; [left; apply Hmp; right; exact Hd | right; symmetry; exact Hd]. }
  split.
  { intros d Hd. rewrite Hp2, Hpp, Hpc in Hd. apply filter_In in Hd. destruct Hd as [Hd Hn].
    rewrite Hps0 in Hd. apply Hp1 in Hd. split; [exact Hd|].
    apply negb_true_iff, orb_false_iff in Hn. destruct Hn as [N1 N2]. split; apply mem_false; assumption. }
  { intros d Hd. apply Hm2 in Hd. destruct Hd as [Hd|Hd]; [|left; subst; apply last_opt_In; exact Hlast].
    apply Hmp in Hd. destruct Hd as [Hd|Hd]; [|left; apply Hts; exact Hd].
    rewrite Hmc in Hd. apply in_app_or in Hd. destruct Hd as [Hd|Hd].
    - right. rewrite Hms0 in Hd. apply Hm1 in Hd. exact Hd.
    - left. apply filter_In in Hd. apply mem_In. tauto. }
Qed.

(* the theorem behind C04 *)
Lemma no_stale_modifiers L h k m t :
  wf_layout L -> noabs L -> mem k (phys_of h) = false ->
  spec_choice L (phys_of h) k = Some m ->
  is_action_mapping is_action m = true -> last_opt (m_to m) = Some t ->
  exists pre,
    upto_press t (fst (fst (step is_action L (state_of is_action L h) (Pressed k)))) = Some pre
    /\ let at_press := apply_evs (held_all is_action L h) pre in
       (forall d, In d (m_to m) -> In d at_press)
       /\ (forall d, In d at_press -> is_action d = false -> ~ In d (m_to m) ->
             c04_ok_other is_action L (phys_of (h ++ [IEv (Pressed k)])) m d = true).
Proof.
  intros Hwf Hna Hk Hch Ham Hlast.
  destruct (run_facts is_action L h Hwf) as [I _].
  destruct (noabs_state is_action L h Hwf Hna) as [Hc Hse].
  set (s := state_of is_action L h) in *.
  assert (Hki : mem k (inp s) = false) by (rewrite (mem_seteq _ _ k Hse); exact Hk).
  assert (Hf : fired L s k = Some m) by (rewrite (fired_eq_choice L s k (phys_of h) Hwf Hc Hse Hk); exact Hch).
  destruct (fired_some_facts is_action L s k m Hki Hf) as [HmL _].
  cbn [step]. rewrite Hki, (newly_press_fired_some is_action L s k m Hki Hf). cbn [fst].
  assert (Habp : absd (pre_press s k) = []).
  { unfold pre_press. cbn [absd set_rtrig set_absd]. rewrite (proj1 Hc). reflexivity. }
  destruct (final_press_state L (pre_press s k) k m t (Inv_pre_press L s k I) Habp (Hwf m HmL) Ham Hlast)
    as [pre [s2 [Hup [Ttr [Hall [Hpass Hmout]]]]]].
  exists pre. split; [exact Hup|]. cbn zeta.
  assert (Hat : seteq (apply_evs (held_all is_action L h) pre) (held_of s2)).
  { eapply seteq_trans; [apply apply_evs_seteq; apply (held_all_seteq is_action L h Hwf)|]. exact (proj2 Ttr). }
  split.
  - intros d Hd. apply Hat. apply Hall. exact Hd.
  - intros d Hd Hda Hnt. apply Hat in Hd. unfold held_of in Hd. apply in_app_or in Hd.
    unfold c04_ok_other. apply orb_true_iff.
    assert (Hphys : forall x, In x (inp s) -> In x (phys_of (h ++ [IEv (Pressed k)]))).
    { intros x Hx. rewrite phys_of_snoc. cbn [phys_after]. apply In_apply_ev_press. left. apply Hse. exact Hx. }
    destruct Hd as [Hd|Hd].
    + left. destruct (Hpass d Hd) as [Hp [Hnf _]]. apply andb_true_iff. split.
      * apply mem_In. apply Hphys. apply (i_pass_inp _ _ I). exact Hp.
      * apply negb_true_iff, mem_false. exact Hnf.
    + right. destruct (Hmout d Hd) as [Hd'|[Hmo Hnr]]; [contradiction|].
      change (mout (pre_press s k)) with (mout s) in Hmo.
      change (ram_keys is_action (pre_press s k)) with (ram_keys is_action s) in Hnr.
      destruct (i_mout _ _ I d Hmo) as [m' [Hm' Hdm']].
      apply existsb_exists. exists m'. split; [apply (i_act _ _ I); exact Hm'|].
      apply andb_true_iff. split; [apply andb_true_iff; split; [apply mem_In; exact Hdm'|]|].
      * (* m' is a modifier-remapping: otherwise d would have been released by release_action_mappings *)
        unfold modifier_remapping. destruct (last_opt (m_to m')) as [x|] eqn:El.
        -- destruct (is_action x) eqn:Ex; [|reflexivity]. exfalso. apply Hnr.
           unfold ram_keys. apply In_dedup. apply in_flat_map. exists m'. split; [exact Hm'|].
           unfold ram_one, is_action_mapping. rewrite El, Ex.
           assert (Hlen : (1 <? length (m_to m'))%nat = true).
           { apply Nat.ltb_lt. destruct (m_to m') as [|a [|b r]] eqn:Em; cbn [length]; try lia.
             - destruct Hdm'.
             - cbn [last_opt] in El. inversion El. subst a. destruct Hdm' as [E|[]]. subst d. congruence. }
           assert (Hany : is_any_modifier is_action (m_to m') = true).
           { unfold is_any_modifier. apply existsb_exists. exists d. split; [exact Hdm' | rewrite Hda; reflexivity]. }
           rewrite Hlen, Hany. cbn [andb]. apply filter_In. split; [apply in_rev; rewrite rev_involutive; exact Hdm' | apply mem_In; exact Hmo].
        -- apply last_opt_none in El. rewrite El in Hdm'. destruct Hdm'.
      * apply subset_incl. intros x Hx. apply Hphys. apply (proj2 (i_act _ _ I m' Hm')). exact Hx.
Qed.

End S.
