(* LoopDeviceLemmas.v — the device-level monitor (LoopDevice.v) never fires on
   a transcript of Loop.run, and what a firing means. *)
From TM Require Import Base ListFacts Mapper Monitors Trace TraceLemmas MapperInv MapperProps
                       Loop LoopEnv LoopSpec LoopLemmas LoopSends LoopTablet LoopDevice.
From Coq Require Import Lia.

Local Notation len := List.length.

Lemma dev_seteqb_seteq a b : dev_seteqb a b = true <-> seteq a b.
Proof.
  unfold dev_seteqb. rewrite andb_true_iff, !subset_incl. unfold seteq, incl. split.
  - intros [H1 H2] k. split; [apply H1 | apply H2].
  - intros H. split; intros k Hk; apply H; exact Hk.
Qed.

Lemma pending_send_payload p : pending_send p = payload (pending p).
Proof. reflexivity. Qed.

Lemma acked_single x : apply_evs [] (acked [x]) = dev_after [] x /\ forall dev, apply_evs dev (acked [x]) = dev_after dev x.
Proof.
  assert (H : forall dev, apply_evs dev (acked [x]) = dev_after dev x).
  { intros dev. destruct x as [c r]. cbn [acked dev_after].
    destruct c; try reflexivity. destruct r; try reflexivity. rewrite app_nil_r. reflexivity. }
  split; [apply H | exact H].
Qed.

Section S.
Variable is_action : key -> bool.
Variable L : layout.

Notation state_of := (MapperProps.state_of is_action L).
Notation dev_check := (LoopDevice.dev_check is_action L).
Notation dev_next := (LoopDevice.dev_next is_action L).
Notation device_check := (LoopDevice.device_check is_action L).

(* the four components as functions of the transcript so far *)
Definition st_of (pre : list (call * resp)) : state := state_of (minputs false pre).
Definition tab_of (pre : list (call * resp)) : bool := tab_after false pre.
Definition phys_of_tr (pre : list (call * resp)) : list key := phys_of (minputs false pre).
Definition dev_of (pre : list (call * resp)) : list key := apply_evs [] (acked pre).

Lemma dev_next_snoc pre x :
  dev_next (st_of pre) (tab_of pre) (phys_of_tr pre) x
  = (st_of (pre ++ [x]), tab_of (pre ++ [x]), phys_of_tr (pre ++ [x])).
Proof.
  unfold LoopDevice.dev_next, st_of, tab_of, phys_of_tr.
  rewrite minputs_snoc, tab_after_snoc. unfold since_step.
  destruct (ekind_of x) as [e|b|].
  - destruct (tab_after false pre).
    + rewrite app_nil_r. reflexivity.
    + rewrite state_of_snoc, phys_of_snoc. reflexivity.
  - rewrite state_of_snoc, phys_of_snoc. reflexivity.
  - rewrite app_nil_r. reflexivity.
Qed.

Lemma dev_of_snoc pre x : dev_of (pre ++ [x]) = dev_after (dev_of pre) x.
Proof.
  unfold dev_of. rewrite acked_app, apply_evs_app. apply (proj2 (acked_single x)).
Qed.

(* every hit is a clause of the entry it names, computed from the transcript before it *)
Lemma dev_check_hit : forall tr pre n c,
  In (n, c) (dev_check (st_of pre) (tab_of pre) (phys_of_tr pre) (dev_of pre) (N.of_nat (len pre)) tr) ->
  exists i x,
    n = N.of_nat (len pre + i) /\ nth_error tr i = Some x
    /\ In c (entry_clauses (st_of (pre ++ firstn i tr)) (phys_of_tr (pre ++ firstn i tr))
                           (dev_of (pre ++ firstn i tr)) x).
Proof.
  induction tr as [|x tr IH]; intros pre n c Hin; [destruct Hin|].
  cbn [LoopDevice.dev_check] in Hin. apply in_app_or in Hin. destruct Hin as [Hin|Hin].
  - apply in_map_iff in Hin. destruct Hin as [c' [E Hc]]. inversion E; subst n c'.
    exists 0%nat, x. cbn [firstn nth_error]. rewrite app_nil_r, Nat.add_0_r.
    split; [reflexivity|]. split; [reflexivity | exact Hc].
  - rewrite dev_next_snoc, <- dev_of_snoc in Hin.
    replace (N.succ (N.of_nat (len pre))) with (N.of_nat (len (pre ++ [x]))) in Hin
      by (rewrite app_length; cbn [len]; lia).
    destruct (IH (pre ++ [x]) n c Hin) as [i [y [Hn [Hy Hc]]]].
    exists (S i), y. cbn [nth_error firstn].
    split; [rewrite Hn, app_length; cbn [len]; f_equal; lia|].
    split; [exact Hy|]. rewrite <- app_assoc in Hc. exact Hc.
Qed.

Lemma device_check_hit tr n c :
  In (n, c) (device_check tr) ->
  exists i x,
    n = N.of_nat i /\ nth_error tr i = Some x
    /\ In c (entry_clauses (st_of (firstn i tr)) (phys_of_tr (firstn i tr)) (dev_of (firstn i tr)) x).
Proof. intros H. exact (dev_check_hit tr [] n c H). Qed.

(* what a firing means: the statement of Pipeline.all_writes_match_mapper /
   C20_writes_match_mapper_state about the transcript before the entry, with
   the payload of the entry's call as the send being waited on, FAILS *)
Theorem device_check_hit_means tr n c :
  In (n, c) (device_check tr) ->
  exists i cl r,
    n = N.of_nat i /\ nth_error tr i = Some (cl, r)
    /\ let pre := firstn i tr in
       match c with
       | D_redundant => redundant (apply_evs [] (acked pre)) (payload cl) = true
       | D_step => ~ seteq (apply_evs [] (acked pre ++ payload cl)) (held_of (state_of (minputs false pre)))
       | D_stuck => phys_of (minputs false pre) = [] /\ apply_evs [] (acked pre ++ payload cl) <> []
       end.
Proof.
  intros H. destruct (device_check_hit tr n c H) as [i [[cl r] [Hn [Hx Hc]]]].
  exists i, cl, r. split; [exact Hn|]. split; [exact Hx|]. cbv zeta.
  unfold entry_clauses, st_of, phys_of_tr, dev_of in Hc. cbn [fst] in Hc.
  rewrite apply_evs_app.
  apply in_app_or in Hc. destruct Hc as [Hc|Hc].
  { destruct (redundant _ _) eqn:E; [|destruct Hc]. destruct Hc as [Ec|[]]. subst c. reflexivity. }
  apply in_app_or in Hc. destruct Hc as [Hc|Hc].
  { destruct (dev_seteqb _ _) eqn:E; [destruct Hc|]. destruct Hc as [Ec|[]]. subst c.
    intros Hs. apply dev_seteqb_seteq in Hs. rewrite Hs in E. discriminate E. }
  destruct (phys_of (minputs false (firstn i tr))) as [|p ps]; [|destruct Hc].
  destruct (apply_evs (apply_evs [] (acked (firstn i tr))) (payload cl)) as [|d ds]; [destruct Hc|].
  destruct Hc as [Ec|[]]. subst c. split; [reflexivity | discriminate].
Qed.

Lemma entry_clauses_nil st phys dev x :
  redundant dev (payload (fst x)) = false ->
  seteq (apply_evs dev (payload (fst x))) (held_of st) ->
  (phys = [] -> held_of st = []) ->
  entry_clauses st phys dev x = [].
Proof.
  intros Hr Hs Hp. unfold entry_clauses. rewrite Hr.
  rewrite (proj2 (dev_seteqb_seteq _ _) Hs). cbn [app].
  destruct phys as [|p ps]; [|reflexivity].
  rewrite (Hp eq_refl) in Hs. rewrite (seteq_nil_l _ Hs). reflexivity.
Qed.

(* the monitor never fires on the model's own transcripts *)
Theorem device_check_silent rs cs o :
  for_layout_ok L = true ->
  Loop.run is_action L rs = (cs, o) ->
  device_check (combine cs rs) = [].
Proof.
  intros Hok Hrun.
  assert (Hwf : wf_layout L) by (apply for_layout_ok_wf; exact Hok).
  destruct (device_check (combine cs rs)) as [|[n c] rest] eqn:E; [reflexivity|]. exfalso.
  assert (Hin : In (n, c) (device_check (combine cs rs))) by (rewrite E; left; reflexivity).
  destruct (device_check_hit _ n c Hin) as [i [[cl r] [_ [Hx Hc]]]].
  destruct (entry_conf is_action L rs cs o i cl r Hrun Hx) as [x [Hconf [Hpend _]]].
  destruct (held_at is_action L Hwf rs cs o i x Hrun Hconf) as [HI [[Hred Hset] _]].
  destruct (state_at is_action L rs cs o i x Hrun Hconf) as [Hm _].
  rewrite pending_send_payload, Hpend in Hred, Hset.
  rewrite entry_clauses_nil in Hc; [destruct Hc| | |].
  - unfold dev_of. cbn [fst]. rewrite redundant_app in Hred. apply orb_false_iff in Hred. exact (proj2 Hred).
  - unfold dev_of, st_of. cbn [fst]. rewrite <- apply_evs_app, <- Hm. exact Hset.
  - unfold phys_of_tr, st_of. intros Hp.
    destruct (run_facts is_action L (minputs false (firstn i (combine cs rs))) Hwf) as [I [_ Hinp]].
    rewrite Hp in Hinp.
    assert (Hi : inp (state_of (minputs false (firstn i (combine cs rs)))) = []).
    { destruct (inp _) as [|y t]; [reflexivity|]. exfalso. exact (Hinp y (or_introl eq_refl)). }
    destruct (Inv_inp_nil L _ Hwf I Hi) as [_ [Hpa Hmo]].
    unfold held_of. rewrite Hpa, Hmo. reflexivity.
Qed.

Theorem device_clause_silent rs cs o :
  for_layout_ok L = true ->
  Loop.run is_action L rs = (cs, o) ->
  forall (n : N) (c : dclause), ~ In (n, c) (device_check (combine cs rs)).
Proof. intros Hok Hrun n c H. rewrite (device_check_silent rs cs o Hok Hrun) in H. destruct H. Qed.

(* ---------- the same at the level of events, configuration by configuration ---------- *)

(* In the configuration in which the k-th call is answered: the events of all
   sends acknowledged so far followed by the send being waited on *)
Definition written_at (cs : list call) (rs : list resp) (k : nat) (x : conf) : list event :=
  acked (firstn k (combine cs rs)) ++ pending_send (c_point x).

Theorem loop_device_events rs cs o k x :
  for_layout_ok L = true ->
  Loop.run is_action L rs = (cs, o) -> conf_at is_action L rs k = Some x ->
  redundant [] (written_at cs rs k x) = false
  /\ seteq (apply_evs [] (written_at cs rs k x))
           (held_all is_action L (minputs false (firstn k (combine cs rs))))
  /\ (phys_of (minputs false (firstn k (combine cs rs))) = [] -> apply_evs [] (written_at cs rs k x) = []).
Proof.
  intros Hok Hrun Hconf.
  assert (Hwf : wf_layout L) by (apply for_layout_ok_wf; exact Hok).
  destruct (held_at is_action L Hwf rs cs o k x Hrun Hconf) as [HI [[Hred Hset] _]].
  destruct (state_at is_action L rs cs o k x Hrun Hconf) as [Hm _].
  pose proof (held_all_seteq is_action L (minputs false (firstn k (combine cs rs))) Hwf) as Hall.
  fold (written_at cs rs k x) in Hred, Hset. rewrite Hm in Hset.
  assert (Hs : seteq (apply_evs [] (written_at cs rs k x))
                     (held_all is_action L (minputs false (firstn k (combine cs rs)))))
    by (eapply seteq_trans; [exact Hset | apply seteq_sym; exact Hall]).
  split; [exact Hred|]. split; [exact Hs|].
  intros Hp. apply seteq_nil_l.
  rewrite (no_stuck_keys is_action L _ Hwf Hp) in Hs. exact Hs.
Qed.

Theorem loop_device_no_redundant rs cs o k x :
  for_layout_ok L = true ->
  Loop.run is_action L rs = (cs, o) -> conf_at is_action L rs k = Some x ->
  redundant [] (written_at cs rs k x) = false.
Proof. intros Hok Hrun Hconf. exact (proj1 (loop_device_events rs cs o k x Hok Hrun Hconf)). Qed.

Theorem loop_device_held_is_mapper_held rs cs o k x :
  for_layout_ok L = true ->
  Loop.run is_action L rs = (cs, o) -> conf_at is_action L rs k = Some x ->
  seteq (apply_evs [] (written_at cs rs k x))
        (held_all is_action L (minputs false (firstn k (combine cs rs)))).
Proof. intros Hok Hrun Hconf. exact (proj1 (proj2 (loop_device_events rs cs o k x Hok Hrun Hconf))). Qed.

Theorem loop_device_no_stuck_keys rs cs o k x :
  for_layout_ok L = true ->
  Loop.run is_action L rs = (cs, o) -> conf_at is_action L rs k = Some x ->
  phys_of (minputs false (firstn k (combine cs rs))) = [] ->
  apply_evs [] (written_at cs rs k x) = [].
Proof. intros Hok Hrun Hconf. exact (proj2 (proj2 (loop_device_events rs cs o k x Hok Hrun Hconf))). Qed.

End S.
