(* LoopDevice.v — the device-level monitor of the event loop (definitions only;
   proofs: LoopDeviceLemmas.v; statements: Properties/C01.v, C02.v, C19.v).

   C01, C02 and C19 speak about what is held on the VIRTUAL KEYBOARD.  The
   mapper theorems establish them for the events the mapper returns; between
   the mapper and the device sits the event loop, which decides what is written
   (and can lose a batch, write it twice, or continue with another mapper).
   `device_check` runs over a transcript of the loop (answered calls with their
   answers, as recorded from the REAL loop by the loop engine) in one pass and
   keeps

     st    the SPECIFICATION mapper state for the inputs the transcript implies
           so far (LoopSpec.minputs: a key event read while the tablet switch is
           off is a step, every tablet event a release-all),
     tab   whether the tablet switch is on,
     phys  the keys physically held according to those inputs (C01's notion:
           MapperProps.phys_of),
     dev   the keys held on the device by the ACKNOWLEDGED sends so far.

   At entry k = (c, r), with evs the payload of c when c is a send (else none)
   and dev' the device after evs:
     D_redundant  evs presses a key that is down on the device or releases one
                  that is up                                           (C19)
     D_step       dev' is not the held set of the specification state: the
                  device is out of step with the mapper                (C02)
     D_stuck      no key is physically held and dev' is not empty      (C01)
   The device advances by evs only when the send is acknowledged (RUnit). *)
From TM Require Export Base Mapper Monitors Trace Loop LoopSpec.

Inductive dclause := D_redundant | D_step | D_stuck.

Definition payload (c : call) : list event := match c with CSend evs => evs | _ => [] end.

Definition dev_seteqb (a b : list key) : bool := subset a b && subset b a.

Definition dev_after (dev : list key) (x : call * resp) : list key :=
  match x with
  | (CSend evs, RUnit) => apply_evs dev evs
  | _ => dev
  end.

Section WithModifiers.
Variable is_action : key -> bool.
Variable L : layout.

Definition entry_clauses (st : state) (phys dev : list key) (x : call * resp) : list dclause :=
  let evs := payload (fst x) in
  let dev' := apply_evs dev evs in
  (if redundant dev evs then [D_redundant] else [])
  ++ (if dev_seteqb dev' (held_of st) then [] else [D_step])
  ++ (match phys, dev' with [], _ :: _ => [D_stuck] | _, _ => [] end).

(* what the entry means for the specification state, the switch and the
   physically held keys: exactly LoopSpec.minputs / tab_after, one entry at a time *)
Definition dev_next (st : state) (tab : bool) (phys : list key) (x : call * resp)
  : state * bool * list key :=
  match ekind_of x with
  | EKey e => if tab then (st, tab, phys)
              else (snd (mstep is_action L st (IEv e)), tab, phys_after phys (IEv e))
  | ETab b => (snd (mstep is_action L st IReleaseAll), b, phys_after phys IReleaseAll)
  | EOther => (st, tab, phys)
  end.

Fixpoint dev_check (st : state) (tab : bool) (phys dev : list key) (k : N) (tr : list (call * resp))
  : list (N * dclause) :=
  match tr with
  | [] => []
  | x :: tr' =>
    map (fun c => (k, c)) (entry_clauses st phys dev x)
    ++ (let '(st', tab', phys') := dev_next st tab phys x in
        dev_check st' tab' phys' (dev_after dev x) (N.succ k) tr')
  end.

Definition device_check (tr : list (call * resp)) : list (N * dclause) :=
  dev_check init false [] [] 0%N tr.

End WithModifiers.
