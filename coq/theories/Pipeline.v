(* Pipeline.v — the whole pipeline, bytes in -> bytes out.

   The bytes that arrive on the keyboard descriptor are decoded by the tool's
   reader (Wire.decode_stream), each key event is given to the mapper
   (Mapper.run), every non-empty step output is one `send` of the event loop
   (Loop.run, C10) and every send is one write(2) of Wire.encode_batch.
   `device_bytes_out` is that composition as ONE function of the layout and the
   input bytes; this file proves

     pipeline_bytes_prefix / pipeline_bytes
        the bytes the event loop writes are `bytes_of_events` of the key events
        it read - a prefix of what arrived - whatever the batching into
        wake-ups; once everything that arrived is read they are
        `device_bytes_out L s`;
     decode_concat_batches
        the reader, run on the concatenation of any number of written batches
        of known keys, returns exactly the events of the batches in order;
     decode_stream_keys_known
        the reader only ever returns keys of the key table;
     virtual_keyboard_sees_mapper_outputs
        for a layout the loader accepted, a program that reads the virtual
        keyboard with the same reader sees exactly the mapper's event sequence;
     no_stuck_keys_at_the_device (+ loop versions, with and without tablet
        events)  C01 carried through the codec: when the key events that
        arrived leave no key physically held, the events read back from the
        bytes written leave no key held on the virtual keyboard;
     all_writes_match_mapper / loop_device_in_step
        at every moment of every run, ALL bytes written so far (timer chords
        included) read back as a trace without redundant events to exactly
        the mapper's own held set, and to the empty set when no key is
        physically held;
     decode_stream_prefix / pipeline_bytes_byte_prefix
        what is written is device_bytes_out of a prefix of the bytes that
        arrived;
     pipeline_bytes_then_tablet_event
        a tablet event after the key events of s adds `device_bytes_tablet_on`
        (the release-all batch).

   `device_bytes_out` and `device_bytes_tablet_on` are extracted
   (coq/extract/Extract_realloop.v) and compared by ocaml/realloop_check.ml
   with the bytes the REAL loop with the REAL driver writes.

   Nothing new is modelled here: only compositions of Wire, Mapper, Loop. *)
From TM Require Import Base ListFacts Json RustOps Mapper Monitors Trace TraceLemmas MapperInv MapperProps
                       Serde Convert LoaderCheck KeyNames LoadedWf Wire WireSpec WireLemmas EndToEnd
                       Loop LoopEnv LoopSpec LoopLemmas LoopSends LoopEnvLemmas LoopProps LoopEndToEnd.
From TMGen Require Import KeyTable.
From Coq Require Import Lia.

Local Notation len := List.length.

(* ------------------------------------------------------------------ *)
(* definitions                                                         *)
(* ------------------------------------------------------------------ *)

(* what a sequence of sends puts on the virtual-keyboard descriptor: one
   write(2) of encode_batch per send *)
Definition bytes_of_sends (sends : list (list event)) : list N := concat (map encode_batch sends).

Section Defs.
Variable is_action : key -> bool.

(* the bytes for a sequence of mapper inputs (key events and release-all calls) *)
Definition bytes_of_inputs (L : layout) (h : list input) : list N :=
  bytes_of_sends (filter non_nil (fst (mrun is_action L init h))).

(* the bytes for a sequence of key events *)
Definition bytes_of_events (L : layout) (h : list event) : list N :=
  bytes_of_sends (filter non_nil (map fst (fst (Mapper.run is_action L init h)))).

(* bytes in -> bytes out *)
Definition device_bytes_out (L : layout) (s : list N) : list N :=
  bytes_of_events L (decode_stream s).

(* what a tablet-switch event adds after the key events of s: the release-all batch *)
Definition device_bytes_tablet_on (L : layout) (s : list N) : list N :=
  bytes_of_sends
    (filter non_nil
       (fst (mrun is_action L (snd (mrun is_action L init (map IEv (decode_stream s)))) [IReleaseAll]))).

End Defs.

(* ------------------------------------------------------------------ *)
(* lists                                                               *)
(* ------------------------------------------------------------------ *)

Lemma concat_filter_non_nil {A} (l : list (list A)) : concat (filter non_nil l) = concat l.
Proof.
  induction l as [|x l IH]; [reflexivity|].
  cbn [filter concat]. destruct x as [|a x]; cbn [non_nil].
  - exact IH.
  - cbn [concat]. rewrite IH. reflexivity.
Qed.

Lemma bytes_of_sends_app a b : bytes_of_sends (a ++ b) = bytes_of_sends a ++ bytes_of_sends b.
Proof. unfold bytes_of_sends. rewrite map_app, concat_app. reflexivity. Qed.

(* ------------------------------------------------------------------ *)
(* 2. the reader on a concatenation of written batches                 *)
(* ------------------------------------------------------------------ *)

Definition batch_items (b : list event) : list item := map inr b ++ [inl syn_raw].

Lemma items_stream_app a b : items_stream (a ++ b) = items_stream a ++ items_stream b.
Proof. unfold items_stream. rewrite map_app, concat_app. reflexivity. Qed.

Lemma items_events_app a b : items_events (a ++ b) = items_events a ++ items_events b.
Proof. unfold items_events. apply flat_map_app. Qed.

Lemma batch_items_ok b : known_batch b = true -> forall i, In i (batch_items b) -> item_ok i = true.
Proof.
  intros Hk i Hin. unfold batch_items in Hin. apply in_app_or in Hin. destruct Hin as [Hin | [E | []]].
  - apply in_map_iff in Hin. destruct Hin as [e [Ei He]]. subst i. cbn [item_ok].
    unfold known_batch in Hk. rewrite forallb_forall in Hk. exact (Hk e He).
  - subst i. exact syn_raw_ok.
Qed.

Lemma batches_as_items (batches : list (list event)) :
  (forall b, In b batches -> known_batch b = true) ->
  bytes_of_sends batches = items_stream (flat_map batch_items batches)
  /\ items_events (flat_map batch_items batches) = concat batches
  /\ (forall i, In i (flat_map batch_items batches) -> item_ok i = true).
Proof.
  induction batches as [|b batches IH]; intros Hall.
  - split; [reflexivity|]. split; [reflexivity|]. intros i [].
  - destruct IH as [IHs [IHe IHo]]; [intros b' Hb'; apply Hall; right; exact Hb'|].
    pose proof (Hall b (or_introl eq_refl)) as Hb.
    destruct (spec_batch_items b) as [Es Ee]. fold (batch_items b) in Es, Ee.
    cbn [flat_map]. split; [|split].
    + unfold bytes_of_sends in *. cbn [map concat]. rewrite items_stream_app, <- IHs, <- Es.
      rewrite encode_batch_shape by (apply known_batch_fits; exact Hb). reflexivity.
    + rewrite items_events_app, IHe, Ee. reflexivity.
    + intros i Hin. apply in_app_or in Hin. destruct Hin as [Hin|Hin].
      * exact (batch_items_ok b Hb i Hin).
      * exact (IHo i Hin).
Qed.

Theorem decode_concat_batches (batches : list (list event)) :
  (forall b, In b batches -> known_batch b = true) ->
  decode_stream (concat (map encode_batch batches)) = concat batches
  /\ decode_run (concat (map encode_batch batches)) = (concat batches, Drained).
Proof.
  intros Hall. destruct (batches_as_items batches Hall) as [Es [Ee Ho]].
  fold (bytes_of_sends batches).
  assert (H : decode_run (bytes_of_sends batches) = (concat batches, Drained)).
  { rewrite Es, <- Ee. apply decode_run_items. exact Ho. }
  split; [|exact H]. unfold decode_stream. rewrite H. reflexivity.
Qed.

(* ------------------------------------------------------------------ *)
(* 3a. the reader only returns keys of the key table                   *)
(* ------------------------------------------------------------------ *)

Lemma decode_buf_event_known buf e : decode_buf buf = BEvent e -> known_code (spec_key e) = true.
Proof.
  unfold decode_buf.
  destruct (nth_error buf 16) as [b16|]; [|discriminate].
  destruct (nth_error buf 17) as [b17|]; [|discriminate].
  destruct (nth_error buf 18) as [b18|]; [|discriminate].
  destruct (nth_error buf 19) as [b19|]; [|discriminate].
  destruct (nth_error buf 20) as [b20|]; [|discriminate].
  destruct (nth_error buf 21) as [b21|]; [|discriminate].
  destruct (nth_error buf 22) as [b22|]; [|discriminate].
  destruct (nth_error buf 23) as [b23|]; [|discriminate].
  cbv zeta. rewrite from_u16_known.
  destruct ((u16_from_le b16 b17 =? 1)%N && _); [|discriminate].
  destruct (known_code (u16_from_le b18 b19)) eqn:Ek; [|discriminate].
  destruct (_ =? 1)%Z; [intros H; inversion H; subst e; exact Ek|].
  destruct (_ =? 0)%Z; [intros H; inversion H; subst e; exact Ek | discriminate].
Qed.

Lemma flat_run_keys_known (reads : list (list N)) e :
  In e (fst (flat_run reads)) -> known_code (spec_key e) = true.
Proof.
  induction reads as [|got rest IH]; intros Hin.
  - destruct Hin.
  - cbn [flat_run] in Hin. destruct (decode_buf (fill_buf got)) as [| |e0] eqn:E.
    + destruct Hin.
    + apply IH. exact Hin.
    + destruct (flat_run rest) as [evs o]. cbn [fst] in *. destruct Hin as [E0|Hin].
      * subst e0. exact (decode_buf_event_known _ _ E).
      * apply IH. exact Hin.
Qed.

Theorem decode_stream_keys_known (s : list N) e :
  In e (decode_stream s) -> known_code (spec_key e) = true.
Proof. unfold decode_stream. rewrite decode_run_flat. apply flat_run_keys_known. Qed.

(* known_code (a code of the key table) and LoaderCheck.known_key (a key with a
   serde name) are the same predicate *)
Lemma serde_name_in_code (tbl : list (String.string * N * String.string)) k :
  existsb (N.eqb k) (map (fun e => snd (fst e)) tbl) = true -> serde_name_in tbl k <> None.
Proof.
  induction tbl as [|[[i c] sn] tbl IH]; cbn [map existsb serde_name_in fst snd]; intros H; [discriminate|].
  destruct (N.eqb c k) eqn:E; [discriminate|].
  rewrite N.eqb_sym, E in H. cbn [orb] in H. apply IH. exact H.
Qed.

Lemma known_code_key k : known_code k = true -> known_key k = true.
Proof.
  intros H. unfold known_key, serde_name.
  destruct (serde_name_in key_table k) as [s|] eqn:E; [reflexivity|].
  exfalso. exact (serde_name_in_code key_table k H E).
Qed.

Lemma known_code_iff_key k : known_code k = true <-> known_key k = true.
Proof. split; [apply known_code_key | apply known_key_code]. Qed.

Lemma decode_stream_known_keys (s : list N) e :
  In e (decode_stream s) -> known_key (ev_key e) = true.
Proof.
  intros H. apply known_code_key. change (ev_key e) with (spec_key e).
  exact (decode_stream_keys_known s e H).
Qed.

(* ------------------------------------------------------------------ *)
(* 3b. a prefix of the decoded events is the decoding of a prefix of    *)
(*     the bytes (whole records, then possibly one short read)          *)
(* ------------------------------------------------------------------ *)

Lemma reads_of_chunk (r rest : list N) : len r = 24%nat -> reads_of (r ++ rest) = r :: reads_of rest.
Proof.
  intros Hl. unfold reads_of at 1. cbn [input_event_size pred].
  rewrite (reads_aux_app r 23 [] rest Hl). reflexivity.
Qed.

Lemma reads_aux_small : forall (s : list N) (n : nat) (cur : list N),
  (len s <= n)%nat -> reads_aux n cur s = match cur ++ s with [] => [] | _ => [cur ++ s] end.
Proof.
  induction s as [|b s IH]; intros n cur Hl.
  - cbn [reads_aux]. rewrite app_nil_r. reflexivity.
  - cbn [reads_aux]. destruct n as [|n]; [cbn in Hl; lia|].
    rewrite IH by (cbn in Hl; lia). rewrite <- app_assoc. reflexivity.
Qed.

Lemma reads_of_small (s : list N) : (len s < 24)%nat -> reads_of s = match s with [] => [] | _ => [s] end.
Proof.
  intros Hl. unfold reads_of. cbn [input_event_size pred]. rewrite reads_aux_small by lia. reflexivity.
Qed.

Lemma decode_stream_chunk (r rest : list N) :
  len r = 24%nat ->
  decode_stream (r ++ rest) =
  match decode_buf (fill_buf r) with
  | BPanic => []
  | BEvent e => e :: decode_stream rest
  | BSkip => decode_stream rest
  end.
Proof.
  intros Hl. unfold decode_stream. rewrite !decode_run_flat, reads_of_chunk by exact Hl.
  cbn [flat_run]. destruct (decode_buf (fill_buf r)) as [| |e]; [reflexivity | reflexivity|].
  destruct (flat_run (reads_of rest)) as [evs o]. reflexivity.
Qed.

Lemma decode_stream_small (s : list N) : (len s < 24)%nat -> (len (decode_stream s) <= 1)%nat.
Proof.
  intros Hl. unfold decode_stream. rewrite decode_run_flat, reads_of_small by exact Hl.
  destruct s as [|b s]; [cbn; lia|].
  cbn [flat_run]. destruct (decode_buf (fill_buf (b :: s))); cbn; lia.
Qed.

(* every prefix of the decoded events is the decoding of a prefix of the bytes *)
Lemma decode_stream_prefix_aux : forall (n : nat) (s : list N), (len s <= n)%nat ->
  forall a b, decode_stream s = a ++ b -> exists s1 s2, s = s1 ++ s2 /\ decode_stream s1 = a.
Proof.
  induction n as [|n IH]; intros s Hn a b Hd.
  - destruct s; [|cbn in Hn; lia]. destruct a; [|discriminate Hd]. exists [], []. split; reflexivity.
  - destruct a as [|e a'].
    { exists [], s. split; reflexivity. }
    destruct (Nat.lt_ge_cases (len s) 24) as [Hs|Hs].
    + exists s, []. split; [rewrite app_nil_r; reflexivity|].
      pose proof (decode_stream_small s Hs) as H1. rewrite Hd in H1 |- *.
      destruct a'; [|cbn in H1; lia]. destruct b; [reflexivity | cbn in H1; lia].
    + assert (Hr : len (firstn 24 s) = 24%nat) by (rewrite firstn_length; lia).
      assert (Hrest : (len (skipn 24 s) <= n)%nat) by (rewrite skipn_length; lia).
      pose proof (firstn_skipn 24 s) as Hsplit.
      set (r := firstn 24 s) in *. set (rest := skipn 24 s) in *. clearbody r rest. subst s.
      rewrite (decode_stream_chunk _ _ Hr) in Hd.
      destruct (decode_buf (fill_buf r)) as [| |e0] eqn:E.
      * discriminate Hd.
      * destruct (IH _ Hrest _ _ Hd) as [t1 [t2 [Hs12 Hd1]]].
        exists (r ++ t1), t2. split.
        -- rewrite <- app_assoc, <- Hs12. reflexivity.
        -- rewrite (decode_stream_chunk _ _ Hr), E. exact Hd1.
      * cbn [app] in Hd. injection Hd as He Hd'. subst e0.
        destruct (IH _ Hrest _ _ Hd') as [t1 [t2 [Hs12 Hd1]]].
        exists (r ++ t1), t2. split.
        -- rewrite <- app_assoc, <- Hs12. reflexivity.
        -- rewrite (decode_stream_chunk _ _ Hr), E, Hd1. reflexivity.
Qed.

Lemma decode_stream_prefix (s : list N) (a b : list event) :
  decode_stream s = a ++ b -> exists s1 s2, s = s1 ++ s2 /\ decode_stream s1 = a.
Proof. apply (decode_stream_prefix_aux (len s) s (Nat.le_refl _)). Qed.

(* ------------------------------------------------------------------ *)
(* the mapper                                                          *)
(* ------------------------------------------------------------------ *)

Lemma input_keys_IEv (h : list event) : input_keys (map IEv h) = map ev_key h.
Proof.
  induction h as [|e h IH]; [reflexivity|].
  unfold input_keys in *. cbn [map flat_map key_of_input app]. rewrite IH. reflexivity.
Qed.

(* physically held after key events only = the held-set fold over them *)
Lemma phys_of_key_events (h : list event) : phys_of (map IEv h) = apply_evs [] h.
Proof.
  unfold phys_of, phys_all, apply_evs. generalize (@nil key) as p.
  induction h as [|e h IH]; intros p; [reflexivity|].
  cbn [map fold_left phys_after]. apply IH.
Qed.

(* ---------- every byte written, timer chords included ---------- *)

(* the payloads of the acknowledged sends of a transcript, one batch per send *)
Fixpoint acked_sends (tr : list (call * resp)) : list (list event) :=
  match tr with
  | [] => []
  | (CSend evs, RUnit) :: tr' => evs :: acked_sends tr'
  | _ :: tr' => acked_sends tr'
  end.

(* the send the loop is waiting on, if any *)
Definition pending_sends (p : point) : list (list event) :=
  match pending p with CSend evs => [evs] | _ => [] end.

Lemma concat_acked_sends tr : concat (acked_sends tr) = acked tr.
Proof.
  induction tr as [|[c r] tr IH]; [reflexivity|].
  cbn [acked_sends acked]. destruct c; try exact IH. destruct r; try exact IH.
  cbn [concat]. rewrite IH. reflexivity.
Qed.

Lemma concat_pending_sends p : concat (pending_sends p) = pending_send p.
Proof. unfold pending_sends, pending_send. destruct (pending p); try reflexivity. cbn. apply app_nil_r. Qed.

Lemma acked_sends_in tr evs : In evs (acked_sends tr) -> In (CSend evs, RUnit) tr.
Proof.
  induction tr as [|[c r] tr IH]; intros H; [destruct H|].
  cbn [acked_sends] in H.
  destruct c; try (right; apply IH; exact H). destruct r; try (right; apply IH; exact H).
  destruct H as [E|H]; [subst; left; reflexivity | right; apply IH; exact H].
Qed.

Lemma In_firstn {A} (x : A) n l : In x (firstn n l) -> In x l.
Proof. intros H. rewrite <- (firstn_skipn n l). apply in_or_app. left. exact H. Qed.

Section S.
Variable is_action : key -> bool.

Notation mrun := (MapperInv.mrun is_action).
Notation bytes_of_inputs := (bytes_of_inputs is_action).
Notation bytes_of_events := (bytes_of_events is_action).
Notation device_bytes_out := (device_bytes_out is_action).

Lemma bytes_of_events_inputs L h : bytes_of_events L h = bytes_of_inputs L (map IEv h).
Proof.
  unfold Pipeline.bytes_of_events, Pipeline.bytes_of_inputs.
  rewrite (proj1 (mrun_IEv is_action L h init)). reflexivity.
Qed.

Lemma device_bytes_out_inputs L s :
  device_bytes_out L s = bytes_of_inputs L (map IEv (decode_stream s)).
Proof. unfold Pipeline.device_bytes_out. apply bytes_of_events_inputs. Qed.

(* every batch the mapper emits on a layout that passes the loader's check, for
   inputs over known keys, is a batch of known keys (EndToEnd.output_keys) *)
Lemma mapper_batches_known L h :
  wf_basic L = true ->
  (forall k, In k (input_keys h) -> known_key k = true) ->
  forall b, In b (fst (mrun L init h)) -> known_batch b = true.
Proof.
  intros Hwfb Hin b Hb.
  assert (Hok : for_layout_ok L = true) by (apply wf_basic_for_layout_ok; exact Hwfb).
  assert (Hwf : wf_layout L) by (apply for_layout_ok_wf; exact Hok).
  unfold known_batch. apply forallb_forall. intros ev Hev.
  assert (Hout : In ev (out_all is_action L h)).
  { unfold out_all. apply in_concat. exists b. split; assumption. }
  change (spec_key ev) with (ev_key ev).
  apply known_key_code.
  destruct (output_keys is_action L Hwf h ev Hout) as [H|[m [Hm Hx]]]; [apply Hin; exact H|].
  unfold wf_basic in Hwfb. rewrite forallb_forall in Hwfb. specialize (Hwfb m Hm).
  unfold wf_basic_mapping in Hwfb. rewrite !andb_true_iff in Hwfb.
  destruct Hwfb as [[[[[[[_ _] _] _] Hto] _] _] _]. rewrite forallb_forall in Hto. apply Hto. exact Hx.
Qed.

(* reading back what is written for any mapper history over known keys *)
Lemma decode_bytes_of_inputs L h :
  wf_basic L = true ->
  (forall k, In k (input_keys h) -> known_key k = true) ->
  decode_stream (bytes_of_inputs L h) = out_all is_action L h
  /\ decode_run (bytes_of_inputs L h) = (out_all is_action L h, Drained).
Proof.
  intros Hwfb Hin. unfold Pipeline.bytes_of_inputs, bytes_of_sends, out_all.
  rewrite <- (concat_filter_non_nil (fst (mrun L init h))).
  apply decode_concat_batches. intros b Hb. apply filter_In in Hb. destruct Hb as [Hb _].
  exact (mapper_batches_known L h Hwfb Hin b Hb).
Qed.

Lemma stream_input_keys_known s :
  forall k, In k (input_keys (map IEv (decode_stream s))) -> known_key k = true.
Proof.
  intros k Hk. rewrite input_keys_IEv in Hk. apply in_map_iff in Hk. destruct Hk as [e [Ek He]]. subst k.
  exact (decode_stream_known_keys s e He).
Qed.

Lemma out_all_key_events L h :
  out_all is_action L (map IEv h) = concat (map fst (fst (Mapper.run is_action L init h))).
Proof. unfold out_all. rewrite (proj1 (mrun_IEv is_action L h init)). reflexivity. Qed.

(* ---------- 3. the virtual keyboard sees the mapper's outputs ---------- *)

Theorem virtual_keyboard_sees_mapper_outputs_wf L s :
  wf_basic L = true ->
  decode_stream (device_bytes_out L s)
  = concat (map fst (fst (Mapper.run is_action L init (decode_stream s))))
  /\ decode_run (device_bytes_out L s)
     = (concat (map fst (fst (Mapper.run is_action L init (decode_stream s)))), Drained).
Proof.
  intros Hwfb. rewrite device_bytes_out_inputs, <- out_all_key_events.
  apply decode_bytes_of_inputs; [exact Hwfb | apply stream_input_keys_known].
Qed.

Theorem virtual_keyboard_sees_mapper_outputs (j : json) L s :
  load j = Ok L ->
  decode_stream (device_bytes_out L s)
  = concat (map fst (fst (Mapper.run is_action L init (decode_stream s))))
  /\ decode_run (device_bytes_out L s)
     = (concat (map fst (fst (Mapper.run is_action L init (decode_stream s)))), Drained).
Proof.
  intros Hload. apply virtual_keyboard_sees_mapper_outputs_wf. eapply loaded_is_wf_basic. exact Hload.
Qed.

(* ---------- 4. no stuck keys at the device ---------- *)

(* for any mapper history over known keys *)
Lemma no_stuck_keys_in_bytes L h :
  wf_basic L = true ->
  (forall k, In k (input_keys h) -> known_key k = true) ->
  phys_of h = [] ->
  apply_evs [] (decode_stream (bytes_of_inputs L h)) = [].
Proof.
  intros Hwfb Hin Hp. rewrite (proj1 (decode_bytes_of_inputs L h Hwfb Hin)).
  apply (no_stuck_keys is_action L h); [|exact Hp].
  apply for_layout_ok_wf. apply wf_basic_for_layout_ok. exact Hwfb.
Qed.

Theorem no_stuck_keys_at_the_device (j : json) L s :
  load j = Ok L ->
  phys_of (map IEv (decode_stream s)) = [] ->
  apply_evs [] (decode_stream (device_bytes_out L s)) = [].
Proof.
  intros Hload Hp. rewrite device_bytes_out_inputs.
  apply no_stuck_keys_in_bytes; [eapply loaded_is_wf_basic; exact Hload | apply stream_input_keys_known | exact Hp].
Qed.

(* ---------- 1. the event loop: bytes written = function of the events read ---------- *)

(* any run, tablet events included *)
Theorem loop_bytes_are_bytes_of_inputs L rs cs o :
  Loop.run is_action L rs = (cs, o) ->
  bytes_of_sends (msends false cs rs) = bytes_of_inputs L (minputs false (combine cs rs)).
Proof.
  intros Hrun. unfold Pipeline.bytes_of_inputs.
  rewrite (sends_are_mapper_outputs is_action L rs cs o Hrun). reflexivity.
Qed.

(* without tablet events *)
Theorem loop_bytes_are_bytes_of_events L rs cs o :
  Loop.run is_action L rs = (cs, o) -> no_tab_event rs ->
  bytes_of_sends (msends false cs rs) = bytes_of_events L (kbd_reads (combine cs rs)).
Proof.
  intros Hrun Hno. unfold Pipeline.bytes_of_events.
  rewrite (sends_are_step_outputs is_action L rs cs o Hrun Hno). reflexivity.
Qed.

Theorem pipeline_bytes_prefix L rs cs o s kends tb tends t0 e' :
  Loop.run is_action L rs = (cs, o) -> no_tab_event rs ->
  epath (env0 (decode_stream s) kends tb tends t0) (combine cs rs) e' ->
  exists unread,
    decode_stream s = kbd_reads (combine cs rs) ++ unread
    /\ bytes_of_sends (msends false cs rs) = bytes_of_events L (kbd_reads (combine cs rs))
    /\ (unread = [] -> bytes_of_sends (msends false cs rs) = device_bytes_out L s).
Proof.
  intros Hrun Hno Hp.
  destruct (chunking_independence is_action L rs cs o _ kends tb tends t0 e' Hrun Hno Hp) as [unread [Hh _]].
  exists unread. split; [exact Hh|].
  pose proof (loop_bytes_are_bytes_of_events L rs cs o Hrun Hno) as Hb.
  split; [exact Hb|]. intros Hu. subst unread. rewrite app_nil_r in Hh.
  unfold Pipeline.device_bytes_out. rewrite Hh. exact Hb.
Qed.

Theorem pipeline_bytes L rs cs o s kends tb tends t0 e' :
  Loop.run is_action L rs = (cs, o) -> no_tab_event rs ->
  epath (env0 (decode_stream s) kends tb tends t0) (combine cs rs) e' ->
  kbd_reads (combine cs rs) = decode_stream s ->
  concat (map encode_batch (msends false cs rs)) = device_bytes_out L s.
Proof.
  intros Hrun Hno Hp Hall.
  destruct (pipeline_bytes_prefix L rs cs o s kends tb tends t0 e' Hrun Hno Hp) as [unread [Hh [_ Hb]]].
  apply Hb. rewrite Hall in Hh.
  rewrite <- (app_nil_r (decode_stream s)) in Hh at 1. apply app_inv_head in Hh. symmetry. exact Hh.
Qed.

(* the same, on the bytes: what is written is device_bytes_out of a prefix of
   the bytes that arrived *)
Theorem pipeline_bytes_byte_prefix L rs cs o s kends tb tends t0 e' :
  Loop.run is_action L rs = (cs, o) -> no_tab_event rs ->
  epath (env0 (decode_stream s) kends tb tends t0) (combine cs rs) e' ->
  exists s1 s2,
    s = s1 ++ s2
    /\ kbd_reads (combine cs rs) = decode_stream s1
    /\ concat (map encode_batch (msends false cs rs)) = device_bytes_out L s1.
Proof.
  intros Hrun Hno Hp.
  destruct (pipeline_bytes_prefix L rs cs o s kends tb tends t0 e' Hrun Hno Hp) as [unread [Hh [Hb _]]].
  destruct (decode_stream_prefix s _ _ Hh) as [s1 [s2 [Hs Hd]]].
  exists s1, s2. split; [exact Hs|]. split; [symmetry; exact Hd|].
  unfold Pipeline.device_bytes_out. rewrite Hd. exact Hb.
Qed.

(* the statement of Properties/C10.v: C10_bytes_out_depend_only_on_events_read *)
Theorem bytes_out_depend_only_on_events_read L rs cs o s kends tb tends t0 e' :
  Loop.run is_action L rs = (cs, o) -> no_tab_event rs ->
  epath (env0 (decode_stream s) kends tb tends t0) (combine cs rs) e' ->
  (exists s1 s2,
     s = s1 ++ s2
     /\ kbd_reads (combine cs rs) = decode_stream s1
     /\ concat (map encode_batch (msends false cs rs)) = device_bytes_out L s1)
  /\ (kbd_reads (combine cs rs) = decode_stream s ->
      concat (map encode_batch (msends false cs rs)) = device_bytes_out L s).
Proof.
  intros Hrun Hno Hp. split.
  - exact (pipeline_bytes_byte_prefix L rs cs o s kends tb tends t0 e' Hrun Hno Hp).
  - exact (pipeline_bytes L rs cs o s kends tb tends t0 e' Hrun Hno Hp).
Qed.

(* a tablet event after the key events of s: the bytes are device_bytes_out
   followed by the release-all batch *)
Lemma bytes_of_inputs_app L h1 h2 :
  bytes_of_inputs L (h1 ++ h2)
  = bytes_of_inputs L h1
    ++ bytes_of_sends (filter non_nil (fst (mrun L (snd (mrun L init h1)) h2))).
Proof.
  unfold Pipeline.bytes_of_inputs. rewrite mrun_app. cbn [fst].
  rewrite filter_app, bytes_of_sends_app. reflexivity.
Qed.

Theorem pipeline_bytes_then_tablet_event L rs cs o s :
  Loop.run is_action L rs = (cs, o) ->
  minputs false (combine cs rs) = map IEv (decode_stream s) ++ [IReleaseAll] ->
  concat (map encode_batch (msends false cs rs))
  = device_bytes_out L s ++ Pipeline.device_bytes_tablet_on is_action L s.
Proof.
  intros Hrun Hin. fold (bytes_of_sends (msends false cs rs)).
  rewrite (loop_bytes_are_bytes_of_inputs L rs cs o Hrun), Hin, bytes_of_inputs_app.
  rewrite <- device_bytes_out_inputs. reflexivity.
Qed.

(* ---------- 4, loop versions ---------- *)

(* ANY run (tablet events, time-outs, errors anywhere) on a layout passing the
   loader's check, key events read over known keys: if the inputs the
   transcript implies for the mapper leave no key physically held, the events
   read back from the bytes of the mapper sends leave no key held *)
Theorem loop_no_stuck_keys_general L rs cs o :
  wf_basic L = true ->
  Loop.run is_action L rs = (cs, o) ->
  (forall e, In e (kbd_reads (combine cs rs)) -> known_key (ev_key e) = true) ->
  phys_of (minputs false (combine cs rs)) = [] ->
  apply_evs [] (decode_stream (bytes_of_sends (msends false cs rs))) = [].
Proof.
  intros Hwfb Hrun Hkeys Hp. rewrite (loop_bytes_are_bytes_of_inputs L rs cs o Hrun).
  apply no_stuck_keys_in_bytes; [exact Hwfb | | exact Hp].
  intros k Hk. destruct (minputs_keys _ _ _ Hk) as [e [He Ek]]. subst k. apply Hkeys. exact He.
Qed.

(* the environment delivers the decoded stream: the keys are known by themselves *)
Theorem loop_no_stuck_keys_tablet (j : json) L rs cs o s kends tb tends t0 e' :
  load j = Ok L ->
  Loop.run is_action L rs = (cs, o) ->
  epath (env0 (decode_stream s) kends tb tends t0) (combine cs rs) e' ->
  phys_of (minputs false (combine cs rs)) = [] ->
  apply_evs [] (decode_stream (concat (map encode_batch (msends false cs rs)))) = [].
Proof.
  intros Hload Hrun Hp Hphys.
  apply (loop_no_stuck_keys_general L rs cs o); [eapply loaded_is_wf_basic; exact Hload | exact Hrun | | exact Hphys].
  destruct (reads_are_history_prefix _ kends tb tends t0 _ e' Hp) as [rest Hrest].
  intros e He. apply (decode_stream_known_keys s). rewrite Hrest. apply in_or_app. left. exact He.
Qed.

Theorem loop_no_stuck_keys_at_the_device (j : json) L rs cs o s kends tb tends t0 e' :
  load j = Ok L ->
  Loop.run is_action L rs = (cs, o) -> no_tab_event rs ->
  epath (env0 (decode_stream s) kends tb tends t0) (combine cs rs) e' ->
  kbd_reads (combine cs rs) = decode_stream s ->
  phys_of (map IEv (decode_stream s)) = [] ->
  apply_evs [] (decode_stream (concat (map encode_batch (msends false cs rs)))) = [].
Proof.
  intros Hload Hrun Hno Hp Hall Hphys.
  rewrite (pipeline_bytes L rs cs o s kends tb tends t0 e' Hrun Hno Hp Hall).
  exact (no_stuck_keys_at_the_device j L s Hload Hphys).
Qed.

(* ---------- every byte written, at every moment of every run ---------- *)

(* In EVERY configuration of EVERY run (tablet events, time-outs with their
   timer chords, errors): the bytes of all acknowledged sends so far followed by
   the send being waited on, read back, are a trace without redundant events
   from nothing held to exactly the mapper's own held set; and nothing is held
   when the mapper inputs so far leave no key physically held. *)
Theorem all_writes_match_mapper L rs cs o k x :
  wf_basic L = true ->
  Loop.run is_action L rs = (cs, o) ->
  (forall e, In e (kbd_reads (combine cs rs)) -> known_key (ev_key e) = true) ->
  conf_at is_action L rs k = Some x ->
  let batches := acked_sends (firstn k (combine cs rs)) ++ pending_sends (c_point x) in
  decode_stream (bytes_of_sends batches) = concat batches
  /\ redundant [] (decode_stream (bytes_of_sends batches)) = false
  /\ seteq (apply_evs [] (decode_stream (bytes_of_sends batches))) (held_of (l_mapper (c_state x)))
  /\ (phys_of (minputs false (firstn k (combine cs rs))) = [] ->
      apply_evs [] (decode_stream (bytes_of_sends batches)) = []).
Proof.
  intros Hwfb Hrun Hkeys Hx batches.
  assert (Hok : for_layout_ok L = true) by (apply wf_basic_for_layout_ok; exact Hwfb).
  assert (Hwf : wf_layout L) by (apply for_layout_ok_wf; exact Hok).
  (* every batch is a send of the run, hence over known keys *)
  assert (Hcs : cs = fst (Loop.run is_action L rs)) by (rewrite Hrun; reflexivity).
  assert (Hknown : forall b, In b batches -> known_batch b = true).
  { intros b Hb.
    assert (Hi : exists i, nth_error cs i = Some (CSend b)).
    { subst batches. apply in_app_or in Hb. destruct Hb as [Hb|Hb].
      - apply acked_sends_in, In_firstn, in_combine_l in Hb. apply In_nth_error in Hb. exact Hb.
      - exists k. unfold pending_sends in Hb.
        pose proof (confs_call is_action L rs PRegister linit k x Hx) as Hc. fold (Loop.run is_action L rs) in Hc.
        rewrite <- Hcs in Hc. destruct (pending (c_point x)); cbn [In] in Hb; try contradiction.
        destruct Hb as [E|[]]. subst b. exact Hc. }
    destruct Hi as [i Hi]. destruct i as [|i].
    - exfalso. destruct (run_from_calls_hd is_action L PRegister linit rs) as [cs' Hhd].
      fold (Loop.run is_action L rs) in Hhd. rewrite <- Hcs in Hhd. rewrite Hhd in Hi. discriminate Hi.
    - exact (loop_sends_are_known_batches is_action L Hwfb Hok rs cs o i b Hrun Hkeys Hi). }
  assert (Hd : decode_stream (bytes_of_sends batches) = concat batches)
    by exact (proj1 (decode_concat_batches batches Hknown)).
  assert (Hc : concat batches = acked (firstn k (combine cs rs)) ++ pending_send (c_point x)).
  { subst batches. rewrite concat_app, concat_acked_sends, concat_pending_sends. reflexivity. }
  destruct (held_at is_action L Hwf rs cs o k x Hrun Hx) as [HI [[Hred Hset] _]].
  split; [exact Hd|]. rewrite Hd, Hc.
  split; [exact Hred|]. split; [exact Hset|].
  intros Hp.
  destruct (state_at is_action L rs cs o k x Hrun Hx) as [Hm _].
  apply seteq_nil_l.
  destruct (run_facts is_action L (minputs false (firstn k (combine cs rs))) Hwf) as [I [_ Hinp]].
  rewrite <- Hm in I, Hinp. rewrite Hp in Hinp.
  assert (Hi : inp (l_mapper (c_state x)) = []).
  { destruct (inp (l_mapper (c_state x))) as [|y t]; [reflexivity|]. exfalso. exact (Hinp y (or_introl eq_refl)). }
  destruct (Inv_inp_nil L _ Hwf I Hi) as [_ [Hpa Hmo]].
  unfold held_of in Hset. rewrite Hpa, Hmo in Hset. exact Hset.
Qed.


(* the environment delivers the decoded stream; the layout comes from the loader *)
Theorem loop_device_in_step (j : json) L rs cs o s kends tb tends t0 e' k x :
  load j = Ok L ->
  Loop.run is_action L rs = (cs, o) ->
  epath (env0 (decode_stream s) kends tb tends t0) (combine cs rs) e' ->
  conf_at is_action L rs k = Some x ->
  let batches := acked_sends (firstn k (combine cs rs)) ++ pending_sends (c_point x) in
  decode_stream (bytes_of_sends batches) = concat batches
  /\ redundant [] (decode_stream (bytes_of_sends batches)) = false
  /\ seteq (apply_evs [] (decode_stream (bytes_of_sends batches))) (held_of (l_mapper (c_state x)))
  /\ (phys_of (minputs false (firstn k (combine cs rs))) = [] ->
      apply_evs [] (decode_stream (bytes_of_sends batches)) = []).
Proof.
  intros Hload Hrun Hp Hx.
  apply (all_writes_match_mapper L rs cs o k x); [eapply loaded_is_wf_basic; exact Hload | exact Hrun | | exact Hx].
  destruct (reads_are_history_prefix _ kends tb tends t0 _ e' Hp) as [rest Hrest].
  intros e He. apply (decode_stream_known_keys s). rewrite Hrest. apply in_or_app. left. exact He.
Qed.

End S.
