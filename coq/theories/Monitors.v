(* Monitors.v — the properties as executable boolean checkers over one step of
   an OBSERVED run (definitions only).

   A checker looks at: the layout, the specification state (the model's state
   for the same input history, before and after the step), the set of keys
   physically held, the set of keys held on the output so far, the input and
   the OBSERVED outputs.  The theorems in Properties/ say that no checker ever
   fires when the observed outputs are the model's own; the correspondence
   engine applies the extracted checkers to the outputs of the real code. *)
From TM Require Export Mapper.

Inductive input := IEv (e : event) | IReleaseAll.

Inductive clause :=
| K_C01            (* nothing held on input, something held on output *)
| K_C02_justified  (* a held output key is neither physical nor a satisfied mapping's output *)
| K_C02_silenced   (* a key with a single-key mapping and in no output is held *)
| K_C02_release_presses (* a release input produced a press *)
| K_C02_trigger    (* trigger key of a mapping in effect held, no mapping in effect outputs it *)
| K_C03_fire       (* the spec's choice did not take effect as stated *)
| K_C03_pass       (* no mapping qualifies but the key was not passed through last / was emitted though mentioned *)
| K_C04_missing    (* a modifier of the mapping's output is not down at the final press *)
| K_C04_stale      (* an unjustified modifier is down at the final press *)
| K_C05_foreign    (* a foreign key pressed/released at the wrong time *)
| K_C05_empty      (* empty layout: output differs from input *)
| K_C05_scope      (* a release lifted an unrelated key or one a mapping in effect outputs *)
| K_C05_stay       (* an exclusive output of a mapping staying in effect was lifted *)
| K_C07_held       (* a non-modifier is held after a no-repeat mapping fired *)
| K_C07_pressed    (* an output key of the fired no-repeat mapping was not pressed *)
| K_C19.           (* press of a held key / release of an up key *)

(* ---------- sets of held keys as lists (order irrelevant) ---------- *)

Definition apply_ev (h : list key) (e : event) : list key :=
  match e with
  | Pressed k => if mem k h then h else h ++ [k]
  | Released k => remove_all k h
  end.

Definition apply_evs (h : list key) (evs : list event) : list key := fold_left apply_ev evs h.

Definition phys_after (p : list key) (i : input) : list key :=
  match i with IEv e => apply_ev p e | IReleaseAll => [] end.

Fixpoint redundant (h : list key) (evs : list event) : bool :=
  match evs with
  | [] => false
  | Pressed k :: t => mem k h || redundant (h ++ [k]) t
  | Released k :: t => negb (mem k h) || redundant (remove_all k h) t
  end.

Definition is_pressed (e : event) : bool := match e with Pressed _ => true | Released _ => false end.
Definition ev_eqb (a b : event) : bool :=
  match a, b with
  | Pressed x, Pressed y => N.eqb x y
  | Released x, Released y => N.eqb x y
  | _, _ => false
  end.
Definition has_ev (e : event) (evs : list event) : bool := existsb (ev_eqb e) evs.

Fixpoint list_eqb {A} (eqb : A -> A -> bool) (a b : list A) : bool :=
  match a, b with
  | [], [] => true
  | x :: a', y :: b' => eqb x y && list_eqb eqb a' b'
  | _, _ => false
  end.

Definition repeat_eqb (a b : repeat) : bool :=
  match a, b with
  | RNormal, RNormal => true
  | RDisabled, RDisabled => true
  | RSpecial k1 d1 i1, RSpecial k2 d2 i2 => list_eqb N.eqb k1 k2 && Z.eqb d1 d2 && Z.eqb i1 i2
  | _, _ => false
  end.

Definition mapping_eqb (a b : mapping) : bool :=
  list_eqb N.eqb (m_from a) (m_from b) && list_eqb N.eqb (m_to a) (m_to b)
  && repeat_eqb (m_repeat a) (m_repeat b) && list_eqb N.eqb (m_abs a) (m_abs b).

Definition rrepeat_eqb (a b : rrepeat) : bool :=
  match a, b with
  | RRDisabled, RRDisabled => true
  | RRNoChange, RRNoChange => true
  | RRRepeating k1 d1 i1, RRRepeating k2 d2 i2 => list_eqb N.eqb k1 k2 && Z.eqb d1 d2 && Z.eqb i1 i2
  | _, _ => false
  end.

(* ---------- layout-level notions ---------- *)

Definition has_absorbing (L : layout) : bool :=
  existsb (fun m => match m_abs m with [] => false | _ => true end) L.

Definition outputs_key (L : layout) (k : key) : bool := existsb (fun m => mem k (m_to m)) L.

Definition silenced (L : layout) (k : key) : bool :=
  existsb (fun m => list_eqb N.eqb (m_from m) [k]) L && negb (outputs_key L k).

Definition repeat_keys (m : mapping) : list key :=
  match m_repeat m with RSpecial ks _ _ => ks | _ => [] end.

(* k appears nowhere in the layout *)
Definition foreign (L : layout) (k : key) : bool :=
  negb (existsb (fun m => mem k (m_from m) || mem k (m_to m) || mem k (m_abs m) || mem k (repeat_keys m)) L).

Definition justified (L : layout) (phys : list key) (k : key) : bool :=
  mem k phys || existsb (fun m => mem k (m_to m) && subset (m_from m) phys) L.

(* C03's declarative choice: the last-listed mapping whose final trigger key
   is k and whose other trigger keys are all physically held *)
Definition spec_choice (L : layout) (phys : list key) (k : key) : option mapping :=
  find (fun m => has_final k m && subset (removelast (m_from m)) phys) (rev L).

Definition count_outputs (L : layout) (t : key) : nat :=
  length (filter (fun m => mem t (m_to m)) L).

Section WithModifiers.
Variable is_action : key -> bool.

Definition is_normal (m : mapping) : bool :=
  match m_repeat m with RNormal => true | _ => false end.

(* the mapping the specification fires at `Pressed k` from spec state s *)
Definition fired (L : layout) (s : state) (k : key) : option mapping :=
  if mem k (inp s) then None else
  let s1 := set_rtrig (set_absd s (remove_all k (absd s))) None in
  let absorbed := if should_absorb s1 k then absd s1 else [] in
  find (fun m => is_supported (m_from m) (inp s1) absorbed k) (rev (group_of L k)).

(* specification step over inputs (events and release-all) *)
Definition mstep (L : layout) (s : state) (i : input) : list event * option rrepeat * state :=
  match i with
  | IEv e => let '(evs, r, s') := step is_action L s e in (evs, Some r, s')
  | IReleaseAll => let '(evs, s') := release_all is_action L s in (evs, None, s')
  end.

(* events up to and including the first `Pressed t` *)
Fixpoint upto_press (t : key) (evs : list event) : option (list event) :=
  match evs with
  | [] => None
  | e :: r =>
    if ev_eqb e (Pressed t) then Some [e]
    else match upto_press t r with Some p => Some (e :: p) | None => None end
  end.

Definition modifier_remapping (m : mapping) : bool :=
  match last_opt (m_to m) with Some k => negb (is_action k) | None => false end.

Definition c04_ok_other (L : layout) (phys' : list key) (m : mapping) (d : key) : bool :=
  (mem d phys' && negb (mem d (m_from m)))
  || existsb (fun m' => mem d (m_to m') && modifier_remapping m' && subset (m_from m') phys') L.

(* all checkers for one observed step.
   s, s' : specification state before / after;  phys, held : before the step *)
Definition check_step (L : layout) (s s' : state) (phys held : list key)
           (i : input) (evs : list event) : list clause :=
  let phys' := phys_after phys i in
  let held' := apply_evs held evs in
  let c (b : bool) (k : clause) : list clause := if b then [k] else [] in
  c (redundant held evs) K_C19
  ++ c (match phys' with [] => negb (match held' with [] => true | _ => false end) | _ => false end) K_C01
  ++ c (negb (forallb (justified L phys') held')) K_C02_justified
  ++ c (existsb (silenced L) held') K_C02_silenced
  ++ c (match i with IEv (Released _) | IReleaseAll => existsb is_pressed evs | _ => false end) K_C02_release_presses
  ++ c (existsb (fun m => existsb (fun f => mem f held' && negb (still_used (act s') f)) (m_from m)) (act s')) K_C02_trigger
  ++ (match i with
      | IEv (Pressed k) =>
        if mem k phys then [] else
        (* a genuine physical press *)
        (if has_absorbing L then [] else
         match spec_choice L phys k with
         | Some m =>
           (* "by the end of that step every one of its output keys has been pressed (a non-modifier output key by an
              actual press event in that step)": a modifier output is down at the end, or was pressed in the step (a
              no-repeat mapping may lift its own modifiers again in the firing step; that they are down when the final
              key goes down is C04's clause, below) *)
           c (negb (forallb (fun t => if is_action t then has_ev (Pressed t) evs
                                       else mem t held' || has_ev (Pressed t) evs) (m_to m)
                    && (if is_normal m then subset (m_to m) held' else true))) K_C03_fire
           ++ (if is_action_mapping is_action m then
                 match last_opt (m_to m) with
                 | Some t =>
                   match upto_press t evs with
                   | Some pre =>
                     let at_press := apply_evs held pre in
                     c (negb (forallb (fun d => is_action d || mem d at_press) (m_to m))) K_C04_missing
                     ++ c (existsb (fun d => negb (is_action d) && negb (mem d (m_to m))
                                             && negb (c04_ok_other L phys' m d)) at_press) K_C04_stale
                   | None => [K_C03_fire]
                   end
                 | None => []
                 end
               else [])
         | None =>
           c (negb (if existsb (mentions k) (act s)
                    then match evs with [] => true | _ => false end
                    else match last_opt evs with Some e => ev_eqb e (Pressed k) | None => false end)) K_C03_pass
         end)
        ++ c (foreign L k && negb (Nat.eqb (length (filter (ev_eqb (Pressed k)) evs)) 1)) K_C05_foreign
        ++ (match fired L s k with
            | Some m =>
              if is_normal m then [] else
              c (existsb is_action held') K_C07_held
              ++ c (negb (forallb (fun t => negb (is_action t) || has_ev (Pressed t) evs) (m_to m))) K_C07_pressed
            | None => []
            end)
      | _ => []
      end)
  ++ (* foreign keys: pressed only by their own physical press, released only by
        their own release or (non-modifier) a firing no-repeat mapping; up after release *)
     c (existsb (fun e =>
          match e with
          | Pressed x =>
            foreign L x && negb (match i with IEv (Pressed k) => N.eqb k x && negb (mem k phys) | _ => false end)
          | Released x =>
            foreign L x
            && negb (match i with
                     | IEv (Released k) => N.eqb k x
                     | IReleaseAll => true
                     | IEv (Pressed k) =>
                       is_action x && match fired L s k with Some m => negb (is_normal m) | None => false end
                     end)
          end) evs
        || match i with IEv (Released k) => foreign L k && mem k held' | _ => false end) K_C05_foreign
  ++ c (match L with
        | [] => negb (list_eqb ev_eqb evs
                   (match i with
                    | IEv (Pressed k) => if mem k phys then [] else [Pressed k]
                    | IEv (Released k) => if mem k held then [Released k] else []
                    | IReleaseAll => map Released held
                    end))
        | _ => false end) K_C05_empty
  ++ (match i with
      | IEv (Released k) =>
        c (existsb (fun e => match e with
             | Released x =>
               negb (N.eqb x k || existsb (fun m => mem k (m_from m) && mem x (m_to m)) L)
               || still_used (act s') x
             | Pressed _ => false end) evs) K_C05_scope
      | _ => []
      end)
  ++ (if has_absorbing L then [] else
      match i with
      | IReleaseAll => []
      | IEv e =>
        let fires_norepeat :=
          match e with Pressed k => match fired L s k with Some m => negb (is_normal m) | None => false end
                     | _ => false end in
        c (existsb (fun m =>
             existsb (mapping_eqb m) (act s') &&
             existsb (fun t =>
               Nat.eqb (count_outputs L t) 1 && has_ev (Released t) evs &&
               ((modifier_remapping m && negb (is_action t))
                || (is_normal m && negb (is_any_modifier is_action (m_to m)) && negb fires_norepeat)))
               (m_to m)) (act s)) K_C05_stay
      end).

End WithModifiers.
