(* OdometerLemmas.v — MultiplyIter (the imperative odometer of
   fancy_layout_interpreting.rs) enumerates the cartesian product of index
   ranges, first component fastest, and never fails when every quantity is at
   least 1. *)
From TM Require Import Base Json RustOps Fancy Mapper Parser Convert RustOpsLemmas.
From Coq Require Import Lia Arith.

(* ---------- the enumeration it is supposed to produce ---------- *)

Fixpoint tuples (qs : list nat) : list (list nat) :=
  match qs with
  | [] => [[]]
  | q :: rest => flat_map (fun tl => map (fun x => x :: tl) (seq 0 q)) (tuples rest)
  end.

(* position p is a valid reading of the odometer *)
Definition valid_pos (qs pos : list nat) : Prop := Forall2 (fun p q => (p < q)%nat) pos qs.

(* the successor, written structurally *)
Fixpoint next_tuple (qs pos : list nat) : option (list nat) :=
  match qs, pos with
  | q :: qs', p :: ps =>
    if (p <? q - 1)%nat then Some (S p :: ps) else option_map (cons 0%nat) (next_tuple qs' ps)
  | _, _ => None
  end.

(* ---------- zero_prefix ---------- *)

Lemma zero_prefix_gen : forall (todo done rest : list nat),
  fold_res (fun p j => set_idx "MultiplyIter::next:position[j]=0" p j 0%nat)
           (seq (length done) (length todo)) (done ++ todo ++ rest)
  = Ok (done ++ List.repeat 0%nat (length todo) ++ rest).
Proof.
  induction todo as [|t todo IH]; intros done rest; cbn; [reflexivity|].
  rewrite set_idx_Ok by (rewrite app_length; cbn; lia). cbn [bind].
  assert (set_nth (done ++ t :: todo ++ rest) (length done) 0%nat = (done ++ [0%nat]) ++ todo ++ rest) as E.
  { clear IH. induction done as [|d done IHd]; cbn; [reflexivity|]. rewrite IHd. reflexivity. }
  rewrite E. specialize (IH (done ++ [0%nat]) rest). rewrite app_length in IH. cbn in IH.
  rewrite Nat.add_1_r in IH. rewrite IH. rewrite <- app_assoc. reflexivity.
Qed.

Lemma zero_prefix_spec : forall (pre rest : list nat),
  zero_prefix (pre ++ rest) (length pre) = Ok (List.repeat 0%nat (length pre) ++ rest).
Proof. intros. unfold zero_prefix. apply (zero_prefix_gen pre [] rest). Qed.

(* ---------- one call of next() ---------- *)

Lemma set_nth_app : forall {A} (pre : list A) x rest y, set_nth (pre ++ x :: rest) (length pre) y = pre ++ y :: rest.
Proof. induction pre as [|d pre IH]; intros; cbn; [reflexivity|]. rewrite IH. reflexivity. Qed.

Lemma mi_scan_gen : forall qs pos pre_q pre_p,
  length pre_q = length pre_p -> valid_pos qs pos ->
  mi_scan (pre_q ++ qs) (pre_p ++ pos) (seq (length pre_q) (length qs))
  = Ok (option_map (fun t => List.repeat 0%nat (length pre_q) ++ t) (next_tuple qs pos)).
Proof.
  induction qs as [|q qs IH]; intros pos pre_q pre_p Hlen Hv.
  - inversion Hv; subst. cbn. reflexivity.
  - inversion Hv as [|p q' ps qs' Hpq Hv']; subst. cbn [length seq mi_scan].
    unfold idx at 1. rewrite Hlen. rewrite nth_error_app2 by lia. rewrite Nat.sub_diag. cbn [nth_error bind].
    unfold idx at 1. rewrite <- Hlen. rewrite nth_error_app2 by lia. rewrite Nat.sub_diag. cbn [nth_error bind].
    rewrite usub_Ok by lia. cbn [bind next_tuple].
    destruct (p <? q - 1)%nat eqn:E.
    + rewrite set_idx_Ok by (rewrite app_length; cbn; lia). cbn [bind].
      rewrite Hlen. rewrite set_nth_app. rewrite zero_prefix_spec. cbn [bind option_map].
      rewrite Nat.add_1_r. reflexivity.
    + specialize (IH ps (pre_q ++ [q]) (pre_p ++ [p])).
      rewrite !app_length in IH. cbn in IH. rewrite <- !app_assoc in IH. cbn in IH.
      rewrite Nat.add_1_r in IH. rewrite IH by (auto; lia).
      destruct (next_tuple qs ps) as [t|]; cbn; [|reflexivity].
      f_equal. f_equal.
      clear. induction (length pre_q) as [|n IHn]; cbn; [reflexivity|]. f_equal. exact IHn.
Qed.

Lemma mi_next_spec : forall qs pos, valid_pos qs pos -> mi_next qs pos = Ok (next_tuple qs pos).
Proof.
  intros qs pos Hv. unfold mi_next. pose proof (mi_scan_gen qs pos [] [] eq_refl Hv) as H. cbn in H. rewrite H.
  destruct (next_tuple qs pos); reflexivity.
Qed.

Lemma next_tuple_valid : forall qs pos pos', valid_pos qs pos -> next_tuple qs pos = Some pos' -> valid_pos qs pos'.
Proof.
  induction qs as [|q qs IH]; intros pos pos' Hv H; inversion Hv as [|p q' ps qs' Hpq Hv']; subst; cbn [next_tuple] in H; [discriminate|].
  destruct (p <? q - 1)%nat eqn:E.
  - inversion H; subst. apply Nat.ltb_lt in E. constructor; [lia|exact Hv'].
  - destruct (next_tuple qs ps) as [t|] eqn:En; cbn in H; [|discriminate]. inversion H; subst.
    constructor; [lia|]. eapply IH; eauto.
Qed.

(* ---------- the whole enumeration ---------- *)

Inductive enum (qs : list nat) : list nat -> list (list nat) -> Prop :=
| enum_last : forall pos, next_tuple qs pos = None -> enum qs pos [pos]
| enum_step : forall pos pos' l, next_tuple qs pos = Some pos' -> enum qs pos' l -> enum qs pos (pos :: l).

Lemma seq_split_first : forall p n, (0 < n)%nat -> seq p n = p :: seq (S p) (n - 1).
Proof. intros p n H. destruct n; [lia|]. cbn. rewrite Nat.sub_0_r. reflexivity. Qed.

Lemma inner_last : forall q rest ps n p, next_tuple rest ps = None -> (q - p = S n)%nat ->
  enum (q :: rest) (p :: ps) (map (fun x => x :: ps) (seq p (q - p))).
Proof.
  intros q rest ps n. induction n as [|n IH]; intros p Hn Hd.
  - rewrite Hd. cbn [seq map]. apply enum_last. cbn [next_tuple]. replace (p <? q - 1)%nat with false by (symmetry; apply Nat.ltb_ge; lia).
    rewrite Hn. reflexivity.
  - rewrite (seq_split_first p (q - p)) by lia. cbn [map]. eapply enum_step.
    + cbn [next_tuple]. replace (p <? q - 1)%nat with true by (symmetry; apply Nat.ltb_lt; lia). reflexivity.
    + replace (q - p - 1)%nat with (q - S p)%nat by lia. apply IH; [exact Hn|lia].
Qed.

Lemma inner_step : forall q rest ps ps' l n p, next_tuple rest ps = Some ps' -> enum (q :: rest) (0%nat :: ps') l ->
  (q - p = S n)%nat ->
  enum (q :: rest) (p :: ps) (map (fun x => x :: ps) (seq p (q - p)) ++ l).
Proof.
  intros q rest ps ps' l n. induction n as [|n IH]; intros p Hn Hl Hd.
  - rewrite Hd. cbn [seq map app]. eapply enum_step; [|exact Hl]. cbn [next_tuple].
    replace (p <? q - 1)%nat with false by (symmetry; apply Nat.ltb_ge; lia). rewrite Hn. reflexivity.
  - rewrite (seq_split_first p (q - p)) by lia. cbn [map app]. eapply enum_step.
    + cbn [next_tuple]. replace (p <? q - 1)%nat with true by (symmetry; apply Nat.ltb_lt; lia). reflexivity.
    + replace (q - p - 1)%nat with (q - S p)%nat by lia. apply IH; [exact Hn|exact Hl|lia].
Qed.

Lemma enum_cons : forall q rest ps0 L, (0 < q)%nat -> enum rest ps0 L ->
  enum (q :: rest) (0%nat :: ps0) (flat_map (fun tl => map (fun x => x :: tl) (seq 0 q)) L).
Proof.
  intros q rest ps0 L Hq H. induction H as [pos Hn|pos pos' l Hn Hl IH].
  - cbn [flat_map]. rewrite app_nil_r.
    replace (seq 0 q) with (seq 0 (q - 0)) by (f_equal; lia).
    apply (inner_last q rest pos (q - 1) 0%nat Hn). lia.
  - cbn [flat_map].
    replace (seq 0 q) with (seq 0 (q - 0)) at 1 by (f_equal; lia).
    apply (inner_step q rest pos pos' _ (q - 1) 0%nat Hn IH). lia.
Qed.

Lemma enum_tuples : forall qs, Forall (fun q => (0 < q)%nat) qs -> enum qs (List.repeat 0%nat (length qs)) (tuples qs).
Proof.
  induction qs as [|q qs IH]; intro H.
  - cbn. apply enum_last. reflexivity.
  - inversion H; subst. cbn [length List.repeat tuples]. apply enum_cons; [assumption|]. apply IH. assumption.
Qed.

Lemma tuples_valid : forall qs t, In t (tuples qs) -> valid_pos qs t.
Proof.
  induction qs as [|q qs IH]; intros t H; cbn in H.
  - destruct H as [H|[]]. subst. constructor.
  - apply in_flat_map in H. destruct H as [tl [Htl H]]. apply in_map_iff in H. destruct H as [x [Hx Hin]].
    subst. apply in_seq in Hin. constructor; [lia|]. apply IH. exact Htl.
Qed.

Lemma tuples_length : forall qs, length (tuples qs) = product qs.
Proof.
  induction qs as [|q qs IH]; [reflexivity|].
  cbn [tuples product fold_right]. fold (product qs). rewrite <- IH. clear IH.
  induction (tuples qs) as [|t l IHl]; cbn [flat_map length]; [lia|].
  rewrite app_length, map_length, seq_length, IHl. lia.
Qed.

(* ---------- the `for tuple in iterate_combinations(..)` loop ---------- *)

Lemma comb_loop_enum : forall {St} qs (body : list nat -> St -> res St) l pos,
  enum qs pos l -> Forall (valid_pos qs) l ->
  forall fuel s, (length l <= fuel)%nat ->
  comb_loop fuel qs pos body s = fold_res (fun s t => body t s) l s.
Proof.
  intros St qs body l pos H. induction H as [pos Hn|pos pos' l Hn Hl IH]; intros Hv fuel s Hf.
  - destruct fuel as [|fuel]; [cbn in Hf; lia|]. cbn [comb_loop fold_res].
    inversion Hv; subst. rewrite mi_next_spec by assumption. rewrite Hn. cbn [bind].
    apply bind_ext. intros s' _. reflexivity.
  - destruct fuel as [|fuel]; [cbn in Hf; lia|]. cbn [comb_loop fold_res].
    inversion Hv; subst. rewrite mi_next_spec by assumption. rewrite Hn. cbn [bind].
    apply bind_ext. intros s' _. apply IH; [assumption|cbn in Hf; lia].
Qed.

(* the loop over all combinations is a plain loop over [tuples], provided every
   quantity is at least 1 (so `quantities[i]-1` cannot underflow) *)
Lemma for_combinations_spec : forall {St} (c : combos) (body : list nat -> St -> res St) s,
  Forall (fun q => (0 < q)%nat) (c_quant c) ->
  for_combinations c body s = fold_res (fun s t => body t s) (tuples (c_quant c)) s.
Proof.
  intros St c body s H. unfold for_combinations.
  apply comb_loop_enum.
  - apply enum_tuples. exact H.
  - apply Forall_forall. intros t Ht. apply tuples_valid. exact Ht.
  - rewrite tuples_length. lia.
Qed.
