(* MapperNoAbs.v — layouts without absorbing mappings: the absorbed-key
   bookkeeping stays empty and the mapper's view of the held keys is exactly the
   set of physically held keys (I6 with equality). *)
From TM Require Import Base ListFacts Mapper Monitors Trace TraceLemmas MapperInv MapperProps.

Definition noabs (L : layout) : Prop := forall m, In m L -> m_abs m = [].

Lemma has_absorbing_noabs L : has_absorbing L = false <-> noabs L.
Proof.
  unfold has_absorbing, noabs. split.
  - intros H m Hm. destruct (m_abs m) eqn:E; [reflexivity|]. exfalso.
    assert (existsb (fun m => match m_abs m with [] => false | _ => true end) L = true).
    { apply existsb_exists. exists m. split; [exact Hm|]. rewrite E. reflexivity. }
    congruence.
  - intros H. destruct (existsb _ L) eqn:E; [|reflexivity]. exfalso.
    apply existsb_exists in E. destruct E as [m [Hm Hx]]. rewrite (H m Hm) in Hx. discriminate.
Qed.

Definition clean (s : state) : Prop := absd s = [] /\ atrig s = None.

Section S.
Variable is_action : key -> bool.

Lemma release_all_fold_clean L : forall ks evs s,
  wf_layout L -> noabs L -> Inv L s -> clean s ->
  clean (snd (fold_left (release_all_one is_action L) ks (evs, s))).
Proof.
  induction ks as [|k t IH]; intros evs s Hwf Hna I Hc; cbn [fold_left]; [exact Hc|].
  rewrite release_all_one_eq.
  pose proof (step_inv is_action L s (Released k) Hwf I) as R. cbn zeta in R.
  destruct R as [I1 [_ [_ [_ Hcl]]]].
  apply IH; [exact Hwf | exact Hna | exact I1 |].
  destruct Hc as [C1 C2]. exact (proj1 Hcl Hna C1 C2).
Qed.

Lemma mstep_noabs L s i p :
  wf_layout L -> noabs L -> Inv L s -> clean s -> seteq (inp s) p ->
  clean (snd (mstep is_action L s i)) /\ seteq (inp (snd (mstep is_action L s i))) (phys_after p i).
Proof.
  intros Hwf Hna I [C1 C2] Hp. destruct i as [e|]; cbn [mstep phys_after].
  - pose proof (step_inv is_action L s e Hwf I) as R. cbn zeta in R.
    destruct (step is_action L s e) as [[evs rep] s']. cbn [fst snd] in *.
    destruct R as [_ [_ [Hsub [Hsup Hcl]]]].
    split; [exact (proj1 Hcl Hna C1 C2)|].
    intros x. split.
    + intros Hx. apply Hsub in Hx. apply (apply_ev_seteq _ _ e Hp). exact Hx.
    + intros Hx. apply (Hsup C1). apply (apply_ev_seteq _ _ e Hp). exact Hx.
  - pose proof (release_all_inv is_action L s Hwf I) as R. cbn zeta in R.
    pose proof (release_all_fold_clean L (inp s) [] s Hwf Hna I (conj C1 C2)) as Hc.
    unfold release_all in *.
    destruct (fold_left (release_all_one is_action L) (inp s) ([], s)) as [evs s']. cbn [fst snd] in *.
    destruct R as [_ [_ [_ [Hi _]]]]. split; [exact Hc|]. rewrite Hi. apply seteq_refl.
Qed.

Lemma noabs_run L : forall h s p,
  wf_layout L -> noabs L -> Inv L s -> clean s -> seteq (inp s) p ->
  clean (snd (mrun is_action L s h)) /\ seteq (inp (snd (mrun is_action L s h))) (phys_all p h).
Proof.
  induction h as [|i h IH]; intros s p Hwf Hna I Hc Hp; cbn [mrun].
  - cbn [snd phys_all fold_left]. split; assumption.
  - pose proof (mstep_noabs L s i p Hwf Hna I Hc Hp) as [Hc1 Hp1].
    pose proof (mstep_inv is_action L s i Hwf I) as R. cbn zeta in R.
    destruct (mstep is_action L s i) as [[evs rep] s1]. cbn [fst snd] in *.
    destruct R as [I1 _].
    specialize (IH s1 (phys_after p i) Hwf Hna I1 Hc1 Hp1).
    destruct (mrun is_action L s1 h) as [outs s2]. cbn [snd] in *.
    unfold phys_all in *. cbn [fold_left]. exact IH.
Qed.

(* I6 with equality *)
Lemma noabs_state L h :
  wf_layout L -> noabs L ->
  clean (state_of is_action L h) /\ seteq (inp (state_of is_action L h)) (phys_of h).
Proof.
  intros Hwf Hna. apply (noabs_run L h init [] Hwf Hna (Inv_init L)); [split; reflexivity | apply seteq_refl].
Qed.

End S.
