(* Escape.v — model of the systemd unit text written by
   /repo/src/udev_utils.rs: escape_one_char, systemd_arg_escape,
   build_exclude_text, build_service_text (code as of commit 851bd68 "fix:
   systemd_arg_escape mangled several characters of --exclude patterns").
   Definitions only.

   Conventions: a Rust `char` is its scalar value (N); a `String`/`&str` is the
   `list N` of its scalars; `String::as_bytes` is `utf8`.  None of the modelled
   functions has a partial operation (no indexing, no unwrap; the 4-byte buffer
   of `encode_utf8` is always large enough), so there is no panic outcome. *)
From Coq Require Import List NArith Bool Ascii String.
Import ListNotations.
Open Scope N_scope.

(* an ASCII literal as a list of scalars *)
Definition str (s : string) : list N := map N_of_ascii (list_ascii_of_string s).

(* char::encode_utf8 (core::char::methods::encode_utf8_raw): length by range,
   then TAG | ((code >> k) & mask) per byte *)
Definition utf8_encode (c : N) : list N :=
  if c <? 128 then [c]
  else if c <? 2048 then [192 + (c / 64) mod 32; 128 + c mod 64]
  else if c <? 65536 then [224 + (c / 4096) mod 16; 128 + (c / 64) mod 64; 128 + c mod 64]
  else [240 + (c / 262144) mod 8; 128 + (c / 4096) mod 64; 128 + (c / 64) mod 64; 128 + c mod 64].

(* String::as_bytes *)
Definition utf8 (s : list N) : list N := flat_map utf8_encode s.

(* one lower-case hexadecimal digit, as a scalar *)
Definition hex_digit (d : N) : N := if d <? 10 then 48 + d else 87 + d.

(* `{:x}` of a u64: least significant digit first; 16 digits suffice for u64 *)
Fixpoint hex_rev (fuel : nat) (n : N) : list N :=
  match fuel with
  | O => []
  | S f => hex_digit (n mod 16) :: (if n / 16 =? 0 then [] else hex_rev f (n / 16))
  end.

Definition fmt_hex (n : N) : list N := rev (hex_rev 16 n).

(* `{:0>W}`: right-aligned in width W, filled with '0'; never truncates *)
Definition pad_left (w : nat) (fill : N) (s : list N) : list N :=
  repeat fill (w - List.length s) ++ s.

(* format!("{:0>Wx}", n) *)
Definition fmt_hex_pad (w : nat) (n : N) : list N := pad_left w 48 (fmt_hex n).

(* char::is_control: general category Cc *)
Definition is_control (c : N) : bool := (c <? 32) || ((127 <=? c) && (c <=? 159)).

(* (0xfdd0 <= i && i <= 0xfdef) || (i & 0xfffe) == 0xfffe *)
Definition is_nonchar (i : N) : bool :=
  ((64976 <=? i) && (i <=? 65007)) || (N.land i 65534 =? 65534).

(* fn escape_one_char(c: char) -> String — the match arms in source order, then
   the `_` arm *)
Definition escape_one_char (c : N) : list N :=
  if c =? 92 then [92; 92]                      (* '\\' => "\\\\" *)
  else if c =? 32 then [92; 115]                (* ' '  => "\\s"  *)
  else if c =? 7 then [92; 97]                  (* \x07 => "\\a"  *)
  else if c =? 8 then [92; 98]                  (* \x08 => "\\b"  *)
  else if c =? 10 then [92; 110]                (* \n   => "\\n"  *)
  else if c =? 13 then [92; 114]                (* \r   => "\\r"  *)
  else if c =? 9 then [92; 116]                 (* \t   => "\\t"  *)
  else if c =? 34 then [92; 34]                 (* double quote => backslash, double quote *)
  else if c =? 39 then [92; 39]                 (* '\'' => "\\'"  *)
  else if c =? 42 then [92; 120; 50; 97]        (* '*'  => "\\x2a" *)
  else if c =? 63 then [92; 120; 51; 102]       (* '?'  => "\\x3f" *)
  else if c =? 59 then [92; 120; 51; 98]        (* ';'  => "\\x3b" *)
  else if c =? 37 then [37; 37]                 (* '%'  => "%%"   *)
  else if c =? 36 then [36; 36]                 (* '$'  => "$$"   *)
  else
    let i := c in
    if is_nonchar i then
      (* c.encode_utf8(&mut buf).bytes().map(|b| format!("\\x{:0>2x}", b)).collect() *)
      flat_map (fun b => [92; 120] ++ fmt_hex_pad 2 b) (utf8_encode c)
    else if is_control c then
      if i <? 128 then [92; 120] ++ fmt_hex_pad 2 i
      else if i <? 65536 then [92; 117] ++ fmt_hex_pad 4 i
      else [92; 85] ++ fmt_hex_pad 8 i
    else [c].

(* fn systemd_arg_escape(text: &str) -> String *)
Definition systemd_arg_escape (text : list N) : list N := flat_map escape_one_char text.

(* [String]::join(sep) *)
Fixpoint join (sep : list N) (l : list (list N)) : list N :=
  match l with
  | [] => []
  | a :: rest => match rest with [] => a | _ :: _ => a ++ sep ++ join sep rest end
  end.

(* fn build_exclude_text(excludes) -> String *)
Definition build_exclude_text (excludes : list (list N)) : list N :=
  join [32] (map (fun pattern => str "--exclude " ++ systemd_arg_escape pattern) excludes).

(* the value of the ExecStart= assignment: the text between "ExecStart=" and
   the final newline of the format string of build_service_text *)
Definition exec_line (excludes : list (list N)) : list N :=
  str "/usr/bin/totalmapper remap --verbose --layout-file /etc/totalmapper.json --only-if-keyboard "
  ++ build_exclude_text excludes ++ str " --dev-file /%I".

(* the lines of the format string before the ExecStart= line, each with its
   newline (a `\` at the end of a source line of a Rust string literal removes
   the newline and the indentation that follows) *)
Definition service_header : list N :=
  str "[Unit]" ++ [10] ++
  str "Description=Totalmapper" ++ [10] ++
  [10] ++
  str "[Service]" ++ [10] ++
  str "Type=simple" ++ [10] ++
  str "User=totalmapper" ++ [10] ++
  str "Group=input" ++ [10].

(* fn build_service_text(excludes) -> String *)
Definition build_service_text (excludes : list (list N)) : list N :=
  service_header ++ str "ExecStart=" ++ exec_line excludes ++ [10].
