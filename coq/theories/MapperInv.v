(* MapperInv.v — the inductive invariant of the mapper model and the
   well-formedness of every step's output trace (I0–I5, I7, I8 of DESIGN.md). *)
From TM Require Import Base ListFacts Mapper Monitors Trace TraceLemmas.
From Coq Require Import Lia.

Ltac sf := cbn [inp act pass mout absd atrig rtrig set_inp set_act set_pass set_mout
                set_absd set_atrig set_rtrig fst snd] in *; unfold held_of in *;
           cbn [inp act pass mout absd atrig rtrig set_inp set_act set_pass set_mout
                set_absd set_atrig set_rtrig fst snd] in *.

Definition wf_mapping (m : mapping) : Prop :=
  m_from m <> [] /\ NoDup (m_from m) /\ NoDup (m_to m).

Definition wf_layout (L : layout) : Prop := forall m, In m L -> wf_mapping m.

Lemma for_layout_ok_wf L : for_layout_ok L = true <-> wf_layout L.
Proof.
  unfold for_layout_ok, wf_layout. rewrite forallb_forall. split; intros H m Hm; specialize (H m Hm).
  - unfold mapping_ok in H. rewrite !andb_true_iff in H. destruct H as [[H1 H2] H3].
    split; [|split]; [| apply nodupb_NoDup; exact H2 | apply nodupb_NoDup; exact H3].
    destruct (m_from m); [discriminate | discriminate].
  - destruct H as [H1 [H2 H3]]. unfold mapping_ok. rewrite !andb_true_iff. split; [split|].
    + destruct (m_from m); [contradiction | reflexivity].
    + apply nodupb_NoDup. exact H2.
    + apply nodupb_NoDup. exact H3.
Qed.

Definition disjoint (a b : list key) : Prop := forall k, In k a -> In k b -> False.

Definition out_of (A : list mapping) (k : key) : Prop := exists m, In m A /\ In k (m_to m).

Lemma still_used_out_of A k : still_used A k = true <-> out_of A k.
Proof.
  unfold still_used, out_of. rewrite existsb_exists. split; intros [m [H1 H2]]; exists m; split; auto; apply mem_In; exact H2.
Qed.

Lemma still_shadowed_iff A k : still_shadowed A k = true <-> exists m, In m A /\ In k (m_from m).
Proof.
  unfold still_shadowed. rewrite existsb_exists. split; intros [m [H1 H2]]; exists m; split; auto; apply mem_In; exact H2.
Qed.

Record Inv (L : layout) (s : state) : Prop := mkInv {
  i_nd_inp : NoDup (inp s);
  i_nd_pass : NoDup (pass s);
  i_nd_mout : NoDup (mout s);
  i_disj : disjoint (pass s) (mout s);
  i_act : forall m, In m (act s) -> In m L /\ incl (m_from m) (inp s);
  i_mout : forall k, In k (mout s) -> out_of (act s) k;
  i_pass_inp : incl (pass s) (inp s);
  i_from_pass : forall m f, In m (act s) -> In f (m_from m) -> ~ In f (pass s);
  i_to_pass : forall m t, In m (act s) -> In t (m_to m) -> ~ In t (pass s);
  i_silenced : forall k, In k (pass s) -> silenced L k = false
}.

Lemma Inv_init L : Inv L init.
Proof.
  constructor; cbn; try constructor; try (intros; contradiction).
  - intros k H. contradiction.
  - intros k H. contradiction.
Qed.

Lemma NoDup_held L s : Inv L s -> NoDup (held_of s).
Proof.
  intros I. unfold held_of. apply NoDup_app_intro.
  - apply (i_nd_pass _ _ I).
  - apply (i_nd_mout _ _ I).
  - intros x Hp Hm. exact (i_disj _ _ I x Hp Hm).
Qed.

(* a key in no output of the layout is never in mout *)
Lemma silenced_not_out L A k : (forall m, In m A -> In m L) -> out_of A k -> silenced L k = false.
Proof.
  intros HA [m [Hm Hk]]. unfold silenced. apply andb_false_iff. right.
  apply negb_false_iff. unfold outputs_key. apply existsb_exists. exists m. split; [apply HA; exact Hm | apply mem_In; exact Hk].
Qed.

Definition all_released (evs : list event) : Prop :=
  forallb (fun e => negb (is_pressed e)) evs = true.

Lemma all_released_app_intro a b : all_released a -> all_released b -> all_released (a ++ b).
Proof. unfold all_released. intros Ha Hb. rewrite forallb_app, Ha, Hb. reflexivity. Qed.

Lemma all_released_nil : all_released [].
Proof. reflexivity. Qed.

Definition same_aux (s s' : state) : Prop :=
  absd s' = absd s /\ atrig s' = atrig s /\ rtrig s' = rtrig s.

Lemma same_aux_refl s : same_aux s s.
Proof. repeat split. Qed.

Lemma same_aux_trans a b c : same_aux a b -> same_aux b c -> same_aux a c.
Proof. intros [H1 [H2 H3]] [G1 [G2 G3]]. repeat split; congruence. Qed.

(* ---------- remove_mapping ---------- *)

Lemma remove_mapping_inv L s i r :
  Inv L s ->
  let s' := snd (remove_mapping s i r) in
  Inv L s' /\ tr_ok (held_of s) (fst (remove_mapping s i r)) (held_of s')
  /\ inp s' = inp s /\ act s' = remove_nth i (act s)
  /\ same_aux s s' /\ all_released (fst (remove_mapping s i r)).
Proof.
  intros I. unfold remove_mapping. cbn zeta.
  set (others := remove_nth i (act s)).
  set (dropped := filter (fun k => negb (still_used others k)) (rev (mout s))).
  set (ho := handover s others r).
  sf.
  assert (Hsub : forall m, In m others -> In m (act s)) by (intros m Hm; eapply In_remove_nth; exact Hm).
  assert (Hdrop : forall k, In k dropped <-> In k (mout s) /\ ~ out_of others k).
  { intros k. unfold dropped. rewrite filter_In, <- in_rev, negb_true_iff.
    rewrite <- still_used_out_of. destruct (still_used others k); split; intros [H1 H2]; split; auto; congruence. }
  assert (Hnd_drop : NoDup dropped).
  { unfold dropped. apply NoDup_filter. apply NoDup_rev. apply (i_nd_mout _ _ I). }
  split; [|split; [|split; [reflexivity|split; [reflexivity|split; [repeat split|apply all_released_map]]]]].
  - constructor; sf.
    + apply (i_nd_inp _ _ I).
    + apply NoDup_app_intro; [apply (i_nd_pass _ _ I) | apply NoDup_filter; exact Hnd_drop |].
      intros x Hp Hd. apply filter_In in Hd. destruct Hd as [Hd _]. apply Hdrop in Hd.
      exact (i_disj _ _ I x Hp (proj1 Hd)).
    + apply NoDup_filter. apply (i_nd_mout _ _ I).
    + intros k Hp Hm. apply filter_In in Hm. destruct Hm as [Hm Hu]. apply still_used_out_of in Hu.
      apply in_app_or in Hp. destruct Hp as [Hp|Hp].
      * exact (i_disj _ _ I k Hp Hm).
      * apply filter_In in Hp. destruct Hp as [Hp _]. apply Hdrop in Hp. tauto.
    + intros m Hm. apply (i_act _ _ I). apply Hsub. exact Hm.
    + intros k Hk. apply filter_In in Hk. apply still_used_out_of. exact (proj2 Hk).
    + intros k Hk. apply in_app_or in Hk. destruct Hk as [Hk|Hk]; [apply (i_pass_inp _ _ I); exact Hk|].
      apply filter_In in Hk. destruct Hk as [_ Hh]. unfold ho, handover in Hh.
      rewrite !andb_true_iff in Hh. apply mem_In. tauto.
    + intros m f Hm Hf Hp. apply in_app_or in Hp. destruct Hp as [Hp|Hp].
      * exact (i_from_pass _ _ I m f (Hsub m Hm) Hf Hp).
      * apply filter_In in Hp. destruct Hp as [_ Hh]. unfold ho, handover in Hh.
        rewrite !andb_true_iff, !negb_true_iff in Hh. destruct Hh as [_ Hh].
        assert (still_shadowed others f = true) by (apply still_shadowed_iff; exists m; auto). congruence.
    + intros m t Hm Ht Hp. apply in_app_or in Hp. destruct Hp as [Hp|Hp].
      * exact (i_to_pass _ _ I m t (Hsub m Hm) Ht Hp).
      * apply filter_In in Hp. destruct Hp as [Hp _]. apply Hdrop in Hp. apply (proj2 Hp). exists m. auto.
    + intros k Hk. apply in_app_or in Hk. destruct Hk as [Hk|Hk]; [apply (i_silenced _ _ I); exact Hk|].
      apply filter_In in Hk. destruct Hk as [Hk _]. apply Hdrop in Hk.
      eapply silenced_not_out; [|apply (i_mout _ _ I); exact (proj1 Hk)].
      intros m Hm. apply (i_act _ _ I). exact Hm.
  - (* trace *)
    set (ks := filter (fun k => negb (ho k)) dropped).
    eapply tr_ok_seteq_r; [|apply tr_ok_releases].
    + intros x. rewrite filter_In, negb_true_iff, mem_false. unfold ks.
      rewrite !in_app_iff, !filter_In, negb_true_iff, Hdrop, still_used_out_of.
      assert (Hdec : out_of others x \/ ~ out_of others x).
      { destruct (still_used others x) eqn:Eu; [left; apply still_used_out_of; exact Eu | right; rewrite <- still_used_out_of; congruence]. }
      pose proof (i_disj _ _ I x) as Hdj.
      destruct (ho x); intuition congruence.
    + unfold ks. apply NoDup_filter. exact Hnd_drop.
    + intros k Hk. unfold ks in Hk. apply filter_In in Hk. destruct Hk as [Hk _]. apply Hdrop in Hk.
      apply in_or_app. right. exact (proj1 Hk).
Qed.

(* ---------- release_loop ---------- *)

Definition keeps k (m : mapping) : bool := negb (mem k (m_from m)).

Lemma firstn_remove_nth {A} i (l : list A) : (i <= length l)%nat ->
  firstn i (remove_nth i l) = firstn i l /\ skipn i (remove_nth i l) = skipn (S i) l.
Proof.
  intros Hi. rewrite remove_nth_firstn_skipn.
  assert (Hl : length (firstn i l) = i) by (apply firstn_length_le; exact Hi).
  split.
  - rewrite firstn_app, Hl, Nat.sub_diag. cbn [firstn]. rewrite app_nil_r.
    rewrite <- Hl at 1. apply firstn_all.
  - rewrite skipn_app, Hl, Nat.sub_diag. cbn [skipn].
    rewrite <- Hl at 1. rewrite skipn_all. reflexivity.
Qed.

Lemma release_loop_inv L k : forall n s,
  Inv L s -> (n <= length (act s))%nat ->
  let r := release_loop n k s in
  Inv L (snd r) /\ tr_ok (held_of s) (fst r) (held_of (snd r))
  /\ inp (snd r) = inp s
  /\ act (snd r) = filter (keeps k) (firstn n (act s)) ++ skipn n (act s)
  /\ same_aux s (snd r) /\ all_released (fst r).
Proof.
  induction n as [|i IH]; intros s I Hn; cbn [release_loop].
  - cbn [fst snd firstn skipn filter app].
    split; [exact I|]. split; [apply tr_ok_nil; apply seteq_refl|].
    split; [reflexivity|]. split; [reflexivity|]. split; [apply same_aux_refl | reflexivity].
  - destruct (nth_error (act s) i) as [m|] eqn:Em.
    2:{ apply nth_error_None in Em. lia. }
    unfold fails_when_released.
    rewrite (firstn_S_nth i (act s) m Em), filter_app. cbn [filter]. unfold keeps at 2.
    destruct (mem k (m_from m)) eqn:Ek; cbn [negb].
    + pose proof (remove_mapping_inv L s i k I) as R. cbn zeta in R.
      destruct (remove_mapping s i k) as [e1 s1]. cbn [fst snd] in R.
      destruct R as [I1 [T1 [Hinp [Hact [Haux1 Hrel1]]]]].
      assert (Hl : (i <= length (act s1))%nat).
      { rewrite Hact, remove_nth_firstn_skipn, app_length, firstn_length_le, skipn_length by lia. lia. }
      specialize (IH s1 I1 Hl). cbn zeta in IH.
      destruct (release_loop i k s1) as [e2 s2]. cbn [fst snd] in *.
      destruct IH as [I2 [T2 [Hinp2 [Hact2 [Haux2 Hrel2]]]]].
      destruct (firstn_remove_nth i (act s)) as [F1 F2]; [lia|].
      split; [exact I2|]. split; [eapply tr_ok_app; eassumption|].
      split; [congruence|].
      split; [rewrite Hact2, Hact, F1, F2, app_nil_r; reflexivity|].
      split; [eapply same_aux_trans; eassumption|].
      apply all_released_app_intro; assumption.
    + assert (Hl : (i <= length (act s))%nat) by lia.
      specialize (IH s I Hl). cbn zeta in IH.
      destruct (release_loop i k s) as [e2 s2]. cbn [fst snd] in *.
      destruct IH as [I2 [T2 [Hinp2 [Hact2 [Haux2 Hrel2]]]]].
      split; [exact I2|]. split; [exact T2|]. split; [exact Hinp2|].
      split; [|split; assumption].
      rewrite Hact2, (skipn_nth i (act s) m Em), <- app_assoc. reflexivity.
Qed.

(* ---------- releasing one key: release_loop; release_pass; forget as input ---------- *)

Definition release_core (k : key) (s : state) : list event * state :=
  let '(e1, s1) := release_loop (length (act s)) k s in
  let '(e2, s2) := release_pass k s1 in
  (e1 ++ e2, set_inp s2 (remove_all k (inp s2))).

Lemma newly_release_core s k :
  newly_release s k = (fst (release_core k s), RRDisabled, snd (release_core k s)).
Proof.
  unfold newly_release, release_core.
  destruct (release_loop _ k s) as [e1 s1]. destruct (release_pass k s1) as [e2 s2]. reflexivity.
Qed.

Lemma release_absorbed_one_core evs s k :
  release_absorbed_one (evs, s) k = (evs ++ fst (release_core k s), snd (release_core k s)).
Proof.
  unfold release_absorbed_one, release_core.
  destruct (release_loop _ k s) as [e1 s1]. destruct (release_pass k s1) as [e2 s2]. reflexivity.
Qed.

Lemma release_pass_inv L k s :
  Inv L s ->
  let r := release_pass k s in
  Inv L (snd r) /\ tr_ok (held_of s) (fst r) (held_of (snd r))
  /\ pass (snd r) = remove_all k (pass s) /\ inp (snd r) = inp s /\ act (snd r) = act s
  /\ mout (snd r) = mout s
  /\ same_aux s (snd r) /\ all_released (fst r).
Proof.
  intros I. unfold release_pass. destruct (mem k (pass s)) eqn:Ek; cbn [fst snd].
  - apply mem_In in Ek.
    rewrite (remove_last_NoDup k (pass s) (i_nd_pass _ _ I)).
    split; [|split; [|split; [reflexivity|split; [reflexivity|split; [reflexivity|split; [reflexivity|split; [repeat split|reflexivity]]]]]]].
    + constructor; sf.
      * apply (i_nd_inp _ _ I).
      * apply NoDup_remove_all. apply (i_nd_pass _ _ I).
      * apply (i_nd_mout _ _ I).
      * intros x Hp Hm. apply In_remove_all in Hp. exact (i_disj _ _ I x (proj1 Hp) Hm).
      * apply (i_act _ _ I).
      * apply (i_mout _ _ I).
      * intros x Hp. apply In_remove_all in Hp. apply (i_pass_inp _ _ I). tauto.
      * intros m f Hm Hf Hp. apply In_remove_all in Hp. exact (i_from_pass _ _ I m f Hm Hf (proj1 Hp)).
      * intros m t Hm Ht Hp. apply In_remove_all in Hp. exact (i_to_pass _ _ I m t Hm Ht (proj1 Hp)).
      * intros x Hp. apply In_remove_all in Hp. apply (i_silenced _ _ I). tauto.
    + sf. eapply tr_ok_seteq_r; [|apply tr_ok_release; apply in_or_app; left; exact Ek].
      intros x. rewrite In_remove_all, !in_app_iff, In_remove_all.
      pose proof (i_disj _ _ I x) as Hd. split; [tauto|].
      intros [[Hp Hn]|Hm]; [tauto|]. split; [tauto|]. intro E. subst. exact (i_disj _ _ I k Ek Hm).
  - apply mem_false in Ek. rewrite (remove_all_notin k (pass s) Ek).
    split; [exact I|]. split; [apply tr_ok_nil; apply seteq_refl|].
    split; [reflexivity|]. split; [reflexivity|]. split; [reflexivity|]. split; [reflexivity|].
    split; [apply same_aux_refl | reflexivity].
Qed.

Lemma filter_keeps_In k A m : In m (filter (keeps k) A) <-> In m A /\ ~ In k (m_from m).
Proof. rewrite filter_In. unfold keeps. rewrite negb_true_iff, mem_false. tauto. Qed.

Lemma release_core_inv L k s :
  Inv L s ->
  let r := release_core k s in
  Inv L (snd r) /\ tr_ok (held_of s) (fst r) (held_of (snd r))
  /\ inp (snd r) = remove_all k (inp s)
  /\ act (snd r) = filter (keeps k) (act s)
  /\ same_aux s (snd r) /\ all_released (fst r).
Proof.
  intros I. unfold release_core.
  pose proof (release_loop_inv L k (length (act s)) s I (le_n _)) as R1. cbn zeta in R1.
  destruct (release_loop (length (act s)) k s) as [e1 s1]. cbn [fst snd] in R1.
  destruct R1 as [I1 [T1 [Hinp1 [Hact1 [Haux1 Hrel1]]]]].
  rewrite firstn_all, skipn_all, app_nil_r in Hact1.
  pose proof (release_pass_inv L k s1 I1) as R2. cbn zeta in R2.
  destruct (release_pass k s1) as [e2 s2]. cbn [fst snd] in *.
  destruct R2 as [I2 [T2 [Hpass2 [Hinp2 [Hact2 [Hmout2 [Haux2 Hrel2]]]]]]].
  split; [|split; [|split; [|split; [|split]]]].
  - constructor; sf.
    + apply NoDup_remove_all. apply (i_nd_inp _ _ I2).
    + apply (i_nd_pass _ _ I2).
    + apply (i_nd_mout _ _ I2).
    + apply (i_disj _ _ I2).
    + intros m Hm. destruct (i_act _ _ I2 m Hm) as [HL Hincl]. split; [exact HL|].
      rewrite Hact2, Hact1 in Hm. apply filter_keeps_In in Hm.
      intros f Hf. apply In_remove_all. split; [apply Hincl; exact Hf|].
      intro E. subst. tauto.
    + apply (i_mout _ _ I2).
    + intros x Hp. apply In_remove_all. split; [apply (i_pass_inp _ _ I2); exact Hp|].
      rewrite Hpass2 in Hp. apply In_remove_all in Hp. tauto.
    + apply (i_from_pass _ _ I2).
    + apply (i_to_pass _ _ I2).
    + apply (i_silenced _ _ I2).
  - sf. eapply tr_ok_app; eassumption.
  - sf. congruence.
  - sf. congruence.
  - sf. destruct Haux1 as [A1 [A2 A3]], Haux2 as [B1 [B2 B3]]. repeat split; sf; congruence.
  - apply all_released_app_intro; assumption.
Qed.

(* ---------- shrinking pass and mout by filters ---------- *)

Lemma Inv_filter L s (p q : key -> bool) :
  Inv L s -> Inv L (set_pass (set_mout s (filter q (mout s))) (filter p (pass s))).
Proof.
  intros I. constructor; sf.
  - apply (i_nd_inp _ _ I).
  - apply NoDup_filter. apply (i_nd_pass _ _ I).
  - apply NoDup_filter. apply (i_nd_mout _ _ I).
  - intros x Hp Hm. apply filter_In in Hp. apply filter_In in Hm. exact (i_disj _ _ I x (proj1 Hp) (proj1 Hm)).
  - apply (i_act _ _ I).
  - intros x Hm. apply filter_In in Hm. apply (i_mout _ _ I). tauto.
  - intros x Hp. apply filter_In in Hp. apply (i_pass_inp _ _ I). tauto.
  - intros m f Hm Hf Hp. apply filter_In in Hp. exact (i_from_pass _ _ I m f Hm Hf (proj1 Hp)).
  - intros m t Hm Ht Hp. apply filter_In in Hp. exact (i_to_pass _ _ I m t Hm Ht (proj1 Hp)).
  - intros x Hp. apply filter_In in Hp. apply (i_silenced _ _ I). tauto.
Qed.

Section WithModifiers.
Variable is_action : key -> bool.

Lemma ram_keys_sub s k : In k (ram_keys is_action s) -> In k (mout s).
Proof.
  unfold ram_keys. rewrite In_dedup, in_flat_map. intros [m [_ Hk]].
  unfold ram_one in Hk. destruct (_ && _ && _); [|contradiction].
  apply filter_In in Hk. apply mem_In. tauto.
Qed.

Lemma release_action_mappings_inv L s :
  Inv L s ->
  let r := release_action_mappings is_action s in
  Inv L (snd r) /\ tr_ok (held_of s) (fst r) (held_of (snd r))
  /\ inp (snd r) = inp s /\ act (snd r) = act s
  /\ (forall x, In x (pass (snd r)) <-> In x (pass s))
  /\ (forall x, In x (mout (snd r)) <-> In x (mout s) /\ ~ In x (ram_keys is_action s))
  /\ same_aux s (snd r) /\ all_released (fst r).
Proof.
  intros I. unfold release_action_mappings. cbn zeta. cbn [fst snd].
  set (ks := ram_keys is_action s).
  split; [apply (Inv_filter L s _ _ I)|].
  split.
  - sf. rewrite <- filter_app. apply tr_ok_releases.
    + apply NoDup_dedup.
    + intros k Hk. apply in_or_app. right. apply ram_keys_sub. exact Hk.
  - sf. split; [reflexivity|]. split; [reflexivity|]. split; [|split; [|split; [repeat split|apply all_released_map]]].
    + intros x. rewrite filter_In, negb_true_iff, mem_false. split; [tauto|]. intros Hp. split; [exact Hp|].
      intro Hk. apply ram_keys_sub in Hk. exact (i_disj _ _ I x Hp Hk).
    + intros x. rewrite filter_In, negb_true_iff, mem_false. tauto.
Qed.

Lemma release_all_action_keys_inv L s :
  Inv L s ->
  let r := release_all_action_keys is_action s in
  Inv L (snd r) /\ tr_ok (held_of s) (fst r) (held_of (snd r))
  /\ inp (snd r) = inp s /\ act (snd r) = act s
  /\ pass (snd r) = filter (fun k => negb (is_action k)) (pass s)
  /\ mout (snd r) = filter (fun k => negb (is_action k)) (mout s)
  /\ same_aux s (snd r) /\ all_released (fst r).
Proof.
  intros I. unfold release_all_action_keys. cbn [fst snd].
  split; [apply (Inv_filter L s _ _ I)|].
  split.
  - sf. rewrite <- !filter_app.
    eapply tr_ok_seteq_r; [|apply tr_ok_releases].
    + intros x. rewrite !filter_In, negb_true_iff, mem_false, filter_In.
      destruct (is_action x); cbn [negb]; split; try tauto; intros [H1 H2]; try discriminate.
      split; [exact H1|]. intros [_ H3]. discriminate.
    + apply NoDup_filter. apply (NoDup_held L s I).
    + intros k Hk. apply filter_In in Hk. tauto.
  - sf. split; [reflexivity|]. split; [reflexivity|]. split; [reflexivity|]. split; [reflexivity|].
    split; [repeat split|apply all_released_map].
Qed.

(* ---------- release_absorbed_keys ---------- *)

Lemma release_absorbed_fold_inv L : forall ks evs s,
  Inv L s ->
  let r := fold_left release_absorbed_one ks (evs, s) in
  Inv L (snd r)
  /\ (exists evs', fst r = evs ++ evs' /\ tr_ok (held_of s) evs' (held_of (snd r)) /\ all_released evs')
  /\ (forall x, In x (inp (snd r)) <-> In x (inp s) /\ ~ In x ks)
  /\ (forall m, In m (act (snd r)) <-> In m (act s) /\ (forall k, In k ks -> ~ In k (m_from m)))
  /\ same_aux s (snd r).
Proof.
  induction ks as [|k t IH]; intros evs s I; cbn [fold_left].
  - cbn [fst snd]. split; [exact I|]. split.
    + exists []. rewrite app_nil_r. split; [reflexivity|]. split; [apply tr_ok_nil; apply seteq_refl | reflexivity].
    + split; [intros x; cbn; tauto|]. split; [|apply same_aux_refl].
      intros m. split; [intros H; split; [exact H|intros k []] | tauto].
  - rewrite release_absorbed_one_core.
    pose proof (release_core_inv L k s I) as R. cbn zeta in R.
    destruct (release_core k s) as [e1 s1]. cbn [fst snd] in *.
    destruct R as [I1 [T1 [Hinp1 [Hact1 [Haux1 Hrel1]]]]].
    specialize (IH (evs ++ e1) s1 I1). cbn zeta in IH.
    destruct (fold_left release_absorbed_one t (evs ++ e1, s1)) as [e2 s2]. cbn [fst snd] in *.
    destruct IH as [I2 [[evs' [He [T2 Hrel2]]] [Hinp2 [Hact2 Haux2]]]].
    split; [exact I2|]. split; [|split; [|split]].
    + exists (e1 ++ evs'). split; [rewrite He, app_assoc; reflexivity|].
      split; [eapply tr_ok_app; eassumption | apply all_released_app_intro; assumption].
    + intros x. rewrite Hinp2, Hinp1, In_remove_all. cbn [In]. split.
      * intros [[H1 H2] H3]. split; [exact H1|]. intros [E|H4]; [subst; tauto | tauto].
      * intros [H1 H2]. split; [split; [exact H1|]|]; intro; apply H2; [left; symmetry; assumption | right; assumption].
    + intros m. rewrite Hact2, Hact1, filter_keeps_In. cbn [In]. split.
      * intros [[H1 H2] H3]. split; [exact H1|]. intros k' [E|H4]; [subst; exact H2 | apply H3; exact H4].
      * intros [H1 H2]. split; [split; [exact H1|]|].
        -- apply H2. left. reflexivity.
        -- intros k' Hk'. apply H2. right. exact Hk'.
    + eapply same_aux_trans; eassumption.
Qed.

Lemma Inv_set_aux L s a t : Inv L s -> Inv L (set_atrig (set_absd s a) t).
Proof. intros I. constructor; sf; apply I. Qed.

Lemma release_absorbed_keys_inv L s :
  Inv L s ->
  let r := release_absorbed_keys s in
  Inv L (snd r) /\ tr_ok (held_of s) (fst r) (held_of (snd r)) /\ all_released (fst r)
  /\ (forall x, In x (inp (snd r)) <-> In x (inp s) /\ ~ In x (absd s))
  /\ (forall m, In m (act (snd r)) <-> In m (act s) /\ (forall k, In k (absd s) -> ~ In k (m_from m)))
  /\ absd (snd r) = [] /\ atrig (snd r) = None /\ rtrig (snd r) = rtrig s.
Proof.
  intros I. unfold release_absorbed_keys.
  pose proof (release_absorbed_fold_inv L (absd s) [] _ (Inv_set_aux L s [] None I)) as R. cbn zeta in R.
  destruct (fold_left release_absorbed_one (absd s) ([], set_atrig (set_absd s []) None)) as [e s'].
  cbn [fst snd] in *. destruct R as [I' [[evs' [He [T Hrel]]] [Hinp [Hact [A1 [A2 A3]]]]]].
  cbn [app] in He. subst evs'. sf.
  split; [exact I'|]. split; [exact T|]. split; [exact Hrel|]. split; [exact Hinp|]. split; [exact Hact|].
  split; [exact A1|]. split; [exact A2|exact A3].
Qed.

(* ---------- the pieces of add_new_mapping ---------- *)

Definition W3 (s : state) : Prop :=
  NoDup (pass s) /\ NoDup (mout s) /\ disjoint (pass s) (mout s).

Lemma Inv_W3 L s : Inv L s -> W3 s.
Proof. intros I. split; [apply (i_nd_pass _ _ I) | split; [apply (i_nd_mout _ _ I) | apply (i_disj _ _ I)]]. Qed.

Lemma consume_pass_facts s m :
  W3 s ->
  let r := consume_pass s m in
  W3 (snd r) /\ tr_ok (held_of s) (fst r) (held_of (snd r)) /\ all_released (fst r)
  /\ pass (snd r) = filter (fun o => negb (mem o (m_from m) || mem o (m_to m))) (pass s)
  /\ mout (snd r) = mout s ++ filter (fun o => mem o (m_to m)) (pass s)
  /\ inp (snd r) = inp s /\ act (snd r) = act s /\ same_aux s (snd r).
Proof.
  intros [Hp [Hm Hd]]. unfold consume_pass. cbn zeta. cbn [fst snd]. sf.
  split; [|split; [|split; [apply all_released_map|]]].
  - split; [apply NoDup_filter; exact Hp|]. split.
    + apply NoDup_app_intro; [exact Hm | apply NoDup_filter; exact Hp |].
      intros x H1 H2. apply filter_In in H2. exact (Hd x (proj1 H2) H1).
    + intros x H1 H2. apply filter_In in H1. destruct H1 as [H1 H1']. apply in_app_or in H2.
      destruct H2 as [H2|H2]; [exact (Hd x H1 H2)|].
      apply filter_In in H2. destruct H2 as [_ H2]. rewrite H2, orb_true_r in H1'. discriminate.
  - eapply tr_ok_seteq_r; [|apply tr_ok_releases].
    + intros x. rewrite filter_In, negb_true_iff, mem_false, !in_app_iff, !filter_In.
      pose proof (Hd x) as Hdx.
      destruct (mem x (m_from m)); destruct (mem x (m_to m)); cbn [orb andb negb]; intuition congruence.
    + apply NoDup_filter. exact Hp.
    + intros x Hx. apply filter_In in Hx. apply in_or_app. left. tauto.
  - repeat split.
Qed.

Lemma press_out_fold_facts : forall ts evs s,
  W3 s -> (forall t, In t ts -> ~ In t (pass s)) ->
  let r := fold_left (press_out is_action) ts (evs, s) in
  exists evs', fst r = evs ++ evs'
  /\ tr_ok (held_of s) evs' (held_of (snd r))
  /\ W3 (snd r) /\ pass (snd r) = pass s
  /\ (forall x, In x (mout (snd r)) <-> In x (mout s) \/ In x ts)
  /\ inp (snd r) = inp s /\ act (snd r) = act s /\ same_aux s (snd r)
  /\ (forall t, In t ts -> is_action t = true -> In (Pressed t) evs').
Proof.
  induction ts as [|t ts IH]; intros evs s W Hnp; cbn [fold_left].
  - cbn [fst snd]. exists []. rewrite app_nil_r. split; [reflexivity|].
    split; [apply tr_ok_nil; apply seteq_refl|]. split; [exact W|]. split; [reflexivity|].
    split; [intros x; cbn; tauto|]. split; [reflexivity|]. split; [reflexivity|]. split; [apply same_aux_refl|].
    intros t [].
  - destruct W as [Hp [Hm Hd]].
    assert (Htp : ~ In t (pass s)) by (apply Hnp; left; reflexivity).
    assert (Htp' : mem t (pass s) = false) by (apply mem_false; exact Htp).
    (* one press_out step: either nothing changes in the state, or t is appended to mout *)
    assert (Hstep : exists e1 s1, press_out is_action (evs, s) t = (evs ++ e1, s1)
              /\ tr_ok (held_of s) e1 (held_of s1) /\ W3 s1 /\ pass s1 = pass s
              /\ (forall x, In x (mout s1) <-> In x (mout s) \/ x = t)
              /\ inp s1 = inp s /\ act s1 = act s /\ same_aux s s1
              /\ (is_action t = true -> In (Pressed t) e1)).
    { unfold press_out. destruct (is_action t) eqn:Ea.
      - destruct (mem t (mout s)) eqn:Emo.
        + apply mem_In in Emo. exists [Released t; Pressed t], s.
          split; [reflexivity|]. split; [apply tr_ok_repress; apply in_or_app; right; exact Emo|].
          split; [split; [exact Hp | split; [exact Hm | exact Hd]]|]. split; [reflexivity|].
          split; [intros x; split; [tauto | intros [H|H]; [exact H | subst; exact Emo]]|].
          split; [reflexivity|]. split; [reflexivity|]. split; [apply same_aux_refl|].
          intros _. right. left. reflexivity.
        + rewrite Htp'. apply mem_false in Emo. exists [Pressed t], (set_mout s (mout s ++ [t])).
          split; [reflexivity|]. sf. split.
          * eapply tr_ok_seteq_r; [|apply tr_ok_press].
            -- intros x. rewrite !in_app_iff. cbn. tauto.
            -- rewrite in_app_iff. tauto.
          * split; [split; [exact Hp | split; [apply NoDup_snoc; assumption|]]|].
            -- intros x H1 H2. apply in_app_or in H2. destruct H2 as [H2|[H2|[]]]; [exact (Hd x H1 H2) | subst; contradiction].
            -- split; [reflexivity|]. split; [intros x; rewrite in_app_iff; cbn; split; [intros [H|[H|[]]]; auto | intros [H|H]; auto]|].
               split; [reflexivity|]. split; [reflexivity|]. split; [repeat split|].
               intros _. left. reflexivity.
      - destruct (mem t (mout s)) eqn:Emo; cbn [negb andb].
        + apply mem_In in Emo. exists [], s. rewrite app_nil_r.
          split; [reflexivity|]. split; [apply tr_ok_nil; apply seteq_refl|].
          split; [split; [exact Hp | split; [exact Hm | exact Hd]]|]. split; [reflexivity|].
          split; [intros x; split; [tauto | intros [H|H]; [exact H | subst; exact Emo]]|].
          split; [reflexivity|]. split; [reflexivity|]. split; [apply same_aux_refl|]. discriminate.
        + rewrite Htp'. cbn [negb]. apply mem_false in Emo. exists [Pressed t], (set_mout s (mout s ++ [t])).
          split; [reflexivity|]. sf. split.
          * eapply tr_ok_seteq_r; [|apply tr_ok_press].
            -- intros x. rewrite !in_app_iff. cbn. tauto.
            -- rewrite in_app_iff. tauto.
          * split; [split; [exact Hp | split; [apply NoDup_snoc; assumption|]]|].
            -- intros x H1 H2. apply in_app_or in H2. destruct H2 as [H2|[H2|[]]]; [exact (Hd x H1 H2) | subst; contradiction].
            -- split; [reflexivity|]. split; [intros x; rewrite in_app_iff; cbn; split; [intros [H|[H|[]]]; auto | intros [H|H]; auto]|].
               split; [reflexivity|]. split; [reflexivity|]. split; [repeat split|]. discriminate. }
    destruct Hstep as [e1 [s1 [Hpo [T1 [W1 [Hp1 [Hm1 [Hi1 [Ha1 [Hx1 Hpr1]]]]]]]]]].
    rewrite Hpo.
    assert (Hnp1 : forall t', In t' ts -> ~ In t' (pass s1)).
    { intros t' Ht'. rewrite Hp1. apply Hnp. right. exact Ht'. }
    specialize (IH (evs ++ e1) s1 W1 Hnp1). cbn zeta in IH.
    destruct IH as [e2 [He2 [T2 [W2 [Hp2 [Hm2 [Hi2 [Ha2 [Hx2 Hpr2]]]]]]]]].
    exists (e1 ++ e2). split; [rewrite He2, app_assoc; reflexivity|].
    split; [eapply tr_ok_app; eassumption|]. split; [exact W2|]. split; [congruence|].
    split; [intros x; rewrite Hm2, Hm1; cbn [In]; split; [intros [[H|H]|H]; auto | intros [H|[H|H]]; auto]|].
    split; [congruence|]. split; [congruence|]. split; [eapply same_aux_trans; eassumption|].
    intros t' [E|Ht'] Hact'.
    + subst t'. apply in_or_app. left. apply Hpr1. exact Hact'.
    + apply in_or_app. right. apply Hpr2; assumption.
Qed.

Lemma flush_for_action_inv L s k m :
  Inv L s ->
  let r := flush_for_action is_action s k m in
  Inv L (snd r) /\ tr_ok (held_of s) (fst r) (held_of (snd r)) /\ all_released (fst r)
  /\ (forall x, In x (inp (snd r)) <->
        In x (inp s) /\ (is_action_mapping is_action m = true -> should_absorb s k = true -> ~ In x (absd s)))
  /\ (forall m', In m' (act (snd r)) -> In m' (act s))
  /\ rtrig (snd r) = rtrig s
  /\ ((absd (snd r) = absd s /\ atrig (snd r) = atrig s) \/ (absd (snd r) = [] /\ atrig (snd r) = None)).
Proof.
  intros I. unfold flush_for_action. destruct (is_action_mapping is_action m) eqn:Eam.
  - pose proof (release_action_mappings_inv L s I) as R1. cbn zeta in R1.
    destruct (release_action_mappings is_action s) as [e1 s1]. cbn [fst snd] in R1.
    destruct R1 as [I1 [T1 [Hinp1 [Hact1 [Hpass1 [Hmout1 [[A1 [A2 A3]] Hrel1]]]]]]].
    assert (Hsa : should_absorb s1 k = should_absorb s k) by (unfold should_absorb; rewrite A2; reflexivity).
    rewrite Hsa. destruct (should_absorb s k) eqn:Esa.
    + pose proof (release_absorbed_keys_inv L s1 I1) as R2. cbn zeta in R2.
      destruct (release_absorbed_keys s1) as [e2 s2]. cbn [fst snd] in *.
      destruct R2 as [I2 [T2 [Hrel2 [Hinp2 [Hact2 [B1 [B2 B3]]]]]]].
      split; [exact I2|]. split; [eapply tr_ok_app; eassumption|].
      split; [apply all_released_app_intro; assumption|].
      split; [intros x; rewrite Hinp2, Hinp1, A1; split; [intros [H1 H2]; split; [exact H1 | intros _ _; exact H2] | intros [H1 H2]; split; [exact H1 | apply H2; reflexivity]]|].
      split; [intros m' Hm'; apply Hact2 in Hm'; rewrite <- Hact1; tauto |].
      split; [congruence | right; split; assumption].
    + cbn [fst snd]. split; [exact I1|]. split; [exact T1|]. split; [exact Hrel1|].
      split; [intros x; rewrite Hinp1; split; [intros H; split; [exact H | intros _ Hf; discriminate] | tauto]|].
      split; [intros m' Hm'; rewrite <- Hact1; exact Hm' |]. split; [exact A3 | left; split; assumption].
  - cbn [fst snd]. split; [exact I|]. split; [apply tr_ok_nil; apply seteq_refl|]. split; [reflexivity|].
    split; [intros x; split; [intros H; split; [exact H | intros Hf; discriminate] | tauto]|].
    split; [tauto |]. split; [reflexivity | left; split; reflexivity].
Qed.

Lemma raak_set_inp s v :
  release_all_action_keys is_action (set_inp s v) =
  (fst (release_all_action_keys is_action s), set_inp (snd (release_all_action_keys is_action s)) v).
Proof. reflexivity. Qed.

Lemma raak_inp s : inp (snd (release_all_action_keys is_action s)) = inp s.
Proof. reflexivity. Qed.

Lemma Inv_set_rtrig L s v : Inv L s -> Inv L (set_rtrig s v).
Proof. intros I. constructor; sf; apply I. Qed.

Lemma add_new_mapping_inv L s k m :
  Inv L s -> In m L -> wf_mapping m -> ~ In k (inp s) ->
  (forall f, In f (m_from m) ->
     f = k \/ (In f (inp s) /\ (is_action_mapping is_action m = true -> should_absorb s k = true -> ~ In f (absd s)))) ->
  let r := add_new_mapping is_action s k m in
  Inv L (set_inp (snd r) (inp (snd r) ++ [k]))
  /\ tr_ok (held_of s) (fst (fst r)) (held_of (snd r))
  /\ (forall x, In x (inp (snd r)) -> In x (inp s))
  /\ (forall t, In t (m_to m) -> is_action t = true -> In (Pressed t) (fst (fst r)))
  /\ (forall t, In t (m_to m) -> is_action t = false -> In t (mout (snd r)))
  /\ (m_repeat m = RNormal -> forall t, In t (m_to m) -> In t (mout (snd r)))
  /\ (m_repeat m <> RNormal -> forall x, In x (held_of (snd r)) -> is_action x = false)
  /\ (exists A, act (snd r) = A ++ [m] /\ forall m', In m' A -> In m' (act s))
  /\ (absd s = [] -> forall x, In x (inp s) -> In x (inp (snd r)))
  /\ (m_abs m = [] -> absd s = [] -> atrig s = None -> absd (snd r) = [] /\ atrig (snd r) = None)
  /\ (forall x, In x (absd (snd r)) -> In x (absd s) \/ In x (m_abs m)).
Proof.
  intros I HmL Hwf Hk Hsup. unfold add_new_mapping.
  pose proof (flush_for_action_inv L s k m I) as R0. cbn zeta in R0.
  destruct (flush_for_action is_action s k m) as [e0 s0]. cbn [fst snd] in R0.
  destruct R0 as [I0 [T0 [Hrel0 [Hinp0 [Hact0 [Hrt0 Haux0]]]]]].
  pose proof (consume_pass_facts s0 m (Inv_W3 L s0 I0)) as R1. cbn zeta in R1.
  destruct (consume_pass s0 m) as [e1 s1]. cbn [fst snd] in R1.
  destruct R1 as [W1 [T1 [Hrel1 [Hpass1 [Hmout1 [Hinp1 [Hact1 Haux1]]]]]]].
  assert (Hnp : forall t, In t (m_to m) -> ~ In t (pass s1)).
  { intros t Ht Hp. rewrite Hpass1 in Hp. apply filter_In in Hp. destruct Hp as [_ Hp].
    apply mem_In in Ht. rewrite Ht, orb_true_r in Hp. discriminate. }
  pose proof (press_out_fold_facts (m_to m) [] s1 W1 Hnp) as R2. cbn zeta in R2.
  destruct (fold_left (press_out is_action) (m_to m) ([], s1)) as [e2 s2]. cbn [fst snd] in R2.
  destruct R2 as [e2' [He2 [T2 [W2 [Hpass2 [Hmout2 [Hinp2 [Hact2 [Haux2 Hpr2]]]]]]]]].
  cbn [app] in He2. subst e2'.
  set (s3 := set_absd s2 (fold_left push_new (m_abs m) (absd s2))).
  set (s4 := match m_abs m with [] => s3 | _ :: _ => set_atrig s3 (Some k) end).
  set (s5 := set_act s4 (act s4 ++ [m])).
  assert (F : inp s5 = inp s2 /\ pass s5 = pass s2 /\ mout s5 = mout s2 /\ act s5 = act s2 ++ [m]).
  { unfold s5, s4, s3. destruct (m_abs m); sf; repeat split; reflexivity. }
  destruct F as [F1 [F2 [F3 F4]]].
  assert (Hinp_s2 : forall x, In x (inp s2) -> In x (inp s)).
  { intros x Hx. rewrite Hinp2, Hinp1 in Hx. apply Hinp0 in Hx. tauto. }
  assert (Hk2 : ~ In k (inp s2)) by (intro H; apply Hk; apply Hinp_s2; exact H).
  assert (I5 : Inv L (set_inp s5 (inp s5 ++ [k]))).
  { destruct W2 as [Wp [Wm Wd]].
    constructor; sf; rewrite ?F1, ?F2, ?F3, ?F4.
    - apply NoDup_snoc; [|exact Hk2]. rewrite Hinp2, Hinp1. apply (i_nd_inp _ _ I0).
    - exact Wp.
    - exact Wm.
    - exact Wd.
    - intros m' Hm'. apply in_app_or in Hm'. destruct Hm' as [Hm'|[E|[]]].
      + rewrite Hact2, Hact1 in Hm'. destruct (i_act _ _ I0 m' Hm') as [HL Hincl]. split; [exact HL|].
        intros f Hf. apply in_or_app. left. rewrite Hinp2, Hinp1. apply Hincl. exact Hf.
      + subst m'. split; [exact HmL|]. intros f Hf. apply in_or_app.
        destruct (Hsup f Hf) as [E|[Hfi Hfa]]; [right; left; symmetry; exact E|].
        left. rewrite Hinp2, Hinp1. apply Hinp0. split; assumption.
    - intros x Hx. apply Hmout2 in Hx. destruct Hx as [Hx|Hx].
      + rewrite Hmout1 in Hx. apply in_app_or in Hx. destruct Hx as [Hx|Hx].
        * destruct (i_mout _ _ I0 x Hx) as [m' [Hm' Hxm']]. exists m'. split; [|exact Hxm'].
          apply in_or_app. left. rewrite Hact2, Hact1. exact Hm'.
        * apply filter_In in Hx. exists m. split; [apply in_or_app; right; left; reflexivity | apply mem_In; tauto].
      + exists m. split; [apply in_or_app; right; left; reflexivity | exact Hx].
    - intros x Hx. apply in_or_app. left. rewrite Hpass2, Hpass1 in Hx. apply filter_In in Hx.
      rewrite Hinp2, Hinp1. apply (i_pass_inp _ _ I0). tauto.
    - intros m' f Hm' Hf Hp. rewrite Hpass2, Hpass1 in Hp. apply filter_In in Hp. destruct Hp as [Hp Hp'].
      apply in_app_or in Hm'. destruct Hm' as [Hm'|[E|[]]].
      + rewrite Hact2, Hact1 in Hm'. exact (i_from_pass _ _ I0 m' f Hm' Hf Hp).
      + subst m'. apply mem_In in Hf. rewrite Hf in Hp'. discriminate.
    - intros m' t Hm' Ht Hp. rewrite Hpass2, Hpass1 in Hp. apply filter_In in Hp. destruct Hp as [Hp Hp'].
      apply in_app_or in Hm'. destruct Hm' as [Hm'|[E|[]]].
      + rewrite Hact2, Hact1 in Hm'. exact (i_to_pass _ _ I0 m' t Hm' Ht Hp).
      + subst m'. apply mem_In in Ht. rewrite Ht, orb_true_r in Hp'. discriminate.
    - intros x Hx. rewrite Hpass2, Hpass1 in Hx. apply filter_In in Hx. apply (i_silenced _ _ I0). tauto. }
  assert (T5 : tr_ok (held_of s) (e0 ++ e1 ++ e2) (held_of s5)).
  { eapply tr_ok_app; [exact T0|]. eapply tr_ok_app; [exact T1|].
    unfold held_of at 2. rewrite F2, F3. exact T2. }
  assert (Hto5 : forall t, In t (m_to m) -> In t (mout s5)).
  { intros t Ht. rewrite F3. apply Hmout2. right. exact Ht. }
  assert (Hact5 : exists A, act s5 = A ++ [m] /\ forall m', In m' A -> In m' (act s)).
  { exists (act s2). split; [exact F4|]. intros m' Hm'. rewrite Hact2, Hact1 in Hm'. apply Hact0. exact Hm'. }
  assert (Hpr : forall t e3, In t (m_to m) -> is_action t = true -> In (Pressed t) ((e0 ++ e1 ++ e2) ++ e3)).
  { intros t e3 Ht Ha. apply in_or_app. left. apply in_or_app. right. apply in_or_app. right. apply Hpr2; assumption. }
  assert (Hsup5 : absd s = [] -> forall x, In x (inp s) -> In x (inp s5)).
  { intros Ha x Hx. rewrite F1, Hinp2, Hinp1. apply Hinp0. split; [exact Hx|]. intros _ _. rewrite Ha. intros []. }
  assert (Hclean5 : m_abs m = [] -> absd s = [] -> atrig s = None -> absd s5 = [] /\ atrig s5 = None).
  { intros Hma Ha Ht. destruct Haux1 as [X1 [X2 _]], Haux2 as [Y1 [Y2 _]].
    unfold s5, s4, s3. rewrite Hma. sf. cbn [fold_left].
    destruct Haux0 as [[Z1 Z2]|[Z1 Z2]]; split; congruence. }
  assert (Habs5 : forall x, In x (absd s5) -> In x (absd s) \/ In x (m_abs m)).
  { intros x Hx. destruct Haux1 as [X1 _], Haux2 as [Y1 _].
    assert (Hx' : In x (fold_left push_new (m_abs m) (absd s2))).
    { unfold s5, s4, s3 in Hx. destruct (m_abs m); sf; exact Hx. }
    apply In_fold_push_new in Hx'. destruct Hx' as [Hx'|Hx']; [|right; exact Hx'].
    left. rewrite Y1, X1 in Hx'. destruct Haux0 as [[Z1 _]|[Z1 _]]; rewrite Z1 in Hx'; [exact Hx' | destruct Hx']. }
  destruct (m_repeat m) as [| |ks d iv].
  - cbn [fst snd]. split; [exact I5|]. split; [exact T5|]. split; [rewrite F1; exact Hinp_s2|].
    split; [intros t Ht Ha; specialize (Hpr t [] Ht Ha); rewrite app_nil_r in Hpr; exact Hpr|].
    split; [intros t Ht _; apply Hto5; exact Ht|]. split; [intros _; exact Hto5|].
    split; [intros H; contradiction|]. split; [exact Hact5|]. split; [exact Hsup5 |]. split; [exact Hclean5 | exact Habs5].
  - pose proof (release_all_action_keys_inv L _ I5) as R3. cbn zeta in R3.
    rewrite raak_set_inp in R3.
    destruct (release_all_action_keys is_action s5) as [e3 s6] eqn:E6. cbn [fst snd] in *.
    destruct R3 as [I6 [T6 [Hinp6 [Hact6 [Hpass6 [Hmout6 [Haux6 Hrel6]]]]]]].
    assert (Hi6 : inp s6 = inp s5) by (pose proof (raak_inp s5) as Hr; rewrite E6 in Hr; exact Hr).
    rewrite Hi6. split; [exact I6|]. split; [eapply tr_ok_app; [exact T5|]; exact T6|].
    split; [rewrite F1; exact Hinp_s2|]. split; [intros t Ht Ha; apply Hpr; assumption|].
    sf. split; [|split; [discriminate|split]].
    + intros t Ht Ha. rewrite Hmout6. apply filter_In. split; [apply Hto5; exact Ht | rewrite Ha; reflexivity].
    + intros _ x Hx. rewrite Hpass6, Hmout6 in Hx. apply in_app_or in Hx.
      destruct Hx as [Hx|Hx]; apply filter_In in Hx; destruct Hx as [_ Hx]; apply negb_true_iff in Hx; exact Hx.
    + rewrite Hact6. split; [exact Hact5|]. destruct Haux6 as [U1 [U2 _]]. sf.
      split; [intros Ha x Hx; apply Hsup5; assumption|].
      split; [intros Hma Ha Ht; destruct (Hclean5 Hma Ha Ht) as [C1 C2]; split; congruence|].
      intros x Hx. apply Habs5. rewrite <- U1. exact Hx.
  - pose proof (release_all_action_keys_inv L _ I5) as R3. cbn zeta in R3.
    rewrite raak_set_inp in R3.
    destruct (release_all_action_keys is_action s5) as [e3 s6] eqn:E6. cbn [fst snd] in *.
    destruct R3 as [I6 [T6 [Hinp6 [Hact6 [Hpass6 [Hmout6 [Haux6 Hrel6]]]]]]].
    assert (Hi6 : inp s6 = inp s5) by (pose proof (raak_inp s5) as Hr; rewrite E6 in Hr; exact Hr).
    change (inp (set_rtrig s6 (Some k))) with (inp s6). rewrite Hi6.
    split; [constructor; sf; apply I6|]. split; [eapply tr_ok_app; [exact T5|]; exact T6|].
    split; [rewrite F1; exact Hinp_s2|]. split; [intros t Ht Ha; apply Hpr; assumption|].
    sf. split; [|split; [discriminate|split]].
    + intros t Ht Ha. rewrite Hmout6. apply filter_In. split; [apply Hto5; exact Ht | rewrite Ha; reflexivity].
    + intros _ x Hx. rewrite Hpass6, Hmout6 in Hx. apply in_app_or in Hx.
      destruct Hx as [Hx|Hx]; apply filter_In in Hx; destruct Hx as [_ Hx]; apply negb_true_iff in Hx; exact Hx.
    + rewrite Hact6. split; [exact Hact5|]. destruct Haux6 as [U1 [U2 _]]. sf.
      split; [intros Ha x Hx; apply Hsup5; assumption|].
      split; [intros Hma Ha Ht; destruct (Hclean5 Hma Ha Ht) as [C1 C2]; split; congruence|].
      intros x Hx. apply Habs5. rewrite <- U1. exact Hx.
Qed.

(* ---------- newly_press ---------- *)

Lemma Inv_push_inp L s k : Inv L s -> ~ In k (inp s) -> Inv L (set_inp s (inp s ++ [k])).
Proof.
  intros I Hk. constructor; sf; try apply I.
  - apply NoDup_snoc; [apply (i_nd_inp _ _ I) | exact Hk].
  - intros m Hm. destruct (i_act _ _ I m Hm) as [HL Hi]. split; [exact HL|].
    intros f Hf. apply in_or_app. left. apply Hi. exact Hf.
  - intros x Hx. apply in_or_app. left. apply (i_pass_inp _ _ I). exact Hx.
Qed.

Lemma group_of_In L k m : In m (group_of L k) <-> In m L /\ has_final k m = true.
Proof. unfold group_of. apply filter_In. Qed.

Lemma newly_press_inv L s k :
  wf_layout L -> Inv L s -> ~ In k (inp s) ->
  let r := newly_press is_action L s k in
  Inv L (snd r) /\ tr_ok (held_of s) (fst (fst r)) (held_of (snd r))
  /\ (forall x, In x (inp (snd r)) -> In x (inp s) \/ x = k)
  /\ In k (inp (snd r))
  /\ (absd s = [] -> forall x, In x (inp s) -> In x (inp (snd r)))
  /\ ((forall m, In m L -> m_abs m = []) -> absd s = [] -> atrig s = None ->
      absd (snd r) = [] /\ atrig (snd r) = None)
  /\ (forall x, In x (absd (snd r)) -> In x (absd s) \/ exists m, In m L /\ In x (m_abs m)).
Proof.
  intros Hwf I Hk. unfold newly_press. cbn zeta.
  set (s1 := set_rtrig (set_absd s (remove_all k (absd s))) None).
  assert (I1 : Inv L s1) by (constructor; unfold s1; sf; apply I).
  assert (Hh1 : held_of s1 = held_of s) by reflexivity.
  assert (Hi1 : inp s1 = inp s) by reflexivity.
  assert (Ha1 : absd s = [] -> absd s1 = []) by (intros Ha; unfold s1; sf; rewrite Ha; reflexivity).
  assert (Ht1 : atrig s1 = atrig s) by reflexivity.
  assert (Hab1 : forall x, In x (absd s1) -> In x (absd s)).
  { intros x Hx. unfold s1 in Hx. sf. apply In_remove_all in Hx. tauto. }
  destruct (find _ (rev (group_of L k))) as [m|] eqn:Ef.
  - apply find_some in Ef. destruct Ef as [Hm Hsup]. apply in_rev in Hm. apply group_of_In in Hm.
    destruct Hm as [HmL Hfin].
    assert (Hsup' : forall f, In f (m_from m) ->
       f = k \/ (In f (inp s1) /\ (is_action_mapping is_action m = true -> should_absorb s1 k = true -> ~ In f (absd s1)))).
    { intros f Hf. unfold is_supported in Hsup. rewrite forallb_forall in Hsup. specialize (Hsup f Hf).
      apply orb_true_iff in Hsup. destruct Hsup as [Hs|Hs]; [|left; apply N.eqb_eq; exact Hs].
      apply andb_true_iff in Hs. destruct Hs as [Hs1 Hs2]. right. split; [apply mem_In; exact Hs1|].
      intros _ Hsa. rewrite Hsa in Hs2. apply negb_true_iff, mem_false in Hs2. exact Hs2. }
    pose proof (add_new_mapping_inv L s1 k m I1 HmL (Hwf m HmL) Hk Hsup') as R. cbn zeta in R.
    destruct (add_new_mapping is_action s1 k m) as [[evs rep] s2]. cbn [fst snd] in *.
    destruct R as [I2 [T2 [Hinp2 [_ [_ [_ [_ [_ [Hsup2 [Hclean2 Habs2]]]]]]]]]].
    split; [exact I2|]. split; [exact T2|]. sf. split; [|split; [|split; [|split]]].
    + intros x Hx. apply in_app_or in Hx. destruct Hx as [Hx|[Hx|[]]]; [left; apply Hinp2; exact Hx | right; symmetry; exact Hx].
    + apply in_or_app. right. left. reflexivity.
    + intros Ha x Hx. apply in_or_app. left. apply (Hsup2 (Ha1 Ha)). exact Hx.
    + intros HL Ha Ht. apply (Hclean2 (HL m HmL) (Ha1 Ha)). congruence.
    + intros x Hx. destruct (Habs2 x Hx) as [H|H]; [left; apply Hab1; exact H | right; exists m; split; assumption].
  - destruct (existsb (mentions k) (act s1)) eqn:Emen.
    { cbn [fst snd]. split; [apply Inv_push_inp; assumption|]. split; [apply tr_ok_nil; apply seteq_refl|]. sf. split; [|split; [|split; [|split]]].
      - intros x Hx. apply in_app_or in Hx. destruct Hx as [Hx|[Hx|[]]]; [left; exact Hx | right; symmetry; exact Hx].
      - apply in_or_app. right. left. reflexivity.
      - intros _ x Hx. apply in_or_app. left. exact Hx.
      - intros _ Ha Ht. split; [apply Ha1; exact Ha | congruence].
      - intros x Hx. left. apply Hab1. exact Hx. }
    destruct (mem k (pass s1)) eqn:Epass.
    { cbn [fst snd]. split; [apply Inv_push_inp; assumption|]. split; [apply tr_ok_nil; apply seteq_refl|]. sf. split; [|split; [|split; [|split]]].
      - intros x Hx. apply in_app_or in Hx. destruct Hx as [Hx|[Hx|[]]]; [left; exact Hx | right; symmetry; exact Hx].
      - apply in_or_app. right. left. reflexivity.
      - intros _ x Hx. apply in_or_app. left. exact Hx.
      - intros _ Ha Ht. split; [apply Ha1; exact Ha | congruence].
      - intros x Hx. left. apply Hab1. exact Hx. }
    (* pass-through *)
    assert (Hflush : exists e1 s2,
       (if is_action k then
          let '(ea, sa) := release_action_mappings is_action s1 in
          let '(eb, sb) := release_absorbed_keys sa in (ea ++ eb, sb)
        else ([], s1)) = (e1, s2)
       /\ Inv L s2 /\ tr_ok (held_of s1) e1 (held_of s2)
       /\ (forall x, In x (inp s2) -> In x (inp s1))
       /\ (forall m, In m (act s2) -> In m (act s1))
       /\ (absd s1 = [] -> forall x, In x (inp s1) -> In x (inp s2))
       /\ (absd s1 = [] -> atrig s1 = None -> absd s2 = [] /\ atrig s2 = None)
       /\ (forall x, In x (absd s2) -> In x (absd s1))).
    { destruct (is_action k).
      - pose proof (release_action_mappings_inv L s1 I1) as Ra. cbn zeta in Ra.
        destruct (release_action_mappings is_action s1) as [ea sa]. cbn [fst snd] in Ra.
        destruct Ra as [Ia [Ta [Hinpa [Hacta [_ [_ [[Aa1 _] _]]]]]]].
        pose proof (release_absorbed_keys_inv L sa Ia) as Rb. cbn zeta in Rb.
        destruct (release_absorbed_keys sa) as [eb sb]. cbn [fst snd] in Rb.
        destruct Rb as [Ib [Tb [_ [Hinpb [Hactb [Bb1 [Bb2 _]]]]]]].
        exists (ea ++ eb), sb. split; [reflexivity|]. split; [exact Ib|].
        split; [eapply tr_ok_app; eassumption|]. split; [|split; [|split; [|split]]].
        + intros x Hx. apply Hinpb in Hx. rewrite <- Hinpa. tauto.
        + intros m Hm. apply Hactb in Hm. rewrite <- Hacta. tauto.
        + intros Ha x Hx. apply Hinpb. rewrite Hinpa, Aa1, Ha. split; [exact Hx | intros []].
        + intros _ _. split; assumption.
        + rewrite Bb1. intros x [].
      - exists [], s1. split; [reflexivity|]. split; [exact I1|]. split; [apply tr_ok_nil; apply seteq_refl|]. tauto. }
    destruct Hflush as [e1 [s2 [Eq [I2 [T2 [Hinp2 [Hact2 [Hsup2 [Hclean2 Habs2]]]]]]]]]. rewrite Eq. cbn [fst snd].
    assert (Hk2 : ~ In k (inp s2)) by (intro H; apply Hk; rewrite <- Hi1; apply Hinp2; exact H).
    assert (Hnm : forall m, In m (act s2) -> ~ In k (m_from m) /\ ~ In k (m_to m)).
    { intros m Hm. apply Hact2 in Hm.
      assert (Hf : mentions k m = false).
      { destruct (mentions k m) eqn:E; [|reflexivity].
        assert (existsb (mentions k) (act s1) = true) by (apply existsb_exists; exists m; split; assumption). congruence. }
      unfold mentions in Hf. apply orb_false_iff in Hf. destruct Hf as [Hf1 Hf2].
      split; apply mem_false; assumption. }
    assert (Hkp : ~ In k (pass s2)) by (intro H; apply Hk2; apply (i_pass_inp _ _ I2); exact H).
    assert (Hkm : ~ In k (mout s2)).
    { intro H. destruct (i_mout _ _ I2 k H) as [m [Hm Hkm]]. destruct (Hnm m Hm) as [_ Hn]. contradiction. }
    split; [|split; [|split]].
    + constructor; sf.
      * apply NoDup_snoc; [apply (i_nd_inp _ _ I2) | exact Hk2].
      * apply NoDup_snoc; [apply (i_nd_pass _ _ I2) | exact Hkp].
      * apply (i_nd_mout _ _ I2).
      * intros x Hp Hm. apply in_app_or in Hp. destruct Hp as [Hp|[Hp|[]]]; [exact (i_disj _ _ I2 x Hp Hm) | subst; contradiction].
      * intros m Hm. destruct (i_act _ _ I2 m Hm) as [HL Hi]. split; [exact HL|].
        intros f Hf. apply in_or_app. left. apply Hi. exact Hf.
      * apply (i_mout _ _ I2).
      * intros x Hx. apply in_app_or in Hx. destruct Hx as [Hx|[Hx|[]]].
        -- apply in_or_app. left. apply (i_pass_inp _ _ I2). exact Hx.
        -- apply in_or_app. right. left. exact Hx.
      * intros m f Hm Hf Hp. apply in_app_or in Hp. destruct Hp as [Hp|[Hp|[]]].
        -- exact (i_from_pass _ _ I2 m f Hm Hf Hp).
        -- subst f. destruct (Hnm m Hm) as [Hn _]. contradiction.
      * intros m t Hm Ht Hp. apply in_app_or in Hp. destruct Hp as [Hp|[Hp|[]]].
        -- exact (i_to_pass _ _ I2 m t Hm Ht Hp).
        -- subst t. destruct (Hnm m Hm) as [_ Hn]. contradiction.
      * intros x Hx. apply in_app_or in Hx. destruct Hx as [Hx|[Hx|[]]]; [apply (i_silenced _ _ I2); exact Hx|].
        subst x. unfold silenced. apply andb_false_iff. left.
        destruct (existsb _ L) eqn:Eex; [|reflexivity]. exfalso.
        apply existsb_exists in Eex. destruct Eex as [m [HmL Hfrom]].
        assert (Hfk : m_from m = [k]).
        { destruct (m_from m) as [|a [|b t]]; cbn in Hfrom; try discriminate.
          - rewrite andb_true_r in Hfrom. apply N.eqb_eq in Hfrom. subst. reflexivity.
          - rewrite andb_false_r in Hfrom. discriminate. }
        pose proof (find_none _ _ Ef m) as Hn.
        assert (Hg : In m (rev (group_of L k))).
        { rewrite <- in_rev. apply group_of_In. split; [exact HmL|]. unfold has_final. rewrite Hfk. cbn. apply N.eqb_refl. }
        specialize (Hn Hg). unfold is_supported in Hn. rewrite Hfk in Hn. cbn in Hn.
        rewrite N.eqb_refl, orb_true_r in Hn. discriminate.
    + sf. rewrite <- Hh1. eapply tr_ok_app; [exact T2|].
      eapply tr_ok_seteq_r; [|apply tr_ok_press].
      * unfold held_of. intros x. rewrite !in_app_iff. cbn. tauto.
      * unfold held_of. rewrite in_app_iff. tauto.
    + sf. intros x Hx. apply in_app_or in Hx. destruct Hx as [Hx|[Hx|[]]]; [left; apply Hinp2; exact Hx | right; symmetry; exact Hx].
    + sf. split; [apply in_or_app; right; left; reflexivity|]. split.
      * intros Ha x Hx. apply in_or_app. left. apply (Hsup2 (Ha1 Ha)). exact Hx.
      * split; [intros _ Ha Ht; apply Hclean2; [apply Ha1; exact Ha | congruence]|].
        intros x Hx. left. apply Hab1. apply Habs2. exact Hx.
Qed.

(* ---------- step, release_all ---------- *)

Lemma step_inv L s e :
  wf_layout L -> Inv L s ->
  let r := step is_action L s e in
  Inv L (snd r) /\ tr_ok (held_of s) (fst (fst r)) (held_of (snd r))
  /\ (forall x, In x (inp (snd r)) -> In x (apply_ev (inp s) e))
  /\ (absd s = [] -> forall x, In x (apply_ev (inp s) e) -> In x (inp (snd r)))
  /\ ((forall m, In m L -> m_abs m = []) -> absd s = [] -> atrig s = None ->
      absd (snd r) = [] /\ atrig (snd r) = None)
  /\ (forall x, In x (absd (snd r)) -> In x (absd s) \/ exists m, In m L /\ In x (m_abs m)).
Proof.
  intros Hwf I. destruct e as [k|k]; cbn [step].
  - destruct (mem k (inp s)) eqn:Ek.
    + cbn [fst snd]. split; [exact I|]. split; [apply tr_ok_nil; apply seteq_refl|].
      split; [intros x Hx; apply In_apply_ev_press; left; exact Hx|].
      split; [|split; [intros _ Ha Ht; split; assumption | intros x Hx; left; exact Hx]].
      intros _ x Hx. apply In_apply_ev_press in Hx. destruct Hx as [Hx|Hx]; [exact Hx | subst; apply mem_In; exact Ek].
    + apply mem_false in Ek. pose proof (newly_press_inv L s k Hwf I Ek) as R. cbn zeta in R.
      destruct R as [I' [T [Hinp [Hk' [Hsup [Hclean Habs]]]]]]. split; [exact I'|]. split; [exact T|].
      split; [intros x Hx; apply In_apply_ev_press; apply Hinp; exact Hx|].
      split; [|split; [exact Hclean | exact Habs]].
      intros Ha x Hx. apply In_apply_ev_press in Hx. destruct Hx as [Hx|Hx]; [apply Hsup; assumption | subst; exact Hk'].
  - destruct (mem k (inp s)) eqn:Ek.
    + rewrite newly_release_core. cbn [fst snd].
      pose proof (release_core_inv L k s I) as R. cbn zeta in R.
      destruct R as [I' [T [Hinp [_ [[X1 [X2 _]] _]]]]]. split; [exact I'|]. split; [exact T|].
      split; [intros x Hx; rewrite Hinp in Hx; apply In_apply_ev_release; apply In_remove_all; exact Hx|].
      split; [|split; [intros _ Ha Ht; split; congruence | intros x Hx; left; rewrite <- X1; exact Hx]].
      intros _ x Hx. rewrite Hinp. apply In_remove_all. apply In_apply_ev_release. exact Hx.
    + cbn [fst snd]. split; [exact I|]. split; [apply tr_ok_nil; apply seteq_refl|].
      split; [|split; [|split; [intros _ Ha Ht; split; assumption | intros x Hx; left; exact Hx]]].
      * intros x Hx. apply In_apply_ev_release. split; [exact Hx|]. intro E. subst.
        apply mem_false in Ek. contradiction.
      * intros _ x Hx. apply In_apply_ev_release in Hx. tauto.
Qed.

Lemma step_released_only L s k :
  all_released (fst (fst (step is_action L s (Released k)))).
Proof.
  cbn [step]. destruct (mem k (inp s)); [|reflexivity].
  rewrite newly_release_core. cbn [fst snd].
  unfold release_core.
  assert (forall n s0, all_released (fst (release_loop n k s0))) as Hloop.
  { induction n as [|i IH]; intros s0; cbn [release_loop]; [reflexivity|].
    destruct (nth_error (act s0) i); [|apply IH].
    destruct (fails_when_released _ k); [|apply IH].
    destruct (remove_mapping s0 i k) as [e1 s1] eqn:E1. specialize (IH s1).
    destruct (release_loop i k s1) as [e2 s2]. cbn [fst] in *.
    apply all_released_app_intro; [|exact IH].
    unfold remove_mapping in E1. inversion E1. apply all_released_map. }
  specialize (Hloop (length (act s)) s).
  destruct (release_loop (length (act s)) k s) as [e1 s1]. cbn [fst] in Hloop.
  unfold release_pass. destruct (mem k (pass s1)); cbn [fst]; apply all_released_app_intro; try assumption; reflexivity.
Qed.

Lemma release_all_one_eq L evs s k :
  release_all_one is_action L (evs, s) k =
  (evs ++ fst (fst (step is_action L s (Released k))), snd (step is_action L s (Released k))).
Proof. unfold release_all_one. destruct (step is_action L s (Released k)) as [[e r] s']. reflexivity. Qed.

Lemma release_all_fold_inv L : forall ks evs s,
  wf_layout L -> Inv L s ->
  let r := fold_left (release_all_one is_action L) ks (evs, s) in
  Inv L (snd r)
  /\ (exists evs', fst r = evs ++ evs' /\ tr_ok (held_of s) evs' (held_of (snd r)) /\ all_released evs')
  /\ (forall x, In x (inp (snd r)) -> In x (inp s) /\ ~ In x ks).
Proof.
  induction ks as [|k t IH]; intros evs s Hwf I; cbn [fold_left].
  - cbn [fst snd]. split; [exact I|]. split.
    + exists []. rewrite app_nil_r. split; [reflexivity|]. split; [apply tr_ok_nil; apply seteq_refl | reflexivity].
    + intros x Hx. split; [exact Hx | intros []].
  - rewrite release_all_one_eq.
    pose proof (step_inv L s (Released k) Hwf I) as R. cbn zeta in R.
    pose proof (step_released_only L s k) as Hrel.
    destruct (step is_action L s (Released k)) as [[e1 rep] s1]. cbn [fst snd] in *.
    destruct R as [I1 [T1 Hinp1]].
    specialize (IH (evs ++ e1) s1 Hwf I1). cbn zeta in IH.
    destruct (fold_left (release_all_one is_action L) t (evs ++ e1, s1)) as [e2 s2]. cbn [fst snd] in *.
    destruct IH as [I2 [[evs' [He [T2 Hrel2]]] Hinp2]].
    split; [exact I2|]. split.
    + exists (e1 ++ evs'). split; [rewrite He, app_assoc; reflexivity|].
      split; [eapply tr_ok_app; eassumption | apply all_released_app_intro; assumption].
    + intros x Hx. apply Hinp2 in Hx. destruct Hx as [Hx1 Hx2].
      apply Hinp1 in Hx1. apply In_remove_all in Hx1. split; [tauto|].
      intros [E|H]; [subst; tauto | tauto].
Qed.

(* with nothing held on the input the mapper state is empty *)
Lemma Inv_inp_nil L s :
  wf_layout L -> Inv L s -> inp s = [] -> act s = [] /\ pass s = [] /\ mout s = [].
Proof.
  intros Hwf I Hi.
  assert (Ha : act s = []).
  { destruct (act s) as [|m t] eqn:E; [reflexivity|]. exfalso.
    destruct (i_act _ _ I m) as [HL Hincl]; [rewrite E; left; reflexivity|].
    destruct (Hwf m HL) as [Hne _]. destruct (m_from m) as [|f r]; [contradiction|].
    specialize (Hincl f (or_introl eq_refl)). rewrite Hi in Hincl. contradiction. }
  split; [exact Ha|]. split.
  - destruct (pass s) as [|x t] eqn:E; [reflexivity|]. exfalso.
    pose proof (i_pass_inp _ _ I x) as H. rewrite E, Hi in H. apply H. left. reflexivity.
  - destruct (mout s) as [|x t] eqn:E; [reflexivity|]. exfalso.
    destruct (i_mout _ _ I x) as [m [Hm _]]; [rewrite E; left; reflexivity|]. rewrite Ha in Hm. contradiction.
Qed.

Lemma release_all_inv L s :
  wf_layout L -> Inv L s ->
  let r := release_all is_action L s in
  Inv L (snd r) /\ tr_ok (held_of s) (fst r) [] /\ all_released (fst r)
  /\ inp (snd r) = [] /\ act (snd r) = [] /\ pass (snd r) = [] /\ mout (snd r) = [].
Proof.
  intros Hwf I. unfold release_all.
  pose proof (release_all_fold_inv L (inp s) [] s Hwf I) as R. cbn zeta in R.
  destruct (fold_left (release_all_one is_action L) (inp s) ([], s)) as [e s']. cbn [fst snd] in *.
  destruct R as [I' [[evs' [He [T Hrel]]] Hinp]]. cbn [app] in He. subst evs'.
  assert (Hi : inp s' = []).
  { destruct (inp s') as [|x t] eqn:E; [reflexivity|]. exfalso.
    destruct (Hinp x) as [H1 H2]; [left; reflexivity|]. contradiction. }
  destruct (Inv_inp_nil L s' Hwf I' Hi) as [Ha [Hp Hm]].
  split; [exact I'|]. split; [|split; [exact Hrel|]].
  - unfold held_of in T at 2. rewrite Hp, Hm in T. exact T.
  - repeat split; assumption.
Qed.

(* ---------- whole histories (key events and release-all calls) ---------- *)

Fixpoint mrun (L : layout) (s : state) (h : list input) : list (list event) * state :=
  match h with
  | [] => ([], s)
  | i :: h' =>
    let '(evs, _, s1) := mstep is_action L s i in
    let '(outs, s2) := mrun L s1 h' in
    (evs :: outs, s2)
  end.

Definition phys_all (p : list key) (h : list input) : list key := fold_left phys_after h p.

Lemma mstep_inv L s i :
  wf_layout L -> Inv L s ->
  let r := mstep is_action L s i in
  Inv L (snd r) /\ tr_ok (held_of s) (fst (fst r)) (held_of (snd r))
  /\ (forall p, incl (inp s) p -> incl (inp (snd r)) (phys_after p i)).
Proof.
  intros Hwf I. destruct i as [e|]; cbn [mstep].
  - pose proof (step_inv L s e Hwf I) as R. cbn zeta in R.
    destruct (step is_action L s e) as [[evs rep] s']. cbn [fst snd] in *.
    destruct R as [I' [T Hinp]]. split; [exact I'|]. split; [exact T|].
    intros p Hp x Hx. apply Hinp in Hx. cbn [phys_after]. destruct e as [k|k].
    + apply In_apply_ev_press in Hx. apply In_apply_ev_press. destruct Hx as [Hx|Hx]; [left; apply Hp; exact Hx | right; exact Hx].
    + apply In_apply_ev_release in Hx. apply In_apply_ev_release. split; [apply Hp; tauto | tauto].
  - pose proof (release_all_inv L s Hwf I) as R. cbn zeta in R.
    destruct (release_all is_action L s) as [evs s']. cbn [fst snd] in *.
    destruct R as [I' [T [_ [Hi [Ha [Hp Hm]]]]]]. split; [exact I'|]. split.
    + unfold held_of at 2. rewrite Hp, Hm. exact T.
    + intros p _. rewrite Hi. intros x [].
Qed.

Lemma mrun_inv L : forall h s p,
  wf_layout L -> Inv L s -> incl (inp s) p ->
  let r := mrun L s h in
  Inv L (snd r) /\ tr_ok (held_of s) (concat (fst r)) (held_of (snd r))
  /\ incl (inp (snd r)) (phys_all p h).
Proof.
  induction h as [|i h IH]; intros s p Hwf I Hp; cbn [mrun].
  - cbn [fst snd concat phys_all fold_left]. split; [exact I|]. split; [apply tr_ok_nil; apply seteq_refl | exact Hp].
  - pose proof (mstep_inv L s i Hwf I) as R. cbn zeta in R.
    destruct (mstep is_action L s i) as [[evs rep] s1]. cbn [fst snd] in R.
    destruct R as [I1 [T1 Hinp1]].
    specialize (IH s1 (phys_after p i) Hwf I1 (Hinp1 p Hp)). cbn zeta in IH.
    destruct (mrun L s1 h) as [outs s2]. cbn [fst snd] in *.
    destruct IH as [I2 [T2 Hinp2]].
    split; [exact I2|]. split; [cbn [concat]; eapply tr_ok_app; eassumption|].
    unfold phys_all in *. cbn [fold_left]. exact Hinp2.
Qed.

End WithModifiers.
