(* RustOps.v — outcomes and partial operations of the Rust code.  Definitions only.

   A total Gallina function cannot panic; the loader model therefore returns
   [res A] and performs every operation that can panic in Rust (indexing,
   slicing, Option::unwrap, usize subtraction, Vec::remove) through the
   functions below, which answer [Panic site] exactly where Rust panics.
   [Err] is "the function returned Err(message)"; the message is not modelled
   (it is not compared by the correspondence either). *)
From Coq Require Export String NArith ZArith Bool List.
Export ListNotations.

Inductive res (A : Type) : Type :=
| Ok (a : A)
| Err
| Panic (site : string).
Arguments Ok {A} a.
Arguments Err {A}.
Arguments Panic {A} site.

Definition bind {A B} (r : res A) (f : A -> res B) : res B :=
  match r with
  | Ok a => f a
  | Err => Err
  | Panic s => Panic s
  end.

Declare Scope res_scope.
Delimit Scope res_scope with res.
Notation "x <- e ;; f" := (bind e (fun x => f))
  (at level 61, e at next level, right associativity) : res_scope.
Notation "' p <- e ;; f" := (bind e (fun p => f))
  (at level 61, p pattern, e at next level, right associativity) : res_scope.
Open Scope res_scope.

Definition is_panic {A} (r : res A) : bool :=
  match r with Panic _ => true | _ => false end.

(* v[i] *)
Definition idx {A} (site : string) (l : list A) (i : nat) : res A :=
  match nth_error l i with Some a => Ok a | None => Panic site end.

(* &v[lo..hi] *)
Definition slice {A} (site : string) (l : list A) (lo hi : nat) : res (list A) :=
  if (lo <=? hi)%nat && (hi <=? length l)%nat then Ok (firstn (hi - lo) (skipn lo l))
  else Panic site.

(* a - b on usize (overflow checks are on in the harness profile; in a release
   build the wrapped value would be used as an index or bound and panic there) *)
Definition usub (site : string) (a b : nat) : res nat :=
  if (b <=? a)%nat then Ok (a - b)%nat else Panic site.

(* Option::unwrap *)
Definition unwrap {A} (site : string) (o : option A) : res A :=
  match o with Some a => Ok a | None => Panic site end.

(* v[i] = x *)
Fixpoint set_nth {A} (l : list A) (i : nat) (x : A) : list A :=
  match l, i with
  | [], _ => []
  | _ :: t, O => x :: t
  | y :: t, S j => y :: set_nth t j x
  end.

Definition set_idx {A} (site : string) (l : list A) (i : nat) (x : A) : res (list A) :=
  if (i <? length l)%nat then Ok (set_nth l i x) else Panic site.

(* `for x in l { s = f(s, x)? }` *)
Fixpoint fold_res {A S} (f : S -> A -> res S) (l : list A) (s : S) : res S :=
  match l with
  | [] => Ok s
  | x :: t => s' <- f s x ;; fold_res f t s'
  end.

(* `let mut v = vec![]; for x in l { v.push(f(x)?) }` *)
Fixpoint map_res {A B} (f : A -> res B) (l : list A) : res (list B) :=
  match l with
  | [] => Ok []
  | x :: t => y <- f x ;; ys <- map_res f t ;; Ok (y :: ys)
  end.

(* `for x in l { f(x)? }` *)
Fixpoint iter_res {A} (f : A -> res unit) (l : list A) : res unit :=
  match l with
  | [] => Ok tt
  | x :: t => _ <- f x ;; iter_res f t
  end.

(* `for x in l { if p(x)? { return true } } false` *)
Fixpoint exists_res {A} (p : A -> res bool) (l : list A) : res bool :=
  match l with
  | [] => Ok false
  | x :: t => b <- p x ;; if b then Ok true else exists_res p t
  end.

(* `as i32` of an i64: keep the low 32 bits, two's complement *)
Definition wrap_i32 (z : Z) : Z := ((z + 2147483648) mod 4294967296 - 2147483648)%Z.
Definition is_i32 (z : Z) : bool := ((-2147483648 <=? z) && (z <=? 2147483647))%Z.
