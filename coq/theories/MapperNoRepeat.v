(* MapperNoRepeat.v — C07 *)
From TM Require Import Base ListFacts Mapper Monitors Trace TraceLemmas MapperInv MapperProps MapperFire.

Section S.
Variable is_action : key -> bool.

Lemma norepeat_fire L h k m :
  wf_layout L ->
  mem k (inp (state_of is_action L h)) = false ->
  fired L (state_of is_action L h) k = Some m ->
  m_repeat m <> RNormal ->
  (forall x, In x (held_all is_action L (h ++ [IEv (Pressed k)])) -> is_action x = false)
  /\ (forall t, In t (m_to m) -> is_action t = true ->
        In (Pressed t) (fst (fst (step is_action L (state_of is_action L h) (Pressed k))))).
Proof.
  intros Hwf Hk Hf Hn. destruct (run_facts is_action L h Hwf) as [I _].
  pose proof (fire_facts is_action L _ k m Hwf I Hk Hf) as R. cbn zeta in R.
  destruct R as [H1 [_ [_ [H4 _]]]]. split; [|exact H1].
  intros x Hx. apply (held_all_seteq is_action L _ Hwf) in Hx.
  rewrite state_of_snoc in Hx. cbn [mstep] in Hx.
  destruct (step is_action L (state_of is_action L h) (Pressed k)) as [[evs rep] s']. cbn [fst snd] in *.
  apply (H4 Hn). exact Hx.
Qed.

End S.
