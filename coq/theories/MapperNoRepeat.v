(* MapperNoRepeat.v — C07 *)
From TM Require Import Base ListFacts Mapper Monitors Trace TraceLemmas MapperInv MapperProps MapperFire.

Section S.
Variable is_action : key -> bool.

Lemma norepeat_fire L h k m :
  wf_layout L ->
  mem k (inp (state_of is_action L h)) = false ->
  fired L (state_of is_action L h) k = Some m ->
  m_repeat m <> RNormal ->
  (forall x, In x (held_all is_action L (h ++ [IEv (Pressed k)])) -> is_action x = false)
  /\ (forall t, In t (m_to m) -> is_action t = true ->
        In (Pressed t) (fst (fst (step is_action L (state_of is_action L h) (Pressed k))))).
Proof.
  intros Hwf Hk Hf Hn. destruct (run_facts is_action L h Hwf) as [I _].
  pose proof (fire_facts is_action L _ k m Hwf I Hk Hf) as R. cbn zeta in R.
  destruct R as [H1 [_ [_ [H4 _]]]]. split; [|exact H1].
  intros x Hx. apply (held_all_seteq is_action L _ Hwf) in Hx.
  rewrite state_of_snoc in Hx. cbn [mstep] in Hx.
  destruct (step is_action L (state_of is_action L h) (Pressed k)) as [[evs rep] s']. cbn [fst snd] in *.
  apply (H4 Hn). exact Hx.
Qed.

(* "No later release event makes a key held again": events that are all
   releases can only shrink the set of keys held on the virtual keyboard *)
Lemma apply_evs_releases_incl evs : forall H,
  forallb (fun e => negb (is_pressed e)) evs = true ->
  forall x, In x (apply_evs H evs) -> In x H.
Proof.
  induction evs as [|e evs IH]; intros H Hall x Hx; [exact Hx|].
  cbn [forallb] in Hall. apply andb_true_iff in Hall. destruct Hall as [He Hall].
  unfold apply_evs in Hx. cbn [fold_left] in Hx. fold (apply_evs (apply_ev H e) evs) in Hx.
  pose proof (IH _ Hall x Hx) as H1.
  destruct e as [k|k]; [discriminate He|].
  cbn [apply_ev] in H1. apply In_remove_all in H1. exact (proj1 H1).
Qed.

(* from ANY history (any reachable state): after a release input or release-all
   the held set is a subset of the held set before *)
Lemma release_holds_nothing_new L h i :
  match i with
  | IEv (Pressed _) => True
  | _ => forall x, In x (held_all is_action L (h ++ [i])) -> In x (held_all is_action L h)
  end.
Proof.
  pose proof (release_never_presses is_action L (state_of is_action L h) i) as R.
  destruct i as [[k|k]|]; [exact I| |]; intros x Hx;
    unfold held_all in Hx; rewrite out_all_snoc, apply_evs_app in Hx;
    exact (apply_evs_releases_incl _ _ R x Hx).
Qed.

End S.
