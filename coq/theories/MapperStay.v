(* MapperStay.v — C05, last clause: while a mapping stays in effect, steps of
   other keys do not lift those of its output keys that no other mapping also
   outputs (layouts without absorbing). *)
From TM Require Import Base ListFacts Mapper Monitors Trace TraceLemmas MapperInv MapperProps MapperFire MapperNoAbs MapperProv.

Lemma unique_output L t m1 m2 :
  count_outputs L t = 1%nat -> In m1 L -> In m2 L -> In t (m_to m1) -> In t (m_to m2) -> m1 = m2.
Proof.
  unfold count_outputs. intros Hc H1 H2 T1 T2.
  assert (F1 : In m1 (filter (fun m => mem t (m_to m)) L)) by (apply filter_In; split; [exact H1 | apply mem_In; exact T1]).
  assert (F2 : In m2 (filter (fun m => mem t (m_to m)) L)) by (apply filter_In; split; [exact H2 | apply mem_In; exact T2]).
  destruct (filter (fun m => mem t (m_to m)) L) as [|x [|y r]]; cbn in Hc; try discriminate.
  destruct F1 as [F1|[]]. destruct F2 as [F2|[]]. congruence.
Qed.

Section S.
Variable is_action : key -> bool.

Lemma release_absorbed_keys_empty s : absd s = [] ->
  release_absorbed_keys s = ([], set_atrig (set_absd s []) None).
Proof. intros H. unfold release_absorbed_keys. rewrite H. reflexivity. Qed.

Lemma ram_keys_In s t :
  In t (ram_keys is_action s) ->
  exists m, In m (act s) /\ In t (m_to m) /\ is_action_mapping is_action m = true
            /\ is_any_modifier is_action (m_to m) = true.
Proof.
  unfold ram_keys. intros H. apply (proj1 (In_dedup _ _)) in H. apply in_flat_map in H. destruct H as [m [Hm Ht]].
  exists m. split; [exact Hm|]. unfold ram_one in Ht.
  destruct (is_action_mapping is_action m) eqn:A; [|destruct Ht].
  destruct (1 <? length (m_to m))%nat; [|destruct Ht].
  destruct (is_any_modifier is_action (m_to m)) eqn:B; [|destruct Ht].
  cbn [andb] in Ht. apply filter_In in Ht. destruct Ht as [Ht _]. apply in_rev in Ht. repeat split; assumption.
Qed.

(* where a release event of a press step can come from (no absorbed keys) *)
Lemma press_released_noabs L s k t :
  Inv L s -> absd s = [] -> mem k (inp s) = false ->
  In (Released t) (fst (fst (step is_action L s (Pressed k)))) ->
  In t (ram_keys is_action s)
  \/ exists m', fired L s k = Some m'
       /\ (In t (pass s) \/ In t (m_to m') \/ (is_action t = true /\ m_repeat m' <> RNormal)).
Proof.
  intros I Hab Hk He. cbn [step] in He. rewrite Hk in He.
  assert (Ipp : Inv L (pre_press s k)) by (apply Inv_pre_press; exact I).
  assert (Habp : absd (pre_press s k) = []) by (unfold pre_press; cbn [absd set_rtrig set_absd]; rewrite Hab; reflexivity).
  assert (Hram : ram_keys is_action (pre_press s k) = ram_keys is_action s) by reflexivity.
  destruct (fired L s k) as [m|] eqn:Ef.
  - rewrite (newly_press_fired_some is_action L s k m Hk Ef) in He. cbn [fst] in He.
    unfold add_new_mapping in He.
    unfold flush_for_action in He.
    pose proof (release_action_mappings_inv is_action L _ Ipp) as R. cbn zeta in R.
    destruct R as [I1 [_ [_ [_ [Hp1 [_ [[Ha1 _] _]]]]]]].
    assert (Hfl : forall e, In e (fst (if is_action_mapping is_action m
                   then let '(e1, s1) := release_action_mappings is_action (pre_press s k) in
                        if should_absorb s1 k then let '(e2, s2) := release_absorbed_keys s1 in (e1 ++ e2, s2) else (e1, s1)
                   else ([], pre_press s k))) ->
               exists x, e = Released x /\ In x (ram_keys is_action s)).
    { intros e. destruct (is_action_mapping is_action m); [|intros []].
      destruct (release_action_mappings is_action (pre_press s k)) as [e1 s1] eqn:Er. cbn [fst snd] in *.
      assert (He1 : e1 = map Released (ram_keys is_action s)).
      { unfold release_action_mappings in Er. inversion Er. rewrite Hram. reflexivity. }
      assert (X : forall e, In e e1 -> exists x, e = Released x /\ In x (ram_keys is_action s)).
      { intros e0 H0. rewrite He1 in H0. apply in_map_iff in H0. destruct H0 as [x [Ex Hx]]. exists x. split; [symmetry; exact Ex | exact Hx]. }
      destruct (should_absorb s1 k); [|exact (X e)].
      rewrite (release_absorbed_keys_empty s1) by (rewrite Ha1; exact Habp). cbn [fst]. rewrite app_nil_r. exact (X e). }
    set (fl := if is_action_mapping is_action m
               then let '(e1, s1) := release_action_mappings is_action (pre_press s k) in
                    if should_absorb s1 k then let '(e2, s2) := release_absorbed_keys s1 in (e1 ++ e2, s2) else (e1, s1)
               else ([], pre_press s k)) in *.
    assert (Hpf : forall x, In x (pass (snd fl)) -> In x (pass s)).
    { subst fl. destruct (is_action_mapping is_action m); [|intros x Hx; exact Hx].
      destruct (release_action_mappings is_action (pre_press s k)) as [e1 s1]. cbn [fst snd] in *.
      destruct (should_absorb s1 k).
      - rewrite (release_absorbed_keys_empty s1) by (rewrite Ha1; exact Habp). cbn [snd pass set_atrig set_absd].
        intros x Hx. apply Hp1 in Hx. exact Hx.
      - cbn [snd]. intros x Hx. apply Hp1 in Hx. exact Hx. }
    destruct fl as [e0 s0]. cbn [fst snd] in *.
    pose proof (press_out_fold_events is_action (m_to m) [] (snd (consume_pass s0 m))) as Hev2.
    assert (Hc : forall e, In e (fst (consume_pass s0 m)) -> exists x, e = Released x /\ In x (pass s0)).
    { intros e H. unfold consume_pass in H. cbn [fst] in H. apply in_map_iff in H. destruct H as [x [Ex Hx]].
      exists x. split; [symmetry; exact Ex|]. apply filter_In in Hx. tauto. }
    destruct (consume_pass s0 m) as [e1 s1]. cbn [fst snd] in *.
    destruct (fold_left (press_out is_action) (m_to m) ([], s1)) as [e2 s2]. cbn [fst] in *.
    assert (Hmain : In (Released t) (e0 ++ e1 ++ e2) ->
              In t (ram_keys is_action s) \/ In t (pass s) \/ In t (m_to m)).
    { intros H. apply in_app_or in H. destruct H as [H|H].
      - destruct (Hfl _ H) as [x [Ex Hx]]. inversion Ex. subst x. left. exact Hx.
      - apply in_app_or in H. destruct H as [H|H].
        + destruct (Hc _ H) as [x [Ex Hx]]. inversion Ex. subst x. right. left. apply Hpf. exact Hx.
        + destruct (Hev2 _ H) as [[]|Hx]. right. right. exact Hx. }
    assert (Hwrap : (In t (ram_keys is_action s) \/ In t (pass s) \/ In t (m_to m)) ->
              In t (ram_keys is_action s)
              \/ exists m', Some m = Some m' /\ (In t (pass s) \/ In t (m_to m') \/ (is_action t = true /\ m_repeat m' <> RNormal))).
    { intros [H|[H|H]]; [left; exact H | right; exists m; split; [reflexivity | left; exact H]
                        | right; exists m; split; [reflexivity | right; left; exact H]]. }
    destruct (m_repeat m) as [| |ks d iv] eqn:Er; cbn [fst] in He.
    + apply Hwrap, Hmain, He.
    + match type of He with context [release_all_action_keys is_action ?S] =>
        pose proof (raak_events is_action S (Released t)) as Hr; destruct (release_all_action_keys is_action S) as [e3 s6] end.
      cbn [fst] in *. apply in_app_or in He. destruct He as [He|He]; [apply Hwrap, Hmain, He|].
      destruct (Hr He) as [x [Ex Hx]]. inversion Ex. subst x.
      right. exists m. split; [reflexivity|]. right. right. split; [exact Hx | rewrite Er; discriminate].
    + match type of He with context [release_all_action_keys is_action ?S] =>
        pose proof (raak_events is_action S (Released t)) as Hr; destruct (release_all_action_keys is_action S) as [e3 s6] end.
      cbn [fst] in *. apply in_app_or in He. destruct He as [He|He]; [apply Hwrap, Hmain, He|].
      destruct (Hr He) as [x [Ex Hx]]. inversion Ex. subst x.
      right. exists m. split; [reflexivity|]. right. right. split; [exact Hx | rewrite Er; discriminate].
  - left. rewrite (fired_spec L s k Hk) in Ef. unfold newly_press in He. cbn zeta in He. fold (pre_press s k) in He.
    rewrite Ef in He.
    destruct (existsb (mentions k) (act (pre_press s k))); [destruct He|].
    destruct (mem k (pass (pre_press s k))); [destruct He|].
    destruct (is_action k).
    + pose proof (release_action_mappings_inv is_action L _ Ipp) as R. cbn zeta in R.
      destruct R as [_ [_ [_ [_ [_ [_ [[Ha1 _] _]]]]]]].
      destruct (release_action_mappings is_action (pre_press s k)) as [e1 s1] eqn:Er. cbn [fst snd] in *.
      assert (He1 : e1 = map Released (ram_keys is_action s)).
      { unfold release_action_mappings in Er. inversion Er. rewrite Hram. reflexivity. }
      rewrite (release_absorbed_keys_empty s1) in He by (rewrite Ha1; exact Habp). cbn [fst] in He.
      rewrite app_nil_r in He. apply in_app_or in He. destruct He as [He|[He|[]]]; [|discriminate].
      rewrite He1 in He. apply in_map_iff in He. destruct He as [x [Ex Hx]]. inversion Ex. subst x. exact Hx.
    + cbn [fst app] in He. destruct He as [He|[]]. discriminate.
Qed.

Definition fires_norepeat (L : layout) (s : state) (e : event) : bool :=
  match e with
  | Pressed k => match fired L s k with Some m => negb (is_normal m) | None => false end
  | Released _ => false
  end.

(* the protected outputs of a mapping in effect *)
Definition protected (L : layout) (s : state) (e : event) (m : mapping) (t : key) : bool :=
  Nat.eqb (count_outputs L t) 1
  && ((modifier_remapping is_action m && negb (is_action t))
      || (is_normal m && negb (is_any_modifier is_action (m_to m)) && negb (fires_norepeat L s e))).

Lemma outputs_stay L h e m t :
  wf_layout L -> noabs L ->
  let s := state_of is_action L h in
  let r := step is_action L s e in
  In m (act s) -> In m (act (snd r)) -> In t (m_to m) ->
  protected L s e m t = true ->
  ~ In (Released t) (fst (fst r)).
Proof.
  intros Hwf Hna. cbn zeta. intros Hm Hm' Ht Hpr He.
  destruct (run_facts is_action L h Hwf) as [I _].
  destruct (noabs_state is_action L h Hwf Hna) as [[Hab _] _].
  set (s := state_of is_action L h) in *.
  unfold protected in Hpr. apply andb_true_iff in Hpr. destruct Hpr as [Hc Hpr]. apply Nat.eqb_eq in Hc.
  assert (HmL : In m L) by (apply (i_act _ _ I); exact Hm).
  destruct e as [k|k].
  - destruct (mem k (inp s)) eqn:Hk; [cbn [step] in He; rewrite Hk in He; destruct He|].
    destruct (press_released_noabs L s k t I Hab Hk He) as [Hr|[m' [Ef [Hp|[Hto|[Hat Hnr]]]]]].
    + destruct (ram_keys_In s t Hr) as [m2 [Hm2 [Ht2 [Ham Hany]]]].
      assert (E : m2 = m) by (apply (unique_output L t); try assumption; apply (i_act _ _ I); exact Hm2).
      subst m2. apply orb_true_iff in Hpr. destruct Hpr as [Hpr|Hpr].
      * apply andb_true_iff in Hpr. destruct Hpr as [Hmr _]. unfold modifier_remapping in Hmr.
        unfold is_action_mapping in Ham. destruct (last_opt (m_to m)); [|discriminate].
        rewrite Ham in Hmr. discriminate.
      * apply andb_true_iff in Hpr. destruct Hpr as [Hpr _]. apply andb_true_iff in Hpr. destruct Hpr as [_ Hn].
        rewrite Hany in Hn. discriminate.
    + exact (i_to_pass _ _ I m t Hm Ht Hp).
    + destruct (fired_some_facts is_action L s k m' Hk Ef) as [Hm'L [Hfin _]].
      assert (E : m' = m) by (apply (unique_output L t); assumption). subst m'.
      unfold has_final in Hfin. destruct (last_opt (m_from m)) as [f|] eqn:El; [|discriminate].
      apply N.eqb_eq in Hfin. subst f. apply last_opt_In in El.
      apply (proj2 (i_act _ _ I m Hm)) in El. apply mem_In in El. congruence.
    + apply orb_true_iff in Hpr. destruct Hpr as [Hpr|Hpr].
      * apply andb_true_iff in Hpr. destruct Hpr as [_ Hna']. rewrite Hat in Hna'. discriminate.
      * apply andb_true_iff in Hpr. destruct Hpr as [_ Hf]. unfold fires_norepeat in Hf. rewrite Ef in Hf.
        apply negb_true_iff, negb_false_iff in Hf. unfold is_normal in Hf. destruct (m_repeat m'); [contradiction Hnr; reflexivity | discriminate | discriminate].
  - destruct (release_scope is_action L h k t Hwf He) as [_ Hu].
    assert (Hu' : still_used (act (snd (step is_action L s (Released k)))) t = true).
    { apply still_used_out_of. exists m. split; assumption. }
    fold s in Hu. congruence.
Qed.

End S.
